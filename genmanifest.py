#!/usr/bin/env python3
"""Regenerates MANIFEST.json from checkprops.py (development helper; MANIFEST.json is committed)."""
import json, sys, os
sys.path.insert(0, os.path.dirname(os.path.abspath(__file__)))
from checkprops import PROPS, NOT_APPLICABLE
BASE = json.load(open("/root/.vp/BASELINE.json"))["cmd"] if os.path.exists("/root/.vp/BASELINE.json") else ""
checks = []
for pid in sorted(PROPS):
    c = PROPS[pid]
    checks.append({
        "property_id": pid,
        "quick_cmd": "./check %s --tier quick" % pid,
        "thorough_cmd": "./check %s --tier thorough" % pid,
        "evidence_file": "/verif/evidence/%s.json" % pid,
        "replay_cmd_template": "./check %s --replay {path}" % pid,
        "engine": "lean-proof+correspondence",
        "level_claimed": {"category": "proof", "text": c["level_text"], "design_ref": c.get("design_ref", "DESIGN.md section 5 " + pid)},
        "level_note": c["level_note"],
        "technique": c.get("technique", "Lean 4 theorems about a hand-written executable model + differential correspondence check (Go harness vs compiled Lean driver)"),
    })
m = {
    "version": 1,
    "setup_cmd": "cd /verif && ./check --warm",
    "hooks": {
        "guard": "verif",
        "enable": "cd /repo && go build -tags verif -overlay <generated overlay.json mapping /repo/internal/verifharness/*.go and add-only accessor files to /verif/harness/**> ./internal/verifharness  (done by ./check on every run; no file of /repo is modified)",
        "baseline_off_cmd": BASE,
        "source_commits": [],
        "add_only": True,
    },
    "engines": [{"name": "lean-proof+correspondence", "path": "/verif/check", "serves_properties": sorted(PROPS),
                 "kind_free_text": "Lean 4 proofs (lean/Crem/Properties) about executable models (lean/Crem/Model), tied to /repo by a differential correspondence check: Go harness (harness/, injected with go -overlay, tag verif) vs compiled Lean driver (lean/Main.lean) over a line protocol"}],
    "checks": checks,
    "notes": "See DESIGN.md. known-findings.json lists genuine defects recorded rather than repaired.",
    "not_applicable": [{"property_id": k, "reason": v} for k, v in sorted(NOT_APPLICABLE.items())],
}
json.dump(m, open(os.path.join(os.path.dirname(os.path.abspath(__file__)), "MANIFEST.json"), "w"), indent=1)
print("wrote MANIFEST.json with", len(checks), "checks;", len(m["not_applicable"]), "not_applicable")
