#!/usr/bin/env python3
"""Write a go -overlay JSON that injects /verif/harness into /repo's module.

cmd/*.go       -> /repo/internal/verifharness/*.go   (package main)
access/<pkg path with __ for />/*.go -> /repo/<pkg path>/<file>  (add-only accessor files)

Refuses to produce an overlay entry whose target already exists on disk
(the overlay must only add files, never replace crem's own)."""
import json, os, sys
def main():
    verif, repo, out = sys.argv[1], sys.argv[2], sys.argv[3]
    rep = {}
    cmd = os.path.join(verif, "harness", "cmd")
    for f in sorted(os.listdir(cmd)):
        if f.endswith(".go"):
            rep[os.path.join(repo, "internal", "verifharness", f)] = os.path.join(cmd, f)
    acc = os.path.join(verif, "harness", "access")
    if os.path.isdir(acc):
        for d in sorted(os.listdir(acc)):
            pkg = d.replace("__", "/")
            for f in sorted(os.listdir(os.path.join(acc, d))):
                if f.endswith(".go"):
                    rep[os.path.join(repo, pkg, f)] = os.path.join(acc, d, f)
    bad = [t for t in rep if os.path.exists(t)]
    if bad:
        print("overlay target exists in /repo (would replace a crem file):", bad, file=sys.stderr)
        sys.exit(3)
    json.dump({"Replace": rep}, open(out, "w"), indent=1)
main()
