//go:build verif

package catchment

import "github.com/LindsayBradford/crem/internal/pkg/model/action"

// VerifGatherActions re-runs the gathering step of buildAndObserveManagementActions on an
// initialised model and returns the freshly built actions in the order the Go maps happened
// to yield them (before ModelManagementActions.Sort).  The returned objects are new and are
// not subscribed to anything; the model itself is not changed.  Property C09 (portability).
func (m *CoreModel) VerifGatherActions() []action.ManagementAction {
	return m.buildModelActions()
}
