//go:build verif

package catchment

import (
	"github.com/LindsayBradford/crem/internal/pkg/model/action"
	"github.com/LindsayBradford/crem/internal/pkg/rand"
)

// VerifSetActionRand installs the random number generator that picks management actions
// (add-only verification accessor; the production code re-seeds it from the clock).
func (m *CoreModel) VerifSetActionRand(r *rand.Rand) {
	m.managementActions.SetRandomNumberGenerator(r)
}

// VerifLastApplied exposes the last applied action (read-only).
func (m *CoreModel) VerifLastApplied() action.ManagementAction {
	return m.managementActions.LastAppliedAction()
}
