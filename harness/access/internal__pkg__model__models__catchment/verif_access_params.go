//go:build verif

package catchment

import verifBaseParameters "github.com/LindsayBradford/crem/internal/pkg/parameters"

// VerifParameters exposes the component's own parameter set to the C18 correspondence
// suite (read-only use; add-only, behind the `verif` tag).
func (x *CoreModel) VerifParameters() *verifBaseParameters.Parameters { return &x.parameters.Parameters }
