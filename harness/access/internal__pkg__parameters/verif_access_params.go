//go:build verif

package parameters

import "github.com/LindsayBradford/crem/internal/pkg/parameters/specification"

// Read-only accessors for the C18 correspondence suite (add-only, behind the `verif` tag).

// VerifParamMap returns the live parameter map (callers must not modify it).
func (p *Parameters) VerifParamMap() Map { return p.paramMap }

// VerifSpecifications returns the specification table in force.
func (p *Parameters) VerifSpecifications() specification.Specifications { return p.specifications }

// VerifValidationErrors returns the accumulated validation errors, in the order they were added.
func (p *Parameters) VerifValidationErrors() []error { return p.validationErrors.VerifIndividualErrors() }
