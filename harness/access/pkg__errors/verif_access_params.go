//go:build verif

package errors

// VerifIndividualErrors returns a copy of the directly contained sub-errors (read-only accessor
// for the C18 correspondence suite).
func (ce *CompositeError) VerifIndividualErrors() []error {
	return append([]error(nil), ce.individualErrors...)
}
