//go:build verif

package actions

import (
	"github.com/LindsayBradford/crem/internal/pkg/dataset/tables"
	"github.com/LindsayBradford/crem/internal/pkg/model/models/catchment/parameters"
)

// VerifBankPartials returns, per row of the sub-catchments table, the value of
// partialBankSedimentContribution(row) (the one quantity of the data derivation that involves
// math.Exp / math.Pow and is therefore an input of the Lean model of the derivation).
// Add-only, read-only verification accessor behind the `verif` tag.
func VerifBankPartials(planningUnitTable tables.CsvTable, params parameters.Parameters) []float64 {
	var bsc BankSedimentContribution
	bsc.Initialise(planningUnitTable, params)
	_, rowCount := planningUnitTable.ColumnAndRowSize()
	out := make([]float64, rowCount)
	for row := uint(0); row < rowCount; row++ {
		out[row] = bsc.partialBankSedimentContribution(row)
	}
	return out
}
