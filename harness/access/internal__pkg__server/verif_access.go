//go:build verif

package server

import "github.com/LindsayBradford/crem/internal/pkg/server/admin"

// VerifAdminMux returns the admin multiplexer this server owns: the one RestServer.Start serves on the admin port and
// whose StatusHandler RestServer.WithApiMux registers with the API multiplexer (accessor for the verification
// harness; add-only, changes nothing).
func (s *RestServer) VerifAdminMux() *admin.Mux { return s.adminMux }
