//go:build verif

package particulatenitrogen

import (
	"github.com/LindsayBradford/crem/internal/pkg/model/planningunit"
	"github.com/LindsayBradford/crem/pkg/attributes"
)

// VerifSubCatchmentAttributes exposes the per-sub-catchment attribute records (read-only accessor).
func (np *ParticulateNitrogenProduction) VerifSubCatchmentAttributes() map[planningunit.Id]attributes.Attributes {
	return np.subCatchmentAttributes
}
