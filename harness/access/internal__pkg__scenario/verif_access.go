//go:build verif

package scenario

// Read-only accessors for the verification harness (property C12): they only CALL crem's own
// unexported naming functions so that the harness never re-implements them.  Add-only; compiled
// only with the `verif` build tag through `go build -overlay`.

import (
	"github.com/LindsayBradford/crem/internal/pkg/annealing/solution"
	solutionset "github.com/LindsayBradford/crem/internal/pkg/annealing/solution/set"
	"github.com/LindsayBradford/crem/internal/pkg/model/archive"
)

// VerifCloneId is Runner.generateCloneId: the id given to run `runNumber`.
func VerifCloneId(runner *Runner, runNumber uint64) string { return runner.generateCloneId(runNumber) }

// VerifAsIsSolutionId is Saver.deriveAsIsSolutionId (solution sets).
func VerifAsIsSolutionId(s *Saver, a *archive.NonDominanceModelArchive) string {
	return s.deriveAsIsSolutionId(*a)
}

// VerifSolutionId is Saver.deriveSolutionId (solution sets), k counted from 1.
func VerifSolutionId(s *Saver, a *archive.NonDominanceModelArchive, k int) string {
	return s.deriveSolutionId(*a, k)
}

// VerifAsIsOptimisedSolutionId is Saver.deriveAsIsOptimisedSolutionId (single optimised solution).
func VerifAsIsOptimisedSolutionId(s *Saver, id string) string {
	return s.deriveAsIsOptimisedSolutionId(id)
}

// VerifSummaryLabel is deriveSummaryIdFromSolution.
func VerifSummaryLabel(sol *solution.Solution) string { return deriveSummaryIdFromSolution(sol) }

// VerifSummarise is Saver.summarise.
func VerifSummarise(s *Saver, summary *solutionset.Summary, sol *solution.Solution, note string, sortOrder uint64) {
	s.summarise(summary, sol, note, sortOrder)
}
