//go:build verif

package scenario

// Verification accessors for property C08 (add-only; compiled only with the `verif` build tag through
// `go build -overlay`).

// VerifRunSingle executes ONE run of the scenario exactly as runScenario's goroutine does (Runner.run:
// DeepClone of the configured annealer, run id, observer wiring, Anneal()), without the other runs, so
// that the result of a run inside a concurrent scenario can be compared with the result of the same run
// executed alone.  It returns false when the scenario is not driven by a plain *Runner.
func VerifRunSingle(s Scenario, runNumber uint64) bool {
	var callable CallableRunner
	switch typed := s.(type) {
	case *BaseScenario:
		callable = typed.runner
	case CallableRunner:
		callable = typed
	}
	runner, isRunner := callable.(*Runner)
	if !isRunner {
		return false
	}
	runner.run(runNumber)
	return true
}
