//go:build verif

package suppapitnarm

import (
	"reflect"

	"github.com/LindsayBradford/crem/internal/pkg/annealing/cooling"
	"github.com/LindsayBradford/crem/internal/pkg/model"
	"github.com/LindsayBradford/crem/internal/pkg/model/archive"
)

// read-only verification accessors (add-only; build tag verif)

func (ke *Explorer) VerifArchive() *archive.NonDominanceModelArchive { return &ke.modelArchive }
func (ke *Explorer) VerifPotentialModel() model.Model                { return ke.potentialModel }
func (ke *Explorer) VerifCoolant() cooling.TemperatureCoolant        { return ke.coolant }
func (ke *Explorer) VerifCountdown() uint64                          { return ke.iterationsUntilReturnToBase }
func (ke *Explorer) VerifReturnToBaseStep() float64                  { return verifNumber(ke.returnToBaseStep) }
func (ke *Explorer) VerifLastReturnedToBase() uint64                 { return ke.lastReturnedToBase }
func (ke *Explorer) VerifCurrentIteration() uint64                   { return ke.currentIteration }
func (ke *Explorer) VerifArchiveResult() archive.StorageResult       { return ke.archiveStorageResult }
func (ke *Explorer) VerifChangeAccepted() bool                       { return ke.changeAccepted }
func (ke *Explorer) VerifChangeIsDesirable() bool                    { return ke.changeIsDesirable }

// verifNumber reads a numeric field whatever its numeric type is (a change of the field's type is then judged by
// what the explorer does, not by whether this accessor still compiles)
func verifNumber(v interface{}) float64 {
	rv := reflect.ValueOf(v)
	switch rv.Kind() {
	case reflect.Float32, reflect.Float64:
		return rv.Float()
	case reflect.Int, reflect.Int8, reflect.Int16, reflect.Int32, reflect.Int64:
		return float64(rv.Int())
	case reflect.Uint, reflect.Uint8, reflect.Uint16, reflect.Uint32, reflect.Uint64:
		return float64(rv.Uint())
	}
	panic("verif accessor: field is not numeric")
}
