//go:build verif

package suppapitnarm

import (
	"github.com/LindsayBradford/crem/internal/pkg/annealing/cooling"
	"github.com/LindsayBradford/crem/internal/pkg/model"
	"github.com/LindsayBradford/crem/internal/pkg/model/archive"
)

// read-only verification accessors (add-only; build tag verif)

func (ke *Explorer) VerifArchive() *archive.NonDominanceModelArchive { return &ke.modelArchive }
func (ke *Explorer) VerifPotentialModel() model.Model                { return ke.potentialModel }
func (ke *Explorer) VerifCoolant() cooling.TemperatureCoolant        { return ke.coolant }
func (ke *Explorer) VerifCountdown() uint64                          { return ke.iterationsUntilReturnToBase }
func (ke *Explorer) VerifReturnToBaseStep() float64                  { return ke.returnToBaseStep }
func (ke *Explorer) VerifLastReturnedToBase() uint64                 { return ke.lastReturnedToBase }
func (ke *Explorer) VerifCurrentIteration() uint64                   { return ke.currentIteration }
func (ke *Explorer) VerifArchiveResult() archive.StorageResult       { return ke.archiveStorageResult }
func (ke *Explorer) VerifChangeAccepted() bool                       { return ke.changeAccepted }
func (ke *Explorer) VerifChangeIsDesirable() bool                    { return ke.changeIsDesirable }
