//go:build verif

package interpreter

import "github.com/LindsayBradford/crem/internal/pkg/annealing"

// read-only verification accessor (add-only; build tag verif): the annealer the interpreter
// handed to the scenario, so that the multi-run suite (C08) can attach a recording observer
// to the scenario built by crem's own configuration path.
func (i *ConfigInterpreter) VerifAnnealer() annealing.Annealer { return i.annealer }
