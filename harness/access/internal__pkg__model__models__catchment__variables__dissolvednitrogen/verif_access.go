//go:build verif

package dissolvednitrogen

import (
	"github.com/LindsayBradford/crem/internal/pkg/model/planningunit"
	"github.com/LindsayBradford/crem/pkg/attributes"
)

// VerifSubCatchmentAttributes exposes the per-sub-catchment attribute records (read-only accessor).
func (dn *DissolvedNitrogenProduction) VerifSubCatchmentAttributes() map[planningunit.Id]attributes.Attributes {
	return dn.subCatchmentAttributes
}
