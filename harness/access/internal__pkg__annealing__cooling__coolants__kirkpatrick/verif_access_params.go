//go:build verif

package kirkpatrick

import verifBaseParameters "github.com/LindsayBradford/crem/internal/pkg/parameters"

// VerifCoolantParameters exposes the component's own parameter set to the C18 correspondence
// suite (read-only use; add-only, behind the `verif` tag).
func (x *Coolant) VerifCoolantParameters() *verifBaseParameters.Parameters { return &x.parameters.Parameters }
