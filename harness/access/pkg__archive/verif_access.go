//go:build verif

package archive

// Read-only accessors for the correspondence harness of /verif (property C09).
// Injected with `go build -tags verif -overlay`; never part of a normal build.

// VerifWords returns a copy of the raw uint64 words of the archive.
func (a *BooleanArchive) VerifWords() []uint64 {
	return append([]uint64(nil), a.archiveArray...)
}

// VerifCachedEncoding returns the memoised encoding text ("" = nothing cached).
func (a *BooleanArchive) VerifCachedEncoding() string {
	return a.encoding
}
