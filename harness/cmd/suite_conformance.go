//go:build verif

package main

import (
	"fmt"
	"go/ast"
	"go/parser"
	"go/token"
	"os"
	"path/filepath"
	"sort"
	"strings"
)

func init() { register("conformance-facts", suiteConformanceFacts) }

// The catchment theorems (C01, C02, C10, C11, C03) quantify over CONFORMANT histories: every proposal
// (TryRandomChange / ToggleAction) is accepted or reverted before the next mutating operation.  This suite
// regenerates that fact from /repo's current source on every run (go/ast): outside the model implementations,
// the raw proposal operations have exactly the reviewed call sites, and the single-objective explorer — the only
// caller of Model().TryRandomChange() — follows every proposal by exactly one AcceptChange or RevertChange on
// every path.
var rawModelOps = map[string]bool{
	"TryRandomChange": true, "ToggleAction": true, "ToggleActionUnobserved": true, "DoRandomChange": true,
	"UndoChange": true, "SetManagementActionUnobserved": true, "AcceptChange": true, "RevertChange": true,
}

// Whole-set operations of a model (they rebuild or overwrite the action set).  Called while a proposal is pending they
// break conformance just as a second proposal would (the pending commands are overwritten, a later RevertChange flips
// the wrong flag).  Fact regenerated here: in the single-objective explorer's package they are called on the model from
// the reviewed sites only (Explorer.Initialise), and none of them is reachable from Explorer.TryRandomChange -- the
// window between the proposal and its accept/revert.
var wholeSetModelOps = map[string]bool{
	"SetManagementAction": true, "SynchroniseTo": true, "Randomize": true, "Initialise": true,
	"InitialiseActions": true, "RandomlyInitialiseActions": true, "SetManagementActionUnobserved": true,
}

// reviewed whole-set call sites in package kirkpatrick: "<file>|<enclosing function>|<callee>|<receiver text>"
var reviewedWholeSetCalls = map[string]string{
	"Explorer.go|Initialise|Initialise|ke.Model()": "Explorer.Initialise: before any proposal of the run",
	"Explorer.go|Initialise|Randomize|ke.Model()":  "Explorer.Initialise: before any proposal of the run",
}

// reviewed call sites: "<relative file>|<enclosing function>|<callee>|<receiver text>"
var reviewedRawCalls = map[string]string{
	"internal/pkg/annealing/annealers/SimpleAnnealer.go|Anneal|TryRandomChange|sa.SolutionExplorer()":    "explorer-level call (Explorer.TryRandomChange), not a model operation",
	"internal/pkg/annealing/explorer/kirkpatrick/Explorer.go|TryRandomChange|TryRandomChange|ke.Model()": "the one proposal site; followed by defaultAcceptOrRevertChange",
	"internal/pkg/annealing/explorer/kirkpatrick/Explorer.go|AcceptLastChange|AcceptChange|ke.Model()":   "accept of the pending proposal",
	"internal/pkg/annealing/explorer/kirkpatrick/Explorer.go|RevertLastChange|RevertChange|ke.Model()":   "revert of the pending proposal",
}

func confExprText(fset *token.FileSet, src []byte, e ast.Expr) string {
	return strings.Join(strings.Fields(string(src[fset.Position(e.Pos()).Offset:fset.Position(e.End()).Offset])), "")
}

func suiteConformanceFacts(c *Ctx) {
	repo := os.Getenv("VERIF_REPO")
	if repo == "" {
		repo = "/repo"
	}
	fset := token.NewFileSet()
	found := map[string]bool{}
	var kirkFile *ast.File
	var kirkSrc []byte
	_ = filepath.Walk(repo, func(path string, info os.FileInfo, err error) error {
		if err != nil {
			return nil
		}
		rel, _ := filepath.Rel(repo, path)
		if info.IsDir() {
			if strings.HasPrefix(rel, ".git") || rel == "internal/pkg/model/models" || rel == "internal/verifharness" {
				return filepath.SkipDir
			}
			return nil
		}
		if !strings.HasSuffix(path, ".go") || strings.HasSuffix(path, "_test.go") || strings.Contains(filepath.Base(path), "verif_access") {
			return nil
		}
		src, err := os.ReadFile(path)
		if err != nil {
			return nil
		}
		f, err := parser.ParseFile(fset, path, src, 0)
		if err != nil {
			c.Fail("source-parses", "conformance:source-does-not-parse", rel+": "+err.Error(), nil)
			return nil
		}
		if rel == "internal/pkg/annealing/explorer/kirkpatrick/Explorer.go" {
			kirkFile, kirkSrc = f, src
		}
		for _, d := range f.Decls {
			fd, ok := d.(*ast.FuncDecl)
			if !ok || fd.Body == nil {
				continue
			}
			ast.Inspect(fd.Body, func(n ast.Node) bool {
				call, ok := n.(*ast.CallExpr)
				if !ok {
					return true
				}
				sel, ok := call.Fun.(*ast.SelectorExpr)
				if !ok || !rawModelOps[sel.Sel.Name] {
					return true
				}
				// method definitions that merely forward to an embedded/contained value of the same name inside
				// wrapper types are calls too; they are reviewed like any other
				key := fmt.Sprintf("%s|%s|%s|%s", rel, fd.Name.Name, sel.Sel.Name, confExprText(fset, src, sel.X))
				found[key] = true
				return true
			})
		}
		return nil
	})
	keys := make([]string, 0, len(found))
	for k := range found {
		keys = append(keys, k)
	}
	sort.Strings(keys)
	for _, k := range keys {
		why, ok := reviewedRawCalls[k]
		c.Op("rawcall "+strings.ReplaceAll(k, " ", "_"), b2s(ok))
		c.Stat("raw model operation call site")
		c.Nontrivial(k)
		if !ok {
			c.Fail("structural:histories-are-conformant", "conformance:unreviewed-raw-model-call",
				"a raw proposal/accept/revert operation of the model is called from a site that is not on the reviewed list: "+k+
					" — the catchment theorems assume every proposal is accepted or reverted before the next mutating operation; review the new caller and add it to reviewedRawCalls in harness/cmd/suite_conformance.go", []string{"rawcall " + k})
		}
		_ = why
	}
	for k := range reviewedRawCalls {
		if !found[k] {
			c.Op("rawcall-missing "+strings.ReplaceAll(k, " ", "_"), "0")
			c.Fail("structural:histories-are-conformant", "conformance:reviewed-call-site-gone",
				"a reviewed call site no longer exists (the explorer's proposal protocol changed; re-review): "+k, []string{"rawcall-missing " + k})
		}
	}
	// the single-objective explorer's protocol: TryRandomChange = propose; then exactly one accept or revert on every path
	if kirkFile == nil {
		c.Fail("structural:histories-are-conformant", "conformance:kirkpatrick-explorer-not-found", "kirkpatrick/Explorer.go not found", nil)
		return
	}
	funcs := map[string]*ast.FuncDecl{}
	for _, d := range kirkFile.Decls {
		if fd, ok := d.(*ast.FuncDecl); ok && fd.Body != nil {
			funcs[fd.Name.Name] = fd
		}
	}
	callNames := func(fd *ast.FuncDecl) []string {
		var out []string
		for _, st := range fd.Body.List {
			if es, ok := st.(*ast.ExprStmt); ok {
				if call, ok := es.X.(*ast.CallExpr); ok {
					out = append(out, confExprText(fset, kirkSrc, call.Fun))
				}
			}
		}
		return out
	}
	check := func(name string, ok bool, detail string) {
		c.Op("protocol "+name, b2s(ok))
		c.Nontrivial("protocol " + name)
		if !ok {
			c.Fail("structural:histories-are-conformant", "conformance:kirkpatrick-protocol-changed:"+name, detail, []string{"protocol " + name})
		}
	}
	if fd := funcs["TryRandomChange"]; fd != nil {
		cs := callNames(fd)
		seq := strings.Join(cs, ",")
		check("try-then-decide", strings.HasSuffix(seq, "ke.Model().TryRandomChange,ke.defaultAcceptOrRevertChange"), "Explorer.TryRandomChange statements: "+seq)
	} else {
		check("try-then-decide", false, "Explorer.TryRandomChange not found")
	}
	if fd := funcs["defaultAcceptOrRevertChange"]; fd != nil {
		seq := strings.Join(callNames(fd), ",")
		check("default-decider", seq == "ke.AcceptOrRevertChange", "defaultAcceptOrRevertChange statements: "+seq)
	} else {
		check("default-decider", false, "defaultAcceptOrRevertChange not found")
	}
	// every path of AcceptOrRevertChange ends in exactly one call of acceptChange() or revertChange()
	var endsInDecision func(stmts []ast.Stmt) bool
	isDecision := func(st ast.Stmt) bool {
		es, ok := st.(*ast.ExprStmt)
		if !ok {
			return false
		}
		call, ok := es.X.(*ast.CallExpr)
		if !ok {
			return false
		}
		id, ok := call.Fun.(*ast.Ident)
		return ok && (id.Name == "acceptChange" || id.Name == "revertChange")
	}
	countDecisions := func(stmts []ast.Stmt) int {
		n := 0
		for _, st := range stmts {
			if isDecision(st) {
				n++
			}
		}
		return n
	}
	endsInDecision = func(stmts []ast.Stmt) bool {
		// strip a trailing return
		for len(stmts) > 0 {
			if _, ok := stmts[len(stmts)-1].(*ast.ReturnStmt); ok {
				stmts = stmts[:len(stmts)-1]
			} else {
				break
			}
		}
		if len(stmts) == 0 {
			return false
		}
		last := stmts[len(stmts)-1]
		if isDecision(last) {
			return countDecisions(stmts) == 1
		}
		if ifs, ok := last.(*ast.IfStmt); ok && countDecisions(stmts) == 0 {
			if !endsInDecision(ifs.Body.List) {
				return false
			}
			switch e := ifs.Else.(type) {
			case *ast.BlockStmt:
				return endsInDecision(e.List)
			case *ast.IfStmt:
				return endsInDecision([]ast.Stmt{e})
			}
			return false
		}
		return false
	}
	if fd := funcs["AcceptOrRevertChange"]; fd != nil {
		// shape: [assignments…] if invalid { …; revertChange(); return } ; if desirable {… acceptChange()} else { if … {acceptChange()} else {revertChange()} }
		body := fd.Body.List
		ok := false
		for i, st := range body {
			if ifs, isIf := st.(*ast.IfStmt); isIf && ifs.Else == nil {
				// early-return branch must end in a decision + return; the remainder must end in a decision on every path
				_, returns := ifs.Body.List[len(ifs.Body.List)-1].(*ast.ReturnStmt)
				ok = returns && endsInDecision(ifs.Body.List) && endsInDecision(body[i+1:])
				break
			}
		}
		check("decide-exactly-once", ok, "AcceptOrRevertChange no longer has the shape 'invalid -> revert, return; else exactly one of accept/revert on every path'")
	} else {
		check("decide-exactly-once", false, "AcceptOrRevertChange not found")
	}
	// ---- whole-set operations: reviewed sites only, and none inside the proposal window
	kirkDir := filepath.Join(repo, "internal/pkg/annealing/explorer/kirkpatrick")
	entries, _ := os.ReadDir(kirkDir)
	wholeFound := map[string]bool{}
	calls := map[string][]string{}     // function -> methods of the explorer it calls (ke.<name>(...) and method values ke.<name>)
	wholeIn := map[string][]string{}   // function -> whole-set operations it calls on something that is a model
	for _, e := range entries {
		name := e.Name()
		if e.IsDir() || !strings.HasSuffix(name, ".go") || strings.HasSuffix(name, "_test.go") || strings.Contains(name, "verif_access") {
			continue
		}
		src, err := os.ReadFile(filepath.Join(kirkDir, name))
		if err != nil {
			continue
		}
		f, err := parser.ParseFile(fset, filepath.Join(kirkDir, name), src, 0)
		if err != nil {
			continue // reported above
		}
		for _, d := range f.Decls {
			fd, ok := d.(*ast.FuncDecl)
			if !ok || fd.Body == nil {
				continue
			}
			recv := ""
			if fd.Recv != nil && len(fd.Recv.List) == 1 && len(fd.Recv.List[0].Names) == 1 {
				recv = fd.Recv.List[0].Names[0].Name
			}
			ast.Inspect(fd.Body, func(n ast.Node) bool {
				sel, ok := n.(*ast.SelectorExpr)
				if !ok {
					return true
				}
				if id, isId := sel.X.(*ast.Ident); isId && recv != "" && id.Name == recv {
					calls[fd.Name.Name] = append(calls[fd.Name.Name], sel.Sel.Name) // call or method value: both count
				}
				if wholeSetModelOps[sel.Sel.Name] {
					rt := confExprText(fset, src, sel.X)
					if strings.Contains(strings.ToLower(rt), "model") {
						wholeFound[fmt.Sprintf("%s|%s|%s|%s", name, fd.Name.Name, sel.Sel.Name, rt)] = true
						wholeIn[fd.Name.Name] = append(wholeIn[fd.Name.Name], rt+"."+sel.Sel.Name)
					}
				}
				return true
			})
		}
	}
	wkeys := make([]string, 0, len(wholeFound))
	for k := range wholeFound {
		wkeys = append(wkeys, k)
	}
	sort.Strings(wkeys)
	for _, k := range wkeys {
		_, ok := reviewedWholeSetCalls[k]
		c.Op("wholesetcall "+strings.ReplaceAll(k, " ", "_"), b2s(ok))
		c.Stat("whole-set model operation call site (kirkpatrick)")
		c.Nontrivial(k)
		if !ok {
			c.Fail("structural:histories-are-conformant", "conformance:unreviewed-whole-set-model-call",
				"the single-objective explorer calls a whole-set operation of its model from a site that is not on the reviewed list: "+k+
					" — called while a proposal is pending it breaks the conformant-history hypothesis of the catchment theorems; review it and add it to reviewedWholeSetCalls in harness/cmd/suite_conformance.go", []string{"wholesetcall " + k})
		}
	}
	for k := range reviewedWholeSetCalls {
		if !wholeFound[k] {
			c.Op("wholesetcall-missing "+strings.ReplaceAll(k, " ", "_"), "0")
			c.Fail("structural:histories-are-conformant", "conformance:reviewed-call-site-gone",
				"a reviewed whole-set call site no longer exists (the explorer's initialisation changed; re-review): "+k, []string{"wholesetcall-missing " + k})
		}
	}
	// the proposal window: everything reachable from Explorer.TryRandomChange through the explorer's own methods
	reach, queue := map[string]bool{"TryRandomChange": true}, []string{"TryRandomChange"}
	for len(queue) > 0 {
		fn := queue[0]
		queue = queue[1:]
		for _, callee := range calls[fn] {
			if !reach[callee] {
				reach[callee] = true
				queue = append(queue, callee)
			}
		}
	}
	var offending []string
	for fn := range reach {
		for _, w := range wholeIn[fn] {
			offending = append(offending, fn+" calls "+w)
		}
	}
	sort.Strings(offending)
	check("no-whole-set-operation-while-a-proposal-is-pending", len(offending) == 0,
		"reachable from Explorer.TryRandomChange (between the proposal and its accept/revert): "+strings.Join(offending, "; "))
	c.Stat(fmt.Sprintf("explorer methods reachable from TryRandomChange: %d", len(reach)))

	for name, callee := range map[string]string{"AcceptLastChange": "ke.Model().AcceptChange", "RevertLastChange": "ke.Model().RevertChange"} {
		if fd := funcs[name]; fd != nil {
			n := 0
			for _, cn := range callNames(fd) {
				if cn == callee {
					n++
				}
			}
			check(name, n == 1, fmt.Sprintf("%s calls %s %d times", name, callee, n))
		} else {
			check(name, false, name+" not found")
		}
	}
}
