//go:build verif

package main

// Correspondence suite `engine-summaries` (property C13): every summary the explorer can write
// loads in the engine, label by label.
//
// The REAL engine multiplexer (cmd/cremengine/engine/api.Mux, driven in-process through
// ServeHTTP with httptest requests, panics captured) is given
//   (i)  summaries produced by REAL explorer runs of both annealer families over the catchment
//        model (child processes running crem's own config interpreter + Scenario.Run()),
//   (ii) summaries written by crem's REAL Saver + CSV marshaler from harness-built solution sets
//        whose action encodings are CHOSEN: decimal-looking (`12`, `1000`), exponent literals
//        (`1E5`, `2E3`, `1E21`), the boolean spelling `F`, long digit strings, multi-word
//        encodings (`A:1F`), random ones; solution-set sizes 1..40; 13-, 15-, 52-, 65- and
//        78-action scenarios,
//   (iii) a malformed stream (hand-assembled rows through the real marshaler; raw texts).
// For every summary: POST it, GET every label, PATCH the model with every non-as-is encoding and
// read ParetoFrontMember.  Every operation is one protocol line, executed by an interpreter of
// protocol lines (so that a replay re-executes exactly the same operations) and predicted by
// the Lean model (`lean/Driver/EngineSummary.lean`).  The property's clauses are evaluated
// directly on the implementation's answers for every explorer-style summary (Ctx.Fail).

import (
	"encoding/hex"
	"encoding/json"
	"fmt"
	"io"
	"math"
	"net/http/httptest"
	"os"
	"os/exec"
	"path/filepath"
	"sort"
	"strconv"
	"strings"
	"syscall"
	"time"

	engineapi "github.com/LindsayBradford/crem/cmd/cremengine/engine/api"
	explorerdata "github.com/LindsayBradford/crem/cmd/cremexplorer/config/data"
	explorerinterp "github.com/LindsayBradford/crem/cmd/cremexplorer/config/interpreter"
	"github.com/LindsayBradford/crem/internal/pkg/annealing/solution"
	solutionenc "github.com/LindsayBradford/crem/internal/pkg/annealing/solution/encoding"
	"github.com/LindsayBradford/crem/internal/pkg/annealing/solution/set"
	setcsv "github.com/LindsayBradford/crem/internal/pkg/annealing/solution/set/encoding/csv"
	datasetcsv "github.com/LindsayBradford/crem/internal/pkg/dataset/csv"
	"github.com/LindsayBradford/crem/internal/pkg/model"
	marchive "github.com/LindsayBradford/crem/internal/pkg/model/archive"
	"github.com/LindsayBradford/crem/internal/pkg/model/models/catchment"
	"github.com/LindsayBradford/crem/internal/pkg/observer"
	"github.com/LindsayBradford/crem/internal/pkg/parameters"
	"github.com/LindsayBradford/crem/internal/pkg/scenario"
	"github.com/LindsayBradford/crem/pkg/archive"
	"github.com/LindsayBradford/crem/pkg/logging/loggers"
	"github.com/LindsayBradford/crem/pkg/threading"
)

func init() {
	register("engine-summaries", suiteEngineSummaries)
	register("engine-summaries-child", esChild)
}

// ---------------------------------------------------------------- small helpers

func esHx(s string) string { return "x" + hex.EncodeToString([]byte(s)) }

func esUnhx(t string) (string, bool) {
	if !strings.HasPrefix(t, "x") {
		return "", false
	}
	b, err := hex.DecodeString(t[1:])
	return string(b), err == nil
}

// esCellString is what baseTable.CellString returns for the cell BaseCaster.Cast makes of a field
// (Go's own strconv / fmt as the reference).
func esCellString(field string) string {
	if f, err := strconv.ParseFloat(field, 64); err == nil {
		return fmt.Sprintf("%v", f)
	}
	if _, err := strconv.ParseBool(field); err == nil {
		return ""
	}
	return field
}

func esCastCollides(field string) bool {
	if _, err := strconv.ParseFloat(field, 64); err == nil {
		return true
	}
	_, err := strconv.ParseBool(field)
	return err == nil
}

func esEncode(bits []bool) string {
	ba := archive.New(len(bits))
	for i, b := range bits {
		ba.SetValue(i, b)
	}
	return ba.Encoding()
}

func esDecode(enc string, n int) ([]bool, bool) {
	ba := archive.New(n)
	var err error
	if p := protect(func() { err = ba.Decode(enc) }); p != "" || err != nil {
		return nil, false
	}
	out := make([]bool, n)
	for i := range out {
		out[i] = ba.Value(i)
	}
	return out, true
}

// ---------------------------------------------------------------- datasets

type esDataset struct {
	spec string // `shipped <i>` | `replicated <copies>`
	path string // absolute path of the meta CSV
}

func esShippedPaths() []string {
	repo := os.Getenv("VERIF_REPO")
	if repo == "" {
		repo = "/repo"
	}
	return []string{
		filepath.Join(repo, "internal/pkg/model/models/catchment/testdata/ValidModel.csv"),
		filepath.Join(repo, "internal/pkg/model/models/catchment/testdata/TestingModel.csv"),
		filepath.Join(repo, "cmd/cremengine/engine/api/testdata/ValidModel.csv"),
	}
}

func (in *esInterp) resolveDataset(kind string, arg int) (string, error) {
	switch kind {
	case "shipped":
		ps := esShippedPaths()
		if arg < 0 || arg >= len(ps) {
			return "", fmt.Errorf("no shipped dataset %d", arg)
		}
		return ps[arg], nil
	case "replicated":
		dst := filepath.Join(in.c.Out, fmt.Sprintf("replicated%d", arg))
		meta := filepath.Join(dst, "ValidModel.csv")
		if _, err := os.Stat(meta); err == nil {
			return meta, nil
		}
		src := filepath.Dir(esShippedPaths()[0])
		copies := arg
		if arg == 64 {
			copies = 5 // 65 actions, one Wetland row dropped below: exactly 64 actions = one full archive word
		}
		if err := c09WriteReplicatedDataset(src, dst, copies); err != nil {
			return "", err
		}
		if arg == 64 {
			actionsFile := filepath.Join(dst, "ValidActions.csv")
			b, err := os.ReadFile(actionsFile)
			if err != nil {
				return "", err
			}
			lines := strings.Split(strings.TrimRight(string(b), "\n"), "\n")
			for i := len(lines) - 1; i > 0; i-- {
				if strings.Contains(lines[i], ",Wetland,") {
					lines = append(lines[:i], lines[i+1:]...)
					break
				}
			}
			if err := os.WriteFile(actionsFile, []byte(strings.Join(lines, "\n")+"\n"), 0o644); err != nil {
				return "", err
			}
		}
		return meta, nil
	}
	return "", fmt.Errorf("unknown dataset kind %q", kind)
}

// ---------------------------------------------------------------- the engine under test

type esEngine struct {
	mux *engineapi.Mux
}

func esNewMux() *engineapi.Mux {
	threading.ResetMainThreadChannel()
	ch := threading.GetMainThreadChannel()
	m := new(engineapi.Mux).Initialise().WithMainThreadChannel(&ch)
	m.SetLogger(loggers.NewNullLogger())
	return m
}

func (e *esEngine) do(method, path, ctype, body string) (status int, resp string, panicked string) {
	panicked = protect(func() {
		w := httptest.NewRecorder()
		r := httptest.NewRequest(method, "http://dummy.com/", strings.NewReader(body))
		r.URL.Path = path // labels are arbitrary byte strings in the malformed stream: no URL parsing on the way
		if ctype != "" {
			r.Header.Add("Content-Type", ctype)
		}
		e.mux.ServeHTTP(w, r)
		res := w.Result()
		b, _ := io.ReadAll(res.Body)
		status, resp = res.StatusCode, string(b)
	})
	return
}

func esTomlFloat(f float64) string {
	s := strconv.FormatFloat(f, 'f', -1, 64)
	if !strings.Contains(s, ".") {
		s += ".0"
	}
	return s
}

// esParams are model parameters other than the data source and the limit, as TOML literals (`0.0003`, `50`), in the
// order given: the histories stream re-posts a scenario of the SAME name with one of them edited.
type esParams [][2]string

func (ps esParams) toml() string {
	var sb strings.Builder
	for _, kv := range ps {
		fmt.Fprintf(&sb, "%s = %s\n", kv[0], kv[1])
	}
	return sb.String()
}

// into adds the parameters to a crem parameter map (a literal with a `.` is a float64, any other an int64, as TOML reads them)
func (ps esParams) into(m parameters.Map) parameters.Map {
	for _, kv := range ps {
		if strings.ContainsAny(kv[1], ".eE") {
			f, _ := strconv.ParseFloat(kv[1], 64)
			m[kv[0]] = f
		} else {
			i, _ := strconv.ParseInt(kv[1], 10, 64)
			m[kv[0]] = i
		}
	}
	return m
}

func (ps esParams) key() string {
	var parts []string
	for _, kv := range ps {
		parts = append(parts, kv[0]+"="+kv[1])
	}
	return strings.Join(parts, " ")
}

func esScenarioToml(name, dsPath string, limVar int, limit float64, ps esParams) string {
	var sb strings.Builder
	fmt.Fprintf(&sb, "[Scenario]\nName = %q\n[Annealer]\nType = \"Kirkpatrick\"\n[Model]\nType = \"CatchmentModel\"\n[Model.Parameters]\n", name)
	fmt.Fprintf(&sb, "DataSourcePath = %q\n", dsPath)
	if limVar >= 0 {
		fmt.Fprintf(&sb, "%s = %s\n", varMaxKey[limVar], esTomlFloat(limit))
	}
	sb.WriteString(ps.toml())
	return sb.String()
}

// esRefWith is newRef (cmodel.go) for a scenario with edited model parameters: the reference model every served /
// written row is re-evaluated on must be the model of THAT scenario.
func esRefWith(dsPath string, ps esParams) (ref *Ref, err error) {
	if len(ps) == 0 {
		return newRef(dsPath, -1, 0)
	}
	defer func() {
		if r := recover(); r != nil {
			ref, err = nil, fmt.Errorf("panic while loading: %v", r)
		}
	}()
	ds := datasetcsv.NewDataSet("CatchmentModel")
	if e := ds.Load(dsPath); e != nil {
		return nil, e
	}
	params := ps.into(parameters.Map{})
	m := catchment.NewCoreModel().WithSourceDataSet(ds).WithParameters(params)
	if e := m.ParameterErrors(); e != nil {
		return nil, e
	}
	m.Initialise(model.AsIs)
	cm := &CM{m: m, dsPath: dsPath, params: params, limVar: -1}
	cm.installRand()
	for _, pu := range m.PlanningUnits() {
		cm.pus = append(cm.pus, pu)
	}
	sort.Slice(cm.pus, func(i, j int) bool { return cm.pus[i] < cm.pus[j] })
	return &Ref{cm: cm, cache: map[string]*Snap{}}, nil
}

type esSolution struct {
	Id                string
	DecisionVariables []struct {
		Name  string
		Value string
	}
	ActiveManagementActions map[string][]string
	Attributes              []struct {
		Name  string
		Value interface{}
	}
	Type, Message string
}

func (s *esSolution) attr(name string) (interface{}, bool) {
	for _, a := range s.Attributes {
		if a.Name == name {
			return a.Value, true
		}
	}
	return nil, false
}

func (s *esSolution) attrText(name string) string {
	v, ok := s.attr(name)
	if !ok {
		return "none"
	}
	if t, isString := v.(string); isString {
		return esHx(t)
	}
	return "other:" + esHx(fmt.Sprint(v))
}

// ---------------------------------------------------------------- summaries as rows

type esRow struct {
	label string
	vals  []string
	enc   string
	note  string
}

type esSummary struct {
	names []string
	rows  []esRow
}

func (s *esSummary) opTail() string {
	var sb strings.Builder
	fmt.Fprintf(&sb, "%d", len(s.names))
	for _, n := range s.names {
		sb.WriteString(" " + esHx(n))
	}
	fmt.Fprintf(&sb, " %d", len(s.rows))
	for _, r := range s.rows {
		sb.WriteString(" " + esHx(r.label))
		for _, v := range r.vals {
			sb.WriteString(" " + esHx(v))
		}
		sb.WriteString(" " + esHx(r.enc) + " " + esHx(r.note))
	}
	return sb.String()
}

// esParseSummaryText splits a text crem's marshaler wrote (`, ` separated, `\n` ended) into rows.
func esParseSummaryText(text string) (*esSummary, error) {
	if !strings.HasSuffix(text, "\n") {
		return nil, fmt.Errorf("no final newline")
	}
	lines := strings.Split(strings.TrimSuffix(text, "\n"), "\n")
	hdr := strings.Split(lines[0], ", ")
	if len(hdr) < 3 {
		return nil, fmt.Errorf("short header")
	}
	k := len(hdr) - 3
	s := &esSummary{names: hdr[1 : 1+k]}
	for _, l := range lines[1:] {
		f := strings.Split(l, ", ")
		if len(f) != len(hdr) {
			return nil, fmt.Errorf("row with %d fields under %d headings", len(f), len(hdr))
		}
		s.rows = append(s.rows, esRow{label: f[0], vals: f[1 : 1+k], enc: f[1+k], note: f[2+k]})
	}
	return s, nil
}

func esParseSummaryOp(w []string) (*esSummary, bool) {
	pos := 0
	next := func() (string, bool) {
		if pos >= len(w) {
			return "", false
		}
		pos++
		return w[pos-1], true
	}
	kt, ok := next()
	k, err := strconv.Atoi(kt)
	if !ok || err != nil {
		return nil, false
	}
	s := &esSummary{}
	for i := 0; i < k; i++ {
		t, ok := next()
		n, ok2 := esUnhx(t)
		if !ok || !ok2 {
			return nil, false
		}
		s.names = append(s.names, n)
	}
	rt, ok := next()
	r, err := strconv.Atoi(rt)
	if !ok || err != nil {
		return nil, false
	}
	for i := 0; i < r; i++ {
		var f []string
		for j := 0; j < k+3; j++ {
			t, ok := next()
			x, ok2 := esUnhx(t)
			if !ok || !ok2 {
				return nil, false
			}
			f = append(f, x)
		}
		s.rows = append(s.rows, esRow{label: f[0], vals: f[1 : 1+k], enc: f[1+k], note: f[2+k]})
	}
	return s, pos == len(w)
}

// marshal renders the rows with crem's REAL summary marshaler (the value cells go through its
// float converter, so they must be float renderings; anything else is refused).
func (s *esSummary) marshal() (string, error) {
	sum := make(set.Summary)
	for i, r := range s.rows {
		vs := make(solution.VariableSetSummary, len(r.vals))
		for j, v := range r.vals {
			f, err := strconv.ParseFloat(v, 64)
			if err != nil {
				return "", fmt.Errorf("value cell %q is not a number", v)
			}
			vs[j] = solution.VariableSummary{Name: s.names[j], Value: f}
		}
		sum[fmt.Sprintf("key %04d", i)] = solution.Summary{SortIndex: uint64(i), Id: r.label, Variables: vs, Actions: solution.ActionSummary(r.enc), Note: r.note}
	}
	var b []byte
	var err error
	if p := protect(func() { b, err = new(setcsv.SummaryMarshaler).Marshal(&sum) }); p != "" {
		return "", fmt.Errorf("marshaler panicked: %s", p)
	}
	return string(b), err
}

// ---------------------------------------------------------------- the interpreter of protocol lines

type esInterp struct {
	viaFile bool // the next `post` goes through the file route
	c *Ctx

	variant string

	dsKind   string
	dsArg    int
	dsPath   string
	limVar   int
	limit    float64
	params   esParams // model parameters of the scenario posted next / last (the `params` line)
	name     string   // Scenario.Name of the scenario posted next / last
	refs     map[string]*Ref
	ref      *Ref
	actKeys  []string
	varOrder []int // sorted variable names -> index into varNames

	eng *esEngine

	text       string            // body the next `post` sends
	cur        *esSummary        // rows of the last `summary` (explorer-style), nil otherwise
	posted     *esSummary        // explorer-style summary the engine accepted last
	postedPrev []*esSummary      // those accepted before it on this engine
	served     map[string]string // label -> Encoding attribute served under the summary accepted last
	servedPrev map[string]string // … under the summaries accepted before it
	caseOps    []string
}

func newEsInterp(c *Ctx) *esInterp {
	return &esInterp{c: c, refs: map[string]*Ref{}, limVar: -1, variant: "current", name: "C13"}
}

func (in *esInterp) fail(sig, detail string) {
	pred := "C13: a summary the explorer writes is accepted by the engine of the same scenario; each label returns the row's action set and values; each non-as-is encoding is a Pareto-front member"
	if sig == "enginesummary:explorer-summary-has-duplicate-labels" {
		pred = "C12: row labels are unique within a summary (seen from C13: the engine refuses the explorer's summary because two of its rows carry one label)"
	}
	if sig == "enginesummary:valid-flag-not-evaluated" {
		pred = "C03: every solution served by the engine as valid against the scenario respects the limit (D25)"
	}
	ops := append([]string(nil), in.caseOps...)
	if len(ops) > 400 {
		ops = append(append(ops[:200:200], "# …"), ops[len(ops)-150:]...)
	}
	in.c.Fail(pred, sig, detail, ops)
}

func (in *esInterp) n() int { return in.ref.cm.n() }

// do executes one protocol line on the real code, records it and returns the implementation's answer.
func (in *esInterp) do(line string) string {
	w := strings.Fields(line)
	if len(w) > 0 && w[0] == "dataset" {
		in.caseOps = nil
	}
	in.caseOps = append(in.caseOps, line)
	res := in.exec(w)
	in.c.Op(line, res)
	return res
}

func (in *esInterp) exec(w []string) string {
	if len(w) == 0 {
		return "bad-line"
	}
	switch w[0] {
	case "variant":
		return "ok"
	case "layout":
		return "unsplittable"
	case "fmtv":
		if len(w) != 2 {
			return "bad-line"
		}
		b, err := strconv.ParseUint(w[1], 16, 64)
		if err != nil {
			return "bad-line"
		}
		return esHx(fmt.Sprintf("%v", math.Float64frombits(b)))
	case "dataset":
		// dataset <shipped|replicated> <arg> <nolimit | limit <varIdx> <bits>>
		if len(w) < 4 {
			return "bad-line"
		}
		arg, err := strconv.Atoi(w[2])
		if err != nil {
			return "bad-line"
		}
		p, derr := in.resolveDataset(w[1], arg)
		if derr != nil {
			return "dataset-error"
		}
		in.dsKind, in.dsArg, in.dsPath = w[1], arg, p
		in.limVar, in.limit = -1, 0
		in.params, in.name = nil, "C13"
		if w[3] == "limit" && len(w) == 6 {
			vi, e1 := strconv.Atoi(w[4])
			b, e2 := strconv.ParseUint(w[5], 16, 64)
			if e1 != nil || e2 != nil || vi < 0 || vi >= len(varNames) {
				return "bad-line"
			}
			in.limVar, in.limit = vi, math.Float64frombits(b)
		}
		ref, ok := in.refs[p]
		if !ok {
			r, rerr := newRef(p, -1, 0)
			if rerr != nil {
				return "dataset-error"
			}
			ref = r
			in.refs[p] = ref
		}
		in.ref = ref
		in.actKeys = nil
		for _, a := range ref.cm.m.ManagementActions() {
			in.actKeys = append(in.actKeys, fmt.Sprintf("%d/%s", uint64(a.PlanningUnit()), string(a.Type())))
		}
		in.eng, in.cur, in.posted, in.postedPrev, in.text = nil, nil, nil, nil, ""
		return "ok"
	case "scenario":
		if in.ref == nil {
			return "no-dataset"
		}
		in.eng = &esEngine{mux: esNewMux()}
		in.cur, in.posted, in.postedPrev, in.text = nil, nil, nil, ""
		in.served, in.servedPrev = map[string]string{}, map[string]string{}
		st, resp, p := in.eng.do("POST", "/api/v1/scenario", "application/toml", esScenarioToml(in.name, in.dsPath, in.limVar, in.limit, in.params))
		if p != "" {
			return "panic"
		}
		if st != 200 {
			return fmt.Sprintf("status:%d:%s", st, clip(resp, 120))
		}
		return "ok"
	case "params":
		// params name=<hex of Scenario.Name> (<key>=<TOML literal>)*: the scenario the NEXT `scenario` / `rescenario` posts
		// (same data set, same limit); the reference model is rebuilt with them.  Nothing for the Lean model (`ok`).
		if in.ref == nil {
			return "no-dataset"
		}
		var ps esParams
		name := in.name
		for _, t := range w[1:] {
			kv := strings.SplitN(t, "=", 2)
			if len(kv) != 2 {
				return "bad-line"
			}
			if kv[0] == "name" {
				n, ok := esUnhx(kv[1])
				if !ok {
					return "bad-line"
				}
				name = n
				continue
			}
			ps = append(ps, [2]string{kv[0], kv[1]})
		}
		key := in.dsPath + " " + ps.key()
		ref, ok := in.refs[key]
		if !ok {
			r, rerr := esRefWith(in.dsPath, ps)
			if rerr != nil {
				return "dataset-error"
			}
			ref = r
			in.refs[key] = ref
		}
		in.params, in.name, in.ref = ps, name, ref
		return "ok"
	case "rescenario":
		// the scenario (current `params`) POSTed to the SAME engine: crem builds a new model and a new pool and keeps the table
		if in.ref == nil || in.eng == nil {
			return "no-engine"
		}
		st, resp, p := in.eng.do("POST", "/api/v1/scenario", "application/toml", esScenarioToml(in.name, in.dsPath, in.limVar, in.limit, in.params))
		if p != "" {
			return "panic"
		}
		if st != 200 {
			return fmt.Sprintf("status:%d:%s", st, clip(resp, 120))
		}
		// the table the engine keeps belongs to the PREVIOUS scenario: the property's clauses speak of the summary of the
		// scenario the engine is configured with, so the direct checks pause until the next accepted summary (the
		// answers are still compared with the model, which keeps the table too)
		in.cur, in.posted, in.postedPrev, in.text = nil, nil, nil, ""
		in.served, in.servedPrev = map[string]string{}, map[string]string{}
		return "ok"
	case "relimit":
		// relimit <limit bits> <scenario payload as for rescenario>: the SAME scenario (name, data set, parameters) POSTed to the
		// SAME engine with another value of its limit; the summary table the engine keeps is still this scenario's, so the direct
		// clauses go on (seed C03m: whatever the engine remembers of the previous load must not outlive the limit it was judged by)
		if in.ref == nil || in.eng == nil || in.limVar < 0 || len(w) < 2 {
			return "no-engine"
		}
		b, perr := strconv.ParseUint(w[1], 16, 64)
		if perr != nil {
			return "bad-line"
		}
		in.limit = math.Float64frombits(b)
		st, resp, p := in.eng.do("POST", "/api/v1/scenario", "application/toml", esScenarioToml(in.name, in.dsPath, in.limVar, in.limit, in.params))
		if p != "" {
			return "panic"
		}
		if st != 200 {
			return fmt.Sprintf("status:%d:%s", st, clip(resp, 120))
		}
		in.served, in.servedPrev = map[string]string{}, map[string]string{}
		return "ok"
	case "summary", "summaryx":
		s, ok := esParseSummaryOp(w[1:])
		if !ok {
			return "bad-line"
		}
		text, err := s.marshal()
		if err != nil {
			return "marshal-error"
		}
		in.text = text
		if w[0] == "summary" {
			in.cur = s
		} else {
			in.cur = nil
		}
		lay := len(s.names) == 5 || in.variantBit(0)
		rb := true
		if !in.variantBit(1) {
			for _, r := range s.rows {
				if esCellString(r.enc) != r.enc {
					rb = false
				}
			}
		}
		return fmt.Sprintf("%s lay=%s rb=%s", esHx(text), b2s(lay), b2s(rb))
	case "post", "posttext":
		if in.eng == nil {
			return "no-engine"
		}
		body := in.text
		explorerStyle := in.cur
		if w[0] == "posttext" {
			if len(w) != 2 {
				return "bad-line"
			}
			t, ok := esUnhx(w[1])
			if !ok {
				return "bad-line"
			}
			body, explorerStyle = t, nil
		}
		var st int
		var resp, p string
		if w[0] == "post" && in.viaFile {
			// the START-UP route of cmd/cremengine (--SolutionSummaryFile): the same text handed over as a file; it reports through
			// the log only, so whether it was taken is read from what the engine serves as its solutions text afterwards
			in.viaFile = false
			in.c.Stat("summary handed over through SetSolutionSummary (file route)")
			f := filepath.Join(in.c.Out, fmt.Sprintf("summary-%d.csv", os.Getpid()))
			must(os.WriteFile(f, []byte(body), 0o644))
			p = protect(func() { in.eng.mux.SetSolutionSummary(f) })
			os.Remove(f)
			st = 400
			if st2, served, p2 := in.eng.do("GET", "/api/v1/solutions", "", ""); p == "" && p2 == "" && st2 == 200 && served == body {
				st = 200
			}
		} else {
			st, resp, p = in.eng.do("POST", "/api/v1/solutions", "text/csv", body)
		}
		res := ""
		switch {
		case p != "":
			res = "panic"
		case st == 200:
			res = "ok"
		case st == 400:
			// why a summary is refused is said in the message text only, whose wording is nobody's contract
			res = "rejected"
		default:
			res = fmt.Sprintf("status:%d", st)
		}
		if res == "ok" {
			if in.posted != nil {
				in.postedPrev = append(in.postedPrev, in.posted)
			}
			in.posted = explorerStyle
			if in.servedPrev == nil {
				in.servedPrev = map[string]string{}
			}
			for k, v := range in.served {
				in.servedPrev[k] = v
			}
			in.served = map[string]string{}
		}
		if explorerStyle != nil && res != "ok" {
			if res == "panic" {
				in.fail("enginesummary:panic", fmt.Sprintf("POST /api/v1/solutions of an explorer-written summary (%d rows, %d variable columns) panicked: %s", len(explorerStyle.rows), len(explorerStyle.names), p))
			} else {
				// D10 is named as the cause only when the engine's own message quotes the cast text of an encoding
				sig, culprit := "enginesummary:summary-rejected", ""
				seenLabel := map[string]bool{}
				for _, r := range explorerStyle.rows {
					if seenLabel[r.label] {
						// C12's matter surfacing here: the explorer labelled two rows alike (before C12's round-3 repair a scenario
						// name holding `As-Is` or `(1/1)` did that); the engine is right to refuse such a summary
						sig = "enginesummary:explorer-summary-has-duplicate-labels"
						culprit = fmt.Sprintf(" (the explorer-written summary labels two rows %q: C12's clause `row labels are unique within a summary` fails for this scenario name)", r.label)
						break
					}
					seenLabel[r.label] = true
				}
				for _, r := range explorerStyle.rows {
					if sig != "enginesummary:summary-rejected" {
						break
					}
					if esCastCollides(r.enc) && esCellString(r.enc) != r.enc &&
						strings.Contains(resp, "with value ["+esCellString(r.enc)+"] has invalid structure") {
						sig = "enginesummary:encoding-text-lost-by-cast"
						culprit = fmt.Sprintf(" (row %s has the encoding %q, which the loader casts to a number and reads back as %q: outside the hexadecimal pattern)", r.label, r.enc, esCellString(r.enc))
						break
					}
				}
				in.fail(sig, fmt.Sprintf("POST /api/v1/solutions of an explorer-written summary answered %s%s: %s", res, culprit, clip(resp, 300)))
			}
		}
		return res
	case "get":
		if in.eng == nil || len(w) != 2 {
			return "bad-line"
		}
		label, ok := esUnhx(w[1])
		if !ok {
			return "bad-line"
		}
		return in.get(label)
	case "getvalid":
		if in.eng == nil || len(w) != 2 {
			return "bad-line"
		}
		label, ok := esUnhx(w[1])
		if !ok {
			return "bad-line"
		}
		in.getValid(label)
		return "go-only"
	case "patch":
		if in.eng == nil || len(w) != 2 {
			return "bad-line"
		}
		enc, ok := esUnhx(w[1])
		if !ok {
			return "bad-line"
		}
		return in.patch(enc)
	}
	return "bad-line"
}

func (in *esInterp) variantBit(i int) bool {
	switch in.variant {
	case "current":
		return false
	case "fixed":
		return true
	}
	return i < len(in.variant) && in.variant[i] == '1'
}

func (in *esInterp) flagsOf(s *esSolution) (string, []bool) {
	idx := map[string]int{}
	for i, k := range in.actKeys {
		idx[k] = i
	}
	bits := make([]bool, len(in.actKeys))
	for pu, ts := range s.ActiveManagementActions {
		for _, t := range ts {
			i, ok := idx[pu+"/"+t]
			if !ok {
				return "unknown-action:" + pu + "/" + t, nil
			}
			bits[i] = true
		}
	}
	return bitsStr(bits), bits
}

func esParseValue(s string) float64 {
	f, err := strconv.ParseFloat(strings.ReplaceAll(s, ",", ""), 64)
	if err != nil {
		return math.NaN()
	}
	return f
}

func (in *esInterp) rowFor(s *esSummary, label string) *esRow {
	if s == nil {
		return nil
	}
	for i := range s.rows {
		if s.rows[i].label == label {
			return &s.rows[i]
		}
	}
	return nil
}

func (in *esInterp) get(label string) string {
	st, resp, p := in.eng.do("GET", "/api/v1/solutions/"+label, "", "")
	row := in.rowFor(in.posted, label)
	if p != "" {
		if row != nil {
			in.fail("enginesummary:panic", fmt.Sprintf("GET /api/v1/solutions/%s panicked: %s", label, p))
		}
		return "panic"
	}
	if st != 200 {
		if row != nil {
			in.fail("enginesummary:wrong-row-for-label", fmt.Sprintf("GET /api/v1/solutions/%s answered %d although the accepted summary has a row with that label", label, st))
		}
		if st == 404 {
			return "notfound"
		}
		return fmt.Sprintf("status:%d", st)
	}
	var s esSolution
	if err := json.Unmarshal([]byte(resp), &s); err != nil {
		return "unparsable"
	}
	fl, bits := in.flagsOf(&s)
	pfm := "none"
	if v, has := s.attr("ParetoFrontMember"); has {
		pfm = b2s(v == true)
	}
	res := fmt.Sprintf("found e=%s n=%s p=%s f=%s", s.attrText("Encoding"), s.attrText("Summary"), pfm, fl)
	if row == nil || bits == nil {
		return res
	}
	// ---- the property, evaluated on the answer
	in.c.Stat("direct: label served and compared with its row")
	want, ok := esDecode(row.enc, in.n())
	if !ok {
		return res
	}
	gotEnc, _ := s.attr("Encoding")
	gotNote, hasNote := s.attr("Summary")
	gotEncText := fmt.Sprint(gotEnc)
	wasServed, servedBefore := in.servedPrev[label]
	if in.served != nil {
		in.served[label] = gotEncText
	}
	cells := append(append([]string{row.label}, row.vals...), row.enc, row.note)
	if bitsStr(want) != fl || (label != "As-Is" && gotEnc != row.enc) {
		sig := "enginesummary:wrong-row-for-label"
		why := ""
		switch {
		case servedBefore && wasServed == gotEncText && label != "As-Is":
			sig = "enginesummary:stale-pool-after-repost"
			why = "the engine served what it had served for this label under a summary posted EARLIER: the solution pool is keyed by label and is not emptied when a new summary is accepted"
		case len(cells) != 8 && len(cells) > 6 && gotEnc == esCellString(cells[6]) && cells[6] != row.enc:
			sig = "enginesummary:encoding-read-from-wrong-column"
			why = fmt.Sprintf("the engine decoded the text of column 6 (%q, heading %q) instead of the Actions column", cells[6], append(append([]string{"Solution"}, in.posted.names...), "Actions", "Summary")[6])
		case esCastCollides(row.enc) && gotEnc == esCellString(row.enc):
			sig = "enginesummary:encoding-text-lost-by-cast"
			why = fmt.Sprintf("the loader cast the encoding %q to a number/boolean cell, which reads back as %q", row.enc, esCellString(row.enc))
		default:
			for _, prev := range in.postedPrev {
				if pr := in.rowFor(prev, label); pr != nil && gotEnc == pr.enc && pr.enc != row.enc {
					sig = "enginesummary:stale-pool-after-repost"
					why = fmt.Sprintf("the engine served the row %q had in a summary posted EARLIER (encoding %q): the solution pool is keyed by label and not emptied when a new summary is accepted", label, pr.enc)
				}
			}
		}
		in.fail(sig, fmt.Sprintf("GET /api/v1/solutions/%s: row encoding %q = actions %s, served Encoding=%v actions %s; %s", label, row.enc, bitsStr(want), gotEnc, fl, why))
		return res
	}
	if label != "As-Is" && (!hasNote || gotNote != row.note) {
		sig := "enginesummary:wrong-row-for-label"
		if len(cells) > 7 && len(cells) != 8 && gotNote == esCellString(cells[7]) {
			sig = "enginesummary:encoding-read-from-wrong-column"
		}
		in.fail(sig, fmt.Sprintf("GET /api/v1/solutions/%s: the row's note is %q, served Summary=%v", label, row.note, gotNote))
	}
	// values: a fresh model evaluated at the row's encoding, and the row's own cells
	snap := in.ref.at(want)
	for k, name := range in.posted.names {
		vi := -1
		for j, vn := range varNames {
			if vn == name {
				vi = j
			}
		}
		if vi < 0 || k >= len(s.DecisionVariables) {
			continue
		}
		var got float64 = math.NaN()
		for _, dv := range s.DecisionVariables {
			if dv.Name == name {
				got = esParseValue(dv.Value)
			}
		}
		fresh := snap.totals[vi]
		rowVal, _ := strconv.ParseFloat(row.vals[k], 64)
		tol := 0.5*math.Pow10(-varPrec[vi]) + 1e-9
		// the row's cell is the writer's `%.3f` of the fresh model's value: compared as TEXT (a cell off by one last digit
		// is a different text); the served figure is the same value at the variable's reporting precision (2 or 3 decimals):
		// once parsed, the decimal the engine shows and the decimal in the row are the same number
		cell := strconv.FormatFloat(math.Round(fresh*1000)/1000, 'f', 3, 64)
		if cell == "-0.000" {
			cell = "0.000"
		}
		rowCell := row.vals[k]
		if rowCell == "-0.000" {
			rowCell = "0.000"
		}
		shown := math.Round(rowVal*math.Pow10(varPrec[vi])) / math.Pow10(varPrec[vi])
		if !(math.Abs(got-fresh) <= tol) || cell != rowCell || got != shown {
			in.fail("enginesummary:values-differ-from-row", fmt.Sprintf("GET /api/v1/solutions/%s: %s served as %v, the row says %s, a fresh model at encoding %q gives %v (= %s at three decimals)", label, name, got, row.vals[k], row.enc, fresh, cell))
			break
		}
	}
	return res
}

// getValid: D25 observation on an engine whose scenario carries a limit.
func (in *esInterp) getValid(label string) {
	row := in.rowFor(in.posted, label)
	if row == nil || in.limVar < 0 {
		return
	}
	st, resp, p := in.eng.do("GET", "/api/v1/solutions/"+label, "", "")
	if p != "" || st != 200 {
		return
	}
	var s esSolution
	if json.Unmarshal([]byte(resp), &s) != nil {
		return
	}
	fl, _ := in.flagsOf(&s)
	want, ok := esDecode(row.enc, in.n())
	if !ok || bitsStr(want) != fl {
		return // the wrong set was served: reported by `get`
	}
	v := in.ref.at(want).totals[in.limVar]
	valid, _ := s.attr("ValidAgainstScenario")
	in.c.Stat(fmt.Sprintf("D25: pooled solution value %s limit, ValidAgainstScenario=%v", map[bool]string{true: "above", false: "within"}[v > in.limit], valid))
	if v > in.limit && valid == true {
		in.fail("enginesummary:valid-flag-not-evaluated", fmt.Sprintf("scenario limit %s = %v; solution %s (encoding %q) has %s = %v, yet GET /api/v1/solutions/%s reports ValidAgainstScenario=true (the pool sets the attribute without evaluating the model)", varMaxKey[in.limVar], in.limit, label, row.enc, varNames[in.limVar], v, label))
	}
}

func (in *esInterp) patch(enc string) string {
	body, _ := json.Marshal([]map[string]interface{}{{"Name": "Encoding", "Value": enc}})
	st, _, p := in.eng.do("PATCH", "/api/v1/model", "application/json", string(body))
	if p != "" {
		return "panic"
	}
	if st == 400 {
		return "rejected"
	}
	if st != 200 {
		return fmt.Sprintf("status:%d", st)
	}
	st, resp, p := in.eng.do("GET", "/api/v1/model", "", "")
	if p != "" || st != 200 {
		return "panic"
	}
	var s esSolution
	if json.Unmarshal([]byte(resp), &s) != nil {
		return "unparsable"
	}
	member := "none"
	if v, ok := s.attr("ParetoFrontMember"); ok {
		member = b2s(v == true)
	}
	// C03 (engine clause): the model served after the encoding was set says ValidAgainstScenario = true only if a fresh
	// model at that set is within the scenario's limit — whether or not the set is a member of the loaded summary
	if in.limVar >= 0 {
		if want, ok := esDecode(enc, in.n()); ok {
			v := in.ref.at(want).totals[in.limVar]
			valid, has := s.attr("ValidAgainstScenario")
			in.c.Stat(fmt.Sprintf("C03: model after PATCH: value %s limit, ValidAgainstScenario=%v", map[bool]string{true: "above", false: "within"}[v > in.limit], valid))
			if has && v > in.limit && valid == true {
				in.fail("enginesummary:valid-flag-not-evaluated", fmt.Sprintf("scenario limit %s = %v; after PATCH /api/v1/model with encoding %q the model has %s = %v, yet GET /api/v1/model reports ValidAgainstScenario=true", varMaxKey[in.limVar], in.limit, enc, varNames[in.limVar], v))
			}
			// ... and a client cannot TALK the engine into it: a PATCH that changes no action but carries the reserved attribute
			// itself leaves the flag what the model says (on the pinned code the attribute is re-derived after the join, so this
			// request changes nothing that is served)
			if has && v > in.limit {
				claim, _ := json.Marshal([]map[string]interface{}{{"Name": "ValidAgainstScenario", "Value": true}})
				if st2, _, p2 := in.eng.do("PATCH", "/api/v1/model", "application/json", string(claim)); p2 == "" && st2 == 200 {
					if st3, resp3, p3 := in.eng.do("GET", "/api/v1/model", "", ""); p3 == "" && st3 == 200 {
						var s3 esSolution
						if json.Unmarshal([]byte(resp3), &s3) == nil {
							in.c.Stat("C03: reserved ValidAgainstScenario attribute PATCHed over an invalid model")
							if v3, has3 := s3.attr("ValidAgainstScenario"); has3 && v3 == true {
								in.fail("enginesummary:valid-flag-not-evaluated", fmt.Sprintf("scenario limit %s = %v; the model at encoding %q has %s = %v; after PATCH /api/v1/model [{Name: ValidAgainstScenario, Value: true}] (no action changed) GET /api/v1/model reports ValidAgainstScenario=true", varMaxKey[in.limVar], in.limit, enc, varNames[in.limVar], v))
							}
						}
					}
				}
			}
		}
	}
	// ---- the property: a non-as-is row's encoding is a member; an encoding of no row is not
	if in.posted != nil {
		bits, ok := esDecode(enc, in.n())
		if ok {
			canon := esEncode(bits)
			inRows := false
			for _, r := range in.posted.rows[1:] {
				if r.enc == canon {
					inRows = true
				}
			}
			in.c.Stat("direct: ParetoFrontMember compared with the accepted summary")
			if inRows && member != "1" {
				sig, why := "enginesummary:pareto-flag-wrong", ""
				if esCellString(canon) != canon && member == "0" {
					// D10: the membership search compares the model's encoding with the cell's read-back text
					sig = "enginesummary:encoding-text-lost-by-cast"
					why = fmt.Sprintf(" (the loader cast the summary's cell for it to a number/boolean, which reads back as %q)", esCellString(canon))
				}
				in.fail(sig, fmt.Sprintf("PATCH /api/v1/model with encoding %q of a non-as-is row of the accepted summary: ParetoFrontMember=%s%s", enc, member, why))
			}
			if !inRows && member == "1" {
				in.fail("enginesummary:pareto-flag-wrong", fmt.Sprintf("PATCH /api/v1/model with encoding %q, which no non-as-is row of the accepted summary carries: ParetoFrontMember=1", enc))
			}
		}
	}
	return "member=" + member
}

// ---------------------------------------------------------------- producing summaries with crem's real writer

type esRig struct {
	in    *esInterp
	model *catchment.Model
	runId string // the id the finished run carries: Scenario.Name, or `Name (r/R)` for run r of R > 1
}

func (in *esInterp) newRig() (*esRig, error) {
	m := catchment.NewModel().WithParameters(in.params.into(parameters.Map{"DataSourcePath": in.dsPath}))
	if e := m.ParameterErrors(); e != nil {
		return nil, e
	}
	var perr string
	if perr = protect(func() { m.Initialise(model.AsIs) }); perr != "" {
		return nil, fmt.Errorf("%s", perr)
	}
	return &esRig{in: in, model: m, runId: in.name}, nil
}

// saverSummary lets crem's real Saver write the summary of a solution set with the given action sets.
func (rig *esRig) saverSummary(family string, members [][]bool) (string, error) {
	dir, err := os.MkdirTemp(rig.in.c.Out, "saver")
	if err != nil {
		return "", err
	}
	defer os.RemoveAll(dir)
	saver := scenario.NewSaver().
		WithOutputType(solutionenc.CsvOutput).
		WithOutputPath(dir).
		WithOutputLevel("Summary").
		WithLogHandler(loggers.NewNullLogger())
	saver.SetDecompressionModel(rig.model)
	ev := observer.NewEvent(observer.FinishedAnnealing)
	if family == "single" {
		st := (&cand{vec: []float64{1}, bits: members[0]}).state()
		st.SetId(rig.runId)
		ev.WithAttribute(scenario.CompressedModel, *st)
	} else {
		a := marchive.New()
		a.SetId(rig.runId)
		n := len(members)
		for i, bits := range members {
			a.AttemptToArchiveState((&cand{vec: []float64{float64(i), float64(n - i)}, bits: bits}).state())
		}
		if a.Len() != n {
			return "", fmt.Errorf("archive took %d of %d members", a.Len(), n)
		}
		ev.WithAttribute(scenario.ModelArchive, *a)
	}
	if p := protect(func() { saver.ObserveEvent(*ev) }); p != "" {
		return "", fmt.Errorf("saver panicked: %s", p)
	}
	files, _ := filepath.Glob(filepath.Join(dir, "*-Summary.csv"))
	if len(files) != 1 {
		return "", fmt.Errorf("%d summary files", len(files))
	}
	b, err := os.ReadFile(files[0])
	return string(b), err
}

// ---------------------------------------------------------------- real explorer runs (child process)

func esChild(c *Ctx) {
	childLifeline(240 * time.Second)
	if len(c.Args) != 1 {
		fmt.Fprintln(os.Stderr, "engine-summaries-child: config file expected")
		os.Exit(42)
	}
	cfg, err := explorerdata.RetrieveConfigFromFile(c.Args[0])
	if err != nil {
		fmt.Fprintln(os.Stderr, "config rejected:", err)
		os.Exit(43)
	}
	ci := explorerinterp.NewInterpreter().Interpret(cfg)
	if e := ci.Errors(); e != nil {
		fmt.Fprintln(os.Stderr, "config rejected:", e)
		os.Exit(43)
	}
	if err := ci.Scenario().Run(); err != nil {
		fmt.Fprintln(os.Stderr, "run error:", err)
		os.Exit(44)
	}
	os.Stdout.Sync()
}

type esRunConfig struct {
	annealer string
	iters    int
	explore  string
	limVar   int // unused (-1): the run's limit is the engine scenario's (`dataset … limit`), so that both have ONE scenario
	limit    float64
	runs     int // Scenario.RunNumber (0 = 1); with more than one run the summary of run `pick` (0-based, modulo) is taken
	pick     int
}

func (in *esInterp) realRun(rc esRunConfig) (string, error) {
	work, err := os.MkdirTemp(in.c.Out, "run")
	if err != nil {
		return "", err
	}
	defer os.RemoveAll(work)
	out := filepath.Join(work, "out")
	var sb strings.Builder
	runs := rc.runs
	if runs < 1 {
		runs = 1
	}
	fmt.Fprintf(&sb, "[Scenario]\nName = %q\nRunNumber = %d\nOutputPath = %q\nOutputType = \"CSV\"\nOutputLevel = \"Summary\"\n", in.name, runs, out)
	sb.WriteString("[Scenario.Reporting]\nReportEveryNumberOfIterations = 100000\n[Scenario.Reporting.LogLevelDestinations]\nAnnealing = \"Discarded\"\n")
	fmt.Fprintf(&sb, "[Annealer]\nType = %q\n[Annealer.Parameters]\n", rc.annealer)
	if rc.annealer == "Kirkpatrick" {
		fmt.Fprintf(&sb, "DecisionVariable = %q\nOptimisationDirection = \"Minimising\"\n", rc.explore)
	} else if rc.explore != "" {
		fmt.Fprintf(&sb, "ExplorableDecisionVariables = %q\n", rc.explore)
	}
	fmt.Fprintf(&sb, "StartingTemperature = 10.0\nCoolingFactor = 0.99\nMaximumIterations = %d\n", rc.iters)
	fmt.Fprintf(&sb, "[Model]\nType = \"CatchmentModel\"\n[Model.Parameters]\nDataSourcePath = %q\n", in.dsPath)
	if in.limVar >= 0 {
		fmt.Fprintf(&sb, "%s = %s\n", varMaxKey[in.limVar], esTomlFloat(in.limit))
	}
	sb.WriteString(in.params.toml())
	cf := filepath.Join(work, "scenario.toml")
	if err := os.WriteFile(cf, []byte(sb.String()), 0o644); err != nil {
		return "", err
	}
	bin := os.Getenv("VERIF_HARNESS")
	if bin == "" {
		bin, _ = os.Executable()
	}
	cmd := exec.Command(bin, "engine-summaries-child", "-out", filepath.Join(work, "child"), cf)
	cmd.Env = append(os.Environ(), "GOMEMLIMIT=2GiB")
	cmd.SysProcAttr = &syscall.SysProcAttr{Setpgid: true} // its own process group: the watchdog below kills the group
	var outBuf strings.Builder
	cmd.Stdout, cmd.Stderr = &outBuf, &outBuf
	if err := cmd.Start(); err != nil {
		return "", err
	}
	done := make(chan error, 1)
	go func() { done <- cmd.Wait() }()
	select {
	case werr := <-done:
		if werr != nil {
			return "", fmt.Errorf("explorer run failed: %v: %s", werr, clip(outBuf.String(), 600))
		}
	case <-time.After(180 * time.Second):
		killGroup(cmd)
		<-done
		return "", fmt.Errorf("explorer run timed out")
	}
	files, _ := filepath.Glob(filepath.Join(out, "*-Summary.csv"))
	if len(files) != runs {
		return "", fmt.Errorf("the %d run(s) left %d summary files in %s", runs, len(files), out)
	}
	sort.Strings(files)
	b, err := os.ReadFile(files[rc.pick%len(files)])
	return string(b), err
}

// ---------------------------------------------------------------- generation

type esGen struct {
	in *esInterp
	r  *Rng
}

// exercise posts an explorer-style summary (text as written by crem's writer) to the current engine
// and walks every label and every encoding.
func (g *esGen) exercise(text string, source string) bool {
	in, c := g.in, g.in.c
	s, err := esParseSummaryText(text)
	if err != nil {
		// crem's writer no longer lays the summary out as `, `-separated rows under Solution, …, Actions, Summary:
		// the correspondence cannot be established (the model answers `splittable`)
		in.do("layout " + esHx(text))
		// whatever the layout: a summary that crem's own writer produced for this scenario must be accepted by the engine
		if res := in.do("posttext " + esHx(text)); res != "ok" && res != "no-engine" {
			in.fail("enginesummary:summary-rejected", fmt.Sprintf("a summary written by crem's own writer (%s, %d bytes) is not laid out as the engine reads it (%v) and POST /api/v1/solutions answers %s", source, len(text), err, res))
		}
		return false
	}
	// "label by label": a label names ONE row, or the rows behind the later duplicates cannot be asked for (seed C13m)
	labelRow := map[string]int{}
	for i, r := range s.rows {
		if j, dup := labelRow[r.label]; dup {
			in.fail("enginesummary:label-not-unique", fmt.Sprintf("a summary written by crem's own writer (%s, %d rows) labels rows %d and %d both %q: the engine can serve only one of them under that label (encodings %q and %q)", source, len(s.rows), j, i, r.label, s.rows[j].enc, r.enc))
			break
		}
		labelRow[r.label] = i
	}
	c.Stat(fmt.Sprintf("summary source=%s", source))
	c.Stat(fmt.Sprintf("summary rows=%s cols=%d actions=%d", esBucket(len(s.rows)), len(s.names)+3, in.n()))
	res := in.do("summary " + s.opTail())
	if i := strings.Index(res, " "); i < 0 || res[:i] != esHx(text) {
		// the marshaler applied to the parsed rows must reproduce the file byte for byte
		in.fail("enginesummary:summary-rejected", "re-marshalling the parsed rows of a written summary does not reproduce its text")
		return false
	}
	// a summary no earlier one of which was accepted by this engine (so that "served text == this text" tells acceptance)
	in.viaFile = in.posted == nil && g.r.Chance(0.3)
	post := in.do("post")
	in.viaFile = false
	c.Stat("post " + post)
	for _, r := range s.rows {
		kind := "plain"
		switch {
		case r.label == "As-Is":
			kind = "as-is"
		case strings.Contains(r.enc, ":"):
			kind = "multi-word"
			if esCastCollides(strings.ReplaceAll(r.enc, ":", "")) {
				kind = "multi-word, digits only"
			}
		case esCastCollides(r.enc) && esCellString(r.enc) == r.enc:
			kind = "cast, reads back"
		case esCastCollides(r.enc):
			kind = "cast, text lost"
		}
		c.Stat("row encoding kind: " + kind)
	}
	if post != "ok" {
		// nothing is loaded: the labels must not resolve (compared with the model)
		in.do("get " + esHx(s.rows[len(s.rows)-1].label))
		return false
	}
	order := esPerm(g.r, len(s.rows))
	for _, i := range order {
		res := in.do("get " + esHx(s.rows[i].label))
		c.Nontrivial(fmt.Sprintf("get|%s|%d|%s|%d", in.dsPath, len(s.names), s.rows[i].enc, len(s.rows)))
		_ = res
	}
	// a second request for a label already pooled, an unknown label, a label of another size
	in.do("get " + esHx(s.rows[g.r.Intn(len(s.rows))].label))
	in.do("get " + esHx(fmt.Sprintf("%d-of-%d", len(s.rows)+3, len(s.rows)+3)))
	for _, i := range order {
		if i == 0 {
			continue
		}
		in.do("patch " + esHx(s.rows[i].enc))
		c.Nontrivial(fmt.Sprintf("patch|%s|%s|%d", in.dsPath, s.rows[i].enc, len(s.rows)))
	}
	// an encoding no row carries, the as-is encoding, a non-canonical spelling, malformed text
	other := g.randomBits(0.5)
	in.do("patch " + esHx(esEncode(other)))
	in.do("patch " + esHx(s.rows[0].enc))
	if len(s.rows) > 1 {
		in.do("patch " + esHx(strings.ToLower(s.rows[1].enc)))
		in.do("patch " + esHx("0"+s.rows[1].enc))
	}
	in.do("patch " + esHx([]string{"", "XYZ", "1:2:3:4", "-1", "0x1", "10000000000000000"}[g.r.Intn(6)]))
	return true
}

func esBucket(n int) string {
	switch {
	case n <= 2:
		return fmt.Sprint(n)
	case n <= 5:
		return "3-5"
	case n <= 10:
		return "6-10"
	case n <= 20:
		return "11-20"
	case n <= 30:
		return "21-30"
	}
	if n <= 41 {
		return "31-41"
	}
	return ">41"
}

func esPerm(r *Rng, n int) []int {
	p := make([]int, n)
	for i := range p {
		p[i] = i
	}
	for i := n - 1; i > 0; i-- {
		j := r.Intn(i + 1)
		p[i], p[j] = p[j], p[i]
	}
	return p
}

func (g *esGen) randomBits(density float64) []bool {
	bits := make([]bool, g.in.n())
	for i := range bits {
		bits[i] = g.r.Chance(density)
	}
	return bits
}

// lookalikes returns encodings valid for n actions that look like decimals, exponent literals,
// booleans, long digit strings, multi-word texts.
func esLookalikes(r *Rng, n int) []string {
	var out []string
	add := func(e string) {
		if bits, ok := esDecode(e, n); ok && esEncode(bits) == e {
			out = append(out, e)
		}
	}
	words := (n + 63) / 64
	if words == 1 {
		for _, e := range []string{"12", "1000", "1E5", "2E3", "F", "1E0", "1E1", "1E21", "1E9", "9", "10", "99", "100", "7E2", "1E12", "3E8",
			"100000", "999999", "1000000", "1234567", "12345678", "4000000000", "1E100", "1E308", "1E309", "9E99", "123456789012",
			"1000000000000", "1234567890123", "9007199254740993", "1234567890123456", "FFFF", "1ABC", "E5", "1E", "DEAD", "1D5", "FACE", "0"} {
			add(e)
		}
		for i := 0; i < 6; i++ {
			// random digit strings and D+ED+ forms
			d := 1 + r.Intn((n+3)/4)
			var sb strings.Builder
			sb.WriteByte(byte('1' + r.Intn(9)))
			for j := 1; j < d; j++ {
				sb.WriteByte(byte('0' + r.Intn(10)))
			}
			add(sb.String())
			s := sb.String()
			if len(s) >= 3 {
				k := 1 + r.Intn(len(s)-2)
				add(s[:k] + "E" + s[k+1:])
			}
		}
	} else {
		tails := []string{"0", "1", "1F", "12", "3FF", "1E5"[:1+r.Intn(3)]}
		for _, h := range []string{"A", "12", "1E5", "F", "1000000", "1234567890123456", "FFFFFFFFFFFFFFFF", "0", "1E21"} {
			parts := []string{h}
			for w := 1; w < words; w++ {
				parts = append(parts, tails[r.Intn(len(tails))])
			}
			add(strings.Join(parts, ":"))
		}
		add("A:1F")
		add("12:12")
		add("0:1")
	}
	return out
}

func (g *esGen) membersFromEncodings(encs []string) [][]bool {
	var ms [][]bool
	seen := map[string]bool{}
	for _, e := range encs {
		if seen[e] {
			continue
		}
		if bits, ok := esDecode(e, g.in.n()); ok {
			seen[e] = true
			ms = append(ms, bits)
		}
	}
	return ms
}

func (g *esGen) randomMembers(k int, seen map[string]bool) [][]bool {
	var ms [][]bool
	for tries := 0; len(ms) < k && tries < 50*k+100; tries++ {
		bits := g.randomBits([]float64{0.1, 0.3, 0.5, 0.9}[g.r.Intn(4)])
		e := esEncode(bits)
		if seen[e] {
			continue
		}
		seen[e] = true
		ms = append(ms, bits)
	}
	return ms
}

func (g *esGen) startCase(kind string, arg int, limit string) bool {
	if g.in.do(fmt.Sprintf("dataset %s %d %s", kind, arg, limit)) != "ok" {
		g.in.fail("enginesummary:panic", "the harness could not load dataset "+kind+" "+fmt.Sprint(arg))
		return false
	}
	return true
}

// scenarioLine carries the scenario the model needs: number of actions, decision-variable names and
// the as-is values of a fresh model.
func (g *esGen) scenarioLine() string { return g.scenarioLineOf("scenario") }

// scenarioLineOf: `scenario` = a fresh engine, `rescenario` = the same engine; either carries what the model needs of
// the scenario the harness posts (current data set and `params`): number of actions and the as-is values of a fresh model.
func (g *esGen) scenarioLineOf(op string) string {
	in := g.in
	asIs := in.ref.at(make([]bool, in.n()))
	names := append([]string(nil), varNames...)
	sort.Strings(names)
	var sb strings.Builder
	fmt.Fprintf(&sb, "%s %d %d", op, in.n(), len(names))
	for _, nm := range names {
		for j, vn := range varNames {
			if vn == nm {
				fmt.Fprintf(&sb, " %s %s", esHx(nm), floatBits(asIs.totals[j]))
			}
		}
	}
	return sb.String()
}

// sameEngine posts the scenario (current `params`) to the engine already running.
func (g *esGen) sameEngine() bool {
	if res := g.in.do(g.scenarioLineOf("rescenario")); res != "ok" {
		g.in.fail("enginesummary:panic", "POST /api/v1/scenario of a valid catchment scenario to a running engine answered "+res)
		return false
	}
	return true
}

func (g *esGen) newEngine() bool {
	if res := g.in.do(g.scenarioLine()); res != "ok" {
		g.in.fail("enginesummary:panic", "POST /api/v1/scenario of a valid catchment scenario answered "+res)
		return false
	}
	return true
}

func suiteEngineSummaries(c *Ctx) {
	in := newEsInterp(c)
	for _, a := range c.Args {
		if strings.HasPrefix(a, "variant=") {
			in.variant = strings.TrimPrefix(a, "variant=")
		}
	}
	if c.Replay != "" {
		lines := readLines(c.Replay)
		if len(lines) > 0 && !strings.HasPrefix(lines[0], "variant ") {
			// a replay file holds one case (from its `dataset` line on): the variant comes from the suite's argument
			in.do(fmt.Sprintf("variant %s %s %s %s", b2s(in.variantBit(0)), b2s(in.variantBit(1)), b2s(in.variantBit(2)), b2s(in.variantBit(3))))
		}
		for _, l := range lines {
			if strings.HasPrefix(l, "#") {
				continue
			}
			if w := strings.Fields(l); len(w) >= 4 && w[0] == "variant" {
				in.variant = strings.Join(w[1:], "")
			}
			in.do(l)
		}
		return
	}
	g := &esGen{in: in, r: c.Rng.Fork()}
	in.do(fmt.Sprintf("variant %s %s %s %s", b2s(in.variantBit(0)), b2s(in.variantBit(1)), b2s(in.variantBit(2)), b2s(in.variantBit(3))))

	if c.Shard == 0 {
		g.fmtvStream()
	}

	if c.Shard == 0 {
		g.corpus()
	}

	type dsPick struct {
		kind string
		arg  int
	}
	shipped := []dsPick{{"shipped", 0}, {"shipped", 1}, {"shipped", 2}}
	big := []dsPick{{"replicated", 4}, {"replicated", 64}, {"replicated", 5}, {"replicated", 6}, {"replicated", 10}}

	caseNo := 0
	mine := func() bool { caseNo++; return caseNo%c.Shards == c.Shard }

	// ---- (i) real explorer runs, both families
	runs := []esRunConfig{
		{annealer: "Kirkpatrick", iters: 300, explore: "SedimentProduction", limVar: -1},
		{annealer: "Suppapitnarm", iters: 400, explore: "SedimentProduction,ImplementationCost", limVar: -1},
		{annealer: "AveragedSuppapitnarm", iters: 400, explore: "SedimentProduction,ImplementationCost,DissolvedNitrogen", limVar: -1},
		{annealer: "Kirkpatrick", iters: 200, explore: "ImplementationCost", limVar: -1},
		{annealer: "Suppapitnarm", iters: 1500, explore: "ParticulateNitrogen,OpportunityCost", limVar: -1},
		{annealer: "AveragedSuppapitnarm", iters: 2500, explore: "", limVar: -1},
	}
	// scenario names of the real runs: the saver derives every label from the id `<name>[ (r/R)] Solution (…)`; blanks,
	// `3/4`, parentheses, `As-Is`, `(1/1)` in the NAME must not leak into the labels (C12's round-3 repair of
	// deriveSummaryIdFromSolution: before it such a summary had duplicate labels and the engine answered 400)
	runNames := []string{"C13", "Run 3/4 test", "two  blanks", "trial (1/1)", "As-Is baseline", "Best Solution"}
	nRuns := c.N(4, len(runs)*4)
	seedShift := int(g.r.Intn(len(runNames) * len(runs)))
	for i := 0; i < nRuns; i++ {
		if !mine() {
			continue
		}
		rc := runs[(i+seedShift)%len(runs)]
		ds := shipped[(i/len(runs))%len(shipped)]
		if c.Thorough() && i >= len(runs)*2 {
			ds = big[i%len(big)]
		}
		name := runNames[(i+seedShift/len(runs))%len(runNames)]
		if i%3 == 2 {
			rc.runs, rc.pick = 3, 1+g.r.Intn(2) // a LATER run of the scenario (the first one behaves like a single run, covered above)
			if rc.iters > 400 {
				rc.iters = 400
			}
		}
		limitSpec := "nolimit"
		if i%2 == 1 {
			// the explorer AND the engine get one limited scenario: a limit strictly between the attainable extremes of one variable
			if !g.startCase(ds.kind, ds.arg, "nolimit") {
				continue
			}
			vi := []int{4, 0, 5, 1, 2, 3}[(i/2+seedShift)%6]
			all := make([]bool, in.n())
			for j := range all {
				all[j] = true
			}
			lo, hi := in.ref.at(make([]bool, in.n())).totals[vi], in.ref.at(all).totals[vi]
			if hi < lo {
				lo, hi = hi, lo
			}
			// `lo` is the valid starting extreme of either kind of limit (no action active for a cost, every action active
			// for a pollutant); the limit stays in the lower half of the range, so that the explorer's limit seeking ends on an
			// invalid attempt long before its attempt budget (= number of actions) runs out
			limit := math.Round((lo+(hi-lo)*(0.25+0.25*g.r.Float()))*1000) / 1000
			if vi >= 4 {
				limit = math.Round(limit)
			}
			if limit > lo && limit < hi {
				limitSpec = fmt.Sprintf("limit %d %s", vi, floatBits(limit))
			}
		}
		if !g.startCase(ds.kind, ds.arg, limitSpec) {
			continue
		}
		c.Stat(fmt.Sprintf("real run: name class=%s runs=%d limited=%v", esNameClass(name), max1(rc.runs), limitSpec != "nolimit"))
		if name != "C13" && in.do("params name="+esHx(name)) != "ok" {
			continue
		}
		if !g.newEngine() {
			continue
		}
		text, err := in.realRun(rc)
		if err != nil {
			if limitSpec != "nolimit" && isGiveUp(err.Error()) {
				// the explorer itself refused to start from this limit (its randomised limit seeking used up its attempts):
				// no summary was produced, nothing for the property to say
				c.Stat("real run: BOUNDARY limited scenario not started by the explorer (attempt limit)")
				continue
			}
			if limitSpec != "nolimit" && strings.Contains(err.Error(), "explorer run timed out") {
				// crem's limit seeking can spin under a limit (DESIGN.md 10.7): no summary, nothing for the property to say
				c.Stat("real run: BOUNDARY limited scenario did not finish (child process group killed)")
				c.Note("BOUNDARY engine-summaries: a limited real explorer run did not finish within 180 s; left out")
				continue
			}
			in.fail("enginesummary:panic", "real explorer run ("+rc.annealer+"): "+err.Error())
			continue
		}
		g.exercise(text, "real run "+rc.annealer)
	}

	// ---- (ii) the real Saver on harness-built solution sets with chosen encodings, set sizes 1..40
	nSaver := c.N(40, 1600)
	for i := 0; i < nSaver; i++ {
		if !mine() {
			continue
		}
		ds := shipped[g.r.Intn(len(shipped))]
		if g.r.Chance(0.35) {
			ds = big[g.r.Intn(len(big))]
		}
		if !g.startCase(ds.kind, ds.arg, "nolimit") || !g.newEngine() {
			continue
		}
		rig, err := in.newRig()
		if err != nil {
			in.fail("enginesummary:panic", "catchment model for the saver: "+err.Error())
			continue
		}
		look := esLookalikes(g.r, in.n())
		size := 1 + i%40
		if i >= 40 {
			size = 1 + g.r.Intn(40)
		}
		switch {
		case i%20 == 7:
			size = 0 // a multi-objective run whose archive is empty: the summary is the As-Is row alone
		case i%20 == 13:
			size = 41 + g.r.Intn(30) // beyond 40 solutions: three-digit `k-of-n` labels start at 100, two-digit ones here
		case i%40 == 27 && c.Thorough():
			size = 100 + g.r.Intn(30)
		case i%40 == 34 && in.n() >= 12:
			size = 1000 + g.r.Intn(60) // four-digit set sizes: numbers in labels and notes get a fourth digit (and, printed localised, a separator)
		}
		family := "multi"
		if size > 0 && size <= 40 && g.r.Chance(0.12) {
			family, size = "single", 1
		}
		var encs []string
		nLook := 0
		switch g.r.Intn(4) {
		case 0: // only look-alikes
			nLook = size
		case 1:
			nLook = 1 + g.r.Intn(3)
		case 2:
			nLook = g.r.Intn(2)
		}
		for _, j := range esPerm(g.r, len(look)) {
			if len(encs) >= nLook || len(encs) >= size {
				break
			}
			if look[j] == esEncode(make([]bool, in.n())) && g.r.Chance(0.8) {
				continue
			}
			encs = append(encs, look[j])
		}
		members := g.membersFromEncodings(encs)
		seen := map[string]bool{}
		for _, m := range members {
			seen[esEncode(m)] = true
		}
		members = append(members, g.randomMembers(size-len(members), seen)...)
		// shuffle so that look-alikes are not always the first rows
		for j, p := range esPerm(g.r, len(members)) {
			members[j], members[p] = members[p], members[j]
		}
		if len(members) == 0 && size != 0 {
			continue
		}
		// the run id the saver is handed: the scenario's name, or `name (r/R)` as a run of a multi-run scenario carries it;
		// names outside C12's former `Clean` alphabet included
		if g.r.Chance(0.4) {
			nm := []string{"C13", "Run 3/4 test", "two  blanks", "trial (1/1)", "As-Is baseline", "Best Solution", "x (y) z", "a/b"}[g.r.Intn(8)]
			if g.r.Chance(0.5) {
				R := []int{2, 3, 10, 11, 100}[g.r.Intn(5)]
				nm = fmt.Sprintf("%s (%d/%d)", nm, 1+g.r.Intn(R), R)
			}
			rig.runId = nm
			c.Stat("saver run id class=" + esNameClass(nm))
		}
		text, err := rig.saverSummary(family, members)
		if err != nil {
			in.fail("enginesummary:panic", "the real Saver on a harness-built solution set: "+err.Error())
			continue
		}
		ok := g.exercise(text, "saver "+family)
		// a second summary on the same engine: same labels, other rows (the pool must not serve the old ones)
		if ok && family == "multi" && g.r.Chance(0.3) {
			seen2 := map[string]bool{}
			m2 := g.randomMembers(len(members), seen2)
			if text2, err := rig.saverSummary(family, m2); err == nil && len(m2) > 0 {
				c.Stat("second summary posted to the same engine")
				g.exercise(text2, "saver multi (re-post)")
			}
		}
	}

	// ---- (iv) histories on ONE engine: summaries, rejected posts, the same-named scenario re-posted with an edited parameter
	nHist := c.N(6, 120)
	for i := 0; i < nHist; i++ {
		if !mine() {
			continue
		}
		ds := shipped[g.r.Intn(len(shipped))]
		if g.r.Chance(0.2) {
			ds = big[g.r.Intn(len(big))]
		}
		g.history(i, ds.kind, ds.arg)
	}

	// ---- D25 stream: the engine's scenario carries a limit the (unlimited) summary's solutions exceed
	nLim := c.N(3, 48)
	for i := 0; i < nLim; i++ {
		if !mine() {
			continue
		}
		ds := shipped[g.r.Intn(len(shipped))]
		if !g.startCase(ds.kind, ds.arg, "nolimit") {
			continue
		}
		// a limit between attainable values of one variable
		vi := []int{4, 5, 0, 2}[g.r.Intn(4)]
		lo := in.ref.at(make([]bool, in.n())).totals[vi]
		all := make([]bool, in.n())
		for j := range all {
			all[j] = true
		}
		hi := in.ref.at(all).totals[vi]
		if hi < lo {
			lo, hi = hi, lo
		}
		limit := math.Round((lo+(hi-lo)*(0.2+0.6*g.r.Float()))*1000) / 1000
		if vi >= 4 {
			limit = math.Round(limit)
		}
		asIsVal := in.ref.at(make([]bool, in.n())).totals[vi]
		if !(limit > asIsVal) {
			continue // the as-is state itself must be valid, or the scenario is rejected
		}
		if !g.startCase(ds.kind, ds.arg, fmt.Sprintf("limit %d %s", vi, floatBits(limit))) || !g.newEngine() {
			continue
		}
		rig, err := in.newRig()
		if err != nil {
			continue
		}
		members := g.randomMembers(3+g.r.Intn(8), map[string]bool{})
		text, err := rig.saverSummary("multi", members)
		if err != nil {
			continue
		}
		s, perr := esParseSummaryText(text)
		if perr != nil {
			in.do("layout " + esHx(text))
			continue
		}
		c.Stat("D25 stream: summary of an unlimited scenario posted to a limited engine")
		in.do("summary " + s.opTail())
		if in.do("post") != "ok" {
			continue
		}
		for _, r := range s.rows {
			in.do("getvalid " + esHx(r.label))
		}
		// … and the MODEL moved onto each member by its encoding: membership of the loaded summary says nothing about
		// validity against this engine's scenario
		for _, r := range s.rows {
			in.do("patch " + esHx(r.enc))
		}
		// the same scenario, under the same name, POSTed again with a TIGHTER limit; the summary is not posted again: labels
		// pooled before and labels first asked for now must both be judged by the limit in force (seed C03m)
		prev := limit
		for _, frac := range []float64{0.55 + 0.3*g.r.Float(), 0.1 + 0.3*g.r.Float()} { // twice: tighter, then tighter still
			tighter := math.Round((asIsVal+(limit-asIsVal)*frac)*1000) / 1000
			if vi >= 4 {
				tighter = math.Round(tighter)
			}
			if !(tighter > asIsVal && tighter < prev) {
				continue
			}
			half := len(s.rows) / 2
			if in.do("relimit "+floatBits(tighter)+strings.TrimPrefix(g.scenarioLineOf("rescenario"), "rescenario")) != "ok" {
				break
			}
			prev = tighter
			c.Stat("C03: the same scenario re-posted with a tighter limit, summary kept")
			for _, r := range s.rows[half:] {
				in.do("getvalid " + esHx(r.label))
			}
			for _, r := range s.rows[:half] {
				in.do("getvalid " + esHx(r.label))
			}
		}
	}

	// ---- (iii) the malformed stream
	nBad := c.N(60, 2400)
	for i := 0; i < nBad; i++ {
		if !mine() {
			continue
		}
		ds := shipped[g.r.Intn(len(shipped))]
		if !g.startCase(ds.kind, ds.arg, "nolimit") || !g.newEngine() {
			continue
		}
		g.malformed(i)
	}
}

// ---------------------------------------------------------------- histories

func max1(n int) int {
	if n < 1 {
		return 1
	}
	return n
}

func esNameClass(name string) string {
	var cls []string
	for _, t := range []struct{ sub, cls string }{{"As-Is", "As-Is"}, {"(1/1)", "(1/1)"}, {"Solution", "Solution"}, {"/", "slash"}, {"(", "paren"}, {" ", "blank"}} {
		if strings.Contains(name, t.sub) {
			cls = append(cls, t.cls)
		}
	}
	if len(cls) == 0 {
		return "plain"
	}
	return strings.Join(cls, "+")
}

// esParamEdits: one model parameter set to a non-default value (TOML literal).  Each changes the as-is value of at
// least one decision variable on the shipped data (SedimentProduction and the nitrogen variables follow the bank /
// gully / hill-slope terms), which is what the engine's As-Is check compares.
var esParamEdits = [][2]string{
	{"BankErosionFudgeFactor", "0.0003"}, {"BankErosionFudgeFactor", "0.0005"}, {"GullyCompensationFactor", "0.4"},
	{"SedimentDensity", "1.6"}, {"SuspendedSedimentProportion", "0.4"}, {"HillSlopeDeliveryRatio", "0.06"},
	{"YearsOfErosion", "50"}, {"WaterDensity", "1.1"}, {"LocalAcceleration", "9.8"},
}

func (g *esGen) saverText(family string, size int) (string, bool) {
	in := g.in
	rig, err := in.newRig()
	if err != nil {
		in.fail("enginesummary:panic", "catchment model for the saver: "+err.Error())
		return "", false
	}
	members := g.randomMembers(size, map[string]bool{})
	if family == "single" {
		members = members[:1]
	}
	text, err := rig.saverSummary(family, members)
	if err != nil {
		in.fail("enginesummary:panic", "the real Saver on a harness-built solution set: "+err.Error())
		return "", false
	}
	return text, true
}

// history drives ONE engine through: scenario, summary S1 (every label, every encoding), a rejected POST (S1 must still
// be served), then 1-3 rounds of { the scenario of the SAME NAME re-posted with one model parameter edited (or
// unedited), [labels of the stale table: model comparison only], the summary the explorer writes for THAT scenario -
// which must be accepted and served label by label }.  The as-is values the engine checks a summary against must be
// those of the scenario it holds NOW.
func (g *esGen) history(i int, kind string, arg int) {
	in, c, r := g.in, g.in.c, g.r
	if !g.startCase(kind, arg, "nolimit") {
		return
	}
	name := []string{"C13", "Kirkpatrick", "tweak and re-run", "As-Is baseline"}[r.Intn(4)]
	var ps esParams
	if r.Chance(0.3) {
		ps = esParams{esParamEdits[r.Intn(len(esParamEdits))]}
	}
	paramsLine := func() string {
		l := "params name=" + esHx(name)
		for _, kv := range ps {
			l += " " + kv[0] + "=" + kv[1]
		}
		return l
	}
	if in.do(paramsLine()) != "ok" || !g.newEngine() {
		return
	}
	family := []string{"multi", "multi", "single"}[r.Intn(3)]
	size := 1 + r.Intn(6)
	text, ok := g.saverText(family, size)
	if !ok {
		return
	}
	c.Stat("history: engine started")
	if !g.exercise(text, "history, first summary ("+family+")") {
		return
	}
	first, _ := esParseSummaryText(text)
	// a POST the engine rejects changes nothing: every label is still served with its row
	if r.Chance(0.7) {
		// … whatever stage rejects it: the CSV reader, the header / cell checks, or the comparison of the As-Is row with
		// the scenario (a summary of ANOTHER scenario: one as-is value altered)
		other := *first
		other.rows = append([]esRow(nil), first.rows...)
		other.rows[0].vals = append([]string(nil), first.rows[0].vals...)
		other.rows[0].vals[r.Intn(len(other.rows[0].vals))] = []string{"1.000", "0.001", "123456.789"}[r.Intn(3)]
		otherText, _ := other.marshal()
		bad := []string{"", "Solution\nx\n", "Solution, Actions, Summary\nAs-Is, zz, n\n", strings.Replace(text, "As-Is", "As-Was", 1), strings.Replace(text, "\n", ", extra\n", 1), otherText, otherText}[r.Intn(7)]
		res := in.do("posttext " + esHx(bad))
		c.Stat("history: interleaved malformed post " + res)
		for _, row := range first.rows {
			in.do("get " + esHx(row.label))
		}
	}
	rounds := 1 + r.Intn(3)
	for k := 0; k < rounds; k++ {
		before := ps.key()
		switch r.Intn(4) {
		case 0:
			ps = nil // back to crem's defaults
		case 1: // unchanged: the very same scenario text posted again
		default:
			ps = esParams{esParamEdits[r.Intn(len(esParamEdits))]}
		}
		c.Stat(fmt.Sprintf("history: same-named scenario re-posted, parameters changed=%v", before != ps.key()))
		if in.do(paramsLine()) != "ok" || !g.sameEngine() {
			return
		}
		if r.Chance(0.5) {
			// the table the engine still holds is the previous scenario's; its labels resolve against a NEW pool
			for _, row := range first.rows {
				in.do("get " + esHx(row.label))
			}
		}
		fam2, size2 := family, size
		if r.Chance(0.3) {
			fam2, size2 = "multi", 1+r.Intn(8)
		}
		var text2 string
		if c.Thorough() && r.Chance(0.15) {
			rc := esRunConfig{annealer: "Suppapitnarm", iters: 300, explore: "SedimentProduction,ImplementationCost", limVar: -1}
			if fam2 == "single" {
				rc = esRunConfig{annealer: "Kirkpatrick", iters: 200, explore: "SedimentProduction", limVar: -1}
			}
			t2, err := in.realRun(rc)
			if err != nil {
				in.fail("enginesummary:panic", "real explorer run ("+rc.annealer+"): "+err.Error())
				return
			}
			text2 = t2
		} else {
			t2, ok := g.saverText(fam2, size2)
			if !ok {
				return
			}
			text2 = t2
		}
		if !g.exercise(text2, "history, summary of the re-posted scenario ("+fam2+")") {
			return
		}
		first, _ = esParseSummaryText(text2)
		c.Nontrivial(fmt.Sprintf("history|%s|%s|%d", in.dsPath, ps.key(), len(first.rows)))
	}
}

// ---------------------------------------------------------------- corpus: witnesses of the findings, always first

func (g *esGen) corpus() {
	in, c := g.in, g.in.c
	vd := os.Getenv("VERIF_DIR")
	if vd == "" {
		return
	}
	files, _ := filepath.Glob(filepath.Join(vd, "corpus", "C13", "*.cases"))
	sort.Strings(files)
	for _, f := range files {
		for _, l := range readLines(f) {
			if strings.HasPrefix(strings.TrimSpace(l), "#") {
				continue
			}
			w := strings.Fields(l)
			if len(w) < 4 {
				continue
			}
			arg, err := strconv.Atoi(w[1])
			if err != nil {
				continue
			}
			if !g.startCase(w[0], arg, "nolimit") || !g.newEngine() {
				continue
			}
			rig, rerr := in.newRig()
			if rerr != nil {
				in.fail("enginesummary:panic", "catchment model for the saver: "+rerr.Error())
				continue
			}
			var encs []string
			flush := func() bool {
				members := g.membersFromEncodings(encs)
				if len(members) != len(encs) || len(members) == 0 {
					c.Note("corpus line with an encoding that is not one of this data set: " + l)
					return false
				}
				text, serr := rig.saverSummary(w[2], members)
				if serr != nil {
					in.fail("enginesummary:panic", "the real Saver on a corpus solution set: "+serr.Error())
					return false
				}
				c.Stat("corpus case")
				return g.exercise(text, "corpus")
			}
			ok := true
			for _, t := range w[3:] {
				if t == ";" {
					ok = flush() && ok
					encs = nil
					continue
				}
				encs = append(encs, t)
			}
			if ok || len(encs) > 0 {
				flush()
			}
		}
	}
}

// ---------------------------------------------------------------- malformed stream

func (g *esGen) baseSummary(size int) *esSummary {
	in := g.in
	rig, err := in.newRig()
	if err != nil {
		return nil
	}
	members := g.randomMembers(size, map[string]bool{})
	text, err := rig.saverSummary("multi", members)
	if err != nil {
		return nil
	}
	s, err := esParseSummaryText(text)
	if err != nil {
		return nil
	}
	return s
}

func (g *esGen) malformed(i int) {
	in, c, r := g.in, g.in.c, g.r
	size := 1 + r.Intn(5)
	if i%22 == 5 || i%22 == 6 {
		size = 7
	}
	s := g.baseSummary(size)
	if s == nil {
		return
	}
	pick := func() int { return r.Intn(len(s.rows)) }
	structured := true
	kind := ""
	switch i % 22 {
	case 0:
		kind = "duplicate label"
		s.rows = append(s.rows, s.rows[len(s.rows)-1])
		s.rows[len(s.rows)-1].enc = esEncode(g.randomBits(0.5))
	case 1:
		kind = "two As-Is rows"
		s.rows = append(s.rows, s.rows[0])
	case 2:
		kind = "lower-case encoding"
		j := pick()
		s.rows[j].enc = strings.ToLower(esEncode(g.randomBits(0.7)))
	case 3:
		kind = "wrong word count"
		s.rows[pick()].enc = []string{"1:2", "1:2:3", ":", "1:"}[r.Intn(4)]
	case 4:
		kind = "non-hex encoding"
		s.rows[pick()].enc = []string{"XYZ", "T", "true", "false", "t", "f", "TRUE", "G1", "1.5", "-1", "+1", "1e5", "Inf", "NaN", "0x1p4", "1_0", ""}[r.Intn(17)]
	case 5:
		kind = "numeric or boolean label"
		for j, l := range []string{"true", "false", "12", "1E5", "F", "1.5", "0"} {
			if j+1 < len(s.rows) {
				s.rows[j+1].label = l
			}
		}
	case 6:
		kind = "numeric or boolean note"
		for j, l := range []string{"42", "true", "F", "1e3", "", "false", "1E5"} {
			if j+1 < len(s.rows) && r.Chance(0.5) {
				s.rows[j+1].note = l
			}
		}
	case 7:
		kind = "as-is row not first"
		if len(s.rows) > 1 {
			s.rows[0], s.rows[len(s.rows)-1] = s.rows[len(s.rows)-1], s.rows[0]
		}
	case 8:
		kind = "no as-is row"
		s.rows[0].label = "0-of-9"
	case 9:
		kind = "as-is values of another scenario"
		// every variable column in turn (each is rejected, so the engine stays empty), the last one is kept
		for j := range s.rows[0].vals {
			keep := s.rows[0].vals[j]
			s.rows[0].vals[j] = []string{"1.000", "0.001", "123456.789", "NaN", "-1.000"}[r.Intn(5)]
			if j < len(s.rows[0].vals)-1 {
				if text, err := s.marshal(); err == nil {
					if s2, perr := esParseSummaryText(text); perr == nil {
						in.do("summaryx " + s2.opTail())
						c.Stat("malformed post " + in.do("post"))
					}
				}
				s.rows[0].vals[j] = keep
			}
		}
	case 10:
		kind = "fewer variable columns"
		k := r.Intn(len(s.names))
		if r.Chance(0.4) {
			k = 0
		}
		s.names = s.names[:k]
		for j := range s.rows {
			s.rows[j].vals = s.rows[j].vals[:k]
		}
	case 11:
		kind = "more variable columns"
		s.names = append(s.names, "Extra")
		for j := range s.rows {
			s.rows[j].vals = append(s.rows[j].vals, "1.000")
		}
	case 12:
		kind = "unknown variable name"
		s.names[r.Intn(len(s.names))] = []string{"SedimentProduced", "Actions", "Summary", "Solution", ""}[r.Intn(5)]
	case 13:
		kind = "label only in row 0"
		s.rows[0].label = "first"
	case 14:
		kind = "variables in another order"
		a, b := r.Intn(len(s.names)), r.Intn(len(s.names))
		s.names[a], s.names[b] = s.names[b], s.names[a]
		for j := range s.rows {
			s.rows[j].vals[a], s.rows[j].vals[b] = s.rows[j].vals[b], s.rows[j].vals[a]
		}
	case 15:
		kind = "empty label or note"
		if r.Bool() {
			s.rows[pick()].label = ""
		} else {
			s.rows[pick()].note = ""
		}
	default:
		structured = false
	}
	if structured {
		// the cells travel as the real marshaler renders them (it re-formats the value cells)
		text, err := s.marshal()
		if err != nil {
			c.Stat("malformed skipped (the marshaler cannot carry it): " + kind)
			return
		}
		s2, perr := esParseSummaryText(text)
		if len(s.names) == 0 {
			// no variable column: the writer joins the (empty) value list into an empty field, so every row has one field
			// more than the header - the model's Row.fields follows joinAttributes; the rows go to it as they are
			s2, perr = s, nil
		}
		if perr != nil || len(s2.rows) != len(s.rows) || len(s2.names) != len(s.names) {
			c.Stat("malformed (rows through the real marshaler, posted as raw text): " + kind)
			post := in.do("posttext " + esHx(text))
			c.Nontrivial(fmt.Sprintf("bad|%s|%s", kind, post))
			for _, row := range s.rows {
				in.do("get " + esHx(row.label))
			}
			return
		}
		s = s2
		c.Stat("malformed (rows through the real marshaler): " + kind)
		if res := in.do("summaryx " + s.opTail()); !strings.HasPrefix(res, esHx(text)+" ") {
			in.fail("enginesummary:summary-rejected", "re-marshalling the parsed rows of a marshalled summary does not reproduce its text")
			return
		}
		post := in.do("post")
		c.Stat("malformed post " + post)
		c.Nontrivial(fmt.Sprintf("bad|%s|%s", kind, post))
		for _, j := range esPerm(r, len(s.rows)) {
			res := in.do("get " + esHx(s.rows[j].label))
			c.Stat("malformed get " + strings.Fields(res)[0])
		}
		in.do("get " + esHx("As-Is"))
		for _, row := range s.rows {
			in.do("patch " + esHx(row.enc))
		}
		return
	}
	// raw texts
	text, _ := s.marshal()
	switch i % 22 {
	case 16:
		kind = "CRLF line ends"
		text = strings.ReplaceAll(text, "\n", "\r\n")
	case 17:
		kind = "every field quoted"
		var sb strings.Builder
		for _, l := range strings.Split(strings.TrimSuffix(text, "\n"), "\n") {
			f := strings.Split(l, ", ")
			for j := range f {
				f[j] = "\"" + f[j] + "\""
			}
			sb.WriteString(strings.Join(f, ",") + "\n")
		}
		text = sb.String()
	case 18:
		kind = "degenerate"
		text = []string{"", "\n", "Solution\n", "Solution, Actions, Summary\n", "Solution\nx\n", "Solution, Actions\nAs-Is, 0\n", "Actions, Summary\n0, x\n1, y\n",
			"Solution, Actions, Summary\nAs-Is, 0, n\nx, 1, m\n", "Solution, Summary\nAs-Is, n\nx, m\n"}[r.Intn(9)]
	case 19:
		kind = "ragged or broken rows"
		lines := strings.Split(strings.TrimSuffix(text, "\n"), "\n")
		j := r.Intn(len(lines))
		switch r.Intn(4) {
		case 0:
			lines[j] += ", extra"
		case 1:
			lines[j] = lines[j][:strings.LastIndex(lines[j], ", ")]
		case 2:
			lines[j] = strings.Replace(lines[j], ", ", ", \"", 1)
		case 3:
			lines[j] = strings.Replace(lines[j], ", ", " \" ", 1)
		}
		text = strings.Join(lines, "\n") + "\n"
	case 20:
		kind = "spaces, blank lines, missing final newline"
		text = strings.ReplaceAll(text, ", ", ",   ")
		text = strings.Replace(text, "\n", "\n\n", 1)
		text = strings.TrimSuffix(text, "\n")
	case 21:
		kind = "byte mutation"
		b := []byte(text)
		for k := 0; k < 1+r.Intn(3) && len(b) > 0; k++ {
			p := r.Intn(len(b))
			switch r.Intn(3) {
			case 0:
				b[p] = byte(r.Intn(128)) // ASCII only: the answers are observed through encoding/json, which rewrites invalid UTF-8
			case 1:
				b = append(b[:p], b[p+1:]...)
			case 2:
				b = append(b[:p], append([]byte{[]byte(",\"\n\r ;:Ee.+-")[r.Intn(12)]}, b[p:]...)...)
			}
		}
		text = string(b)
	}
	c.Stat("malformed (raw text): " + kind)
	post := in.do("posttext " + esHx(text))
	c.Stat("malformed post " + post)
	c.Nontrivial(fmt.Sprintf("bad|%s|%s", kind, post))
	for _, row := range s.rows {
		res := in.do("get " + esHx(row.label))
		c.Stat("malformed get " + strings.Fields(res)[0])
	}
	in.do("patch " + esHx(s.rows[len(s.rows)-1].enc))
}

// ---------------------------------------------------------------- %v of float64 against the model's fmtV

func (g *esGen) fmtvStream() {
	in, r := g.in, g.r
	emit := func(f float64) {
		in.do("fmtv " + floatBits(f))
		in.c.Stat("fmtv")
	}
	for _, s := range []string{"0", "12", "1000", "1E5", "2E3", "1E6", "999999", "1000000", "123456", "1234567", "1E20", "1E21", "1E22", "1E23", "123456789",
		"9007199254740992", "9007199254740993", "9999999999999999", "1234567890123456", "18446744073709551615", "1E308", "1.7976931348623157e308",
		"5e-324", "2.2250738585072014e-308", "2.2250738585072011e-308", "0.1", "0.3", "0.0001", "0.00001", "0.5", "100000.5", "1e-5", "1e-7", "-0", "-12", "-1e21",
		"inf", "-inf", "nan", "0x1p4", "0x1p-1074", "4.35", "0.000123456", "299792458", "6.02214076e23", "1e15", "1e16", "1e17", "8.41e21", "2e-323"} {
		f, _ := strconv.ParseFloat(s, 64)
		emit(f)
	}
	n := in.c.N(1500, 30000)
	for i := 0; i < n; i++ {
		switch r.Intn(6) {
		case 0: // what a digits-only encoding parses to
			d := 1 + r.Intn(20)
			var sb strings.Builder
			for j := 0; j < d; j++ {
				sb.WriteByte(byte('0' + r.Intn(10)))
			}
			f, _ := strconv.ParseFloat(sb.String(), 64)
			emit(f)
		case 1: // D+ED+
			f, err := strconv.ParseFloat(fmt.Sprintf("%dE%d", r.Intn(100000), r.Intn(330)), 64)
			if err == nil {
				emit(f)
			}
		case 2: // random bit patterns
			emit(math.Float64frombits(r.U64()))
		case 3: // near powers of ten and two
			e := r.Intn(640) - 320
			f := math.Pow(10, float64(e))
			emit(math.Float64frombits(math.Float64bits(f) + uint64(r.Intn(5)) - 2))
			emit(math.Float64frombits(math.Float64bits(math.Ldexp(1, r.Intn(2000)-1000)) + uint64(r.Intn(3)) - 1))
		case 4: // short decimals
			f, _ := strconv.ParseFloat(fmt.Sprintf("%d.%0*d", r.Intn(2000000), 1+r.Intn(4), r.Intn(1000)), 64)
			emit(f)
		case 5: // subnormals and the largest
			emit(math.Float64frombits(uint64(r.Intn(1 << 20))))
			emit(math.Float64frombits(0x7FEFFFFFFFFFFFFF - uint64(r.Intn(4))))
		}
	}
}
