//go:build verif

package main

// config-runs: property C19.  Scenario configurations are generated from a grammar as a STRUCTURED form
// (sections, keys, typed values); the structured form goes to the Lean model (Crem/Model/Config.lean), the
// rendered TOML text goes to crem's loader + interpreter (in-process, under protect).  Every configuration
// crem accepts is then RUN in a child process of this binary (scenario.Runner starts each run on a bare
// goroutine; since crem 7bb63cc a panic there is recovered and reported through Run()'s error; a panic
// anywhere else still kills the process), with a watchdog.
//
// Excluded from the generator, deliberately: OutputType = "EXCEL" and .xlsx data sources (Excel/OLE is
// Windows-only; on this platform the OLE calls panic whatever the configuration says).

import (
	"bytes"
	"fmt"
	"os"
	"os/exec"
	"path/filepath"
	"sort"
	"strconv"
	"strings"
	"sync"
	"sync/atomic"
	"syscall"
	"time"

	appData "github.com/LindsayBradford/crem/cmd/cremexplorer/config/data"
	appInterpreter "github.com/LindsayBradford/crem/cmd/cremexplorer/config/interpreter"
	"github.com/LindsayBradford/crem/internal/pkg/config/interpreter"
	"github.com/LindsayBradford/crem/internal/pkg/model"
	"github.com/LindsayBradford/crem/internal/pkg/model/models/catchment"
	"github.com/LindsayBradford/crem/internal/pkg/parameters"
)

func init() {
	register("config-runs", suiteConfig)
	register("config-child", suiteConfigChild)
}

// ---------------------------------------------------------------- structured configuration

// cfgVal is a typed TOML value.  kind: i integer, f decimal (i x 10^e MILLIONTHS: any magnitude), s string (any text:
// the protocol token escapes blanks, '%' and control characters as %XX), b boolean, p path symbol (a string whose real
// text the harness substitutes), t table, a array, d datetime.
type cfgVal struct {
	kind byte
	i    int64
	e    int // decimals only: power of ten by which i is multiplied (>= 0)
	s    string
}

type cfgEntry struct {
	sec, key string
	v        cfgVal
}

// section codes -> TOML table headers
var cfgSecHeader = map[string]string{
	"S": "Scenario", "SU": "Scenario.UserDetail", "SR": "Scenario.Reporting", "SRL": "Scenario.Reporting.LogLevelDestinations",
	"A": "Annealer", "AP": "Annealer.Parameters", "M": "Model", "MP": "Model.Parameters", "MD": "MetaData", "Z": "SomethingEntirelyUnexpected",
}
var cfgSecOrder = []string{"S", "SU", "SR", "SRL", "A", "AP", "M", "MP", "MD", "Z"} // "T" (bare top-level keys) is always rendered first

// the field of Config a table lies in: writing that field as a bare top-level VALUE and the table itself cannot both be
// in one TOML document
var cfgTopFieldOf = map[string]string{"S": "Scenario", "SU": "Scenario", "SR": "Scenario", "SRL": "Scenario", "A": "Annealer", "AP": "Annealer",
	"M": "Model", "MP": "Model", "MD": "MetaData"}

type cfgStruct struct{ es []cfgEntry }

func (c *cfgStruct) get(sec, key string) (cfgVal, bool) {
	for _, e := range c.es {
		if e.sec == sec && e.key == key {
			return e.v, true
		}
	}
	return cfgVal{}, false
}
func (c *cfgStruct) set(sec, key string, v cfgVal) {
	for i, e := range c.es {
		if e.sec == sec && e.key == key {
			c.es[i].v = v
			return
		}
	}
	c.es = append(c.es, cfgEntry{sec, key, v})
}
func (c *cfgStruct) del(sec, key string) {
	for i, e := range c.es {
		if e.sec == sec && e.key == key {
			c.es = append(c.es[:i:i], c.es[i+1:]...)
			return
		}
	}
}
func (c *cfgStruct) clone() *cfgStruct { return &cfgStruct{es: append([]cfgEntry(nil), c.es...)} }

func cfgI(i int64) cfgVal  { return cfgVal{kind: 'i', i: i} }
func cfgF(m int64) cfgVal  { return cfgVal{kind: 'f', i: m * 1000} } // m in thousandths
func cfgFu(u int64) cfgVal { return cfgVal{kind: 'f', i: u} }        // u in millionths
// cfgFe is mant x 10^exp (exp >= -6), e.g. cfgFe(18, 304) = 1.8e305
func cfgFe(mant int64, exp int) cfgVal { return cfgVal{kind: 'f', i: mant, e: exp + 6} }
func cfgS(s string) cfgVal             { return cfgVal{kind: 's', s: s} }
func cfgP(s string) cfgVal             { return cfgVal{kind: 'p', s: s} }
func cfgT() cfgVal                     { return cfgVal{kind: 't'} }
func cfgA() cfgVal                     { return cfgVal{kind: 'a'} }
func cfgD() cfgVal                     { return cfgVal{kind: 'd'} }
func cfgB(b bool) cfgVal {
	if b {
		return cfgVal{kind: 'b', i: 1}
	}
	return cfgVal{kind: 'b'}
}

// cfgEscape writes a key or string for the line protocol: blanks, '%' and control characters as %XX.
func cfgEscape(s string) string {
	var sb strings.Builder
	for _, r := range s {
		if r == ' ' || r == '%' || r < 0x20 || r == 0x7f {
			fmt.Fprintf(&sb, "%%%02X", r)
		} else {
			sb.WriteRune(r)
		}
	}
	return sb.String()
}

func cfgUnescape(s string) string {
	var sb strings.Builder
	for i := 0; i < len(s); i++ {
		if s[i] == '%' && i+2 < len(s) {
			if n, err := strconv.ParseUint(s[i+1:i+3], 16, 8); err == nil {
				sb.WriteByte(byte(n))
				i += 2
				continue
			}
		}
		sb.WriteByte(s[i])
	}
	return sb.String()
}

func (v cfgVal) token() string {
	switch v.kind {
	case 'i', 'b':
		return string(v.kind) + ":" + strconv.FormatInt(v.i, 10)
	case 'f':
		if v.i == 0 {
			return "f:0"
		}
		return "f:" + strconv.FormatInt(v.i, 10) + strings.Repeat("0", v.e)
	case 't', 'a', 'd':
		return string(v.kind) + ":"
	case 's':
		return "s:" + cfgEscape(v.s)
	default:
		return string(v.kind) + ":" + v.s
	}
}

// line is the canonical protocol form: entries sorted by (section, key).
func (c *cfgStruct) line() string {
	es := append([]cfgEntry(nil), c.es...)
	sort.Slice(es, func(i, j int) bool {
		if es[i].sec != es[j].sec {
			return es[i].sec < es[j].sec
		}
		return es[i].key < es[j].key
	})
	parts := make([]string, len(es))
	for i, e := range es {
		parts[i] = e.sec + "/" + cfgEscape(e.key) + "=" + e.v.token()
	}
	return strings.Join(parts, " ")
}

func parseSConfig(ws []string) (*cfgStruct, bool) {
	c := &cfgStruct{}
	for _, w := range ws {
		eq := strings.IndexByte(w, '=')
		sl := strings.IndexByte(w, '/')
		if eq < 0 || sl < 0 || sl > eq || len(w) < eq+3 || w[eq+2] != ':' {
			return nil, false
		}
		v := cfgVal{kind: w[eq+1]}
		rest := w[eq+3:]
		switch v.kind {
		case 'i', 'b':
			n, err := strconv.ParseInt(rest, 10, 64)
			if err != nil {
				return nil, false
			}
			v.i = n
		case 'f': // any number of digits: the zeros beyond int64 go into the exponent
			digits := rest
			for len(strings.TrimLeft(digits, "-")) > 18 && strings.HasSuffix(digits, "0") {
				digits = digits[:len(digits)-1]
				v.e++
			}
			n, err := strconv.ParseInt(digits, 10, 64)
			if err != nil {
				return nil, false
			}
			v.i = n
		case 's':
			v.s = cfgUnescape(rest)
		case 'p':
			v.s = rest
		case 't', 'a', 'd':
		default:
			return nil, false
		}
		c.es = append(c.es, cfgEntry{w[:sl], cfgUnescape(w[sl+1 : eq]), v})
	}
	return c, true
}

// ---------------------------------------------------------------- environment (path symbols)

// cfgEnv realises the path symbols of the structured form in a scratch directory.
type cfgEnv struct {
	root string // scratch directory of this case
}

func cfgRepoDir() string {
	r := os.Getenv("VERIF_REPO")
	if r == "" {
		r = "/repo"
	}
	return r
}

func (e cfgEnv) path(sym string) string {
	td := filepath.Join(cfgRepoDir(), "internal/pkg/model/models/catchment/testdata")
	switch sym {
	case "valid":
		return filepath.Join(td, "ValidModel.csv")
	case "testing":
		return filepath.Join(td, "TestingModel.csv")
	case "badcsv":
		return filepath.Join(td, "InvalidModel.csv")
	case "missing":
		return filepath.Join(e.root, "no-such-file.csv")
	case "notcsv":
		return filepath.Join(e.root, "readable.txt")
	case "dir":
		return filepath.Join(e.root, "existing-dir")
	case "new":
		return filepath.Join(e.root, "out-new")
	case "nested":
		return filepath.Join(e.root, "out-a", "b", "c")
	case "exists":
		return filepath.Join(e.root, "existing-dir")
	case "file":
		return filepath.Join(e.root, "readable.txt")
	case "prof":
		return filepath.Join(e.root, "cpu.pprof")
	case "noprofdir":
		return filepath.Join(e.root, "no-such-dir", "cpu.pprof")
	case "underfile":
		return filepath.Join(e.root, "readable.txt", "sub")
	case "devnull": // exists, neither a directory nor a regular file (a device); used as an OutputPath only
		return "/dev/null"
	case "fifo": // a named pipe; used as an OutputPath only (never opened)
		return filepath.Join(e.root, "a-named-pipe")
	}
	if cfgIsMutatedDataSet(sym) {
		return e.mutatedDataSet(sym)
	}
	return filepath.Join(e.root, "sym-"+sym)
}

func (e cfgEnv) prepare() {
	must(os.MkdirAll(filepath.Join(e.root, "existing-dir"), 0o755))
	must(os.WriteFile(filepath.Join(e.root, "readable.txt"), []byte("just text\n"), 0o644))
	if _, err := os.Lstat(filepath.Join(e.root, "a-named-pipe")); err != nil {
		syscall.Mkfifo(filepath.Join(e.root, "a-named-pipe"), 0o644)
	}
}

// ---------------------------------------------------------------- mutated copies of the shipped data sets
//
// A symbol `<class>.<base>.<edit>` names a COPY of a shipped data set (base = valid | testing: meta-file + three table
// files) with one edit.  The class is what Crem/Model/Config.lean `pathKind` reads off the prefix:
//   okd  still a data set the model can be built from            (PathKind.dataset)
//   mal  loads, has the three tables, Initialise cannot use it   (PathKind.malformedDataset)
//   unl  csv.DataSet.Load returns an error                        (PathKind.file)
// cfgDataSetEdits is the catalogue: it decides the class of an edit from these FACTS about what the catchment model reads
// (found by reading internal/pkg/model/models/catchment/{actions,variables}: every access is positional):
//   * table T has at least cfgTableColumns[T] columns (dropping ANY column shifts or truncates the ones read);
//   * the cells of the columns in cfgNumericRead[T] are read with CellFloat64: text, an empty cell or a boolean panics;
//     the other columns (DownstreamId, ChannelWidth, SubcatchmentArea, RiparianBufferArea; ActionType) are not read so;
//   * every planning unit named by the Gullies / Actions tables needs its row in the Subcatchments table (a header-only or
//     truncated Subcatchments table panics); the Gullies and Actions tables may be empty;
//   * a table file that is missing, empty (no header record) or ragged makes Load fail.
// A wrong fact shows up as a mismatch between the model's verdict and crem's.

var cfgTables = []string{"S", "G", "A"}
var cfgTableFile = map[string]map[string]string{
	"valid":   {"M": "ValidModel.csv", "S": "ValidSubcatchments.csv", "G": "ValidGullies.csv", "A": "ValidActions.csv"},
	"testing": {"M": "TestingModel.csv", "S": "TestingSubcatchments.csv", "G": "TestingGullies.csv", "A": "TestingActions.csv"},
}
var cfgTableColumns = map[string]int{"S": 12, "G": 4, "A": 15}
var cfgNumericRead = map[string][]int{"S": {0, 2, 3, 4, 6, 7, 8, 11}, "G": {0, 1, 2, 3}, "A": {0, 2, 3, 4, 5, 6, 7, 8, 9, 10, 11, 12, 13, 14}}

// cfgNoScratch is the root of an environment whose paths are only written into texts, never created.
const cfgNoScratch = "/nonexistent"

func cfgIsMutatedDataSet(sym string) bool {
	return strings.HasPrefix(sym, "okd.") || strings.HasPrefix(sym, "mal.") || strings.HasPrefix(sym, "unl.")
}

func cfgIntIn(xs []int, x int) bool {
	for _, y := range xs {
		if x == y {
			return true
		}
	}
	return false
}

// cfgRandomDataSetEdit draws one edit from the catalogue and returns its symbol (class prefix included).
func cfgRandomDataSetEdit(r *Rng) string {
	base := []string{"valid", "testing"}[r.Intn(2)]
	t := cfgTables[r.Intn(3)]
	switch r.Intn(9) {
	case 0, 1: // drop a column
		return fmt.Sprintf("mal.%s.drop-%s-%d", base, t, r.Intn(cfgTableColumns[t]))
	case 2, 3, 4: // one cell becomes text / empty / a boolean
		j := r.Intn(cfgTableColumns[t])
		class := "okd"
		if cfgIntIn(cfgNumericRead[t], j) {
			class = "mal"
		}
		return fmt.Sprintf("%s.%s.cell-%s-%d-%d-%s", class, base, t, r.Intn(2), j, []string{"t", "e", "b"}[r.Intn(3)])
	case 5: // no rows
		if t == "S" {
			return "mal." + base + ".norows-S"
		}
		return "okd." + base + ".norows-" + t
	case 6: // the table file is missing / empty / ragged
		return "unl." + base + "." + []string{"gone", "empty", "ragged"}[r.Intn(3)] + "-" + t
	case 7: // one more column at the end
		return "okd." + base + ".extracol-" + t
	default: // the last Subcatchments row is dropped: the other tables still name that planning unit
		return "mal." + base + ".lastrow-S"
	}
}

func cfgReadCsv(path string) [][]string {
	b, err := os.ReadFile(path)
	must(err)
	var recs [][]string
	for _, l := range strings.Split(strings.ReplaceAll(strings.TrimRight(string(b), "\r\n"), "\r\n", "\n"), "\n") {
		recs = append(recs, strings.Split(l, ","))
	}
	return recs
}

func cfgWriteCsv(path string, recs [][]string) {
	var sb strings.Builder
	for _, r := range recs {
		sb.WriteString(strings.Join(r, ",") + "\n")
	}
	must(os.WriteFile(path, []byte(sb.String()), 0o644))
}

// mutatedDataSet realises the symbol below the scratch root (once) and returns the path of its meta-file.
func (e cfgEnv) mutatedDataSet(sym string) string {
	parts := strings.SplitN(sym, ".", 3)
	if len(parts) != 3 || cfgTableFile[parts[1]] == nil {
		panic("config-runs: bad data-set symbol " + sym)
	}
	files := cfgTableFile[parts[1]]
	dir := filepath.Join(e.root, "ds-"+sym)
	meta := filepath.Join(dir, files["M"])
	if e.root == cfgNoScratch { // texts of the malformed stream are only loaded: nothing is realised
		return meta
	}
	if _, err := os.Stat(meta); err == nil {
		return meta
	}
	must(os.MkdirAll(dir, 0o755))
	td := filepath.Join(cfgRepoDir(), "internal/pkg/model/models/catchment/testdata")
	for _, f := range files {
		b, err := os.ReadFile(filepath.Join(td, f))
		must(err)
		must(os.WriteFile(filepath.Join(dir, f), b, 0o644))
	}
	ed := strings.Split(parts[2], "-")
	if len(ed) < 2 || files[ed[1]] == "" || ed[1] == "M" {
		panic("config-runs: bad data-set edit " + sym)
	}
	tf := filepath.Join(dir, files[ed[1]])
	num := func(i int) int { n, err := strconv.Atoi(ed[i]); must(err); return n }
	switch ed[0] {
	case "drop":
		j := num(2)
		recs := cfgReadCsv(tf)
		for i, r := range recs {
			recs[i] = append(append([]string{}, r[:j]...), r[j+1:]...)
		}
		cfgWriteCsv(tf, recs)
	case "cell":
		recs := cfgReadCsv(tf)
		recs[1+num(2)][num(3)] = map[string]string{"t": "abc", "e": "", "b": "true"}[ed[4]]
		cfgWriteCsv(tf, recs)
	case "norows":
		cfgWriteCsv(tf, cfgReadCsv(tf)[:1])
	case "lastrow":
		recs := cfgReadCsv(tf)
		cfgWriteCsv(tf, recs[:len(recs)-1])
	case "extracol":
		recs := cfgReadCsv(tf)
		for i := range recs {
			if i == 0 {
				recs[i] = append(recs[i], "Extra")
			} else {
				recs[i] = append(recs[i], "9")
			}
		}
		cfgWriteCsv(tf, recs)
	case "gone":
		must(os.Remove(tf))
	case "empty":
		must(os.WriteFile(tf, nil, 0o644))
	case "ragged":
		recs := cfgReadCsv(tf)
		cfgWriteCsv(tf, append(recs, recs[len(recs)-1][:2]))
	default:
		panic("config-runs: bad data-set edit " + sym)
	}
	return meta
}

// ---------------------------------------------------------------- TOML rendering

// cfgRenderDecimal writes i x 10^e millionths as a TOML float.  style 0 = plain digits (fixed point), 1 = with an
// exponent; both denote the same decimal, so the same double.
func cfgRenderDecimal(i int64, e int, style int) string {
	neg := i < 0
	if neg {
		i = -i
	}
	var s string
	switch {
	case i == 0:
		s = "0.0"
		if style == 1 {
			s = "0e0"
		}
	case style == 1 || e > 400:
		d, z := i, e-6
		for d%10 == 0 {
			d /= 10
			z++
		}
		ds := strconv.FormatInt(d, 10)
		if len(ds) > 1 && i%7 == 0 { // a fraction in the mantissa now and then: 1.5e-4
			s = ds[:1] + "." + ds[1:] + "e" + strconv.Itoa(z+len(ds)-1)
		} else {
			s = ds + "e" + strconv.Itoa(z)
		}
	case e >= 6:
		s = strconv.FormatInt(i, 10) + strings.Repeat("0", e-6) + ".0"
	default:
		ds := strconv.FormatInt(i, 10) + strings.Repeat("0", e)
		for len(ds) < 7 {
			ds = "0" + ds
		}
		s = ds[:len(ds)-6] + "." + ds[len(ds)-6:]
		s = strings.TrimRight(s, "0")
		if strings.HasSuffix(s, ".") {
			s += "0"
		}
	}
	if neg {
		s = "-" + s
	}
	return s
}

// cfgTomlQuote writes a TOML basic string (toml v0.3.1 knows \b \t \n \f \r \" \\ \uXXXX \UXXXXXXXX only).
func cfgTomlQuote(s string) string {
	var sb strings.Builder
	sb.WriteByte('"')
	for _, r := range s {
		switch {
		case r == '"':
			sb.WriteString(`\"`)
		case r == '\\':
			sb.WriteString(`\\`)
		case r == '\n':
			sb.WriteString(`\n`)
		case r == '\t':
			sb.WriteString(`\t`)
		case r < 0x20 || r == 0x7f:
			fmt.Fprintf(&sb, `\u%04X`, r)
		default:
			sb.WriteRune(r)
		}
	}
	sb.WriteByte('"')
	return sb.String()
}

func cfgIsBareKey(k string) bool {
	if k == "" {
		return false
	}
	for _, r := range k {
		if !(r >= 'A' && r <= 'Z' || r >= 'a' && r <= 'z' || r >= '0' && r <= '9' || r == '_' || r == '-') {
			return false
		}
	}
	return true
}

// cfgVaryCase changes the case of some letters of a table-header component (struct fields are matched by EqualFold).
func cfgVaryCase(s string, r *Rng) string {
	switch r.Intn(3) {
	case 0:
		return strings.ToLower(s)
	case 1:
		return strings.ToUpper(s)
	}
	b := []byte(s)
	for i := range b {
		if r.Chance(0.3) {
			if b[i] >= 'a' && b[i] <= 'z' {
				b[i] -= 32
			} else if b[i] >= 'A' && b[i] <= 'Z' {
				b[i] += 32
			}
		}
	}
	return string(b)
}

func cfgGroupDigits(n int64) string {
	s := strconv.FormatInt(n, 10)
	if n < 1000 {
		return s
	}
	var out []byte
	for i, ch := range []byte(s) {
		if i > 0 && (len(s)-i)%3 == 0 {
			out = append(out, '_')
		}
		out = append(out, ch)
	}
	return string(out)
}

// render turns the structured form into TOML text.  r drives presentation-only variation (section order,
// key order, comments, blank lines, digit grouping, the lower-case [scenario] header crem's own fixtures use):
// none of it is part of the structured form the model sees.
func (c *cfgStruct) render(env cfgEnv, r *Rng) string {
	bySec := map[string][]cfgEntry{}
	for _, e := range c.es {
		bySec[e.sec] = append(bySec[e.sec], e)
	}
	order := append([]string(nil), cfgSecOrder...)
	if r != nil && r.Chance(0.5) {
		for i := len(order) - 1; i > 0; i-- {
			j := r.Intn(i + 1)
			order[i], order[j] = order[j], order[i]
		}
	}
	var sb strings.Builder
	if r != nil && r.Chance(0.2) {
		sb.WriteString("# generated by the config-runs suite\n\n")
	}
	order = append([]string{"T"}, order...)
	for _, sec := range order {
		es := bySec[sec]
		if len(es) == 0 {
			continue
		}
		if r != nil {
			for i := len(es) - 1; i > 0; i-- {
				j := r.Intn(i + 1)
				es[i], es[j] = es[j], es[i]
			}
		}
		h := cfgSecHeader[sec]
		if sec == "S" && r != nil && r.Chance(0.15) {
			h = "scenario"
		} else if sec != "Z" && r != nil && r.Chance(0.08) {
			// every component of a header names a struct field (the last one possibly a map field): matched by EqualFold
			parts := strings.Split(h, ".")
			for i := range parts {
				if r.Chance(0.6) {
					parts[i] = cfgVaryCase(parts[i], r)
				}
			}
			h = strings.Join(parts, ".")
		}
		if sec != "T" {
			sb.WriteString("[" + h + "]\n")
		}
		for _, e := range es {
			if cfgIsBareKey(e.key) {
				sb.WriteString(e.key)
			} else {
				sb.WriteString(cfgTomlQuote(e.key))
			}
			if r != nil && r.Chance(0.5) {
				sb.WriteString(" = ")
			} else {
				sb.WriteString("=")
			}
			switch e.v.kind {
			case 'i':
				if r != nil && r.Chance(0.3) && e.v.i >= 1000 {
					sb.WriteString(cfgGroupDigits(e.v.i))
				} else {
					sb.WriteString(strconv.FormatInt(e.v.i, 10))
				}
			case 'f':
				style := 0
				if r != nil && r.Chance(0.25) || e.v.e > 6 && (r == nil || r.Chance(0.6)) {
					style = 1
				}
				sb.WriteString(cfgRenderDecimal(e.v.i, e.v.e, style))
			case 'b':
				if e.v.i != 0 {
					sb.WriteString("true")
				} else {
					sb.WriteString("false")
				}
			case 's':
				sb.WriteString(cfgTomlQuote(e.v.s))
			case 'p':
				sb.WriteString(cfgTomlQuote(env.path(e.v.s)))
			case 't':
				sb.WriteString("{ inner = 1 }")
			case 'a':
				sb.WriteString([]string{"[1, 2]", "[]", `["a", "b"]`, "[[1], [2.5]]"}[len(e.key)%4])
			case 'd':
				sb.WriteString("1979-05-27T07:32:00Z")
			}
			if r != nil && r.Chance(0.1) {
				sb.WriteString("   # a comment")
			}
			sb.WriteString("\n")
		}
		if r != nil && r.Chance(0.5) {
			sb.WriteString("\n")
		}
	}
	return sb.String()
}

// ---------------------------------------------------------------- grammar

var cfgAnnealers = []string{"Kirkpatrick", "Suppapitnarm", "AveragedSuppapitnarm"}
var cfgModels = []string{"CatchmentModel", "DumbModel", "MultiObjectiveDumbModel", "NullModel"}

// cfgAlt is one alternative of a grammar production: set (or delete, when del) one key; respell: write the key that
// is there under `key` (a canonical name) with the spelling `as` instead, keeping its value (or `v` when it is absent).
type cfgAlt struct {
	sec, key string
	v        cfgVal
	del      bool
	as       string
	tag      string
}

func cfgAlt1(sec, key string, v cfgVal) cfgAlt {
	return cfgAlt{sec: sec, key: key, v: v, tag: sec + "/" + key + "=" + v.token()}
}
func cfgAltDel(sec, key string) cfgAlt {
	return cfgAlt{sec: sec, key: key, del: true, tag: sec + "/" + key + "=absent"}
}
func cfgAltSpell(sec, key, as string, dflt cfgVal) cfgAlt {
	return cfgAlt{sec: sec, key: key, as: as, v: dflt, tag: sec + "/" + key + "~" + cfgEscape(as)}
}

// the tables decoded into Go structs: toml v0.3.1 matches their keys with the field names by strings.EqualFold
var cfgStructSec = map[string]bool{"S": true, "SR": true, "A": true, "M": true, "MD": true, "T": true}

// cfgFold is strings.EqualFold's canonical form for ASCII field names (the Kelvin sign folds to k, the long s to s).
func cfgFold(k string) string {
	return strings.ToLower(strings.NewReplacer("\u212a", "k", "\u017f", "s").Replace(k))
}

// limit zones of a data set, extracted from the real catchment model (see cfgLimitZones)
type cfgZone struct{ bind, never int64 } // MILLIONTHS: limit <= bind is certain to bind, limit >= never certainly never binds

type cfgGen struct {
	zones map[string][]cfgZone // data-set symbol -> per variable (order of varNames)
	static map[string][]cfgAlt // (annealer/model) -> the alternatives that do not depend on the current configuration
	rng   *Rng                 // draws the random data-set edits offered as alternatives (nil: none are offered)
	env   *cfgEnv              // where the data sets named by `okd.` symbols are realised for cfgLimitZones
}

// zonesOf returns (computing them from the real model on first use) the limit zones of a data-set symbol.
func (g *cfgGen) zonesOf(sym string) []cfgZone {
	if zs, ok := g.zones[sym]; ok {
		return zs
	}
	if g.env == nil || !pathKindIsDataSet(sym) {
		return nil
	}
	var zs []cfgZone
	if p := protect(func() { zs = cfgLimitZones(g.env.path(sym)) }); p != "" {
		zs = nil
	}
	g.zones[sym] = zs
	return zs
}

// pathKindIsDataSet mirrors Crem/Model/Config.lean `pathKind sym = .dataset`.
func pathKindIsDataSet(sym string) bool {
	return sym == "valid" || sym == "testing" || strings.HasPrefix(sym, "okd.")
}

// names that matter for the summary FILE (Runner.generateCloneId + Summary.FileNameSafeId + os.OpenFile): blanks,
// parentheses, the text "Solution (" the greedy expression of FileNameSafeId reacts to, the 255-byte limit of a file
// name component seen from both sides ("-Summary.csv" is 12 bytes, "-Summary.json" 13, the run part "(r_of_R)" 8),
// bytes versus characters, a NUL, quoting, a line break
var cfgSpecialNames = []string{
	"two words", "My Solution (a)", "Best Solution", "Solution (", "X Solution (y) tail", "par(en)the/ses", "tab\there",
	"a\x00b", strings.Repeat("n", 300), strings.Repeat("n", 243), strings.Repeat("n", 244), strings.Repeat("n", 242),
	strings.Repeat("n", 235), strings.Repeat("n", 236), strings.Repeat("\u00e9", 122), strings.Repeat("\u00e9", 121) + "x",
	"percent%41", "quote\"back\\slash", "line\nbreak", " ", "Solution(x)\nrest", "\u00fcn\u00ef c\u00f6d\u00e9 \u2713",
}

func (g *cfgGen) base(ann, mdl string, r *Rng) *cfgStruct {
	c := &cfgStruct{}
	c.set("S", "Name", cfgS("scn"))
	c.set("S", "OutputPath", cfgP("new"))
	c.set("A", "Type", cfgS(ann))
	c.set("M", "Type", cfgS(mdl))
	c.set("AP", "MaximumIterations", cfgI(int64([]int{3, 5, 8}[r.Intn(3)])))
	c.set("AP", "StartingTemperature", cfgF(10000))
	c.set("AP", "CoolingFactor", cfgF(900))
	// quiet by default (the annealing log goes to stdout otherwise); switched back on by alternatives
	c.set("SRL", "Annealing", cfgS("Discarded"))
	switch mdl {
	case "CatchmentModel":
		c.set("MP", "DataSourcePath", cfgP([]string{"valid", "valid", "testing"}[r.Intn(3)]))
		if ann == "Kirkpatrick" {
			c.set("AP", "DecisionVariable", cfgS(varNames[r.Intn(len(varNames))]))
		}
	case "MultiObjectiveDumbModel":
		c.set("MP", "NumberOfPlanningUnits", cfgI(int64(1+r.Intn(4))))
		if ann == "Kirkpatrick" {
			c.set("AP", "DecisionVariable", cfgS("Objective_"+strconv.Itoa(r.Intn(3))))
		}
	}
	if ann != "Kirkpatrick" {
		c.set("AP", "InitialReturnToBaseStep", cfgI(int64(1+r.Intn(4))))
		c.set("AP", "MinimumReturnToBaseRate", cfgI(int64(1+r.Intn(3))))
	}
	return c
}

// alternatives lists every single-key alternative applicable to (annealer, model): present/absent,
// mistyped, boundary, invalid enum, unknown keys.
func (g *cfgGen) alternatives(ann, mdl string, cur *cfgStruct) []cfgAlt {
	if g.static == nil {
		g.static = map[string][]cfgAlt{}
	}
	static, ok := g.static[ann+"/"+mdl]
	if !ok {
		static = g.staticAlternatives(ann, mdl)
		g.static[ann+"/"+mdl] = static
	}
	out := make([]cfgAlt, len(static), len(static)+64)
	copy(out, static)
	if mdl == "CatchmentModel" {
		out = append(out, g.dataAlternatives(cur)...)
	}
	return out
}

// dataAlternatives: the alternatives of a catchment model that depend on the data set named at the moment (limits in its
// zones) or are drawn afresh (mutated copies of the shipped data sets).
func (g *cfgGen) dataAlternatives(cur *cfgStruct) []cfgAlt {
	var out []cfgAlt
	add := func(x ...cfgAlt) { out = append(out, x...) }
	// mutated copies of the shipped data sets: harmless edits, content Initialise cannot use, table files that do not load
	if g.rng != nil {
		for k := 0; k < 6; k++ {
			add(cfgAlt1("MP", "DataSourcePath", cfgP(cfgRandomDataSetEdit(g.rng))))
		}
	}
	ds := "valid"
	if v, ok := cur.get("MP", "DataSourcePath"); ok && v.kind == 'p' {
		ds = v.s
	}
	if zs := g.zonesOf(ds); zs != nil {
		for vi, k := range varMaxKey {
			if zs[vi].bind > 0 {
				add(cfgAlt1("MP", k, cfgFu(zs[vi].bind/2)), cfgAlt1("MP", k, cfgFu(zs[vi].bind)))
			}
			add(cfgAlt1("MP", k, cfgFu(zs[vi].never)), cfgAlt1("MP", k, cfgFu(zs[vi].never*3)))
		}
	}
	return out
}

func (g *cfgGen) staticAlternatives(ann, mdl string) []cfgAlt {
	var out []cfgAlt
	add := func(x ...cfgAlt) { out = append(out, x...) }
	// ---- Scenario
	add(cfgAltDel("S", "Name"), cfgAlt1("S", "Name", cfgS("")), cfgAlt1("S", "Name", cfgI(42)), cfgAlt1("S", "Name", cfgS("Other-Name_2")), cfgAlt1("S", "Name", cfgS("slash/name")))
	add(cfgAlt1("S", "RunNumber", cfgI(0)), cfgAlt1("S", "RunNumber", cfgI(1)), cfgAlt1("S", "RunNumber", cfgI(2)), cfgAlt1("S", "RunNumber", cfgI(3)), cfgAlt1("S", "RunNumber", cfgI(-1)),
		cfgAlt1("S", "RunNumber", cfgS("NAN")), cfgAlt1("S", "RunNumber", cfgF(1500)))
	for _, n := range cfgSpecialNames {
		add(cfgAlt1("S", "Name", cfgS(n)))
	}
	// ---- spellings: keys of the struct tables are matched up to case (EqualFold: also the Kelvin sign for k, the long s
	// for s); keys of the map tables (parameters, log level destinations, user detail) are kept as written
	add(cfgAltSpell("S", "Name", "name", cfgS("scn")), cfgAltSpell("S", "Name", "NAME", cfgS("scn")), cfgAltSpell("S", "RunNumber", "runnumber", cfgI(2)),
		cfgAltSpell("S", "OutputPath", "outputPATH", cfgP("new")), cfgAltSpell("S", "OutputType", "OUTPUTTYPE", cfgS("JSON")),
		cfgAltSpell("S", "MaximumConcurrentRunNumber", "maximumconcurrentrunnumber", cfgI(2)), cfgAltSpell("S", "CpuProfilePath", "cpuprofilepath", cfgP("prof")),
		cfgAltSpell("S", "OutputLevel", "outputlevel", cfgS("Detail")),
		cfgAltSpell("SR", "ReportEveryNumberOfIterations", "reporteverynumberofiterations", cfgI(0)),
		cfgAltSpell("SR", "ReportEveryNumberOfIterations", "ReportEveryNumberOfIteration\u017f", cfgI(2)),
		cfgAltSpell("SR", "CheckingLoopInvariant", "Chec\u212aingLoopInvariant", cfgB(true)), cfgAltSpell("SR", "CheckingLoopInvariant", "checkingloopinvariant", cfgB(true)),
		cfgAltSpell("SR", "Type", "TYPE", cfgS("BareBones")), cfgAltSpell("SR", "Formatter", "formatter", cfgS("JSON")),
		cfgAltSpell("A", "Type", "type", cfgS(ann)), cfgAltSpell("A", "Type", "TYPE", cfgS(ann)), cfgAltSpell("A", "EventNotifier", "eventnotifier", cfgS("Concurrent")),
		cfgAltSpell("M", "Type", "type", cfgS(mdl)), cfgAltSpell("M", "Type", "tYPE", cfgS(mdl)), cfgAltSpell("MD", "FilePath", "filepath", cfgS("somewhere")),
		cfgAltSpell("AP", "MaximumIterations", "maximumiterations", cfgI(5)), cfgAltSpell("MP", "DataSourcePath", "datasourcepath", cfgP("valid")),
		cfgAltSpell("SRL", "Annealing", "annealing", cfgS("Discarded")), cfgAltSpell("MP", "InitialObjectiveValue", "initialobjectivevalue", cfgF(1000000)))
	// ---- a struct table written as a value; arrays and datetimes (no scalar field takes them, a map field skips them,
	// a free map stores them)
	add(cfgAlt1("S", "Reporting", cfgI(1)), cfgAlt1("S", "Reporting", cfgT()), cfgAlt1("S", "reporting", cfgS("x")), cfgAlt1("S", "Reporting", cfgA()))
	// the fields of Config itself as bare top-level values, an unknown bare key
	add(cfgAlt1("T", "Scenario", cfgI(1)), cfgAlt1("T", "Scenario", cfgT()), cfgAlt1("T", "annealer", cfgS("x")), cfgAlt1("T", "Model", cfgA()), cfgAlt1("T", "MODEL", cfgB(true)),
		cfgAlt1("T", "MetaData", cfgD()), cfgAlt1("T", "metadata", cfgT()), cfgAlt1("T", "MetaData", cfgI(0)), cfgAlt1("T", "Bogus", cfgI(1)), cfgAlt1("T", "Title", cfgS("x")))
	add(cfgAlt1("S", "Name", cfgA()), cfgAlt1("S", "RunNumber", cfgA()), cfgAlt1("S", "OutputPath", cfgD()), cfgAlt1("S", "UserDetail", cfgA()),
		cfgAlt1("SU", "ArrayEntry", cfgA()), cfgAlt1("SU", "DateEntry", cfgD()), cfgAlt1("SR", "LogLevelDestinations", cfgD()), cfgAlt1("SR", "CheckingLoopInvariant", cfgA()),
		cfgAlt1("SRL", "Annealing", cfgA()), cfgAlt1("A", "Type", cfgD()), cfgAlt1("A", "Parameters", cfgA()), cfgAlt1("AP", "MaximumIterations", cfgA()),
		cfgAlt1("AP", "Rogue", cfgD()), cfgAlt1("M", "Type", cfgA()), cfgAlt1("M", "Parameters", cfgD()), cfgAlt1("MP", "RogueArray", cfgA()))
	// ---- decimals of every magnitude and notation: huge ones are fine in a free map, beyond the doubles they are a parse error
	add(cfgAlt1("SU", "HugeEntry", cfgFe(1, 308)), cfgAlt1("SU", "HugeEntry", cfgFe(18, 307)), cfgAlt1("SU", "TinyEntry", cfgFu(1)), cfgAlt1("AP", "Rogue", cfgFe(1, 309)),
		// the temperature is LOGGED with six decimals (RoundFloat panics beyond MaxFloat64/10^6 = 1.797e302) unless the level is discarded
		cfgAlt1("AP", "StartingTemperature", cfgFe(1, 300)), cfgAlt1("AP", "StartingTemperature", cfgFe(179, 300)), cfgAlt1("AP", "StartingTemperature", cfgFe(18, 301)),
		cfgAlt1("AP", "StartingTemperature", cfgFe(1, 308)), cfgAlt1("AP", "StartingTemperature", cfgFu(1)), cfgAlt1("AP", "CoolingFactor", cfgFu(999999)),
		cfgAlt1("AP", "CoolingFactor", cfgFu(1000001)), cfgAlt1("AP", "CoolingFactor", cfgFu(1)))
	// both sides of the bound checkMandatoryFields puts on RunNumber (2^31 - 1, the sync.WaitGroup counter) and values far from
	// it; accepted ones above cfgRunLimit are never run (cfgTooLongToRun): only their accept/reject verdict is compared.
	// The negatives are ones whose low 32 bits are negative too: in a tree without the bound they panic at once in
	// WaitGroup.Add instead of looping over 2^63 runs.
	for _, n := range []int64{-2, -1000000, 1000000, 1000001, cfgMaxRunNumber - 1, cfgMaxRunNumber, cfgMaxRunNumber + 1, 1<<32 + 1, 1<<63 - 1} {
		add(cfgAlt1("S", "RunNumber", cfgI(n)))
	}
	add(cfgAlt1("S", "MaximumConcurrentRunNumber", cfgI(0)), cfgAlt1("S", "MaximumConcurrentRunNumber", cfgI(1)), cfgAlt1("S", "MaximumConcurrentRunNumber", cfgI(2)),
		cfgAlt1("S", "MaximumConcurrentRunNumber", cfgI(-1)), cfgAlt1("S", "MaximumConcurrentRunNumber", cfgS("two")))
	add(cfgAltDel("S", "OutputPath"), cfgAlt1("S", "OutputPath", cfgS("")), cfgAlt1("S", "OutputPath", cfgP("exists")), cfgAlt1("S", "OutputPath", cfgP("nested")),
		cfgAlt1("S", "OutputPath", cfgP("file")), cfgAlt1("S", "OutputPath", cfgF(42420)),
		// an existing non-directory of any content (data-set files) and a path BELOW a file (stat fails, not with not-exist)
		cfgAlt1("S", "OutputPath", cfgP("valid")), cfgAlt1("S", "OutputPath", cfgP("badcsv")), cfgAlt1("S", "OutputPath", cfgP("underfile")),
		// … and existing paths that are neither directories nor regular files: a device, a named pipe
		cfgAlt1("S", "OutputPath", cfgP("devnull")), cfgAlt1("S", "OutputPath", cfgP("fifo")),
		cfgAlt1("S", "OutputPath", cfgP("mal.valid.norows-S")), cfgAlt1("S", "OutputPath", cfgP("unl.testing.gone-G")))
	add(cfgAlt1("S", "OutputType", cfgS("CSV")), cfgAlt1("S", "OutputType", cfgS("JSON")), cfgAlt1("S", "OutputType", cfgS("XML")), cfgAlt1("S", "OutputType", cfgS("csv")),
		cfgAlt1("S", "OutputType", cfgI(42)), cfgAlt1("S", "OutputType", cfgS("")))
	add(cfgAlt1("S", "OutputLevel", cfgS("Summary")), cfgAlt1("S", "OutputLevel", cfgS("Detail")), cfgAlt1("S", "OutputLevel", cfgS("Verbose")), cfgAlt1("S", "OutputLevel", cfgB(true)))
	add(cfgAlt1("S", "CpuProfilePath", cfgP("prof")), cfgAlt1("S", "CpuProfilePath", cfgP("noprofdir")), cfgAlt1("S", "CpuProfilePath", cfgS("")), cfgAlt1("S", "CpuProfilePath", cfgI(42)),
		cfgAlt1("S", "CpuProfilePath", cfgP("nested")), cfgAlt1("S", "CpuProfilePath", cfgP("dir")), cfgAlt1("S", "CpuProfilePath", cfgP("file")),
		cfgAlt1("S", "CpuProfilePath", cfgP("underfile")))
	add(cfgAlt1("S", "Bogus", cfgI(1)), cfgAlt1("S", "Reportin", cfgS("x")), cfgAlt1("S", "UserDetail", cfgS("notATable")))
	add(cfgAlt1("SU", "TextEntry", cfgS("SomeText")), cfgAlt1("SU", "IntegerEntry", cfgI(42)), cfgAlt1("SU", "FloatEntry", cfgF(42420)), cfgAlt1("SU", "BooleanEntry", cfgB(true)), cfgAlt1("SU", "TableEntry", cfgT()))
	// ---- Reporting
	add(cfgAlt1("SR", "ReportEveryNumberOfIterations", cfgI(0)), cfgAlt1("SR", "ReportEveryNumberOfIterations", cfgI(1)), cfgAlt1("SR", "ReportEveryNumberOfIterations", cfgI(2)),
		cfgAlt1("SR", "ReportEveryNumberOfIterations", cfgI(5)), cfgAlt1("SR", "ReportEveryNumberOfIterations", cfgI(-1)), cfgAlt1("SR", "ReportEveryNumberOfIterations", cfgS("often")),
		cfgAlt1("SR", "ReportEveryNumberOfIterations", cfgF(2000)))
	add(cfgAlt1("SR", "CheckingLoopInvariant", cfgB(true)), cfgAlt1("SR", "CheckingLoopInvariant", cfgB(false)), cfgAlt1("SR", "CheckingLoopInvariant", cfgS("yes")), cfgAlt1("SR", "CheckingLoopInvariant", cfgI(1)))
	add(cfgAlt1("SR", "Type", cfgS("NativeLibrary")), cfgAlt1("SR", "Type", cfgS("BareBones")), cfgAlt1("SR", "Type", cfgS("Syslog")), cfgAlt1("SR", "Type", cfgI(7)))
	add(cfgAlt1("SR", "Formatter", cfgS("RawMessage")), cfgAlt1("SR", "Formatter", cfgS("JSON")), cfgAlt1("SR", "Formatter", cfgS("NameValuePair")), cfgAlt1("SR", "Formatter", cfgS("Xml")))
	add(cfgAlt1("SR", "Verbosity", cfgI(3)), cfgAlt1("SR", "LogLevelDestinations", cfgS("notATable")))
	add(cfgAltDel("SRL", "Annealing"), cfgAlt1("SRL", "Annealing", cfgS("StandardOutput")), cfgAlt1("SRL", "Annealing", cfgS("StandardError")), cfgAlt1("SRL", "Annealing", cfgS("Nowhere")), cfgAlt1("SRL", "Annealing", cfgI(1)))
	for _, lvl := range []string{"Debugging", "Information", "Warnings", "Errors", "Model", "Custom"} {
		add(cfgAlt1("SRL", lvl, cfgS("Discarded")), cfgAlt1("SRL", lvl, cfgS("StandardError")))
	}
	add(cfgAlt1("SRL", "Model", cfgS("StandardOutput")), cfgAlt1("SRL", "Errors", cfgS("File")), cfgAlt1("SRL", "Debugging", cfgB(true)))
	// ---- Annealer
	add(cfgAltDel("A", "Type"), cfgAlt1("A", "Type", cfgS("")), cfgAlt1("A", "Type", cfgS("Annealotron")), cfgAlt1("A", "Type", cfgI(42)), cfgAlt1("A", "Type", cfgS("kirkpatrick")))
	for _, t := range cfgAnnealers {
		add(cfgAlt1("A", "Type", cfgS(t)))
	}
	add(cfgAlt1("A", "EventNotifier", cfgS("Sequential")), cfgAlt1("A", "EventNotifier", cfgS("Concurrent")), cfgAlt1("A", "EventNotifier", cfgS("Synchronous")), cfgAlt1("A", "EventNotifier", cfgI(1)))
	add(cfgAlt1("A", "Speed", cfgI(11)), cfgAlt1("A", "Parameters", cfgS("notATable")))
	add(cfgAltDel("AP", "MaximumIterations"), cfgAlt1("AP", "MaximumIterations", cfgI(0)), cfgAlt1("AP", "MaximumIterations", cfgI(1)), cfgAlt1("AP", "MaximumIterations", cfgI(2)),
		cfgAlt1("AP", "MaximumIterations", cfgI(3)), cfgAlt1("AP", "MaximumIterations", cfgI(20)), cfgAlt1("AP", "MaximumIterations", cfgI(-1)), cfgAlt1("AP", "MaximumIterations", cfgF(5000)),
		cfgAlt1("AP", "MaximumIterations", cfgS("many")))
	add(cfgAltDel("AP", "StartingTemperature"), cfgAlt1("AP", "StartingTemperature", cfgF(0)), cfgAlt1("AP", "StartingTemperature", cfgF(1)), cfgAlt1("AP", "StartingTemperature", cfgF(-1000)),
		cfgAlt1("AP", "StartingTemperature", cfgI(10)), cfgAlt1("AP", "StartingTemperature", cfgS("hot")), cfgAlt1("AP", "StartingTemperature", cfgF(1000000000)))
	add(cfgAltDel("AP", "CoolingFactor"), cfgAlt1("AP", "CoolingFactor", cfgF(0)), cfgAlt1("AP", "CoolingFactor", cfgF(1000)), cfgAlt1("AP", "CoolingFactor", cfgF(1001)), cfgAlt1("AP", "CoolingFactor", cfgF(-1)),
		cfgAlt1("AP", "CoolingFactor", cfgI(1)), cfgAlt1("AP", "CoolingFactor", cfgB(true)))
	add(cfgAltDel("AP", "DecisionVariable"), cfgAlt1("AP", "DecisionVariable", cfgS("ObjectiveValue")), cfgAlt1("AP", "DecisionVariable", cfgS("SedimentVsCost")), cfgAlt1("AP", "DecisionVariable", cfgI(3)),
		cfgAlt1("AP", "DecisionVariable", cfgS("")), cfgAlt1("AP", "DecisionVariable", cfgS("Objective_1")), cfgAlt1("AP", "DecisionVariable", cfgS("Objective_3")))
	for _, n := range varNames {
		add(cfgAlt1("AP", "DecisionVariable", cfgS(n)))
	}
	add(cfgAlt1("AP", "OptimisationDirection", cfgS("Minimising")), cfgAlt1("AP", "OptimisationDirection", cfgS("Maximising")), cfgAlt1("AP", "OptimisationDirection", cfgS("Sideways")), cfgAlt1("AP", "OptimisationDirection", cfgI(1)))
	add(cfgAlt1("AP", "ReturnToBaseAdjustmentFactor", cfgF(0)), cfgAlt1("AP", "ReturnToBaseAdjustmentFactor", cfgF(500)), cfgAlt1("AP", "ReturnToBaseAdjustmentFactor", cfgF(1000)),
		cfgAlt1("AP", "ReturnToBaseAdjustmentFactor", cfgF(1500)), cfgAlt1("AP", "ReturnToBaseAdjustmentFactor", cfgI(1)))
	add(cfgAltDel("AP", "InitialReturnToBaseStep"), cfgAlt1("AP", "InitialReturnToBaseStep", cfgI(0)), cfgAlt1("AP", "InitialReturnToBaseStep", cfgI(1)), cfgAlt1("AP", "InitialReturnToBaseStep", cfgI(2)),
		cfgAlt1("AP", "InitialReturnToBaseStep", cfgI(-3)), cfgAlt1("AP", "InitialReturnToBaseStep", cfgF(2000)))
	add(cfgAltDel("AP", "MinimumReturnToBaseRate"), cfgAlt1("AP", "MinimumReturnToBaseRate", cfgI(0)), cfgAlt1("AP", "MinimumReturnToBaseRate", cfgI(1)), cfgAlt1("AP", "MinimumReturnToBaseRate", cfgI(-1)),
		cfgAlt1("AP", "MinimumReturnToBaseRate", cfgS("slow")))
	add(cfgAlt1("AP", "ReturnToBaseIsolationFraction", cfgF(0)), cfgAlt1("AP", "ReturnToBaseIsolationFraction", cfgF(900)), cfgAlt1("AP", "ReturnToBaseIsolationFraction", cfgF(2000)))
	add(cfgAlt1("AP", "CheckNonDominance", cfgB(true)), cfgAlt1("AP", "CheckNonDominance", cfgB(false)), cfgAlt1("AP", "CheckNonDominance", cfgS("true")), cfgAlt1("AP", "CheckNonDominance", cfgI(0)))
	add(cfgAlt1("AP", "HereIsARogueAnnealerParameter", cfgF(200)), cfgAlt1("AP", "Nested", cfgT()))
	// ---- Model
	add(cfgAltDel("M", "Type"), cfgAlt1("M", "Type", cfgS("")), cfgAlt1("M", "Type", cfgS("TestModel")), cfgAlt1("M", "Type", cfgI(42)), cfgAlt1("M", "Type", cfgS("Dumb")), cfgAlt1("M", "Type", cfgS("catchmentmodel")))
	for _, t := range cfgModels {
		add(cfgAlt1("M", "Type", cfgS(t)))
	}
	add(cfgAlt1("M", "Version", cfgI(2)), cfgAlt1("M", "Parameters", cfgI(3)))
	add(cfgAlt1("MP", "HereIsARogueModelParameter", cfgF(200)))
	switch mdl {
	case "DumbModel":
		for _, k := range []string{"InitialObjectiveValue", "MinimumObjectiveValue", "MaximumObjectiveValue"} {
			add(cfgAlt1("MP", k, cfgF(1500000)), cfgAlt1("MP", k, cfgF(0)), cfgAlt1("MP", k, cfgF(-2500)), cfgAlt1("MP", k, cfgI(2000)), cfgAlt1("MP", k, cfgS("high")))
			// around MaxFloat64/1000 = 1.797e305, where RoundFloat (3 decimals) starts to panic, and around MaxFloat64 itself;
			// only the INITIAL value is ever rounded
			add(cfgAlt1("MP", k, cfgFe(179, 300)), cfgAlt1("MP", k, cfgFe(18, 301)), cfgAlt1("MP", k, cfgFe(-18, 301)),
				cfgAlt1("MP", k, cfgFe(1, 305)), cfgAlt1("MP", k, cfgFe(179, 303)), cfgAlt1("MP", k, cfgFe(18, 304)), cfgAlt1("MP", k, cfgFe(-18, 304)),
				cfgAlt1("MP", k, cfgFe(1, 306)), cfgAlt1("MP", k, cfgFe(1, 308)), cfgAlt1("MP", k, cfgFe(18, 307)), cfgAlt1("MP", k, cfgFe(1, 309)),
				cfgAlt1("MP", k, cfgFu(1)), cfgAlt1("MP", k, cfgFu(-1500001)), cfgAlt1("MP", k, cfgD()))
		}
		add(cfgAlt1("MP", "NumberOfPlanningUnits", cfgI(3)))
	case "MultiObjectiveDumbModel":
		for _, k := range []string{"InitialObjectiveOneValue", "InitialObjectiveTwoValue", "InitialObjectiveThreeValue"} {
			add(cfgAlt1("MP", k, cfgF(1500000)), cfgAlt1("MP", k, cfgF(0)), cfgAlt1("MP", k, cfgF(-2500)), cfgAlt1("MP", k, cfgI(2000)))
			// 2 decimals inside Initialise (beyond MaxFloat64/100 = 1.797e306 Interpret itself panics), 3 decimals in every run
			add(cfgAlt1("MP", k, cfgFe(179, 300)), cfgAlt1("MP", k, cfgFe(18, 301)),
				cfgAlt1("MP", k, cfgFe(1, 305)), cfgAlt1("MP", k, cfgFe(179, 303)), cfgAlt1("MP", k, cfgFe(18, 304)), cfgAlt1("MP", k, cfgFe(179, 304)),
				cfgAlt1("MP", k, cfgFe(18, 305)), cfgAlt1("MP", k, cfgFe(-18, 305)), cfgAlt1("MP", k, cfgFe(1, 308)), cfgAlt1("MP", k, cfgFe(18, 307)))
		}
		add(cfgAltDel("MP", "NumberOfPlanningUnits"), cfgAlt1("MP", "NumberOfPlanningUnits", cfgI(0)), cfgAlt1("MP", "NumberOfPlanningUnits", cfgI(1)), cfgAlt1("MP", "NumberOfPlanningUnits", cfgI(7)),
			cfgAlt1("MP", "NumberOfPlanningUnits", cfgI(-1)), cfgAlt1("MP", "NumberOfPlanningUnits", cfgF(3000)), cfgAlt1("MP", "InitialObjectiveValue", cfgF(1000)))
	case "CatchmentModel":
		add(cfgAltDel("MP", "DataSourcePath"), cfgAlt1("MP", "DataSourcePath", cfgP("valid")), cfgAlt1("MP", "DataSourcePath", cfgP("testing")), cfgAlt1("MP", "DataSourcePath", cfgP("missing")),
			cfgAlt1("MP", "DataSourcePath", cfgP("notcsv")), cfgAlt1("MP", "DataSourcePath", cfgP("badcsv")), cfgAlt1("MP", "DataSourcePath", cfgP("dir")), cfgAlt1("MP", "DataSourcePath", cfgI(7)),
			cfgAlt1("MP", "DataSourcePath", cfgS("")), cfgAlt1("MP", "DataSourcePath", cfgP("underfile")))
		for _, k := range varMaxKey {
			add(cfgAlt1("MP", k, cfgF(0)), cfgAlt1("MP", k, cfgF(-1000)), cfgAlt1("MP", k, cfgI(400000)), cfgAlt1("MP", k, cfgS("lots")), cfgAlt1("MP", k, cfgF(1000000000000000)))
		}
		// the documented range of the bank erosion factor is [1e-5, 5e-4]: both ends, both sides
		add(cfgAlt1("MP", "BankErosionFudgeFactor", cfgFu(150)), cfgAlt1("MP", "BankErosionFudgeFactor", cfgFu(10)), cfgAlt1("MP", "BankErosionFudgeFactor", cfgFu(500)),
			cfgAlt1("MP", "BankErosionFudgeFactor", cfgFu(9)), cfgAlt1("MP", "BankErosionFudgeFactor", cfgFu(501)))
		add(cfgAlt1("MP", "BankErosionFudgeFactor", cfgF(0)), cfgAlt1("MP", "BankErosionFudgeFactor", cfgF(1)), cfgAlt1("MP", "WaterDensity", cfgF(1000)), cfgAlt1("MP", "WaterDensity", cfgI(1)),
			cfgAlt1("MP", "SedimentDensity", cfgF(1500)), cfgAlt1("MP", "YearsOfErosion", cfgI(100)), cfgAlt1("MP", "YearsOfErosion", cfgI(0)), cfgAlt1("MP", "YearsOfErosion", cfgF(100000)),
			cfgAlt1("MP", "RiparianBufferVegetationProportionTarget", cfgF(750)), cfgAlt1("MP", "RiparianBufferVegetationProportionTarget", cfgF(1500)),
			cfgAlt1("MP", "GullySedimentReductionTarget", cfgF(800)), cfgAlt1("MP", "HillSlopeDeliveryRatio", cfgF(50)), cfgAlt1("MP", "HillSlopeDeliveryRatio", cfgF(-50)),
			cfgAlt1("MP", "InitialObjectiveValue", cfgF(1000)))
	case "NullModel":
		add(cfgAlt1("MP", "InitialObjectiveValue", cfgF(1000)), cfgAlt1("MP", "DataSourcePath", cfgP("valid")))
	}
	// ---- MetaData (a decodable section: accepted and overwritten) and an unknown top-level section
	add(cfgAlt1("MD", "FilePath", cfgS("somewhere")), cfgAlt1("MD", "ExecutableName", cfgS("x")), cfgAlt1("MD", "FilePath", cfgI(1)), cfgAlt1("MD", "Unknown", cfgS("x")))
	add(cfgAlt1("Z", "TheInquisition", cfgB(true)))
	return out
}

// a map field written as a key of its parent table and the sub-table of the same name cannot both be
// present in one TOML document (duplicate definition = a parse error, outside the structured grammar)
var cfgMapFieldOf = map[string][2]string{"SU": {"S", "UserDetail"}, "SRL": {"SR", "LogLevelDestinations"}, "AP": {"A", "Parameters"}, "MP": {"M", "Parameters"},
	"SR": {"S", "Reporting"}} // Reporting is a struct, not a map: written as a value it is a decode error (inline table: its key is unknown)

// delFolded removes every spelling of the key from a struct table (one field must not be written twice: Go would
// decode the two in map order).
func (c *cfgStruct) delFolded(sec, key string) {
	var keep []cfgEntry
	for _, e := range c.es {
		if e.sec == sec && cfgFold(e.key) == cfgFold(key) {
			continue
		}
		keep = append(keep, e)
	}
	c.es = keep
}

func (c *cfgStruct) dropSec(sec string) {
	var keep []cfgEntry
	for _, e := range c.es {
		if e.sec != sec {
			keep = append(keep, e)
		}
	}
	c.es = keep
}

func (x cfgAlt) apply(c *cfgStruct) {
	if x.del {
		if cfgStructSec[x.sec] {
			c.delFolded(x.sec, x.key)
		} else {
			c.del(x.sec, x.key)
		}
		return
	}
	key, v := x.key, x.v
	if x.as != "" { // respell: keep the value that is there
		for _, e := range c.es {
			if e.sec == x.sec && (e.key == x.key || cfgStructSec[x.sec] && cfgFold(e.key) == cfgFold(x.key)) {
				v = e.v
			}
		}
		c.del(x.sec, x.key)
		key = x.as
	}
	for sub, f := range cfgMapFieldOf {
		if x.sec == f[0] && cfgFold(key) == cfgFold(f[1]) { // the map / struct written as a value: drop the sub-table(s)
			c.dropSec(sub)
			if sub == "SR" {
				c.dropSec("SRL")
			}
		}
		if x.sec == sub { // an entry of the sub-table: drop the map-as-value key
			c.delFolded(f[0], f[1])
		}
	}
	if x.sec == "SRL" {
		c.delFolded("S", "Reporting")
	}
	if x.sec == "T" { // a field of Config written as a value: its tables go
		for sec, field := range cfgTopFieldOf {
			if cfgFold(field) == cfgFold(key) {
				c.dropSec(sec)
			}
		}
	}
	if field, ok := cfgTopFieldOf[x.sec]; ok {
		c.delFolded("T", field)
	}
	if cfgStructSec[x.sec] {
		c.delFolded(x.sec, key)
	}
	c.set(x.sec, key, v)
}

// ---------------------------------------------------------------- limit zones from the real model

// cfgLimitZones drives the real catchment model over the data set and derives, per decision variable, the limit
// below which the random initialisation is certain to meet an invalid step before its last attempt (bind) and
// the limit from which no state can violate it (never).  The model's RunSafe reads these as data.
func cfgLimitZones(path string) []cfgZone {
	m := catchment.NewModel().WithParameters(parameters.Map{"DataSourcePath": path})
	m.Initialise(model.AsIs)
	n := len(m.ManagementActions())
	val := func(vi int) float64 { return m.DecisionVariable(varNames[vi]).Value() }
	setAll := func(on bool) {
		for i := 0; i < n; i++ {
			m.SetManagementAction(i, on)
		}
	}
	zs := make([]cfgZone, len(varNames))
	for vi := range varNames {
		isCost := vi >= 4
		// the state reached after n-1 attempts has exactly one action left in its starting polarity
		setAll(isCost)
		never := val(vi) // costs: everything active; production: computed below
		lo := 0.0
		first := true
		for i := 0; i < n; i++ {
			m.SetManagementAction(i, !isCost)
			v := val(vi)
			if first || v < lo {
				lo, first = v, false
			}
			m.SetManagementAction(i, isCost)
		}
		if !isCost {
			setAll(false)
			never = val(vi)
		}
		setAll(false)
		b := int64(lo*1000*0.9) - 1000
		if lo <= 0 {
			b = -1000 // the variable can be 0 (a variation of a data set without the rows that feed it): not even the limit 0 is certain to bind
		} else if b < 0 {
			b = 0
		}
		// the validity test during random initialisation reads value + pending change after the change has
		// already been applied (the last step counts twice), hence the factor two
		zs[vi] = cfgZone{bind: b * 1000, never: (int64(never*1000*2.02) + 2000) * 1000} // millionths, on the thousandths grid
	}
	return zs
}

// ---------------------------------------------------------------- in-process verdict (load + interpret)

type cfgGoVerdict struct {
	load      string // ok | err | panic
	loadClass string // what the loader's message texts say (err:<classes>): statistics only
	interp    string // ok | err:<sections> | panic | -
	accepted  bool
	panicText string
}

func cfgClassifyLoadError(err error) string {
	t := err.Error()
	if strings.Contains(t, "failed retrieving config") {
		return "err:decode"
	}
	var cls []string
	if strings.Contains(t, "unrecognised configuration key") {
		cls = append(cls, "unknown")
	}
	var mand []string
	for _, m := range [][2]string{{"Scenario.Name must be supplied", "Name"}, {"Scenario.RunNumber must be supplied", "RunNumber"},
		{"Scenario.Reporting.ReportEveryNumberOfIterations must be supplied", "ReportEvery"},
		{"Annealer.Type must be supplied", "AnnealerType"}, {"Model.Type  must be supplied", "ModelType"}} {
		if strings.Contains(t, m[0]) {
			mand = append(mand, m[1])
		}
	}
	if len(mand) > 0 {
		cls = append(cls, "mandatory("+strings.Join(mand, ",")+")")
	}
	if len(cls) == 0 {
		return "err:other"
	}
	return "err:" + strings.Join(cls, "+")
}

func cfgGoLoadInterpret(tomlText string) (v cfgGoVerdict, sc interface{ Run() error }) {
	var cfg *appData.Config
	var lerr error
	if p := protect(func() { cfg, lerr = appData.RetrieveConfigFromString(tomlText) }); p != "" {
		return cfgGoVerdict{load: "panic", interp: "-", panicText: p}, nil
	}
	if lerr != nil {
		// the class read from the message texts is counted (stats), not compared: their wording is nobody's contract
		return cfgGoVerdict{load: "err", interp: "-", loadClass: cfgClassifyLoadError(lerr)}, nil
	}
	v.load = "ok"
	// per-section verdicts from the three section interpreters
	var secs []string
	p := protect(func() {
		if interpreter.NewModelConfigInterpreter().Interpret(&cfg.Model).Errors() != nil {
			secs = append(secs, "model")
		}
		if interpreter.NewAnnealerConfigInterpreter().Interpret(&cfg.Annealer).Errors() != nil {
			secs = append(secs, "annealer")
		}
		if appInterpreter.NewScenarioConfigInterpreter().Interpret(&cfg.Scenario).Errors() != nil {
			secs = append(secs, "scenario")
		}
	})
	if p != "" {
		return cfgGoVerdict{load: "ok", interp: "panic", panicText: p}, nil
	}
	// the verdict that counts: the explorer's own ConfigInterpreter (a fresh one: it accumulates errors)
	var whole error
	var ci *appInterpreter.ConfigInterpreter
	p = protect(func() {
		ci = appInterpreter.NewInterpreter().Interpret(cfg)
		whole = ci.Errors()
	})
	if p != "" {
		return cfgGoVerdict{load: "ok", interp: "panic", panicText: p}, nil
	}
	if whole == nil && len(secs) > 0 {
		v.interp = fmt.Sprintf("inconsistent(whole=ok,sections=%v)", secs)
		return v, nil
	}
	if whole != nil && len(secs) == 0 {
		secs = append(secs, "other") // an error of the ConfigInterpreter itself, outside the three sections
	}
	if whole != nil {
		v.interp = "err:" + strings.Join(secs, ",")
		return v, nil
	}
	v.interp = "ok"
	v.accepted = true
	return v, ci.Scenario()
}

// ---------------------------------------------------------------- child process: run one accepted configuration

// suiteConfigChild: `harness config-child -out DIR <config.toml> <output dir> ...`; loads the file the way the
// explorer's bootstrap does (RetrieveConfigFromFile + ConfigInterpreter), runs the scenario and writes
// DIR/result.txt.  A panic inside a run kills this process; the parent reads stderr.
// cfgLimitAddressSpace puts a HARD cap on this process's memory: a changed crem that loops while
// allocating (e.g. a planning-unit count of 2^64) must end this process, not the machine.
func cfgLimitAddressSpace(gib uint64) {
	lim := syscall.Rlimit{Cur: gib << 30, Max: gib << 30}
	_ = syscall.Setrlimit(syscall.RLIMIT_AS, &lim)
}

func suiteConfigChild(c *Ctx) {
	cfgLimitAddressSpace(4)
	if len(c.Args) < 1 {
		fmt.Fprintln(os.Stderr, "config-child: missing config file")
		os.Exit(2)
	}
	write := func(s string) { must(os.WriteFile(filepath.Join(c.Out, "result.txt"), []byte(s+"\n"), 0o644)) }
	cfg, lerr := appData.RetrieveConfigFromFile(c.Args[0])
	if lerr != nil {
		write("rejected load")
		return
	}
	ci := appInterpreter.NewInterpreter().Interpret(cfg)
	if ci.Errors() != nil {
		write("rejected interpret")
		return
	}
	write("started")
	runErr := ci.Scenario().Run()
	os.Stdout.Sync()
	if runErr != nil {
		write("error-value " + strings.Join(strings.Fields(clip(runErr.Error(), 6000)), " "))
		return
	}
	// results: one summary file per run, in whichever output directory was configured
	n := 0
	for _, d := range c.Args[1:] {
		ents, _ := os.ReadDir(d)
		for _, e := range ents {
			if strings.Contains(e.Name(), "-Summary.") {
				n++
			}
		}
	}
	write(fmt.Sprintf("completed summaries=%d", n))
}

type cfgRunOutcome struct {
	class     string // completed | run-failed-error | error-value | panic | timeout | rejected | child-failed
	summaries int
	panicLine string
	detail    string
}

var cfgPanicNoise = strings.NewReplacer("\t", " ")

func cfgFirstPanicLine(stderr string) string {
	for _, l := range strings.Split(stderr, "\n") {
		if strings.HasPrefix(l, "panic: ") || strings.HasPrefix(l, "fatal error: ") {
			l = cfgPanicNoise.Replace(l)
			l = strings.TrimSuffix(strings.TrimSpace(l), " [recovered]")
			return clip(l, 300)
		}
	}
	return ""
}

func cfgRunChild(harness, dir, tomlPath string, outDirs []string, timeout time.Duration) cfgRunOutcome {
	args := append([]string{"config-child", "-out", dir, tomlPath}, outDirs...)
	cmd := exec.Command(harness, args...)
	cmd.Dir = dir
	cmd.Env = append(os.Environ(), "GOMEMLIMIT=1GiB", "GOMAXPROCS=2", "GOGC=50")
	var stderr bytes.Buffer
	cmd.Stderr = &stderr
	cmd.Stdout = nil
	if err := cmd.Start(); err != nil {
		return cfgRunOutcome{class: "child-failed", detail: err.Error()}
	}
	done := make(chan error, 1)
	go func() { done <- cmd.Wait() }()
	select {
	case <-done:
	case <-time.After(timeout):
		cmd.Process.Kill()
		<-done
		return cfgRunOutcome{class: "timeout"}
	}
	res, _ := os.ReadFile(filepath.Join(dir, "result.txt"))
	r := strings.TrimSpace(string(res))
	switch {
	case strings.HasPrefix(r, "completed"):
		n := 0
		fmt.Sscanf(r, "completed summaries=%d", &n)
		return cfgRunOutcome{class: "completed", summaries: n}
	case strings.HasPrefix(r, "error-value"):
		if i := strings.Index(r, ": run failed"); i >= 0 { // scenario.Runner recovered a panic inside a run and reported it through Run()
			// the text starts with the run id, i.e. the scenario name - which may be hundreds of bytes long: keep its end only
			from := len("error-value ")
			if i-40 > from {
				from = i - 40
			}
			return cfgRunOutcome{class: "run-failed-error", panicLine: clip(r[from:], 400), detail: clip(r, 1500)}
		}
		if len(cfgPanicCandidates(r)) > 0 {
			// the Runner's own words around a recovered run failure are nobody's contract: an error value that carries the text
			// of a known failure site is a recovered run failure however it is introduced
			return cfgRunOutcome{class: "run-failed-error", panicLine: clip(strings.TrimPrefix(r, "error-value "), 1200), detail: clip(r, 1500)}
		}
		return cfgRunOutcome{class: "error-value", detail: clip(r, 1500)}
	case strings.HasPrefix(r, "rejected"):
		return cfgRunOutcome{class: "rejected", detail: r}
	}
	pl := cfgFirstPanicLine(stderr.String())
	if pl != "" {
		return cfgRunOutcome{class: "panic", panicLine: pl, detail: clip(stderr.String(), 1500)}
	}
	return cfgRunOutcome{class: "child-failed", detail: "result=" + r + " stderr=" + clip(stderr.String(), 800)}
}

// cfgFailureText strips the run id and the wrapping of a recovered run failure down to the panic's own text.
func cfgFailureText(s, scenarioName string) string {
	if i := strings.Index(s, "run failed: "); i >= 0 {
		s = s[i+len("run failed: "):]
	}
	s = strings.TrimPrefix(s, "Unrecoverable annealing failure. Exiting with error: : ")
	if i := strings.Index(s, ": run failed"); i > 0 { // further runs of the same scenario: "<text> <name> (k/n): run failed: ..."
		s = s[:i]
		if j := strings.LastIndex(s, " ("); j > 0 && strings.HasSuffix(s, ")") {
			s = s[:j]
		}
		if n := strings.Join(strings.Fields(scenarioName), " "); n != "" && strings.HasSuffix(s, " "+n) {
			s = strings.TrimSuffix(s, " "+n)
		} else if len(n) > 40 && strings.Contains(s, n[len(n)-40:]) { // the parent keeps the end of a long name only
			s = s[:strings.Index(s, n[len(n)-40:])]
			s = strings.TrimRight(s, n[:1])
		}
	}
	return clip(strings.TrimSpace(s), 110)
}

// cfgPanicCandidates maps the first panic line of a crashed run to the finding predicates (names as in
// Crem/Model/Config.lean) whose failure site produces that message.  The Lean driver then says which of
// them actually holds of the configuration; a crash is explained only if both agree.
func cfgPanicCandidates(pl string) []string {
	var out []string
	has := func(s string) bool { return strings.Contains(pl, s) }
	if has("integer divide by zero") {
		out = append(out, "ReportingModuloZero")
	}
	if isGiveUp(pl) {
		// with no data loaded there are no actions: zero attempts are "all used up" at once
		out = append(out, "LimitNeverBinds", "CatchmentWithoutDataSource", "CatchmentDataSourceNotLoadable")
	}
	if has("interface conversion") && has("is nil, not float64") {
		out = append(out, "LoopInvariantWithMultiObjective")
	}
	// the unchecked positional table accesses of the catchment model on a data set whose content it cannot use
	if has("index out of range") || has("interface conversion") && has("not float64") {
		out = append(out, "CatchmentDataSetMalformed")
	}
	if isRoundingRefusal(pl) {
		out = append(out, "ValueTooLargeToRound")
	}
	if has("nil pointer dereference") || has("invalid memory address") {
		out = append(out, "NullModelUnderRealAnnealer", "CatchmentWithoutDataSource", "CatchmentDataSourceNotLoadable")
	}
	if has("decision variable [") && has("does not exist") {
		out = append(out, "ObjectiveNotOffered", "CatchmentWithoutDataSource", "CatchmentDataSourceNotLoadable")
	}
	if has("Expected data set supplied to have") {
		out = append(out, "CatchmentDataSourceNotLoadable")
	}
	if has("cannot get file info of output path") { // os.Stat failed, and not with "does not exist" (its text may say "not a directory" too)
		out = append(out, "OutputPathNotUsable")
	} else if has("not a directory") {
		out = append(out, "OutputPathNotADirectory")
	}
	if has("makechan: size out of range") {
		// since the slots are capped at the run number (324ff62), the capacity is out of range only when the run
		// number itself wrapped around (a negative RunNumber) together with a wrapped concurrency limit
		out = append(out, "ConcurrencyOutOfRange", "RunNumberOutOfRange")
	}
	if has("negative WaitGroup counter") {
		out = append(out, "RunNumberOutOfRange")
	}
	return out
}

// cfgErrorCandidates does the same for an error value Run() returned without starting a run.
func cfgErrorCandidates(detail string) []string {
	if !strings.Contains(detail, "creation of cpu profiling file failed") {
		return nil
	}
	if strings.Contains(detail, "is a directory") {
		return []string{"CpuProfilePathIsDirectory"}
	}
	return []string{"CpuProfilePathNotCreatable"} // no such file or directory / not a directory: the parent is missing
}

// cfgMaxRunNumber is the bound crem's checkMandatoryFields puts on Scenario.RunNumber (math.MaxInt32).
const cfgMaxRunNumber = int64(1<<31 - 1)

// cfgRunLimit: an accepted configuration asking for more runs than this is a BOUNDARY case, too long to run;
// Driver/Config.lean `runLimit` is the same number (the `notrun` line is compared).
const cfgRunLimit = 1000

func cfgTooLongToRun(c *cfgStruct) bool {
	v, ok := c.getFolded("S", "RunNumber")
	return ok && v.kind == 'i' && v.i > cfgRunLimit
}

// ---------------------------------------------------------------- Lean pre-pass

// cfgModelPredictions runs the compiled Lean driver over `pred` lines and returns its answers:
// `accepts=<0|1> safe=<0|1> must=<P,..|-> may=<P,..|->` per configuration.
type cfgModelPred struct {
	accepts, safe bool
	must, may     []string
	fixed         []string // findings that hold syntactically but whose repair is declared
	files         int      // the number of summary files a scenario whose runs all complete leaves behind
	raw           string
}

func cfgDriverPath() string {
	d := os.Getenv("VERIF_DIR")
	if d == "" {
		d = "/verif"
	}
	return filepath.Join(d, "lean", ".lake", "build", "bin", "driver")
}

func cfgSplitList(s string) []string {
	if s == "-" || s == "" {
		return nil
	}
	return strings.Split(s, ",")
}

func cfgModelPredictions(envLines []string, cfgs []*cfgStruct) ([]cfgModelPred, error) {
	var in bytes.Buffer
	for _, l := range envLines {
		in.WriteString(l + "\n")
	}
	for _, c := range cfgs {
		in.WriteString("pred " + c.line() + "\n")
	}
	cmd := exec.Command(cfgDriverPath(), "config-runs")
	cmd.Stdin = &in
	var out, errb bytes.Buffer
	cmd.Stdout, cmd.Stderr = &out, &errb
	if err := cmd.Run(); err != nil {
		return nil, fmt.Errorf("lean driver failed: %v %s", err, errb.String())
	}
	lines := strings.Split(strings.TrimRight(out.String(), "\n"), "\n")
	if len(lines) != len(envLines)+len(cfgs) {
		return nil, fmt.Errorf("lean driver returned %d lines for %d", len(lines), len(envLines)+len(cfgs))
	}
	preds := make([]cfgModelPred, len(cfgs))
	for i := range cfgs {
		l := lines[len(envLines)+i]
		p := cfgModelPred{raw: l}
		for _, w := range strings.Fields(l) {
			switch {
			case strings.HasPrefix(w, "accepts="):
				p.accepts = w == "accepts=1"
			case strings.HasPrefix(w, "safe="):
				p.safe = w == "safe=1"
			case strings.HasPrefix(w, "must="):
				p.must = cfgSplitList(w[5:])
			case strings.HasPrefix(w, "may="):
				p.may = cfgSplitList(w[4:])
			case strings.HasPrefix(w, "fixed="):
				p.fixed = cfgSplitList(w[6:])
			case strings.HasPrefix(w, "files="):
				p.files, _ = strconv.Atoi(w[6:])
			}
		}
		if !strings.Contains(l, "accepts=") {
			return nil, fmt.Errorf("lean driver: unexpected answer %q to %q", l, cfgs[i].line())
		}
		preds[i] = p
	}
	return preds, nil
}

func cfgContains(xs []string, x string) bool {
	for _, y := range xs {
		if x == y {
			return true
		}
	}
	return false
}

// ---------------------------------------------------------------- the suite

type cfgCase struct {
	c     *cfgStruct
	tags  []string // grammar production path (non-base alternatives applied)
	ann   string
	mdl   string
	force bool // always run when accepted (corpus / replay / targeted cases)
}

// cfgSilentFinding does not end a run: the scenario completes, a summary file is missing.
const cfgSilentFinding = "ResultFileNotWritten"

func (c *cfgStruct) getFolded(sec, key string) (cfgVal, bool) {
	for _, e := range c.es {
		if e.sec == sec && cfgFold(e.key) == cfgFold(key) {
			return e.v, true
		}
	}
	return cfgVal{}, false
}

func cfgExpectedRuns(c *cfgStruct) int {
	if v, ok := c.getFolded("S", "RunNumber"); ok && v.kind == 'i' && v.i >= 1 {
		return int(v.i)
	}
	return 1
}

func cfgOutDirsOf(c *cfgStruct, env cfgEnv) []string {
	v, ok := c.getFolded("S", "OutputPath")
	switch {
	case !ok:
		return []string{env.root} // default "." = the child's working directory
	case v.kind == 'p':
		return []string{env.path(v.s)}
	case v.kind == 's' && v.s == "":
		return []string{filepath.Join(env.root, "solutions")} // the saver's default
	case v.kind == 's':
		return []string{filepath.Join(env.root, v.s)}
	}
	return []string{env.root}
}

func suiteConfig(c *Ctx) {
	cfgLimitAddressSpace(12)
	// loading and interpreting happen in this process: a hang there cannot be recovered from, so a watchdog
	// ends the suite (the check then reports that the correspondence cannot be established)
	var progress atomic.Int64
	var current atomic.Value
	current.Store("")
	progress.Store(time.Now().Unix())
	var watching atomic.Bool // switched on for the in-process verdict loop only (generating the cases of a thorough run takes its time)
	go func() {
		for {
			time.Sleep(time.Second)
			if watching.Load() && time.Now().Unix()-progress.Load() > 45 {
				fmt.Fprintln(os.Stderr, "config-runs: loading/interpreting one configuration in-process did not return within 45 s:\ncfg "+current.Load().(string))
				os.Exit(3)
			}
		}
	}()
	devnull, _ := os.OpenFile(os.DevNull, os.O_WRONLY, 0)
	realStdout := os.Stdout
	if devnull != nil {
		os.Stdout = devnull // crem's loggers write annealing/model chatter to stdout
	}
	defer func() { os.Stdout = realStdout }()

	scratch, err := os.MkdirTemp("", "verif-config-")
	must(err)
	defer os.RemoveAll(scratch)
	parentEnv := cfgEnv{root: filepath.Join(scratch, "parent")}
	parentEnv.prepare()

	c.Note("OutputType=EXCEL and .xlsx data sources are excluded from the generator: Excel/OLE is Windows-only and panics on this platform whatever the configuration says")
	c.Note("TOML parsing is not modelled: the structured form goes to the Lean model, the rendered text to crem; the malformed-text stream is checked on the Go side only (error, not panic)")

	// ---- data facts: limit zones of the shipped data sets, from the real model
	g := &cfgGen{zones: map[string][]cfgZone{}, rng: c.Rng.Fork(), env: &parentEnv}
	// which repairs are DECLARED to be in the tree (checkprops.py: "args": ["repairs=reportEveryChecked,..."]; names as the
	// fields of `Repairs` in Crem/Model/Config.lean: reportEveryChecked objectiveChecked loopInvariantGuarded concurrencyCapped
	// runNumberBounded outputPathChecked cpuProfilePathChecked outputPathStatChecked summaryNameAnchored);
	// the Lean model transcribes the repaired code for those; a wrong declaration is a correspondence mismatch
	repairs := "-"
	for _, a := range c.Args {
		if strings.HasPrefix(a, "repairs=") && len(a) > len("repairs=") {
			repairs = strings.Join(strings.Split(a[len("repairs="):], ","), " ")
		}
	}
	if e := os.Getenv("VERIF_C19_REPAIRS"); e != "" { // development override (self-test against a patched scratch tree)
		repairs = strings.Join(strings.Split(e, ","), " ")
	}
	c.extra["declared_repairs"] = repairs
	envLines := []string{"code " + repairs}
	for _, ds := range []string{"valid", "testing"} {
		var zs []cfgZone
		if p := protect(func() { zs = cfgLimitZones(parentEnv.path(ds)) }); p != "" {
			c.Fail("harness:limit-zones", "config:harness-limit-zones", p, nil)
			continue
		}
		g.zones[ds] = zs
		w := []string{"env", ds}
		for _, z := range zs {
			w = append(w, strconv.FormatInt(z.bind, 10), strconv.FormatInt(z.never, 10))
		}
		envLines = append(envLines, strings.Join(w, " "))
	}

	// ---- cases
	var cases []cfgCase
	if c.Replay != "" {
		for _, l := range readLines(c.Replay) {
			w := strings.Fields(l)
			if len(w) < 1 {
				continue
			}
			switch w[0] {
			case "cfg":
				if sc, ok := parseSConfig(w[1:]); ok {
					cases = append(cases, cfgCase{c: sc, tags: []string{"replay"}, force: true})
				}
			case "malformed":
				if len(w) == 2 {
					cfgCheckMalformed(c, w[1])
				}
			}
		}
	} else {
		cases = cfgGenerateCases(c, g)
	}

	// the harmless variations of the shipped data sets that some case names: their limit zones, from the real model too
	var variations []string
	for _, cs := range cases {
		if v, ok := cs.c.get("MP", "DataSourcePath"); ok && v.kind == 'p' && strings.HasPrefix(v.s, "okd.") {
			if _, done := g.zones[v.s]; !done {
				g.zonesOf(v.s)
			}
		}
	}
	for sym := range g.zones {
		if strings.HasPrefix(sym, "okd.") && g.zones[sym] != nil {
			variations = append(variations, sym)
		}
	}
	sort.Strings(variations)
	for _, sym := range variations {
		w := []string{"env", sym}
		for _, z := range g.zones[sym] {
			w = append(w, strconv.FormatInt(z.bind, 10), strconv.FormatInt(z.never, 10))
		}
		envLines = append(envLines, strings.Join(w, " "))
	}
	for _, l := range envLines {
		c.Op(l, "ok")
	}

	cfgs := make([]*cfgStruct, len(cases))
	for i := range cases {
		cfgs[i] = cases[i].c
		cases[i].ann, cases[i].mdl = "-", "-"
		if v, ok := cases[i].c.getFolded("A", "Type"); ok && v.kind == 's' && cfgContains(cfgAnnealers, v.s) {
			cases[i].ann = v.s
		}
		if v, ok := cases[i].c.getFolded("M", "Type"); ok && v.kind == 's' && cfgContains(cfgModels, v.s) {
			cases[i].mdl = v.s
		}
	}
	preds, perr := cfgModelPredictions(envLines, cfgs)
	if perr != nil {
		c.Fail("harness:lean-driver", "config:lean-driver-unavailable", perr.Error(), nil)
		preds = make([]cfgModelPred, len(cases))
	}

	// ---- in-process verdicts
	type pending struct {
		idx  int
		line string
	}
	var toRun []pending
	tooLong := 0
	rr := c.Rng.Fork()
	verdicts := make([]cfgGoVerdict, len(cases))
	progress.Store(time.Now().Unix())
	watching.Store(true)
	for i, cs := range cases {
		progress.Store(time.Now().Unix())
		line := cs.c.line()
		current.Store(line)
		text := cs.c.render(parentEnv, rr.Fork())
		v, _ := cfgGoLoadInterpret(text)
		verdicts[i] = v
		res := "load=" + v.load + " interp=" + v.interp
		c.Op("cfg "+line, res)
		c.Stat("verdict " + cfgVerdictClass(v))
		c.Stat("pair " + cs.ann + "/" + cs.mdl)
		for _, t := range cs.tags {
			c.Stat("cfgAlt " + cfgAltClass(t))
		}
		c.Nontrivial(strings.Join(cs.tags, "|") + " -> " + res)
		if v.load == "panic" || v.interp == "panic" {
			cand := cfgPanicCandidates("panic: " + v.panicText)
			sig := "config:unexplained-crash"
			if e, rec := cfgExplain(cand, preds[i]); e != "" {
				sig = "config:" + e
			} else if rec != "" { // the declared repair is not effective
				sig = "config:" + rec
			}
			c.Fail("C19:load-and-interpret-never-panic", sig, "panic while loading/interpreting: "+v.panicText+"\n"+text, []string{"cfg " + line})
		}
		if strings.HasPrefix(v.interp, "inconsistent") {
			c.Fail("harness:section-verdicts", "config:section-verdicts-inconsistent", v.interp+"\n"+text, []string{"cfg " + line})
		}
		if v.accepted {
			if cfgTooLongToRun(cs.c) {
				// BOUNDARY: accepted, but far too many runs to execute; only the accept/reject verdict above is compared
				c.Op("notrun "+line, "boundary:too-long-to-run")
				c.Stat("outcome not-run(boundary: RunNumber too large to run)")
				tooLong++
				continue
			}
			toRun = append(toRun, pending{i, line})
		}
	}
	c.extra["accepted_not_run_too_many_runs"] = tooLong
	if tooLong > 0 {
		c.Note(fmt.Sprintf("BOUNDARY: %d accepted configuration(s) with RunNumber > %d (probes next to the 2^31-1 bound) were not run - too long to run; only their accept/reject verdict was compared", tooLong, cfgRunLimit))
	}

	watching.Store(false)

	// ---- run the accepted ones in child processes (bounded)
	budget := c.N(2500, 40000)
	var selected []pending
	var rest []pending
	for _, p := range toRun {
		if cases[p.idx].force {
			selected = append(selected, p)
		} else {
			rest = append(rest, p)
		}
	}
	// prefer distinct production paths: shuffle, then take up to the budget
	for i := len(rest) - 1; i > 0; i-- {
		j := rr.Intn(i + 1)
		rest[i], rest[j] = rest[j], rest[i]
	}
	for _, p := range rest {
		if len(selected) >= budget {
			break
		}
		selected = append(selected, p)
	}
	c.extra["accepted"] = len(toRun)
	c.extra["child_runs"] = len(selected)

	harness := os.Getenv("VERIF_HARNESS")
	if harness == "" {
		harness, _ = os.Executable()
	}
	outcomes := make([]cfgRunOutcome, len(selected))
	texts := make([]string, len(selected))
	var wg sync.WaitGroup
	var timeouts atomic.Int64
	sem := make(chan struct{}, 8)
	seeds := make([]*Rng, len(selected))
	for i := range selected {
		seeds[i] = rr.Fork()
	}
	for k, p := range selected {
		wg.Add(1)
		sem <- struct{}{}
		go func(k int, p pending) {
			defer wg.Done()
			defer func() { <-sem }()
			if timeouts.Load() >= 6 { // something systematic: do not spend the tier's budget on watchdog waits
				outcomes[k] = cfgRunOutcome{class: "skipped"}
				return
			}
			dir := filepath.Join(scratch, fmt.Sprintf("case-%d", k))
			env := cfgEnv{root: dir}
			env.prepare()
			text := cases[p.idx].c.render(env, seeds[k])
			texts[k] = text
			tp := filepath.Join(dir, "config.toml")
			must(os.WriteFile(tp, []byte(text), 0o644))
			outcomes[k] = cfgRunChild(harness, dir, tp, cfgOutDirsOf(cases[p.idx].c, env), 30*time.Second)
			if outcomes[k].class == "timeout" {
				timeouts.Add(1)
			}
			os.RemoveAll(dir)
		}(k, p)
	}
	wg.Wait()

	var dump *os.File
	if dp := os.Getenv("VERIF_CONFIG_DUMP"); dp != "" {
		dump, _ = os.Create(dp)
		defer dump.Close()
	}
	for k, p := range selected {
		o := outcomes[k]
		if o.class == "skipped" {
			c.Stat("outcome skipped-after-repeated-timeouts")
			continue
		}
		cs := cases[p.idx]
		pr := preds[p.idx]
		want := cfgExpectedRuns(cs.c)
		ops := []string{"cfg " + p.line}
		verdict := ""
		switch o.class {
		case "completed":
			// the property: EXACTLY one summary file per run (distinct files: they are directory entries).  The finding that
			// does not end a run (a summary file that cannot be created, or that every run overwrites) explains a shortfall
			// only if the model predicted exactly the number of files found.
			var crashMust []string
			for _, f := range pr.must {
				if f != cfgSilentFinding {
					crashMust = append(crashMust, f)
				}
			}
			switch {
			case len(crashMust) > 0:
				verdict = "unexpected-completion"
				c.Fail("model:RunSafe-is-exact", "config:model-predicts-crash-but-completed",
					fmt.Sprintf("the model says %v must crash this run, it completed\n%s", crashMust, texts[k]), ops)
			case o.summaries == pr.files && pr.files == want:
				verdict = "ok"
			case o.summaries == pr.files:
				verdict = "explained:" + cfgSilentFinding
				c.Fail("C19:accepted-configuration-writes-a-result-for-every-run", "config:"+cfgSilentFinding,
					fmt.Sprintf("accepted configuration completed but left %d summary file(s) for %d run(s) (as the model predicts from the scenario name)\n%s", o.summaries, want, texts[k]), ops)
			case o.summaries == want:
				verdict = "unexpected-completion"
				c.Fail("model:RunSafe-is-exact", "config:model-predicts-crash-but-completed",
					fmt.Sprintf("the model says only %d summary file(s) can be written for %d run(s), all were\n%s", pr.files, want, texts[k]), ops)
			case cfgContains(pr.fixed, cfgSilentFinding):
				verdict = "recurred:" + cfgSilentFinding
				c.Fail("C19:accepted-configuration-writes-a-result-for-every-run", "config:"+cfgSilentFinding,
					fmt.Sprintf("the repair declared for this finding is not effective: %d summary file(s) for %d run(s)\nmodel: %s\n%s", o.summaries, want, pr.raw, texts[k]), ops)
			case o.summaries < want:
				verdict = "missing-results"
				c.Fail("C19:accepted-configuration-writes-a-result-for-every-run", "config:missing-results",
					fmt.Sprintf("accepted configuration completed but left %d summary file(s) for %d run(s) (the model expects %d)\n%s", o.summaries, want, pr.files, texts[k]), ops)
			default:
				verdict = "extra-results"
				c.Fail("C19:accepted-configuration-writes-a-result-for-every-run", "config:extra-results",
					fmt.Sprintf("accepted configuration completed and left %d summary file(s) for %d run(s)\n%s", o.summaries, want, texts[k]), ops)
			}
		case "panic", "run-failed-error":
			explained, recurred := cfgExplain(cfgPanicCandidates(o.panicLine), pr)
			switch {
			case explained != "":
				verdict = "explained:" + explained
				c.Fail("C19:accepted-configuration-runs-to-completion", "config:"+explained,
					fmt.Sprintf("%s\n%s", o.panicLine, texts[k]), ops)
			case recurred != "":
				verdict = "recurred:" + recurred
				c.Fail("C19:accepted-configuration-runs-to-completion", "config:"+recurred,
					fmt.Sprintf("the repair declared for this finding is not effective\n%s\nmodel: %s\n%s", o.panicLine, pr.raw, texts[k]), ops)
			default:
				verdict = "unexplained"
				c.Fail("C19:accepted-configuration-runs-to-completion", "config:unexplained-crash",
					fmt.Sprintf("%s\nmodel: %s\n%s\n%s", o.panicLine, pr.raw, texts[k], o.detail), ops)
			}
		case "error-value":
			explained, recurred := cfgExplain(cfgErrorCandidates(o.detail), pr)
			switch {
			case explained != "":
				verdict = "explained:" + explained
				c.Fail("C19:accepted-configuration-runs-to-completion", "config:"+explained, o.detail+"\n"+texts[k], ops)
			case recurred != "":
				verdict = "recurred:" + recurred
				c.Fail("C19:accepted-configuration-runs-to-completion", "config:"+recurred,
					"the repair declared for this finding is not effective\n"+o.detail+"\nmodel: "+pr.raw+"\n"+texts[k], ops)
			default:
				verdict = "run-error"
				c.Fail("C19:accepted-configuration-runs-to-completion", "config:run-error", o.detail+"\n"+texts[k], ops)
			}
		case "timeout":
			verdict = "timeout"
			c.Fail("C19:accepted-configuration-runs-to-completion", "config:timeout", "no result within the watchdog limit\n"+texts[k], ops)
		case "rejected":
			verdict = "child-rejected"
			c.Fail("harness:file-and-string-loaders-agree", "config:verdict-differs-file-vs-string", o.detail+"\n"+texts[k], ops)
		default:
			verdict = "child-failed"
			c.Fail("harness:child", "config:child-failed", o.detail+"\n"+texts[k], ops)
		}
		pc := "-"
		if o.class == "error-value" {
			pc = strings.Join(cfgErrorCandidates(o.detail), ",")
			if pc == "" {
				pc = "other"
			}
		}
		if o.class == "panic" || o.class == "run-failed-error" {
			pc = strings.Join(cfgPanicCandidates(o.panicLine), ",")
			if pc == "" {
				pc = "other"
			}
		}
		c.Op(fmt.Sprintf("ran %s %s %d %s", o.class, pc, o.summaries, p.line), verdict)
		if dump != nil {
			fmt.Fprintf(dump, "%s/%s\t%s\t%s\t%s\t%s\t%s\n", cs.ann, cs.mdl, strings.Join(cs.tags, "|"), o.class, o.panicLine, verdict, p.line)
		}
		oc := o.class
		if o.class == "panic" {
			oc = "panic(" + o.panicLine + ")"
		}
		if o.class == "run-failed-error" {
			name, _ := cs.c.getFolded("S", "Name")
			oc = "run-failed-error(" + cfgFailureText(o.panicLine, name.s) + ")"
		}
		c.Stat("outcome " + clip(oc, 120))
		c.Stat("run " + cs.ann + "/" + cs.mdl + " " + verdict)
		c.Nontrivial("ran " + strings.Join(cs.tags, "|") + " -> " + verdict)
	}

	if c.Replay == "" {
		cfgMalformedStream(c)
	}
}

// cfgExplain: the first candidate finding (from the failure text) that the model found to hold of the configuration;
// failing that, the first one that holds syntactically although its repair is declared (a recurrence).
func cfgExplain(cands []string, pr cfgModelPred) (explained, recurred string) {
	for _, cand := range cands {
		if cfgContains(pr.must, cand) || cfgContains(pr.may, cand) {
			return cand, ""
		}
	}
	for _, cand := range cands {
		if cfgContains(pr.fixed, cand) {
			return "", cand
		}
	}
	// the failure's text was not recognised (crem's messages may be reworded), but the model says that this very configuration
	// MUST fail at a known site: that finding explains it (a configuration that only MAY fail still needs the text to agree)
	if len(pr.must) > 0 {
		return pr.must[0], ""
	}
	return "", ""
}

func cfgVerdictClass(v cfgGoVerdict) string {
	if v.load != "ok" {
		if v.loadClass != "" {
			if i := strings.IndexByte(v.loadClass, '('); i > 0 {
				return "load=" + v.loadClass[:i]
			}
			return "load=" + v.loadClass
		}
		return "load=" + v.load
	}
	return "interp=" + v.interp
}

func cfgAltClass(t string) string {
	if i := strings.IndexByte(t, '='); i > 0 {
		k := t[i+1:]
		kind := k
		if j := strings.IndexByte(k, ':'); j > 0 {
			kind = k[:j]
		}
		return t[:i] + " " + kind
	}
	return t
}

// cfgGenerateCases: (1) every (annealer, model) base; (2) every single alternative applied to a base
// (quick: a seed-dependent sample, thorough: all); (3) random combinations of 2-5 alternatives;
// (4) targeted combinations for the run-time failure sites.
func cfgGenerateCases(c *Ctx, g *cfgGen) []cfgCase {
	r := c.Rng
	var cases []cfgCase
	seen := map[string]bool{}
	addCase := func(cs cfgCase) {
		l := cs.c.line()
		if seen[l] {
			return
		}
		seen[l] = true
		cases = append(cases, cs)
	}
	// (1)
	for _, an := range cfgAnnealers {
		for _, md := range cfgModels {
			addCase(cfgCase{c: g.base(an, md, r), tags: []string{"base"}, ann: an, mdl: md, force: true})
		}
	}
	// minimal fixtures of crem's own tests
	min := &cfgStruct{}
	min.set("S", "Name", cfgS("testScenario"))
	min.set("A", "Type", cfgS("Kirkpatrick"))
	min.set("M", "Type", cfgS("DumbModel"))
	addCase(cfgCase{c: min, tags: []string{"fixture:MinimalValidConfig"}, ann: "Kirkpatrick", mdl: "DumbModel", force: true})
	addCase(cfgCase{c: &cfgStruct{}, tags: []string{"fixture:EmptyConfig"}, ann: "-", mdl: "-"})
	// (2)
	singles := 0
	for _, an := range cfgAnnealers {
		for _, md := range cfgModels {
			b := g.base(an, md, r)
			alts := g.alternatives(an, md, b)
			for _, x := range alts {
				if !c.Thorough() && !r.Chance(0.45) {
					continue
				}
				cc := b.clone()
				x.apply(cc)
				addCase(cfgCase{c: cc, tags: []string{x.tag}, ann: an, mdl: md})
				singles++
			}
		}
	}
	// (3)
	nRand := c.N(4000, 200000)
	for k := 0; k < nRand; k++ {
		an := cfgAnnealers[r.Intn(len(cfgAnnealers))]
		md := cfgModels[r.Intn(len(cfgModels))]
		if md == "NullModel" && r.Chance(0.6) { // every null-model run fails (D24): keep it a tenth of the stream
			md = cfgModels[r.Intn(3)]
		}
		cc := g.base(an, md, r)
		alts := g.alternatives(an, md, cc)
		n := 2 + r.Intn(4)
		var tags []string
		for j := 0; j < n; j++ {
			x := alts[r.Intn(len(alts))]
			x.apply(cc)
			tags = append(tags, x.tag)
		}
		sort.Strings(tags)
		addCase(cfgCase{c: cc, tags: tags, ann: an, mdl: md})
	}
	// (4) targeted: the run-time failure sites in their minimal form, for every pair they apply to
	for _, an := range cfgAnnealers {
		for _, md := range cfgModels {
			t := func(tag string, f func(cc *cfgStruct)) {
				cc := g.base(an, md, r)
				f(cc)
				addCase(cfgCase{c: cc, tags: []string{"target:" + tag}, ann: an, mdl: md, force: true})
			}
			t("modulo0-logged", func(cc *cfgStruct) {
				cc.set("SR", "ReportEveryNumberOfIterations", cfgI(0))
				cc.del("SRL", "Annealing")
			})
			t("modulo0-discarded", func(cc *cfgStruct) { cc.set("SR", "ReportEveryNumberOfIterations", cfgI(0)) })
			t("modulo0-two-iterations", func(cc *cfgStruct) {
				cc.set("SR", "ReportEveryNumberOfIterations", cfgI(0))
				cc.del("SRL", "Annealing")
				cc.set("AP", "MaximumIterations", cfgI(2))
			})
			t("default-objective", func(cc *cfgStruct) { cc.del("AP", "DecisionVariable") })
			t("loop-invariant", func(cc *cfgStruct) { cc.set("SR", "CheckingLoopInvariant", cfgB(true)) })
			t("json", func(cc *cfgStruct) { cc.set("S", "OutputType", cfgS("JSON")); cc.set("S", "RunNumber", cfgI(3)) })
			t("json-detail", func(cc *cfgStruct) {
				cc.set("S", "OutputType", cfgS("JSON"))
				cc.set("S", "OutputLevel", cfgS("Detail"))
			})
			t("detail", func(cc *cfgStruct) { cc.set("S", "OutputLevel", cfgS("Detail")) })
			t("zero-iterations", func(cc *cfgStruct) { cc.set("AP", "MaximumIterations", cfgI(0)) })
			t("no-budget-given", func(cc *cfgStruct) { cc.del("AP", "MaximumIterations") })
			t("modulo0-zero-iterations", func(cc *cfgStruct) {
				cc.set("SR", "ReportEveryNumberOfIterations", cfgI(0))
				cc.del("SRL", "Annealing")
				cc.set("AP", "MaximumIterations", cfgI(0))
			})
			t("modulo0-one-iteration-stderr", func(cc *cfgStruct) {
				cc.set("SR", "ReportEveryNumberOfIterations", cfgI(0))
				cc.set("SRL", "Annealing", cfgS("StandardError"))
				cc.set("AP", "MaximumIterations", cfgI(1))
			})
			t("modulo-wrapped", func(cc *cfgStruct) {
				cc.set("SR", "ReportEveryNumberOfIterations", cfgI(-1))
				cc.del("SRL", "Annealing")
			})
			t("bogus-objective", func(cc *cfgStruct) { cc.set("AP", "DecisionVariable", cfgS("SedimentVsCost")) })
			t("loop-invariant-logged", func(cc *cfgStruct) { cc.set("SR", "CheckingLoopInvariant", cfgB(true)); cc.del("SRL", "Annealing") })
			t("barebones-json-formatter", func(cc *cfgStruct) {
				cc.set("SR", "Type", cfgS("BareBones"))
				cc.set("SR", "Formatter", cfgS("JSON"))
				cc.del("SRL", "Annealing")
			})
			t("negative-run-number", func(cc *cfgStruct) { cc.set("S", "RunNumber", cfgI(-1)) })
			t("negative-run-number-2", func(cc *cfgStruct) { cc.set("S", "RunNumber", cfgI(-2)) })
			t("run-number-at-bound", func(cc *cfgStruct) { cc.set("S", "RunNumber", cfgI(cfgMaxRunNumber)) })
			t("run-number-above-bound", func(cc *cfgStruct) { cc.set("S", "RunNumber", cfgI(cfgMaxRunNumber+1)) })
			t("negative-concurrency", func(cc *cfgStruct) { cc.set("S", "MaximumConcurrentRunNumber", cfgI(-1)) })
			t("profile", func(cc *cfgStruct) { cc.set("S", "CpuProfilePath", cfgP("prof")) })
			t("profile-nowhere", func(cc *cfgStruct) { cc.set("S", "CpuProfilePath", cfgP("noprofdir")) })
			t("profile-nested-nowhere", func(cc *cfgStruct) { cc.set("S", "CpuProfilePath", cfgP("nested")) })
			t("profile-directory", func(cc *cfgStruct) { cc.set("S", "CpuProfilePath", cfgP("dir")) })
			t("profile-over-existing-file", func(cc *cfgStruct) { cc.set("S", "CpuProfilePath", cfgP("file")) })
			t("default-output-path", func(cc *cfgStruct) { cc.del("S", "OutputPath") })
			t("check-non-dominance", func(cc *cfgStruct) { cc.set("AP", "CheckNonDominance", cfgB(true)) })
			t("return-to-base-zero", func(cc *cfgStruct) {
				cc.set("AP", "InitialReturnToBaseStep", cfgI(0))
				cc.set("AP", "MinimumReturnToBaseRate", cfgI(0))
				cc.set("AP", "ReturnToBaseAdjustmentFactor", cfgF(0))
			})
			t("cold", func(cc *cfgStruct) {
				cc.set("AP", "StartingTemperature", cfgF(0))
				cc.set("AP", "CoolingFactor", cfgF(0))
			})
			// temperature 0 is legal and is the DEFAULT: exp(-|change|/0) is 0, or NaN for a proposal that leaves the objective
			// where it is; with the Annealing level logged that figure goes through the message observer's number formatting
			// (seed C19k)
			t("cold-logged", func(cc *cfgStruct) {
				cc.set("AP", "StartingTemperature", cfgF(0))
				cc.del("SRL", "Annealing")
			})
			t("default-temperature-logged", func(cc *cfgStruct) {
				cc.del("AP", "StartingTemperature")
				cc.del("SRL", "Annealing")
			})
			t("default-temperature-opportunity-cost-logged", func(cc *cfgStruct) {
				cc.del("AP", "StartingTemperature")
				cc.set("AP", "DecisionVariable", cfgS("OpportunityCost"))
				cc.del("SRL", "Annealing")
			})
			t("three-runs-two-concurrent", func(cc *cfgStruct) {
				cc.set("S", "RunNumber", cfgI(3))
				cc.set("S", "MaximumConcurrentRunNumber", cfgI(2))
			})
			t("output-file", func(cc *cfgStruct) { cc.set("S", "OutputPath", cfgP("file")) })
			t("output-dataset-file", func(cc *cfgStruct) { cc.set("S", "OutputPath", cfgP("valid")) })
			t("output-under-file", func(cc *cfgStruct) { cc.set("S", "OutputPath", cfgP("underfile")) })
			t("output-device", func(cc *cfgStruct) { cc.set("S", "OutputPath", cfgP("devnull")) })
			t("output-named-pipe", func(cc *cfgStruct) { cc.set("S", "OutputPath", cfgP("fifo")) })
			// the scenario name and the summary files: one, two and three runs, both encoders (a null-model run writes nothing anyway)
			for ni, name := range cfgSpecialNames {
				name, ni := name, ni
				for _, runs := range []int64{1, 2, 3} {
					runs := runs
					if md == "NullModel" || (ni+int(runs))%3 != 0 && runs != 2 && !c.Thorough() { // quick: every name with two runs, a third of the rest
						continue
					}
					t(fmt.Sprintf("name-%d-runs-%d", ni, runs), func(cc *cfgStruct) {
						cc.set("S", "Name", cfgS(name))
						cc.set("S", "RunNumber", cfgI(runs))
						if (ni+int(runs))%2 == 0 {
							cc.set("S", "OutputType", cfgS("JSON"))
						}
					})
				}
			}
			t("lower-case-keys", func(cc *cfgStruct) {
				for _, x := range []cfgAlt{cfgAltSpell("S", "Name", "name", cfgS("scn")), cfgAltSpell("S", "OutputPath", "outputpath", cfgP("new")),
					cfgAltSpell("A", "Type", "type", cfgS(an)), cfgAltSpell("M", "Type", "TYPE", cfgS(md))} {
					x.apply(cc)
				}
				cc.set("S", "runnumber", cfgI(2))
			})
			t("reporting-scalar", func(cc *cfgStruct) { cfgAlt1("S", "Reporting", cfgI(1)).apply(cc) })
			t("reporting-inline-table", func(cc *cfgStruct) { cfgAlt1("S", "Reporting", cfgT()).apply(cc) })
			// values too large to round: with the Annealing level discarded (3 decimals count) and logged (6 decimals)
			for vi, v := range []cfgVal{cfgFe(179, 300), cfgFe(18, 301), cfgFe(1, 308)} {
				v := v
				t(fmt.Sprintf("huge-temperature-%d", vi), func(cc *cfgStruct) { cc.set("AP", "StartingTemperature", v) })
				t(fmt.Sprintf("huge-temperature-logged-%d", vi), func(cc *cfgStruct) { cc.set("AP", "StartingTemperature", v); cc.del("SRL", "Annealing") })
			}
			if md == "DumbModel" {
				for vi, v := range []cfgVal{cfgFe(179, 300), cfgFe(18, 301), cfgFe(1, 305), cfgFe(179, 303), cfgFe(18, 304), cfgFe(-18, 304), cfgFe(1, 306), cfgFe(1, 308), cfgFe(18, 307)} {
					v := v
					t(fmt.Sprintf("huge-initial-%d", vi), func(cc *cfgStruct) { cc.set("MP", "InitialObjectiveValue", v) })
					t(fmt.Sprintf("huge-initial-logged-%d", vi), func(cc *cfgStruct) {
						cc.set("MP", "InitialObjectiveValue", v)
						cc.set("SRL", "Annealing", cfgS("StandardError"))
					})
				}
				t("huge-maximum", func(cc *cfgStruct) { cc.set("MP", "MaximumObjectiveValue", cfgFe(1, 308)) })
			}
			if md == "MultiObjectiveDumbModel" {
				for ki, k := range []string{"InitialObjectiveOneValue", "InitialObjectiveTwoValue", "InitialObjectiveThreeValue"} {
					for vi, v := range []cfgVal{cfgFe(179, 300), cfgFe(18, 301), cfgFe(179, 303), cfgFe(18, 304), cfgFe(179, 304), cfgFe(18, 305), cfgFe(-1, 307)} {
						k, v, vi := k, v, vi
						t(fmt.Sprintf("huge-initial-%d-%d", ki, vi), func(cc *cfgStruct) { cc.set("MP", k, v) })
						if vi < 4 {
							t(fmt.Sprintf("huge-initial-logged-%d-%d", ki, vi), func(cc *cfgStruct) { cc.set("MP", k, v); cc.del("SRL", "Annealing") })
						}
						// the model rounds to 2 decimals; it is the encoders (CSV summary, Detail files) that round to 3
						t(fmt.Sprintf("huge-initial-json-%d-%d", ki, vi), func(cc *cfgStruct) { cc.set("MP", k, v); cc.set("S", "OutputType", cfgS("JSON")) })
						t(fmt.Sprintf("huge-initial-json-detail-%d-%d", ki, vi), func(cc *cfgStruct) {
							cc.set("MP", k, v)
							cc.set("S", "OutputType", cfgS("JSON"))
							cc.set("S", "OutputLevel", cfgS("Detail"))
						})
					}
				}
			}
			if md == "CatchmentModel" {
				t("no-datasource", func(cc *cfgStruct) { cc.del("MP", "DataSourcePath") })
				t("no-datasource-limit", func(cc *cfgStruct) {
					cc.del("MP", "DataSourcePath")
					cc.set("MP", "MaximumSedimentProduction", cfgF(5000))
				})
				syms := []string{"notcsv", "dir", "badcsv", "underfile",
					"mal.valid.drop-A-14", "mal.valid.cell-S-0-2-t", "mal.valid.cell-A-1-0-b", "mal.valid.norows-S", "mal.testing.drop-G-0", "mal.testing.lastrow-S", "mal.testing.cell-G-0-3-e",
					"unl.valid.gone-G", "unl.valid.empty-A", "unl.testing.ragged-S",
					"okd.valid.extracol-A", "okd.valid.cell-S-1-5-t", "okd.testing.norows-G", "okd.valid.norows-A", "okd.testing.cell-A-0-1-e"}
				for k := 0; k < c.N(4, 40); k++ {
					syms = append(syms, cfgRandomDataSetEdit(g.rng))
				}
				for _, sym := range syms {
					sym := sym
					t("datasource-"+sym, func(cc *cfgStruct) { cc.set("MP", "DataSourcePath", cfgP(sym)) })
				}
				t("malformed-rejected-anyway", func(cc *cfgStruct) {
					cc.set("MP", "DataSourcePath", cfgP("mal.valid.drop-S-3"))
					cc.set("SRL", "Errors", cfgS("File"))
				})
				t("variation-with-limit", func(cc *cfgStruct) {
					cc.set("MP", "DataSourcePath", cfgP("okd.valid.extracol-S"))
					if zs := g.zonesOf("okd.valid.extracol-S"); zs != nil {
						cc.set("MP", "MaximumImplementationCost", cfgFu(zs[4].bind))
					}
				})
				for _, u := range []int64{150, 10, 500} {
					u := u
					t(fmt.Sprintf("bank-erosion-%d", u), func(cc *cfgStruct) { cc.set("MP", "BankErosionFudgeFactor", cfgFu(u)) })
				}
				t("badcsv-rejected-anyway", func(cc *cfgStruct) {
					cc.set("MP", "DataSourcePath", cfgP("badcsv"))
					cc.set("SRL", "Errors", cfgS("File"))
				})
				for vi, k := range varMaxKey {
					k, vi := k, vi
					for _, ds := range []string{"valid", "testing"} {
						ds := ds
						zs := g.zones[ds]
						if zs == nil {
							continue
						}
						t("limit-never:"+k+":"+ds, func(cc *cfgStruct) { cc.set("MP", "DataSourcePath", cfgP(ds)); cc.set("MP", k, cfgFu(zs[vi].never)) })
						t("limit-binds:"+k+":"+ds, func(cc *cfgStruct) { cc.set("MP", "DataSourcePath", cfgP(ds)); cc.set("MP", k, cfgFu(zs[vi].bind)) })
						t("limit-zero:"+k+":"+ds, func(cc *cfgStruct) { cc.set("MP", "DataSourcePath", cfgP(ds)); cc.set("MP", k, cfgF(0)) })
					}
				}
			}
			if md == "MultiObjectiveDumbModel" {
				t("no-planning-units", func(cc *cfgStruct) { cc.set("MP", "NumberOfPlanningUnits", cfgI(0)) })
			}
		}
	}
	c.extra["single_alternative_cases_before_sharding"] = singles
	// shard
	if c.Shards > 1 {
		var mine []cfgCase
		for i, cs := range cases {
			if i%c.Shards == c.Shard {
				mine = append(mine, cs)
			}
		}
		cases = mine
	}
	c.extra["cases"] = len(cases)
	return cases
}

// ---------------------------------------------------------------- malformed text (Go side only)

func cfgCheckMalformed(c *Ctx, hexText string) {
	b := make([]byte, len(hexText)/2)
	for i := range b {
		n, _ := strconv.ParseUint(hexText[2*i:2*i+2], 16, 8)
		b[i] = byte(n)
	}
	text := string(b)
	var lerr error
	var cfg *appData.Config
	p := protect(func() { cfg, lerr = appData.RetrieveConfigFromString(text) })
	res := "error"
	switch {
	case p != "":
		res = "panic"
		c.Fail("C19:load-never-panics", "config:malformed-text-panic", p+"\n"+clip(text, 600), []string{"malformed " + hexText})
	case lerr == nil:
		res = "loaded"
		// text that happens to be a loadable configuration: interpreting it must not panic either
		if p2 := protect(func() { appInterpreter.NewInterpreter().Interpret(cfg) }); p2 != "" {
			res = "interpret-panic"
			sig := "config:malformed-text-interpret-panic"
			if strings.Contains(p2, "Expected data set supplied to have") && strings.Contains(text, "InvalidModel.csv") {
				// a damaged text that is still a configuration naming the table-less shipped CSV: the known finding
				sig = "config:CatchmentDataSourceNotLoadable"
			}
			if isRoundingRefusal(p2) && strings.Contains(text, "MultiObjectiveDumbModel") {
				// … or giving the multi-objective dumb model an initial value beyond MaxFloat64/100: the known finding
				sig = "config:ValueTooLargeToRound"
			}
			c.Fail("C19:interpret-never-panics", sig, p2+"\n"+clip(text, 600), []string{"malformed " + hexText})
		}
	}
	c.Stat("malformed " + res)
	c.evaluations++
}

// cfgTrickyTexts are checked in every run: unterminated and nested constructs, among them the inline table left open before
// a comment that makes toml v0.3.1 panic with an internal "BUG: Expected key start ..." (crem must turn that into an error).
var cfgTrickyTexts = []string{
	"x={ a = 1 # c\n", "Scenario={ inner = 1    # a comment\n[Annealer]\nType=\"Kirkpatrick\"\n", "x = { a = 1\n", "x = [1, 2 # c\n", "x = \"abc\n", "[a\n", "[[a]\n",
	"x = {", "x = { a = { b = 1 # c\n} }\n", "x = { a = 1, # c\n b = 2 }\n", "x = 1979-05-27T07:32:00\n", "x = 1e\n", "x = +\n", "= 1\n", "x = \n", "\"\" = 1\n",
	"x = { , }\n", "x = [ , ]\n", "[a]\n[a]\n", "a = 1\na = 2\n", "[a.b]\n[a]\nb = 1\n", "x = 0x10\n", "x = 1__0\n", "x = '''a\n", "x = \"\\q\"\n", "x = \"\\u12\"\n",
	"\xff\xfe", "\xef\xbb\xbfx = 1\n", "[Scenario]\nName = \"a\" # c\nReporting = { # c\n", "x = [ { a = 1 # c\n } ]\n", "x = [[1, 2], [3 # c\n",
}

func cfgMalformedStream(c *Ctx) {
	r := c.Rng.Fork()
	for _, t := range cfgTrickyTexts {
		cfgCheckMalformed(c, fmt.Sprintf("%x", t))
	}
	g := &cfgGen{zones: map[string][]cfgZone{}} // no rng: no mutated data sets (this environment has no scratch directory)
	env := cfgEnv{root: cfgNoScratch}
	n := c.N(600, 12000)
	for k := 0; k < n; k++ {
		var b []byte
		switch r.Intn(5) {
		case 0: // random bytes
			b = make([]byte, r.Intn(200))
			for i := range b {
				b[i] = byte(r.U64())
			}
		case 1: // random printable TOML-ish characters
			const al = "[]{}=\"'#.,_-+\n\n \t0123456789abcdefTtrueFfalseScenarioAnnealerModelParametersType"
			b = make([]byte, r.Intn(300))
			for i := range b {
				b[i] = al[r.Intn(len(al))]
			}
		default: // a generated configuration, truncated / with bytes flipped / lines duplicated
			an := cfgAnnealers[r.Intn(len(cfgAnnealers))]
			md := cfgModels[r.Intn(len(cfgModels))]
			cc := g.base(an, md, r)
			alts := g.alternatives(an, md, cc)
			for j := r.Intn(4); j > 0; j-- {
				alts[r.Intn(len(alts))].apply(cc)
			}
			b = []byte(cc.render(env, r))
			switch r.Intn(4) {
			case 0:
				if len(b) > 0 {
					b = b[:r.Intn(len(b))]
				}
			case 1:
				for j := 1 + r.Intn(3); j > 0 && len(b) > 0; j-- {
					b[r.Intn(len(b))] = byte(r.U64())
				}
			case 2:
				ls := strings.Split(string(b), "\n")
				i := r.Intn(len(ls))
				ls = append(ls[:i+1], ls[i:]...)
				b = []byte(strings.Join(ls, "\n"))
			case 3:
				if len(b) > 0 {
					i := r.Intn(len(b))
					b = append(b[:i:i], b[i+1:]...)
				}
			}
		}
		cfgCheckMalformed(c, fmt.Sprintf("%x", b))
	}
	c.Note(fmt.Sprintf("malformed-text stream: %d texts (random bytes, TOML-alphabet noise, truncated / byte-flipped / line-duplicated generated configurations) checked on the Go side only: RetrieveConfigFromString returns an error or a configuration, never panics", n))
}
