//go:build verif

package main

// engine-conc (property C16): 2-8 client goroutines send commuting and conflicting reads and writes to the real engine
// through a real httptest.Server (net/http serves every connection on its own goroutine).  The observed responses and the
// final resource state must be those of the real engine's OWN serial execution of some ordering of the same requests that
// respects every client's program order and real time (a request answered before another was sent precedes it); the
// ordering found is then also run through the Lean spec (it goes to the driver as an ordinary sequence).
//
// Every round runs in a child process of the harness binary: an unsynchronised engine can die of a Go runtime fatal error
// ("concurrent map writes"), which cannot be recovered in-process.  Under a -race build (thorough tier) the child's stderr
// is searched for the race detector's report.
//
// engine-facts: the structural tie of the locking model — does rest.MuxImpl.ServeHTTP take a mutex before dispatch and
// release it by defer, does any handler start a goroutine — extracted from the source with go/ast.

import (
	"bytes"
	"encoding/json"
	"fmt"
	"go/ast"
	"go/parser"
	"go/token"
	"io"
	"net/http"
	"net/http/httptest"
	"os"
	"os/exec"
	"path/filepath"
	"sort"
	"strconv"
	"strings"
	"sync"
	"time"
)

func init() {
	register("engine-conc", suiteEngineConc)
	register("engine-conc-child", suiteEngineConcChild)
	register("engine-facts", suiteEngineFacts)
}

// ---------------------------------------------------------------- one concurrent round (child side)

type concReq struct {
	Client int    `json:"client"`
	Seq    int    `json:"seq"`
	Method string `json:"method"`
	Path   string `json:"path"`
	Ctype  string `json:"ctype"`
	Body   string `json:"body"`
	Start  int64  `json:"start"` // monotonic ns
	End    int64  `json:"end"`
	Tok    string `json:"tok"` // canonical response token
	Err    string `json:"err,omitempty"`
}

type concRound struct {
	Scenario string    `json:"scenario"` // scenario text posted during set-up
	Setup    []concReq `json:"setup"`
	Reqs     []concReq `json:"reqs"`
	Final    []string  `json:"final"` // read-back after the round
	Order    []int     `json:"order"` // serial order found (indices into Reqs); nil if none
	Explored int       `json:"explored"`
	Verdict  string    `json:"verdict"` // serialisable | not-serialisable | search-exhausted | setup-failed
	Detail   string    `json:"detail,omitempty"`
}

func (q concReq) raw() rawReq {
	return rawReq{method: q.Method, path: q.Path, ctype: q.Ctype, body: []byte(q.Body)}
}

func httpDo(client *http.Client, base string, q rawReq) (engResp, error) {
	req, err := http.NewRequest(q.method, base+q.path, bytes.NewReader(q.body))
	if err != nil {
		return engResp{}, err
	}
	if q.ctype != "" {
		req.Header.Set("Content-Type", q.ctype)
	}
	resp, err := client.Do(req)
	if err != nil {
		return engResp{}, err
	}
	defer resp.Body.Close()
	b, err := io.ReadAll(resp.Body)
	if err != nil {
		return engResp{}, err
	}
	return engResp{status: resp.StatusCode, header: resp.Header, body: b}, nil
}

// concPrograms builds the clients' programs: reads and writes over a few planning units, so that some pairs commute
// (different planning units, reads) and some conflict (same planning unit, whole-set writes, attribute patches).
func concPrograms(r *Rng, sc *engScenario, nClients int, labels []string) [][]rawReq {
	pusWithActs := []uint64{}
	for _, pu := range sc.pus {
		if len(sc.typesAt(pu)) > 0 {
			pusWithActs = append(pusWithActs, pu)
		}
	}
	hot := pusWithActs
	if len(hot) > 3 {
		hot = hot[:3]
	}
	progs := make([][]rawReq, nClients)
	total := 0
	// burst: every client first asks for a different, not yet pooled solution (all of them arrive at the gate together)
	burst := len(labels) > 0 && r.Chance(0.5)
	for cl := 0; cl < nClients; cl++ {
		if burst && total < 11 {
			total++
			progs[cl] = append(progs[cl], rawReq{method: "GET", path: pSolutions + "/" + labels[cl%len(labels)]})
		}
		n := 1 + r.Intn(2)
		if nClients <= 3 {
			n = 1 + r.Intn(3)
		}
		for j := 0; j < n && total < 11; j++ {
			total++
			var q rawReq
			if len(labels) > 0 && r.Chance(0.3) {
				// a pooled solution is built on its first GET: reads that write shared engine state
				progs[cl] = append(progs[cl], rawReq{method: "GET", path: pSolutions + "/" + labels[r.Intn(len(labels))]})
				continue
			}
			switch d := r.Intn(100); {
			case d < 34: // per-subcatchment write on a hot planning unit
				pu := hot[r.Intn(len(hot))]
				types := sc.typesAt(pu)
				var items []string
				for _, t := range types {
					if r.Chance(0.7) {
						items = append(items, fmt.Sprintf(`{"Name":%q,"Value":%q}`, t, []string{"Active", "Inactive"}[r.Intn(2)]))
					}
				}
				q = rawReq{method: "PUT", path: pSubPrefix + strconv.FormatUint(pu, 10), ctype: ctJson, body: []byte("[" + strings.Join(items, ",") + "]")}
			case d < 46: // whole-set write by encoding
				bits := make([]bool, sc.n())
				for i := range bits {
					bits[i] = r.Chance(0.5)
				}
				q = rawReq{method: "PATCH", path: pModel, ctype: ctJson, body: []byte(fmt.Sprintf(`[{"Name":"Encoding","Value":%q}]`, engEncode(bits)))}
			case d < 54: // attribute patch (conflicts with other patches of the same name)
				q = rawReq{method: "PATCH", path: pModel, ctype: ctJson, body: []byte(fmt.Sprintf(`[{"Name":"Owner","Value":%d}]`, r.Intn(3)))}
			case d < 62: // table write over two planning units
				var sb strings.Builder
				sb.WriteString("SubCatchment,GullyRestoration,HillSlopeRestoration,RiverBankRestoration,WetlandsEstablishment\n")
				for k := 0; k < 2; k++ {
					fmt.Fprintf(&sb, "%d,%d,%d,%d,%d\n", hot[r.Intn(len(hot))], r.Intn(2), r.Intn(2), r.Intn(2), r.Intn(2))
				}
				q = rawReq{method: "PUT", path: pActive, ctype: ctCsv, body: []byte(sb.String())}
			case d < 66: // a write that fails
				q = rawReq{method: "PATCH", path: pModel, ctype: ctJson, body: []byte(`[{"Name":"Encoding","Value":"zz"}]`)}
			case d < 80:
				q = rawReq{method: "GET", path: pModel}
			case d < 90:
				q = rawReq{method: "GET", path: pActive}
			default:
				q = rawReq{method: "GET", path: pSubPrefix + strconv.FormatUint(hot[r.Intn(len(hot))], 10)}
			}
			progs[cl] = append(progs[cl], q)
		}
	}
	return progs
}

// serialSearch looks for an ordering of the requests — respecting program order and real time — whose serial execution on
// fresh engines reproduces every observed response and the observed final state.
func serialSearch(cx canonCtx, setup []rawReq, reqs []concReq, final []string, readPaths []string, budget int) ([]int, int) {
	n := len(reqs)
	// must-precede: same client earlier, or answered before the other was sent
	before := make([][]bool, n)
	for i := range before {
		before[i] = make([]bool, n)
		for j := range reqs {
			if i == j {
				continue
			}
			if reqs[j].Client == reqs[i].Client && reqs[j].Seq < reqs[i].Seq {
				before[i][j] = true
			}
			if reqs[j].End < reqs[i].Start {
				before[i][j] = true
			}
		}
	}
	explored := 0
	seen := map[string]bool{}
	var order []int
	var found []int
	replay := func(path []int) (*eng, bool) {
		e := newEng()
		for _, q := range setup {
			if r := e.do(q); r.status != 200 {
				return nil, false
			}
		}
		for _, i := range path {
			e.do(reqs[i].raw())
		}
		return e, true
	}
	readAll := func(e *eng) []string {
		var toks []string
		for _, p := range readPaths {
			q := rawReq{method: "GET", path: p}
			toks = append(toks, canonResp(cx, q, e.do(q)).tok)
		}
		return toks
	}
	var dfs func(mask uint64) bool
	dfs = func(mask uint64) bool {
		if explored >= budget {
			return false
		}
		explored++
		e, ok := replay(order)
		if !ok {
			return false
		}
		state := strings.Join(readAll(e), "\n")
		if len(order) == n {
			if state == strings.Join(final, "\n") {
				found = append([]int(nil), order...)
				return true
			}
			return false
		}
		key := strconv.FormatUint(mask, 16) + "|" + state
		if seen[key] {
			return false
		}
		seen[key] = true
		for i := 0; i < n; i++ {
			if mask&(1<<uint(i)) != 0 {
				continue
			}
			ready := true
			for j := 0; j < n; j++ {
				if before[i][j] && mask&(1<<uint(j)) == 0 {
					ready = false
					break
				}
			}
			if !ready {
				continue
			}
			// the candidate must answer what was observed when executed next
			e2, ok := replay(order)
			if !ok {
				return false
			}
			q := reqs[i].raw()
			if canonResp(cx, q, e2.do(q)).tok != reqs[i].Tok {
				continue
			}
			order = append(order, i)
			if dfs(mask | 1<<uint(i)) {
				return true
			}
			order = order[:len(order)-1]
		}
		return false
	}
	dfs(0)
	return found, explored
}

func concReadPaths(sc *engScenario) []string {
	ps := []string{pScenario, pModel, pActive}
	for _, pu := range sc.pus {
		ps = append(ps, pSubPrefix+strconv.FormatUint(pu, 10))
	}
	return ps
}

// suiteEngineConcChild runs the rounds of one child process and writes rounds.json into its -out directory.
func suiteEngineConcChild(c *Ctx) {
	cat := newEngCatalogue(c.Out)
	q, _ := calibrate(cat)
	r := c.Rng.Fork()
	scs := []*engScenario{cat.scenario("ds/valid/ValidModel.csv", -1, 0), cat.scenario("ds/testing/TestingModel.csv", -1, 0)}
	nRounds := 6
	if len(c.Args) > 0 {
		if v, err := strconv.Atoi(c.Args[0]); err == nil {
			nRounds = v
		}
	}
	var rounds []concRound
	flush := func() {
		b, _ := json.Marshal(rounds)
		must(os.WriteFile(filepath.Join(c.Out, "rounds.json"), b, 0o644))
	}
	for ri := 0; ri < nRounds; ri++ {
		sc := scs[r.Intn(len(scs))]
		if sc == nil {
			continue
		}
		cx := canonCtx{scen: sc, fprintf: q.fprintf}
		scenBody := []byte(scenarioText("conc", "CatchmentModel", sc.dsRel, nil, ""))
		setup := []rawReq{{method: "POST", path: pScenario, ctype: ctToml, body: scenBody}}
		// a random starting set, so that writes have something to overwrite
		start := make([]bool, sc.n())
		for i := range start {
			start[i] = r.Chance(0.4)
		}
		setup = append(setup, rawReq{method: "PATCH", path: pModel, ctype: ctJson, body: []byte(fmt.Sprintf(`[{"Name":"Encoding","Value":%q}]`, engEncode(start)))})

		// every other round: a solution summary too, whose members the clients then ask for concurrently
		var labels []string
		if r.Chance(0.5) {
			nSol := 3 + r.Intn(4)
			rows := make([][]bool, nSol)
			for k := range rows {
				rows[k] = make([]bool, sc.n())
				for i := range rows[k] {
					rows[k][i] = r.Chance(0.5)
				}
				labels = append(labels, fmt.Sprintf("%d-of-%d", k+1, nSol))
			}
			labels = append(labels, "As-Is")
			setup = append(setup, rawReq{method: "POST", path: pSolutions, ctype: ctCsv, body: validSolutionsCsv(sc, rows, -1)})
		}

		e := newEng()
		srv := httptest.NewServer(e.mux)
		round := concRound{Scenario: string(scenBody)}
		client := &http.Client{Timeout: 20 * time.Second, Transport: &http.Transport{MaxIdleConnsPerHost: 16}}
		okSetup := true
		for _, s := range setup {
			resp, err := httpDo(client, srv.URL, s)
			if err != nil || resp.status != 200 {
				okSetup = false
			}
			round.Setup = append(round.Setup, concReq{Method: s.method, Path: s.path, Ctype: s.ctype, Body: string(s.body), Tok: canonResp(cx, s, resp).tok})
		}
		if !okSetup {
			round.Verdict = "setup-failed"
			rounds = append(rounds, round)
			srv.Close()
			flush()
			continue
		}
		nClients := 2 + r.Intn(7)
		progs := concPrograms(r, sc, nClients, labels)
		var mu sync.Mutex
		var wg sync.WaitGroup
		type rawAnswer struct {
			q    rawReq
			resp engResp
			err  error
		}
		answers := map[[2]int]rawAnswer{} // canonicalised after the join: the reference model behind canonResp is not for concurrent use
		t0 := time.Now()
		gate := make(chan struct{})
		for cl := range progs {
			wg.Add(1)
			go func(cl int) {
				defer wg.Done()
				hc := &http.Client{Timeout: 20 * time.Second, Transport: &http.Transport{}}
				<-gate
				for seq, q := range progs[cl] {
					st := time.Since(t0).Nanoseconds()
					resp, err := httpDo(hc, srv.URL, q)
					en := time.Since(t0).Nanoseconds()
					rec := concReq{Client: cl, Seq: seq, Method: q.method, Path: q.path, Ctype: q.ctype, Body: string(q.body), Start: st, End: en}
					mu.Lock()
					answers[[2]int{cl, seq}] = rawAnswer{q: q, resp: resp, err: err}
					round.Reqs = append(round.Reqs, rec)
					mu.Unlock()
				}
			}(cl)
		}
		close(gate)
		wg.Wait()
		for i := range round.Reqs {
			a := answers[[2]int{round.Reqs[i].Client, round.Reqs[i].Seq}]
			if a.err != nil {
				round.Reqs[i].Err = a.err.Error()
				round.Reqs[i].Tok = "transport-error"
			} else {
				round.Reqs[i].Tok = canonResp(cx, a.q, a.resp).tok
			}
		}
		sort.SliceStable(round.Reqs, func(i, j int) bool {
			if round.Reqs[i].Client != round.Reqs[j].Client {
				return round.Reqs[i].Client < round.Reqs[j].Client
			}
			return round.Reqs[i].Seq < round.Reqs[j].Seq
		})
		paths := concReadPaths(sc)
		for _, p := range paths {
			q := rawReq{method: "GET", path: p}
			resp, err := httpDo(client, srv.URL, q)
			if err != nil {
				round.Final = append(round.Final, "transport-error")
			} else {
				round.Final = append(round.Final, canonResp(cx, q, resp).tok)
			}
		}
		srv.Close()
		order, explored := serialSearch(cx, setup, round.Reqs, round.Final, paths, 4000)
		round.Explored = explored
		switch {
		case order != nil:
			round.Order, round.Verdict = order, "serialisable"
		case explored >= 4000:
			round.Verdict = "search-exhausted"
		default:
			round.Verdict = "not-serialisable"
			var sb strings.Builder
			for _, q := range round.Reqs {
				fmt.Fprintf(&sb, "client %d #%d [%d..%d us] %s %s %s -> %s\n", q.Client, q.Seq, q.Start/1000, q.End/1000, q.Method, q.Path, clip(q.Body, 120), clip(q.Tok, 160))
			}
			fmt.Fprintf(&sb, "final: %s\n", clip(strings.Join(round.Final, " | "), 1200))
			round.Detail = sb.String()
		}
		rounds = append(rounds, round)
		flush()
	}
	flush()
	c.Op("child-done", "ok")
}

// ---------------------------------------------------------------- parent side

func suiteEngineConc(c *Ctx) {
	cat := newEngCatalogue(c.Out)
	if c.Replay != "" {
		// a recorded serial order (or any request list) is re-executed serially against the engine and the spec
		replayEngine(c, cat, false)
		return
	}
	q, _ := calibrate(cat)
	c.Op(q.line(), "ok")
	self := os.Getenv("VERIF_HARNESS")
	if self == "" {
		self, _ = os.Executable()
	}
	nChildren := c.N(4, 8)
	perChild := c.N(4, 6)
	if raceEnabled {
		// everything, the search for a serial order included, is several times slower under the race detector
		nChildren, perChild = 3, 4
		c.extra["race_detector"] = "on"
	}
	run := newSeqRun(c, cat, q)
	for ci := 0; ci < nChildren; ci++ {
		dir := filepath.Join(c.Out, fmt.Sprintf("child-%d", ci))
		cmd := exec.Command(self, "engine-conc-child", "-seed", strconv.FormatUint(c.Seed*1000+uint64(ci)+uint64(c.Shard)*100000, 10), "-tier", c.Tier, "-out", dir, strconv.Itoa(perChild))
		var stderr bytes.Buffer
		cmd.Stderr = &stderr
		cmd.Stdout = io.Discard
		cmd.Env = append(os.Environ(), "GORACE=halt_on_error=0 exitcode=0", "GOMAXPROCS=8")
		done := make(chan error, 1)
		must(cmd.Start())
		go func() { done <- cmd.Wait() }()
		var err error
		select {
		case err = <-done:
		case <-time.After(240 * time.Second):
			cmd.Process.Kill()
			err = fmt.Errorf("timeout")
		}
		must(os.Chdir(c.Out))
		es := stderr.String()
		if strings.Contains(es, "WARNING: DATA RACE") {
			c.Fail("C16:no-data-race", "engine:data-race", "the race detector reports unsynchronised access to the engine's state while concurrent clients are served:\n"+clip(raceExcerpt(es), 1800), nil)
			c.Stat("child: data race reported")
		}
		if err != nil {
			sig := "engine:concurrent-crash"
			first := firstLineWith(es, "fatal error:", "panic:", "timeout")
			c.Fail("C16:serialisable", sig, fmt.Sprintf("the engine process serving concurrent clients ended abnormally (%v): %s\n%s", err, first, clip(es, 1200)), nil)
			c.Stat("child: crashed")
		}
		var rounds []concRound
		if b, rerr := os.ReadFile(filepath.Join(dir, "rounds.json")); rerr == nil {
			json.Unmarshal(b, &rounds)
		}
		for _, rd := range rounds {
			c.Stat("round: " + rd.Verdict)
			nw := 0
			for _, rq := range rd.Reqs {
				if rq.Method != "GET" {
					nw++
				}
			}
			c.Stat(fmt.Sprintf("round clients=%d", countClients(rd.Reqs)))
			switch rd.Verdict {
			case "serialisable":
				// the ordering found goes through the Lean spec as an ordinary sequence: reset, set-up, requests, final read-back
				run.reset()
				for _, s := range rd.Setup {
					run.exec(s.raw())
				}
				for _, i := range rd.Order {
					if run.dead {
						break
					}
					rq := rd.Reqs[i]
					resp := run.exec(rq.raw())
					if tok := canonResp(run.cx(), rq.raw(), resp).tok; tok != rq.Tok {
						c.Fail("C16:serialisable", "engine:not-serialisable", fmt.Sprintf("re-executing the serial order found, %s %s answers %s; concurrently it answered %s", rq.Method, rq.Path, clip(tok, 300), clip(rq.Tok, 300)), nil)
					}
				}
				c.Nontrivial(fmt.Sprintf("%d clients %d requests %d writes order %v", countClients(rd.Reqs), len(rd.Reqs), nw, rd.Order))
			case "not-serialisable":
				c.Fail("C16:serialisable", "engine:not-serialisable", "no ordering of the concurrent requests that respects program order and real time reproduces, on the engine's own serial execution, the responses and final state observed ("+strconv.Itoa(rd.Explored)+" search nodes):\n"+rd.Detail, nil)
			case "search-exhausted":
				c.Note("a round's search for a serial order hit its node budget (inconclusive, not counted)")
			}
		}
	}
	c.Flush()
}

func countClients(rs []concReq) int {
	m := map[int]bool{}
	for _, r := range rs {
		m[r.Client] = true
	}
	return len(m)
}

func firstLineWith(s string, keys ...string) string {
	for _, l := range strings.Split(s, "\n") {
		for _, k := range keys {
			if strings.Contains(l, k) {
				return l
			}
		}
	}
	return ""
}

func raceExcerpt(s string) string {
	i := strings.Index(s, "WARNING: DATA RACE")
	if i < 0 {
		return ""
	}
	lines := strings.Split(s[i:], "\n")
	var keep []string
	for _, l := range lines {
		if strings.Contains(l, "crem/") || strings.HasPrefix(l, "WARNING") || strings.HasPrefix(l, "Previous") || strings.HasPrefix(l, "Write at") || strings.HasPrefix(l, "Read at") {
			keep = append(keep, strings.TrimSpace(l))
		}
		if len(keep) > 24 {
			break
		}
	}
	return strings.Join(keep, "\n")
}

// ---------------------------------------------------------------- engine-facts

func suiteEngineFacts(c *Ctx) {
	repo := os.Getenv("VERIF_REPO")
	if repo == "" {
		repo = "/repo"
	}
	fset := token.NewFileSet()
	// 1. rest.MuxImpl.ServeHTTP: first statement acquires a sync.Mutex field, second is `defer <same>.Unlock()`
	restFile := filepath.Join(repo, "internal/pkg/server/rest/Mux.go")
	f, err := parser.ParseFile(fset, restFile, nil, 0)
	must(err)
	mutexFields := map[string]bool{}
	ast.Inspect(f, func(n ast.Node) bool {
		ts, ok := n.(*ast.TypeSpec)
		if !ok || ts.Name.Name != "MuxImpl" {
			return true
		}
		if st, ok := ts.Type.(*ast.StructType); ok {
			for _, fld := range st.Fields.List {
				if se, ok := fld.Type.(*ast.SelectorExpr); ok {
					if x, ok := se.X.(*ast.Ident); ok && x.Name == "sync" && (se.Sel.Name == "Mutex" || se.Sel.Name == "RWMutex") {
						for _, nme := range fld.Names {
							mutexFields[nme.Name] = true
						}
					}
				}
			}
		}
		return false
	})
	lockFirst, unlockDeferred := false, false
	callOn := func(e ast.Expr, method string) (string, bool) {
		ce, ok := e.(*ast.CallExpr)
		if !ok {
			return "", false
		}
		se, ok := ce.Fun.(*ast.SelectorExpr)
		if !ok || se.Sel.Name != method {
			return "", false
		}
		inner, ok := se.X.(*ast.SelectorExpr)
		if !ok {
			return "", false
		}
		return inner.Sel.Name, true
	}
	for _, d := range f.Decls {
		fd, ok := d.(*ast.FuncDecl)
		if !ok || fd.Name.Name != "ServeHTTP" || fd.Recv == nil || fd.Body == nil || len(fd.Body.List) < 2 {
			continue
		}
		if es, ok := fd.Body.List[0].(*ast.ExprStmt); ok {
			if fld, ok := callOn(es.X, "Lock"); ok && mutexFields[fld] {
				lockFirst = true
				if ds, ok := fd.Body.List[1].(*ast.DeferStmt); ok {
					if fld2, ok := callOn(ds.Call, "Unlock"); ok && fld2 == fld {
						unlockDeferred = true
					}
				}
			}
		}
	}
	// 2. no `go` statement in the engine's api package or the rest package (handlers run on the request's goroutine)
	goStmts := []string{}
	for _, dir := range []string{"cmd/cremengine/engine/api", "internal/pkg/server/rest", "internal/pkg/server/api"} {
		ents, _ := os.ReadDir(filepath.Join(repo, dir))
		for _, ent := range ents {
			if !strings.HasSuffix(ent.Name(), ".go") || strings.HasSuffix(ent.Name(), "_test.go") {
				continue
			}
			pf, perr := parser.ParseFile(fset, filepath.Join(repo, dir, ent.Name()), nil, 0)
			if perr != nil {
				continue
			}
			ast.Inspect(pf, func(n ast.Node) bool {
				if g, ok := n.(*ast.GoStmt); ok {
					goStmts = append(goStmts, fmt.Sprintf("%s:%d", filepath.Join(dir, ent.Name()), fset.Position(g.Pos()).Line))
				}
				return true
			})
		}
	}
	res := fmt.Sprintf("lock-first=%s unlock-deferred=%s go-statements=%d", b2s(lockFirst), b2s(unlockDeferred), len(goStmts))
	c.Op("facts servehttp", res)
	c.extra["engine_facts"] = res
	c.Stat("facts: " + res)
	c.Nontrivial(res)
	if !lockFirst || !unlockDeferred {
		c.Fail("C16:structural-tie", "engine:no-request-lock", "rest.MuxImpl.ServeHTTP does not start with <mutex field>.Lock() followed by defer <same>.Unlock(): the locking model (Crem/Model/Locking.lean) does not describe this code; requests are handled without mutual exclusion ("+res+")", []string{"facts servehttp"})
	}
	if len(goStmts) > 0 {
		c.Fail("C16:structural-tie", "engine:handler-starts-goroutine", "go statements in request-handling packages: "+strings.Join(goStmts, ", "), []string{"facts servehttp"})
	}
}
