//go:build verif

package main

// engine-conc (property C16): 2-8 client goroutines send commuting and conflicting reads and writes to the real engine
// through real httptest.Servers (net/http serves every connection on its own goroutine).  The observed responses and the
// final resource state must be those of the real engine's OWN serial execution of some ordering of the same requests that
// respects every client's program order and real time (a request answered before another was sent precedes it); the
// ordering found is then also run through the Lean spec (it goes to the driver as an ordinary sequence).
//
// Two kinds of round.  "api": the API multiplexer alone.  "both": the API multiplexer AND the admin multiplexer of the same
// RestServer are served, as RestServer.Start serves them (the shutdown waiter runs, and when it returns the API
// multiplexer is shut down as RestServer.shutdown does first); clients mix API `GET /` (the admin multiplexer's status
// handler, registered with the API multiplexer by RestServer.WithApiMux), admin `GET /status`, at most one admin
// `POST /shutdown`, method errors and unknown paths on both, and ordinary API requests.
//
// Every round runs in a child process of the harness binary: an unsynchronised engine can die of a Go runtime fatal error
// ("concurrent map writes"), which cannot be recovered in-process.  Under a -race build (thorough tier) the child's stderr
// is searched for the race detector's report.
//
// engine-facts: the structural tie of the locking model, extracted from the source with go/ast on every run (see there).

import (
	"bytes"
	"encoding/json"
	"fmt"
	"go/ast"
	"go/parser"
	"go/token"
	"io"
	"net/http"
	"net/http/httptest"
	"os"
	"os/exec"
	"path/filepath"
	"regexp"
	"runtime"
	"sort"
	"strconv"
	"strings"
	"sync"
	"time"

	"github.com/LindsayBradford/crem/internal/pkg/server/admin"
	"github.com/LindsayBradford/crem/pkg/logging/loggers"
)

func init() {
	register("engine-conc", suiteEngineConc)
	register("engine-conc-child", suiteEngineConcChild)
	register("engine-facts", suiteEngineFacts)
}

// Timing rule of these suites: a verdict never rests on a short timeout.  Hangs are recognised structurally (a parked
// goroutine, see goroutineBlocked); a timeout alone is a fallback with a margin of minutes for things that take
// milliseconds, so that a busy machine cannot turn a slow but correct run into a violation.
const (
	concClientTimeout = 180 * time.Second // one HTTP exchange (normally < 50 ms)
	concChildTimeout  = 600 * time.Second // one child process (normally 2-60 s)
)

// ---------------------------------------------------------------- the admin multiplexer (shared with engine-raw)

// adminMux is the admin multiplexer of the engine's RestServer: the one whose StatusHandler WithApiMux registered with the
// API multiplexer at "^/$" (through the accessor in harness/access/internal__pkg__server).
func (e *eng) adminMux() *admin.Mux { return e.rs.VerifAdminMux() }

var statusWordRe = regexp.MustCompile(`^[A-Z_]+$`)

// statusWordOf is the `Status` value of a status document ("" if the body is not one).
func statusWordOf(body []byte) string {
	var m map[string]interface{}
	if json.Unmarshal(body, &m) != nil || len(m) != 4 {
		return ""
	}
	for _, k := range []string{"ServiceName", "Version", "Status", "Time"} {
		if _, isStr := m[k].(string); !isStr {
			return ""
		}
	}
	return m["Status"].(string)
}

// canonAdmin renders an answer of the admin multiplexer as the token the model prints (`stepAdmin`): errors as canonResp
// does, a status document as `200 status:<Status word>`.
func canonAdmin(q rawReq, resp engResp) canonOut {
	if resp.panicked != "" || resp.status != 200 {
		return canonResp(canonCtx{}, q, resp)
	}
	var out canonOut
	ct := ctClass(resp.header)
	if ct == "json" && !json.Valid(resp.body) {
		out.notes = append(out.notes, "declared-json-invalid")
	}
	w := statusWordOf(resp.body)
	switch {
	case ct != "json":
		out.tok = "200 ctype!" + ct
	case w == "":
		out.tok = "200 status!"
	case !statusWordRe.MatchString(w):
		out.tok = "200 status!" + escTok(w)
	default:
		out.tok = "200 status:" + w
	}
	return out
}

// goroutineName is the number of the calling goroutine as the runtime prints it in stack dumps (goroutineID: suite_multirun_child.go).
func goroutineName() string { return strconv.FormatUint(goroutineID(), 10) }

// goroutinesBlocked looks at the runtime's dump of all goroutines: how many — of goroutine `id` alone, or of all if id is
// "" — are in wait state `state` (e.g. "chan send") with `frame` on their stack?  A structural observation, not a timing:
// such a goroutine is parked.
func goroutinesBlocked(id, state, frame string) int {
	buf := make([]byte, 1<<20)
	for {
		n := runtime.Stack(buf, true)
		if n < len(buf) {
			buf = buf[:n]
			break
		}
		buf = make([]byte, 2*len(buf))
	}
	count := 0
	for _, g := range strings.Split(string(buf), "\n\n") {
		head, _, _ := strings.Cut(g, "\n")
		if !strings.HasPrefix(head, "goroutine ") || !strings.Contains(head, "["+state) {
			continue
		}
		if id != "" && !strings.HasPrefix(head, "goroutine "+id+" ") {
			continue
		}
		if strings.Contains(g, frame) {
			count++
		}
	}
	return count
}

func goroutineBlocked(id, state, frame string) bool { return goroutinesBlocked(id, state, frame) > 0 }

const signalListenerFrame = "server/admin.(*Mux).WaitForShutdownSignal.func1"
const shutdownHandlerFrame = "server/admin.(*Mux).shutdownHandler"

// ---------------------------------------------------------------- one concurrent round (child side)

type concReq struct {
	Client int    `json:"client"`
	Seq    int    `json:"seq"`
	Mux    string `json:"mux,omitempty"` // "" = the API multiplexer, "admin" = the admin multiplexer
	Method string `json:"method"`
	Path   string `json:"path"`
	Ctype  string `json:"ctype"`
	Body   string `json:"body"`
	Start  int64  `json:"start"` // monotonic ns
	End    int64  `json:"end"`
	Tok    string `json:"tok"`            // canonical response token
	Word   string `json:"word,omitempty"` // Status word of a status document answered with 200
	Err    string `json:"err,omitempty"`
}

type concRound struct {
	Kind     string    `json:"kind"`     // api | both | held
	Scenario string    `json:"scenario"` // scenario text posted during set-up
	DsRel    string    `json:"ds_rel"`   // … and its data set and limit: the tokens of the round are canonicalised against this scenario
	LimVar   int       `json:"lim_var"`
	Limit    float64   `json:"limit"`
	Note     string    `json:"note,omitempty"`
	Setup    []concReq `json:"setup"`
	Reqs     []concReq `json:"reqs"`
	Final    []string  `json:"final"`     // read-back after the round
	FinalAdm string    `json:"final_adm"` // both: admin GET /status after the round
	Order    []int     `json:"order"`     // serial order found (indices into Reqs); nil if none
	Explored int       `json:"explored"`
	Verdict  string    `json:"verdict"` // serialisable | not-serialisable | search-exhausted | setup-failed | handler-blocked | handlers-overlap
	Detail   string    `json:"detail,omitempty"`
}

// a client's request before it is sent
type concPlan struct {
	mux string
	q   rawReq
}

func (q concReq) raw() rawReq {
	return rawReq{method: q.Method, path: q.Path, ctype: q.Ctype, body: []byte(q.Body)}
}

func httpDo(client *http.Client, base string, q rawReq) (engResp, error) {
	req, err := http.NewRequest(q.method, base+q.path, bytes.NewReader(q.body))
	if err != nil {
		return engResp{}, err
	}
	if q.ctype != "" {
		req.Header.Set("Content-Type", q.ctype)
	}
	resp, err := client.Do(req)
	if err != nil {
		return engResp{}, err
	}
	defer resp.Body.Close()
	b, err := io.ReadAll(resp.Body)
	if err != nil {
		return engResp{}, err
	}
	return engResp{status: resp.StatusCode, header: resp.Header, body: b}, nil
}

func concScenarioBody(name string, sc *engScenario) []byte {
	lim := map[string]float64{}
	if sc.limVar >= 0 {
		lim[varMaxKey[sc.limVar]] = sc.limit
	}
	return []byte(scenarioText(name, "CatchmentModel", sc.dsRel, lim, ""))
}

func concSolutionsBody(r *Rng, sc *engScenario, nSol int) ([]byte, []string) {
	rows := make([][]bool, nSol)
	var labels []string
	for k := range rows {
		rows[k] = make([]bool, sc.n())
		for i := range rows[k] {
			rows[k][i] = r.Chance(0.5)
		}
		labels = append(labels, fmt.Sprintf("%d-of-%d", k+1, nSol))
	}
	return validSolutionsCsv(sc, rows, -1), labels
}

// concRequest draws one ordinary API request: reads and writes over a few planning units, so that some pairs commute
// (different planning units, reads) and some conflict (same planning unit, whole-set writes, attribute patches, a
// re-posted scenario, a replaced solution summary), plus requests that fail (400 / 404 / 405 / 415).
func concRequest(r *Rng, sc *engScenario, hot []uint64, labels []string) rawReq {
	if len(labels) > 0 && r.Chance(0.25) {
		// a pooled solution is built on its first GET: reads that write shared engine state
		return rawReq{method: "GET", path: pSolutions + "/" + labels[r.Intn(len(labels))]}
	}
	switch d := r.Intn(100); {
	case d < 26: // per-subcatchment write on a hot planning unit
		pu := hot[r.Intn(len(hot))]
		var items []string
		for _, t := range sc.typesAt(pu) {
			if r.Chance(0.7) {
				items = append(items, fmt.Sprintf(`{"Name":%q,"Value":%q}`, t, []string{"Active", "Inactive"}[r.Intn(2)]))
			}
		}
		return rawReq{method: "PUT", path: pSubPrefix + strconv.FormatUint(pu, 10), ctype: ctJson, body: []byte("[" + strings.Join(items, ",") + "]")}
	case d < 36: // whole-set write by encoding (under a limit this flips ValidAgainstScenario)
		bits := make([]bool, sc.n())
		p := []float64{0.1, 0.5, 0.9}[r.Intn(3)]
		for i := range bits {
			bits[i] = r.Chance(p)
		}
		return rawReq{method: "PATCH", path: pModel, ctype: ctJson, body: []byte(fmt.Sprintf(`[{"Name":"Encoding","Value":%q}]`, engEncode(bits)))}
	case d < 42: // attribute patch (conflicts with other patches of the same name)
		return rawReq{method: "PATCH", path: pModel, ctype: ctJson, body: []byte(fmt.Sprintf(`[{"Name":"Owner","Value":%d}]`, r.Intn(3)))}
	case d < 49: // table write over two planning units
		var sb strings.Builder
		sb.WriteString("SubCatchment,GullyRestoration,HillSlopeRestoration,RiverBankRestoration,WetlandsEstablishment\n")
		for k := 0; k < 2; k++ {
			fmt.Fprintf(&sb, "%d,%d,%d,%d,%d\n", hot[r.Intn(len(hot))], r.Intn(2), r.Intn(2), r.Intn(2), r.Intn(2))
		}
		return rawReq{method: "PUT", path: pActive, ctype: ctCsv, body: []byte(sb.String())}
	case d < 52: // a write that fails (400)
		return rawReq{method: "PATCH", path: pModel, ctype: ctJson, body: []byte(`[{"Name":"Encoding","Value":"zz"}]`)}
	case d < 57: // the scenario is posted again under another name: the model starts over
		return rawReq{method: "POST", path: pScenario, ctype: ctToml, body: concScenarioBody(fmt.Sprintf("conc-%d", r.Intn(3)), sc)}
	case d < 62: // the solution summary is replaced: other labels, an emptied pool
		body, _ := concSolutionsBody(r, sc, 2+r.Intn(3))
		return rawReq{method: "POST", path: pSolutions, ctype: ctCsv, body: body}
	case d < 66:
		return rawReq{method: "GET", path: pScenario}
	case d < 70:
		return rawReq{method: "GET", path: pSolutions}
	case d < 74:
		return rawReq{method: "GET", path: pApplicable}
	case d < 79: // client errors: unknown path, wrong method, wrong content type
		return []rawReq{
			{method: "GET", path: "/api/v1/nowhere"},
			{method: "GET", path: "/api/v2/model"},
			{method: "DELETE", path: pModel},
			{method: "POST", path: pActive, ctype: ctCsv, body: []byte("SubCatchment\n")},
			{method: "PUT", path: pActive, ctype: ctJson, body: []byte("[]")},
			{method: "PATCH", path: pModel, ctype: ctCsv, body: []byte("a,b\n")},
			{method: "PUT", path: pSubPrefix + "999999", ctype: ctJson, body: []byte("[]")},
		}[r.Intn(7)]
	case d < 88:
		return rawReq{method: "GET", path: pModel}
	case d < 94:
		return rawReq{method: "GET", path: pActive}
	default:
		return rawReq{method: "GET", path: pSubPrefix + strconv.FormatUint(hot[r.Intn(len(hot))], 10)}
	}
}

func concHot(sc *engScenario) []uint64 {
	var hot []uint64
	for _, pu := range sc.pus {
		if len(sc.typesAt(pu)) > 0 {
			hot = append(hot, pu)
		}
	}
	if len(hot) > 3 {
		hot = hot[:3]
	}
	return hot
}

// the labels clients ask for: those of the summary posted during set-up and some that a summary posted DURING the round
// may or may not define
func concLabelPool(labels []string) []string {
	if len(labels) == 0 {
		return nil
	}
	return append(append([]string(nil), labels...), "1-of-2", "2-of-3", "4-of-4")
}

const concMaxEngineReqs = 11 // requests of one round that take part in the search for a serial order

// concPrograms builds the clients' programs of an "api" round.
func concPrograms(r *Rng, sc *engScenario, nClients int, labels []string) [][]concPlan {
	hot := concHot(sc)
	pool := concLabelPool(labels)
	progs := make([][]concPlan, nClients)
	total := 0
	// burst: every client first asks for a different, not yet pooled solution (all of them arrive at the gate together)
	burst := len(labels) > 0 && r.Chance(0.5)
	for cl := 0; cl < nClients; cl++ {
		if burst && total < concMaxEngineReqs {
			total++
			progs[cl] = append(progs[cl], concPlan{q: rawReq{method: "GET", path: pSolutions + "/" + labels[cl%len(labels)]}})
		}
		n := 1 + r.Intn(2)
		if nClients <= 3 {
			n = 1 + r.Intn(3)
		}
		for j := 0; j < n && total < concMaxEngineReqs; j++ {
			total++
			progs[cl] = append(progs[cl], concPlan{q: concRequest(r, sc, hot, pool)})
		}
	}
	return progs
}

// bothPrograms builds the clients' programs of a "both" round: status reads through either multiplexer, method errors and
// unknown paths on both, at most one shutdown request, and a few ordinary API requests.
func bothPrograms(r *Rng, sc *engScenario, nClients int, labels []string) [][]concPlan {
	hot := concHot(sc)
	pool := concLabelPool(labels)
	progs := make([][]concPlan, nClients)
	engineReqs := 0
	for cl := 0; cl < nClients; cl++ {
		n := 1 + r.Intn(3)
		for j := 0; j < n; j++ {
			var p concPlan
			switch d := r.Intn(100); {
			case d < 27:
				p = concPlan{q: rawReq{method: "GET", path: "/"}}
			case d < 54:
				p = concPlan{mux: "admin", q: rawReq{method: "GET", path: "/status"}}
			case d < 66: // wrong methods
				p = []concPlan{
					{q: rawReq{method: "DELETE", path: "/"}},
					{q: rawReq{method: "POST", path: "/", ctype: ctJson, body: []byte("{}")}},
					{mux: "admin", q: rawReq{method: "PUT", path: "/status", ctype: ctJson, body: []byte("{}")}},
					{mux: "admin", q: rawReq{method: "GET", path: "/shutdown"}},
					{mux: "admin", q: rawReq{method: "DELETE", path: "/shutdown"}},
					{mux: "admin", q: rawReq{method: "POST", path: "/status"}},
				}[r.Intn(6)]
			case d < 76: // paths the multiplexer asked does not serve
				p = []concPlan{
					{q: rawReq{method: "GET", path: "/status"}},
					{q: rawReq{method: "POST", path: "/shutdown"}},
					{mux: "admin", q: rawReq{method: "GET", path: "/"}},
					{mux: "admin", q: rawReq{method: "GET", path: "/status/"}},
					{mux: "admin", q: rawReq{method: "GET", path: pModel}},
					{mux: "admin", q: rawReq{method: "POST", path: "/shutdown/now"}},
				}[r.Intn(6)]
			default:
				if engineReqs >= 6 {
					p = concPlan{q: rawReq{method: "GET", path: "/"}}
				} else {
					engineReqs++
					p = concPlan{q: concRequest(r, sc, hot, pool)}
				}
			}
			progs[cl] = append(progs[cl], p)
		}
	}
	if r.Chance(0.7) {
		// the one shutdown request of the server's life, somewhere in some client's program
		cl := r.Intn(nClients)
		at := r.Intn(len(progs[cl]) + 1)
		p := concPlan{mux: "admin", q: rawReq{method: "POST", path: "/shutdown"}}
		progs[cl] = append(progs[cl][:at], append([]concPlan{p}, progs[cl][at:]...)...)
	}
	return progs
}

// concClass says which shared object a request of a "both" round works on: the engine's resources (searched by serial
// re-execution), the status document (one register: read / set to SHUTTING_DOWN), or nothing at all.
func concClass(q concReq) string {
	if q.Mux == "admin" {
		switch {
		case q.Path == "/status" && q.Method == "GET":
			return "status-read"
		case q.Path == "/shutdown" && q.Method == "POST":
			return "status-write"
		}
		return "stateless"
	}
	if q.Path == "/" {
		if q.Method == "GET" {
			return "status-read"
		}
		return "stateless"
	}
	return "engine"
}

// mustPrecede[i][j]: request j must come before request i in any admissible serial order — same client earlier, or
// answered before the other was sent.
func mustPrecede(reqs []concReq) [][]bool {
	n := len(reqs)
	before := make([][]bool, n)
	for i := range before {
		before[i] = make([]bool, n)
		for j := range reqs {
			if i == j {
				continue
			}
			if reqs[j].Client == reqs[i].Client && reqs[j].Seq < reqs[i].Seq {
				before[i][j] = true
			}
			if reqs[j].End < reqs[i].Start {
				before[i][j] = true
			}
		}
	}
	return before
}

// serialSearch looks for an ordering of the requests — respecting program order and real time — whose serial execution on
// fresh engines reproduces every observed response and the observed final state.
func serialSearch(cx canonCtx, setup []rawReq, reqs []concReq, final []string, readPaths []string, budget int) ([]int, int) {
	n := len(reqs)
	before := mustPrecede(reqs)
	// candidates are tried in the order in which they were answered: a serial order is usually close to that one
	cand := make([]int, n)
	for i := range cand {
		cand[i] = i
	}
	sort.SliceStable(cand, func(a, b int) bool { return reqs[cand[a]].End < reqs[cand[b]].End })
	explored := 0
	seen := map[string]bool{}
	var order []int
	var found []int
	replay := func(path []int) (*eng, bool) {
		e := newEng()
		for _, q := range setup {
			if r := e.do(q); r.status != 200 {
				return nil, false
			}
		}
		for _, i := range path {
			e.do(reqs[i].raw())
		}
		return e, true
	}
	readAll := func(e *eng) []string {
		var toks []string
		for _, p := range readPaths {
			q := rawReq{method: "GET", path: p}
			toks = append(toks, canonResp(cx, q, e.do(q)).tok)
		}
		return toks
	}
	var dfs func(mask uint64) bool
	dfs = func(mask uint64) bool {
		if explored >= budget {
			return false
		}
		explored++
		e, ok := replay(order)
		if !ok {
			return false
		}
		state := strings.Join(readAll(e), "\n")
		if len(order) == n {
			if state == strings.Join(final, "\n") {
				found = append([]int{}, order...)
				return true
			}
			return false
		}
		key := strconv.FormatUint(mask, 16) + "|" + state
		if seen[key] {
			return false
		}
		seen[key] = true
		for _, i := range cand {
			if mask&(1<<uint(i)) != 0 {
				continue
			}
			ready := true
			for j := 0; j < n; j++ {
				if before[i][j] && mask&(1<<uint(j)) == 0 {
					ready = false
					break
				}
			}
			if !ready {
				continue
			}
			// the candidate must answer what was observed when executed next
			e2, ok := replay(order)
			if !ok {
				return false
			}
			q := reqs[i].raw()
			if canonResp(cx, q, e2.do(q)).tok != reqs[i].Tok {
				continue
			}
			order = append(order, i)
			if dfs(mask | 1<<uint(i)) {
				return true
			}
			order = order[:len(order)-1]
		}
		return false
	}
	dfs(0)
	return found, explored
}

// statusObject judges the requests of a "both" round that work on the status document — one register that starts as
// RUNNING, is read by admin GET /status and API GET /, and is set to SHUTTING_DOWN (and answered as such) by the round's
// one POST /shutdown.  It returns what cannot be explained by any order that respects real time, and otherwise the
// order constraints (pairs [earlier, later]) the reads impose.
func statusObject(reqs []concReq, finalWord string) (edges [][2]int, problems []string) {
	post := -1
	var reads []int
	for i, q := range reqs {
		switch concClass(q) {
		case "status-write":
			if post >= 0 {
				problems = append(problems, "harness: more than one shutdown request in a round")
			}
			post = i
		case "status-read":
			reads = append(reads, i)
		}
	}
	name := func(i int) string {
		q := reqs[i]
		m := "api"
		if q.Mux != "" {
			m = q.Mux
		}
		return fmt.Sprintf("client %d #%d %s %s %s", q.Client, q.Seq, m, q.Method, q.Path)
	}
	if post >= 0 && reqs[post].Tok != "200 status:SHUTTING_DOWN" {
		problems = append(problems, fmt.Sprintf("%s was answered %s, not with the status document it had just set to SHUTTING_DOWN", name(post), reqs[post].Tok))
	}
	var sawDown []int
	for _, i := range reads {
		q := reqs[i]
		if !strings.HasPrefix(q.Tok, "200 ") {
			problems = append(problems, fmt.Sprintf("%s was answered %s", name(i), q.Tok))
			continue
		}
		switch q.Word {
		case "RUNNING":
			if post >= 0 {
				if reqs[post].End < q.Start {
					problems = append(problems, fmt.Sprintf("%s reported RUNNING although it was sent after the shutdown request had been answered (with SHUTTING_DOWN)", name(i)))
				}
				edges = append(edges, [2]int{i, post})
			}
		case "SHUTTING_DOWN":
			if post < 0 {
				problems = append(problems, fmt.Sprintf("%s reported SHUTTING_DOWN but no shutdown request was sent", name(i)))
			} else {
				if q.End < reqs[post].Start {
					problems = append(problems, fmt.Sprintf("%s reported SHUTTING_DOWN and was answered before the shutdown request was sent", name(i)))
				}
				edges = append(edges, [2]int{post, i})
			}
			sawDown = append(sawDown, i)
		default:
			problems = append(problems, fmt.Sprintf("%s reported the status %q (the document: %s)", name(i), q.Word, q.Tok))
		}
	}
	for _, s := range sawDown {
		for _, i := range reads {
			if reqs[i].Word == "RUNNING" && reqs[s].End < reqs[i].Start {
				problems = append(problems, fmt.Sprintf("%s reported RUNNING although it was sent after %s had been answered with SHUTTING_DOWN", name(i), name(s)))
			}
		}
	}
	want := "RUNNING"
	if post >= 0 && strings.HasPrefix(reqs[post].Tok, "200 ") {
		want = "SHUTTING_DOWN"
	}
	if finalWord != "200 status:"+want {
		problems = append(problems, fmt.Sprintf("after the round admin GET /status answers %s, expected status %s", finalWord, want))
	}
	return edges, problems
}

// mergeOrders extends the real-time / program order, the serial order found for the engine's requests and the order
// the status reads impose to ONE total order (the objects are independent, so by the locality of linearisability such
// an order exists whenever each part has one; a cycle would be reported).
func mergeOrders(reqs []concReq, engineOrder []int, edges [][2]int) ([]int, bool) {
	n := len(reqs)
	before := mustPrecede(reqs)
	for k := 1; k < len(engineOrder); k++ {
		before[engineOrder[k]][engineOrder[k-1]] = true
	}
	for _, e := range edges {
		before[e[1]][e[0]] = true
	}
	done := make([]bool, n)
	var out []int
	for len(out) < n {
		best := -1
		for i := 0; i < n; i++ {
			if done[i] {
				continue
			}
			ready := true
			for j := 0; j < n; j++ {
				if before[i][j] && !done[j] {
					ready = false
					break
				}
			}
			if ready && (best < 0 || reqs[i].End < reqs[best].End) {
				best = i
			}
		}
		if best < 0 {
			return nil, false
		}
		done[best] = true
		out = append(out, best)
	}
	return out, true
}

func concReadPaths(sc *engScenario, labels []string) []string {
	ps := []string{pScenario, pSolutions, pModel, pActive, pApplicable}
	for _, pu := range sc.pus {
		ps = append(ps, pSubPrefix+strconv.FormatUint(pu, 10))
	}
	// which labels the pool serves at the end (a GET fills the pool; it is the last thing done to an engine)
	for _, l := range labels {
		ps = append(ps, pSolutions+"/"+l)
	}
	return ps
}

func describeReqs(reqs []concReq, final []string) string {
	var sb strings.Builder
	for _, q := range reqs {
		m := "api"
		if q.Mux != "" {
			m = q.Mux
		}
		fmt.Fprintf(&sb, "client %d #%d [%d..%d us] %s %s %s %s -> %s\n", q.Client, q.Seq, q.Start/1000, q.End/1000, m, q.Method, q.Path, clip(q.Body, 120), clip(q.Tok, 160))
	}
	fmt.Fprintf(&sb, "final: %s\n", clip(strings.Join(final, " | "), 1200))
	return sb.String()
}

const concSearchBudget = 4000

// concRunRound serves one engine to concurrent clients and judges what they saw.
func concRunRound(r *Rng, sc *engScenario, fprintf bool, both bool) concRound {
	cx := canonCtx{scen: sc, fprintf: fprintf}
	scenBody := concScenarioBody("conc", sc)
	setup := []rawReq{{method: "POST", path: pScenario, ctype: ctToml, body: scenBody}}
	// a random starting set, so that writes have something to overwrite
	start := make([]bool, sc.n())
	for i := range start {
		start[i] = r.Chance(0.4)
	}
	setup = append(setup, rawReq{method: "PATCH", path: pModel, ctype: ctJson, body: []byte(fmt.Sprintf(`[{"Name":"Encoding","Value":%q}]`, engEncode(start)))})
	// every other round: a solution summary too, whose members the clients then ask for concurrently
	var labels []string
	if r.Chance(0.5) {
		body, ls := concSolutionsBody(r, sc, 3+r.Intn(4))
		labels = append(ls, "As-Is")
		setup = append(setup, rawReq{method: "POST", path: pSolutions, ctype: ctCsv, body: body})
	}

	round := concRound{Kind: "api", Scenario: string(scenBody), DsRel: sc.dsRel, LimVar: sc.limVar, Limit: sc.limit}
	e := newEng()
	apiSrv := httptest.NewServer(e.mux)
	servers := []*httptest.Server{apiSrv}
	// Close waits for the requests in flight: not when one of them is known never to return
	defer func() {
		if round.Verdict != "handler-blocked" {
			for _, s := range servers {
				s.Close()
			}
		}
	}()
	base := map[string]string{"": apiSrv.URL}
	waiterDone := make(chan struct{})
	shutdownDone := make(chan struct{})
	if both {
		round.Kind = "both"
		adm := e.adminMux()
		// what RestServer.Start does around serving the two multiplexers: the status becomes RUNNING, the shutdown waiter
		// waits, and once it returns RestServer.shutdown begins with the API multiplexer (the admin multiplexer's own
		// Shutdown is not imitated: it marks the server DEAD after its http.Server has drained, which an httptest.Server
		// does not take part in)
		adm.SetStatus("RUNNING")
		admSrv := httptest.NewServer(adm)
		servers = append(servers, admSrv)
		base["admin"] = admSrv.URL
		go func() {
			adm.WaitForShutdownSignal()
			close(waiterDone)
			e.mux.Shutdown()
			close(shutdownDone)
		}()
	}
	client := &http.Client{Timeout: concClientTimeout, Transport: &http.Transport{MaxIdleConnsPerHost: 16}}
	for _, s := range setup {
		resp, err := httpDo(client, apiSrv.URL, s)
		round.Setup = append(round.Setup, concReq{Method: s.method, Path: s.path, Ctype: s.ctype, Body: string(s.body), Tok: canonResp(cx, s, resp).tok})
		if err != nil || resp.status != 200 {
			round.Verdict = "setup-failed"
			return round
		}
	}
	nClients := 2 + r.Intn(7)
	var progs [][]concPlan
	if both {
		nClients = 3 + r.Intn(6)
		progs = bothPrograms(r, sc, nClients, labels)
	} else {
		progs = concPrograms(r, sc, nClients, labels)
	}
	var mu sync.Mutex
	var wg sync.WaitGroup
	type rawAnswer struct {
		q    rawReq
		resp engResp
		err  error
	}
	answers := map[[2]int]rawAnswer{} // canonicalised after the join: the reference model behind canonResp is not for concurrent use
	t0 := time.Now()
	gate := make(chan struct{})
	for cl := range progs {
		wg.Add(1)
		go func(cl int) {
			defer wg.Done()
			hc := &http.Client{Timeout: concClientTimeout, Transport: &http.Transport{}}
			<-gate
			for seq, p := range progs[cl] {
				st := time.Since(t0).Nanoseconds()
				resp, err := httpDo(hc, base[p.mux], p.q)
				en := time.Since(t0).Nanoseconds()
				rec := concReq{Client: cl, Seq: seq, Mux: p.mux, Method: p.q.method, Path: p.q.path, Ctype: p.q.ctype, Body: string(p.q.body), Start: st, End: en}
				mu.Lock()
				answers[[2]int{cl, seq}] = rawAnswer{q: p.q, resp: resp, err: err}
				round.Reqs = append(round.Reqs, rec)
				mu.Unlock()
			}
		}(cl)
	}
	// a watchdog that looks at goroutines, not at the clock: a shutdown handler parked in its channel send after the
	// waiter has gone can never return (and holds the admin multiplexer's request lock)
	joined := make(chan struct{})
	blocked := make(chan struct{})
	go func() {
		for {
			select {
			case <-joined:
				return
			case <-time.After(500 * time.Millisecond):
			}
			select {
			case <-waiterDone:
				if goroutineBlocked("", "chan send", shutdownHandlerFrame) {
					close(blocked)
					return
				}
			default:
			}
		}
	}()
	close(gate)
	clientsDone := make(chan struct{})
	go func() { wg.Wait(); close(clientsDone) }()
	select {
	case <-clientsDone:
		close(joined)
	case <-blocked:
		round.Verdict = "handler-blocked"
		round.Detail = "a goroutine is parked in a channel send inside admin.(*Mux).shutdownHandler after WaitForShutdownSignal has returned: that request is never answered and holds the admin multiplexer's request lock"
		return round
	}
	select {
	case <-waiterDone:
		<-shutdownDone // the imitation of RestServer.shutdown has finished before the engine is looked at from here
	default:
	}
	for i := range round.Reqs {
		a := answers[[2]int{round.Reqs[i].Client, round.Reqs[i].Seq}]
		switch {
		case a.err != nil:
			round.Reqs[i].Err = a.err.Error()
			round.Reqs[i].Tok = "transport-error"
		case round.Reqs[i].Mux == "admin":
			round.Reqs[i].Tok = canonAdmin(a.q, a.resp).tok
			round.Reqs[i].Word = statusWordOf(a.resp.body)
		default:
			round.Reqs[i].Tok = canonResp(cx, a.q, a.resp).tok
			if a.q.path == "/" && a.resp.status == 200 {
				round.Reqs[i].Word = statusWordOf(a.resp.body)
			}
		}
	}
	sort.SliceStable(round.Reqs, func(i, j int) bool {
		if round.Reqs[i].Client != round.Reqs[j].Client {
			return round.Reqs[i].Client < round.Reqs[j].Client
		}
		return round.Reqs[i].Seq < round.Reqs[j].Seq
	})
	paths := concReadPaths(sc, concLabelPool(labels))
	for _, p := range paths {
		q := rawReq{method: "GET", path: p}
		resp, err := httpDo(client, apiSrv.URL, q)
		if err != nil {
			round.Final = append(round.Final, "transport-error")
		} else {
			round.Final = append(round.Final, canonResp(cx, q, resp).tok)
		}
	}
	if both {
		q := rawReq{method: "GET", path: "/status"}
		if resp, err := httpDo(client, base["admin"], q); err != nil {
			round.FinalAdm = "transport-error"
		} else {
			round.FinalAdm = canonAdmin(q, resp).tok
		}
	}

	// the engine's requests: a search over the engine's own serial executions
	var engIdx []int
	var engReqs []concReq
	for i, q := range round.Reqs {
		if !both || concClass(q) == "engine" {
			engIdx = append(engIdx, i)
			engReqs = append(engReqs, q)
		}
	}
	sub, explored := serialSearch(cx, setup, engReqs, round.Final, paths, concSearchBudget)
	round.Explored = explored
	switch {
	case sub != nil:
		order := make([]int, len(sub))
		for k, i := range sub {
			order[k] = engIdx[i]
		}
		round.Order, round.Verdict = order, "serialisable"
	case explored >= concSearchBudget:
		round.Verdict = "search-exhausted"
		return round
	default:
		round.Verdict = "not-serialisable"
		round.Detail = describeReqs(round.Reqs, round.Final)
		return round
	}
	if both {
		edges, problems := statusObject(round.Reqs, round.FinalAdm)
		if len(problems) > 0 {
			round.Order, round.Verdict = nil, "not-serialisable"
			round.Detail = "the status document, read through both multiplexers: " + strings.Join(problems, "; ") + "\n" + describeReqs(round.Reqs, round.Final)
			return round
		}
		merged, ok := mergeOrders(round.Reqs, round.Order, edges)
		if !ok {
			round.Order, round.Verdict = nil, "not-serialisable"
			round.Detail = "the serial order of the engine's requests, the order the status reads impose and real time contradict each other\n" + describeReqs(round.Reqs, round.Final)
			return round
		}
		round.Order = merged
	}
	return round
}

// ---------------------------------------------------------------- rounds with a request held inside the engine

// holdProbe is the engine's logger in a "held" round: it tells the harness when a handler has logged a given message,
// i.e. that the request is INSIDE its handler (nothing else is done with what is logged).
type holdProbe struct {
	loggers.NullLogger
	mu       sync.Mutex
	fragment string
	fired    bool
	seen     chan struct{}

	// "held-read" rounds: the first handler that logs the message is kept at that statement until another handler logs
	// it too (they are then inside the same piece of code at the same time) or the grace period has passed
	hold     bool
	holding  bool
	heldText string
	overlap  []string
	met      chan struct{}
}

func (p *holdProbe) Info(message interface{}) {
	text := fmt.Sprint(message)
	p.mu.Lock()
	if !strings.Contains(text, p.fragment) {
		p.mu.Unlock()
		return
	}
	if p.holding {
		p.overlap = append(p.overlap, text)
		if len(p.overlap) == 1 {
			close(p.met)
		}
		p.mu.Unlock()
		return
	}
	first := !p.fired
	if first {
		p.fired = true
		close(p.seen)
	}
	if !first || !p.hold {
		p.mu.Unlock()
		return
	}
	p.holding, p.heldText = true, text
	met := p.met
	p.mu.Unlock()
	select {
	case <-met:
	case <-time.After(concHoldGrace):
	}
	p.mu.Lock()
	p.holding = false
	p.mu.Unlock()
}

// concHoldGrace is how long a held request waits for the other clients before it completes.  It decides nothing: under
// one request lock the others cannot be answered while the request is held, however long it waits; if they are slow
// for another reason the round is an ordinary one.  Only responses that no serial order produces are a violation.
const concHoldGrace = 500 * time.Millisecond

// concInsideWait is how long the harness waits to see the held request inside its handler.  It decides no verdict either:
// if the message is not seen the request is completed and the round is an ordinary one.
const concInsideWait = 3 * time.Second

// concRunHeld forces an overlap instead of hoping for one.  Client A sends PUT subcatchment/<pu> with a body it
// completes only later: its handler has checked that the model has <pu> and waits for the body (inside the request
// lock).  Client B then posts a scenario WITHOUT <pu>, client C reads the model.  Served one at a time B and C cannot be
// answered before A completes, and A answers 200 (A before B) or 404 (B before A); an engine that lets B in while A is
// held answers A with 400 "not supported", which no serial order gives.
func concRunHeld(r *Rng, cat *engCatalogue, sc *engScenario, fprintf bool) concRound {
	cx := canonCtx{scen: sc, fprintf: fprintf}
	scenBody := concScenarioBody("conc", sc)
	round := concRound{Kind: "held", Scenario: string(scenBody), DsRel: sc.dsRel, LimVar: sc.limVar, Limit: sc.limit}
	hot := concHot(sc)
	pu := hot[r.Intn(len(hot))]
	// another data set, without that planning unit
	var other *engScenario
	for seed := uint64(2001); seed < 2040 && other == nil; seed++ {
		rel := genDatasetRel(seed, cat.root)
		if !strings.HasSuffix(rel, "/gModel.csv") {
			continue // the parent regenerates a data set from its path: only this name is recognised (engCatalogue.ensureDataset)
		}
		s := cat.scenario(rel, -1, 0)
		if s == nil {
			continue
		}
		has := false
		for _, p := range s.pus {
			if p == pu {
				has = true
			}
		}
		if !has {
			other = s
		}
	}
	if other == nil {
		round.Verdict = "setup-failed"
		return round
	}
	setup := []rawReq{{method: "POST", path: pScenario, ctype: ctToml, body: scenBody}}
	start := make([]bool, sc.n())
	for i := range start {
		start[i] = r.Chance(0.4)
	}
	setup = append(setup, rawReq{method: "PATCH", path: pModel, ctype: ctJson, body: []byte(fmt.Sprintf(`[{"Name":"Encoding","Value":%q}]`, engEncode(start)))})

	e := newEng()
	probe := &holdProbe{fragment: fmt.Sprintf("subcatchment [%d] state", pu), seen: make(chan struct{}), met: make(chan struct{})}
	e.mux.SetLogger(probe)
	srv := httptest.NewServer(e.mux)
	defer srv.Close()
	client := &http.Client{Timeout: concClientTimeout, Transport: &http.Transport{MaxIdleConnsPerHost: 16}}
	for _, s := range setup {
		resp, err := httpDo(client, srv.URL, s)
		round.Setup = append(round.Setup, concReq{Method: s.method, Path: s.path, Ctype: s.ctype, Body: string(s.body), Tok: canonResp(cx, s, resp).tok})
		if err != nil || resp.status != 200 {
			round.Verdict = "setup-failed"
			return round
		}
	}
	probe.mu.Lock()
	probe.fired = false // the set-up requests are not of interest
	probe.seen = make(chan struct{})
	probe.mu.Unlock()

	types := sc.typesAt(pu)
	aBody := []byte(fmt.Sprintf(`[{"Name":%q,"Value":%q}]`, types[r.Intn(len(types))], []string{"Active", "Inactive"}[r.Intn(2)]))
	plans := []rawReq{
		{method: "PUT", path: pSubPrefix + strconv.FormatUint(pu, 10), ctype: ctJson, body: aBody},
		{method: "POST", path: pScenario, ctype: ctToml, body: concScenarioBody("other", other)},
		{method: "GET", path: pModel},
	}
	type answer struct {
		resp engResp
		err  error
	}
	answers := make([]answer, len(plans))
	recs := make([]concReq, len(plans))
	done := make([]chan struct{}, len(plans))
	t0 := time.Now()
	send := func(i int, body io.Reader) {
		done[i] = make(chan struct{})
		q := plans[i]
		recs[i] = concReq{Client: i, Seq: 0, Method: q.method, Path: q.path, Ctype: q.ctype, Body: string(q.body), Start: time.Since(t0).Nanoseconds()}
		go func() {
			defer close(done[i])
			hc := &http.Client{Timeout: concClientTimeout, Transport: &http.Transport{}}
			req, err := http.NewRequest(q.method, srv.URL+q.path, body)
			if err == nil {
				if q.ctype != "" {
					req.Header.Set("Content-Type", q.ctype)
				}
				var resp *http.Response
				if resp, err = hc.Do(req); err == nil {
					var b []byte
					b, err = io.ReadAll(resp.Body)
					resp.Body.Close()
					answers[i].resp = engResp{status: resp.StatusCode, header: resp.Header, body: b}
				}
			}
			answers[i].err = err
			recs[i].End = time.Since(t0).Nanoseconds()
		}()
	}
	// A: the headers and the first bytes of the body go out, the rest is kept back
	pr, pw := io.Pipe()
	send(0, pr)
	firstPart := make(chan struct{})
	go func() {
		pw.Write(aBody[:len(aBody)/2])
		close(firstPart)
	}()
	inside := false
	select {
	case <-probe.seen:
		inside = true
	case <-done[0]:
	case <-time.After(concInsideWait):
		// e.g. a multiplexer that receives the whole body before it calls the handler: nothing to hold, an ordinary round
	}
	overtaken := false
	if inside {
		send(1, bytes.NewReader(plans[1].body))
		send(2, nil)
		select {
		case <-done[1]:
			overtaken = true // B was answered while A was inside its handler
		case <-time.After(concHoldGrace):
		}
	}
	<-firstPart
	pw.Write(aBody[len(aBody)/2:])
	pw.Close()
	if !inside {
		<-done[0]
		send(1, bytes.NewReader(plans[1].body))
		send(2, nil)
	}
	for i := range done {
		<-done[i]
	}
	switch {
	case !inside:
		round.Note = "the held request was not seen inside its handler: an ordinary round"
	case overtaken:
		round.Note = "another request was answered while the held request was inside its handler"
	default:
		round.Note = "no other request was answered while the held request was inside its handler"
	}
	for i := range recs {
		if answers[i].err != nil {
			recs[i].Err, recs[i].Tok = answers[i].err.Error(), "transport-error"
		} else {
			recs[i].Tok = canonResp(cx, plans[i], answers[i].resp).tok
		}
	}
	round.Reqs = recs
	paths := concReadPaths(sc, nil)
	for _, p := range paths {
		q := rawReq{method: "GET", path: p}
		if resp, err := httpDo(client, srv.URL, q); err != nil {
			round.Final = append(round.Final, "transport-error")
		} else {
			round.Final = append(round.Final, canonResp(cx, q, resp).tok)
		}
	}
	order, explored := serialSearch(cx, setup, round.Reqs, round.Final, paths, concSearchBudget)
	round.Explored = explored
	switch {
	case order != nil:
		round.Order, round.Verdict = order, "serialisable"
	case explored >= concSearchBudget:
		round.Verdict = "search-exhausted"
	default:
		round.Verdict = "not-serialisable"
		round.Detail = round.Note + " (client 0 sent its body in two parts, the second after the others had been sent)\n" + describeReqs(round.Reqs, round.Final)
	}
	return round
}

// concRunHeldRead holds a READ inside the engine: the first GET of a solution label that is not yet pooled is kept at
// its "Loading solution […] into solution pool" message — after it has looked the label up in the shared pool, before
// it adds to it — while the other clients' first GETs of other labels (and a write) are under way.  Handlers that run
// one at a time cannot reach that message while another handler is kept there; if one does, two requests are inside
// the pool-filling code at once (engine:handlers-overlap), whatever their answers turn out to be.  The answers and the
// final state are judged by the search for a serial order as in every round.
func concRunHeldRead(r *Rng, sc *engScenario, fprintf bool) concRound {
	cx := canonCtx{scen: sc, fprintf: fprintf}
	scenBody := concScenarioBody("conc", sc)
	round := concRound{Kind: "held-read", Scenario: string(scenBody), DsRel: sc.dsRel, LimVar: sc.limVar, Limit: sc.limit}
	setup := []rawReq{{method: "POST", path: pScenario, ctype: ctToml, body: scenBody}}
	body, labels := concSolutionsBody(r, sc, 3+r.Intn(3))
	setup = append(setup, rawReq{method: "POST", path: pSolutions, ctype: ctCsv, body: body})
	e := newEng()
	probe := &holdProbe{fragment: "into solution pool", seen: make(chan struct{}), met: make(chan struct{}), hold: true}
	e.mux.SetLogger(probe)
	srv := httptest.NewServer(e.mux)
	defer srv.Close()
	client := &http.Client{Timeout: concClientTimeout, Transport: &http.Transport{MaxIdleConnsPerHost: 16}}
	for _, s := range setup {
		resp, err := httpDo(client, srv.URL, s)
		round.Setup = append(round.Setup, concReq{Method: s.method, Path: s.path, Ctype: s.ctype, Body: string(s.body), Tok: canonResp(cx, s, resp).tok})
		if err != nil || resp.status != 200 {
			round.Verdict = "setup-failed"
			return round
		}
	}
	hot := concHot(sc)
	var plans []rawReq
	for k := 0; k < 3 && k < len(labels); k++ {
		plans = append(plans, rawReq{method: "GET", path: pSolutions + "/" + labels[k]})
	}
	plans = append(plans, concRequest(r, sc, hot, nil))
	type answer struct {
		resp engResp
		err  error
	}
	answers := make([]answer, len(plans))
	recs := make([]concReq, len(plans))
	var wg sync.WaitGroup
	gate := make(chan struct{})
	t0 := time.Now()
	for i := range plans {
		wg.Add(1)
		go func(i int) {
			defer wg.Done()
			hc := &http.Client{Timeout: concClientTimeout, Transport: &http.Transport{}}
			q := plans[i]
			<-gate
			st := time.Since(t0).Nanoseconds()
			resp, err := httpDo(hc, srv.URL, q)
			answers[i] = answer{resp, err}
			recs[i] = concReq{Client: i, Method: q.method, Path: q.path, Ctype: q.ctype, Body: string(q.body), Start: st, End: time.Since(t0).Nanoseconds()}
		}(i)
	}
	close(gate)
	wg.Wait()
	for i := range recs {
		if answers[i].err != nil {
			recs[i].Err, recs[i].Tok = answers[i].err.Error(), "transport-error"
		} else {
			recs[i].Tok = canonResp(cx, plans[i], answers[i].resp).tok
		}
	}
	round.Reqs = recs
	paths := concReadPaths(sc, concLabelPool(labels))
	for _, p := range paths {
		q := rawReq{method: "GET", path: p}
		if resp, err := httpDo(client, srv.URL, q); err != nil {
			round.Final = append(round.Final, "transport-error")
		} else {
			round.Final = append(round.Final, canonResp(cx, q, resp).tok)
		}
	}
	probe.mu.Lock()
	heldText, overlap := probe.heldText, append([]string(nil), probe.overlap...)
	probe.mu.Unlock()
	if len(overlap) > 0 {
		round.Verdict = "handlers-overlap"
		round.Detail = fmt.Sprintf("while one handler was kept at its log statement %q (between looking the label up in the engine's shared solution pool and adding to it), %d other handler(s) reached the same statement: %q — two requests were inside the code that reads and writes the pool at the same time\n%s",
			heldText, len(overlap), overlap, describeReqs(round.Reqs, round.Final))
		return round
	}
	if heldText == "" {
		round.Note = "no handler logged that it loads a solution: an ordinary round"
	} else {
		round.Note = "no other handler reached the pool-filling code while one was kept inside it"
	}
	order, explored := serialSearch(cx, setup, round.Reqs, round.Final, paths, concSearchBudget)
	round.Explored = explored
	switch {
	case order != nil:
		round.Order, round.Verdict = order, "serialisable"
	case explored >= concSearchBudget:
		round.Verdict = "search-exhausted"
	default:
		round.Verdict = "not-serialisable"
		round.Detail = describeReqs(round.Reqs, round.Final)
	}
	return round
}

// suiteEngineConcChild runs the rounds of one child process and writes rounds.json into its -out directory.
func suiteEngineConcChild(c *Ctx) {
	cat := newEngCatalogue(c.Out)
	q, _ := calibrate(cat)
	r := c.Rng.Fork()
	var scs []*engScenario
	add := func(s *engScenario) {
		if s != nil {
			scs = append(scs, s)
		}
	}
	valid := cat.scenario("ds/valid/ValidModel.csv", -1, 0)
	add(valid)
	add(cat.scenario("ds/testing/TestingModel.csv", -1, 0))
	if valid != nil {
		// a limit inside the attainable range: whole-set writes flip ValidAgainstScenario / ValidationErrors (as engineScenarios)
		all := make([]bool, valid.n())
		for i := range all {
			all[i] = true
		}
		hi := valid.totalsAt(all)
		add(cat.scenario("ds/valid/ValidModel.csv", 4, float64(int(hi[4]*0.4))))
	}
	nRounds := 6
	if len(c.Args) > 0 {
		if v, err := strconv.Atoi(c.Args[0]); err == nil {
			nRounds = v
		}
	}
	var rounds []concRound
	flush := func() {
		b, _ := json.Marshal(rounds)
		must(os.WriteFile(filepath.Join(c.Out, "rounds.json"), b, 0o644))
	}
	for ri := 0; ri < nRounds; ri++ {
		sc := scs[r.Intn(len(scs))]
		switch {
		case ri == 2 && valid != nil:
			rounds = append(rounds, concRunHeld(r, cat, valid, q.fprintf))
		case ri == 4:
			rounds = append(rounds, concRunHeldRead(r, sc, q.fprintf))
		default:
			rounds = append(rounds, concRunRound(r, sc, q.fprintf, ri%5 == 1 || ri%5 == 3))
		}
		flush()
	}
	flush()
	c.Op("child-done", "ok")
}

// ---------------------------------------------------------------- parent side

func suiteEngineConc(c *Ctx) {
	cat := newEngCatalogue(c.Out)
	if c.Replay != "" {
		// a recorded serial order (or any request list) is re-executed serially against the engine and the spec
		replayEngine(c, cat, false)
		return
	}
	q, _ := calibrate(cat)
	c.Op(q.line(), "ok")
	self := os.Getenv("VERIF_HARNESS")
	if self == "" {
		self, _ = os.Executable()
	}
	nChildren := c.N(4, 8)
	perChild := c.N(12, 15)
	if raceEnabled {
		// everything, the search for a serial order included, is several times slower under the race detector
		nChildren, perChild = 3, 8
		c.extra["race_detector"] = "on"
	}
	run := newSeqRun(c, cat, q)
	nRounds, nInconclusive := 0, 0
	for ci := 0; ci < nChildren; ci++ {
		dir := filepath.Join(c.Out, fmt.Sprintf("child-%d", ci))
		cmd := exec.Command(self, "engine-conc-child", "-seed", strconv.FormatUint(c.Seed*1000+uint64(ci)+uint64(c.Shard)*100000, 10), "-tier", c.Tier, "-out", dir, strconv.Itoa(perChild))
		var stderr bytes.Buffer
		cmd.Stderr = &stderr
		cmd.Stdout = io.Discard
		cmd.Env = append(os.Environ(), "GORACE=halt_on_error=0 exitcode=0", "GOMAXPROCS=8")
		done := make(chan error, 1)
		must(cmd.Start())
		go func() { done <- cmd.Wait() }()
		var err error
		select {
		case err = <-done:
		case <-time.After(concChildTimeout):
			cmd.Process.Kill()
			err = fmt.Errorf("timeout: no end after %v", concChildTimeout)
		}
		must(os.Chdir(c.Out))
		es := stderr.String()
		if strings.Contains(es, "WARNING: DATA RACE") {
			c.Fail("C16:no-data-race", "engine:data-race", "the race detector reports unsynchronised access to the engine's state while concurrent clients are served:\n"+clip(raceExcerpt(es), 1800), nil)
			c.Stat("child: data race reported")
		}
		var rounds []concRound
		if b, rerr := os.ReadFile(filepath.Join(dir, "rounds.json")); rerr == nil {
			json.Unmarshal(b, &rounds)
		}
		blockedRound := len(rounds) > 0 && rounds[len(rounds)-1].Verdict == "handler-blocked"
		if err != nil && !blockedRound {
			sig := "engine:concurrent-crash"
			first := firstLineWith(es, "fatal error:", "panic:", "timeout")
			c.Fail("C16:serialisable", sig, fmt.Sprintf("the engine process serving concurrent clients ended abnormally (%v): %s\n%s", err, first, clip(es, 1200)), nil)
			c.Stat("child: crashed")
		}
		for _, rd := range rounds {
			nRounds++
			c.Stat("round " + rd.Kind + ": " + rd.Verdict)
			if rd.Note != "" {
				c.Stat("held: " + rd.Note)
			}
			nw := 0
			for _, rq := range rd.Reqs {
				if rq.Method != "GET" {
					nw++
				}
				if rd.Kind == "both" {
					c.Stat("both: " + concClass(rq) + " | " + clip(rq.Tok, 24))
				} else {
					k, _ := classifyPathGo(rq.Path)
					c.Stat(fmt.Sprintf("api: %s kind %d | %s", rq.Method, k, strings.SplitN(rq.Tok, " ", 2)[0]))
				}
			}
			c.Stat(fmt.Sprintf("round clients=%d", countClients(rd.Reqs)))
			switch rd.Verdict {
			case "serialisable":
				concReplay(c, run, rd)
				c.Nontrivial(fmt.Sprintf("%s %d clients %d requests %d writes order %v", rd.Kind, countClients(rd.Reqs), len(rd.Reqs), nw, rd.Order))
			case "not-serialisable":
				c.Fail("C16:serialisable", "engine:not-serialisable", "no ordering of the concurrent requests that respects program order and real time reproduces, on the engine's own serial execution, the responses and final state observed ("+strconv.Itoa(rd.Explored)+" search nodes):\n"+rd.Detail, nil)
			case "handler-blocked":
				c.Fail("C16:serialisable", "engine:admin-handler-blocks", rd.Detail, nil)
			case "handlers-overlap":
				c.Fail("C16:no-unsynchronised-access", "engine:handlers-overlap", rd.Detail, nil)
			case "search-exhausted":
				nInconclusive++
				c.Note("a round's search for a serial order hit its node budget (inconclusive, not counted)")
			case "setup-failed":
				nInconclusive++
				c.Note("a round's set-up requests were not all answered 200 (inconclusive, not counted)")
			}
		}
	}
	c.extra["rounds"] = strconv.Itoa(nRounds)
	c.extra["rounds_inconclusive"] = strconv.Itoa(nInconclusive)
	if nRounds == 0 || nInconclusive*4 > nRounds {
		c.Fail("C16:structural:rounds-inconclusive", "engine-conc:rounds-inconclusive", fmt.Sprintf("%d of %d rounds were inconclusive (search budget exhausted or set-up failed): the suite does not decide enough to count as evidence", nInconclusive, nRounds), nil)
	}
	c.Flush()
}

// concReplay sends the ordering found through the protocol as an ordinary sequence — reset, set-up, the requests in
// order (admin requests as `admin` lines, against the admin multiplexer of the same RestServer) — so that the real
// engine's serial execution and the Lean spec both have to give the answers that were observed concurrently.
func concReplay(c *Ctx, run *seqRun, rd concRound) {
	run.reset()
	// the tokens of a round are canonicalised against the scenario of its set-up (also after a request of the round has
	// replaced the scenario: the token is then still a function of the response alone)
	cx := canonCtx{scen: run.cat.scenario(rd.DsRel, rd.LimVar, rd.Limit), fprintf: run.q.fprintf}
	var adm *adminRun
	if rd.Kind == "both" {
		adm = &adminRun{c: c, ops: []string{"reset"}}
		adm.attach(run.a.adminMux())
	}
	for _, s := range rd.Setup {
		run.exec(s.raw())
	}
	differs := func(rq concReq, tok, word string) {
		m := "api"
		if rq.Mux != "" {
			m = rq.Mux
		}
		c.Fail("C16:serialisable", "engine:not-serialisable", fmt.Sprintf("re-executing the serial order found, %s %s %s answers %s %s; concurrently it answered %s %s\n%s", m, rq.Method, rq.Path, clip(tok, 300), word, clip(rq.Tok, 300), rq.Word, describeReqs(rd.Reqs, rd.Final)), nil)
	}
	for _, i := range rd.Order {
		if run.dead {
			break
		}
		rq := rd.Reqs[i]
		if rq.Mux == "admin" {
			if tok := adm.exec(rq.Method, rq.Path); tok != rq.Tok {
				differs(rq, tok, "")
			}
			continue
		}
		resp := run.exec(rq.raw())
		tok := canonResp(cx, rq.raw(), resp).tok
		word := ""
		if rq.Path == "/" && resp.status == 200 {
			word = statusWordOf(resp.body)
		}
		if tok != rq.Tok || word != rq.Word {
			differs(rq, tok, word)
		}
	}
}
func countClients(rs []concReq) int {
	m := map[int]bool{}
	for _, r := range rs {
		m[r.Client] = true
	}
	return len(m)
}

func firstLineWith(s string, keys ...string) string {
	for _, l := range strings.Split(s, "\n") {
		for _, k := range keys {
			if strings.Contains(l, k) {
				return l
			}
		}
	}
	return ""
}

func raceExcerpt(s string) string {
	i := strings.Index(s, "WARNING: DATA RACE")
	if i < 0 {
		return ""
	}
	lines := strings.Split(s[i:], "\n")
	var keep []string
	for _, l := range lines {
		if strings.Contains(l, "crem/") || strings.HasPrefix(l, "WARNING") || strings.HasPrefix(l, "Previous") || strings.HasPrefix(l, "Write at") || strings.HasPrefix(l, "Read at") {
			keep = append(keep, strings.TrimSpace(l))
		}
		if len(keep) > 24 {
			break
		}
	}
	return strings.Join(keep, "\n")
}

// ---------------------------------------------------------------- engine-facts
//
// The locking model (Crem/Model/Locking.lean) describes handlers that run one at a time under ONE lock and share state
// with nothing else.  What that assumes about the code is extracted from /repo's source with go/ast on every run and
// compared with the driver's expected answers (Driver/Engine.lean, `facts …` lines).  The facts are RULES about the code,
// and what they print are the VIOLATIONS of the rule (plus the accepted exceptions), not a fingerprint of the code: a
// renamed mutex, a lock taken through a wrapper method, a new field that is always accessed under the request lock or a
// statement on locals in front of the lock leave every answer as it is; a change that breaks a rule changes an answer.
//
//   facts servehttp        rest.MuxImpl.ServeHTTP handles the request inside ONE critical section of a mutex field of the
//                          multiplexer (the REQUEST LOCK): after a prefix of statements that touch neither the receiver
//                          nor a package-level variable / function of its package and contain no go / defer statement,
//                          EITHER <recv>.<mutex>.Lock() directly followed by defer <recv>.<same>.Unlock() (the rest of
//                          the body runs under the lock), OR one call <recv>.M(func literal) of a lock wrapper M (Lock;
//                          defer Unlock; run the parameter) followed by nothing that touches the receiver, package-level
//                          state or a local variable that the closure shares; and no `go` statement in the packages
//                          whose code runs inside a handler
//   facts servehttp-unique exactly one ServeHTTP among the four multiplexer types (nothing shadows the locking one: the
//                          harness serves *engineApi.Mux, production serves `Handler: mi`)
//   facts lock-sites       the NON-CANONICAL Lock/Unlock/RLock/RUnlock/TryLock sites of the server packages (expected:
//                          none).  Canonical = <recv>.<mutex field>.Lock() directly followed by defer <recv>.<same>.Unlock()
//                          in the top-level statements of a method: the lock is held from there to the method's return,
//                          which is exactly what the lockset walk below models (ServeHTTP's pair, the pair of a lock
//                          wrapper, a whole-function critical section such as admin.Mux.changeStatus).  Anything else — a
//                          non-deferred Unlock, an unlock/re-lock in the middle of a handler, a shared (R) lock, a lock
//                          taken in a nested block or through a method value, a lock that is no field of the receiver —
//                          is printed
//   facts go-statements    every `go` statement of the server packages (three known sites)
//   facts startup          what runs before the first `go` statement of RestServer.Start, and that the engine's initial
//                          scenario / solution are loaded before the server is started
//   facts handlers         every AddHandler(pattern, X.method) whose X is NOT the multiplexer it is registered with
//                          (foreign=…) or whose method the extraction cannot follow (unresolved=…)
//   facts locksets         lockset analysis (as Eraser's, over a syntactic call graph) of every field of the multiplexers
//                          that is written after start-up — by a handler, or by what RestServer.Start runs from its
//                          first `go` statement on.  Printed are the fields that are NOT consistently locked: `F@-` if an
//                          access of F reachable after start-up holds no lock at all, `F@mixed` if every access holds some
//                          lock but no lock is common to all of them.  A field whose accesses share a lock is not printed
//                          (whatever the lock is called)
//   facts post-start       the accesses to the fields of `facts locksets` made from outside ServeHTTP after start-up
//                          (`@-`: nothing held, `@locked`: some lock held)
//
// Own handlers start with the multiplexer's request lock held (the one `facts servehttp` found); a handler registered with
// ANOTHER multiplexer starts with nothing held (the other multiplexer's request lock is not this one's).  Limits of the
// extraction (syntactic, no type checker): locks are told apart by field name, not by instance; Lock/Unlock are tracked
// in the top-level statements of a function body only (a lock taken in a nested block counts as not held, and is a
// non-canonical site); calls are followed through methods of the five struct types and functions of their packages, not
// through interfaces other than rest.Mux (= *engineApi.Mux as the API multiplexer, which RestServer.SetScenario's type
// assertion and cmd/cremengine's buildApiMux show) nor through values of function type other than literal closures.

type fPkg struct {
	dir, short string
	files      []*ast.File
	funcs      map[string]*ast.FuncDecl
	fileOf     map[*ast.FuncDecl]*ast.File
}

type fType struct {
	key      string // e.g. rest.MuxImpl
	pkg      *fPkg
	file     *ast.File
	fields   map[string]ast.Expr // named fields: declared type
	embedded []ast.Expr          // embedded fields: declared type
	methods  map[string]*ast.FuncDecl
	mutexes  map[string]bool
}

type fUniverse struct {
	fset  *token.FileSet
	pkgs  map[string]*fPkg // by directory
	types map[string]*fType
}

var factsDirs = [][2]string{
	{"internal/pkg/server", "server"},
	{"internal/pkg/server/rest", "rest"},
	{"internal/pkg/server/api", "serverApi"},
	{"internal/pkg/server/admin", "admin"},
	{"cmd/cremengine/engine/api", "engineApi"},
}

var factsMuxTypes = []string{"rest.MuxImpl", "serverApi.Mux", "admin.Mux", "engineApi.Mux"}

func loadFactsUniverse(repo string) *fUniverse {
	u := &fUniverse{fset: token.NewFileSet(), pkgs: map[string]*fPkg{}, types: map[string]*fType{}}
	for _, d := range factsDirs {
		p := &fPkg{dir: d[0], short: d[1], funcs: map[string]*ast.FuncDecl{}, fileOf: map[*ast.FuncDecl]*ast.File{}}
		u.pkgs[d[0]] = p
		ents, _ := os.ReadDir(filepath.Join(repo, d[0]))
		for _, ent := range ents {
			if ent.IsDir() || !strings.HasSuffix(ent.Name(), ".go") || strings.HasSuffix(ent.Name(), "_test.go") {
				continue
			}
			f, err := parser.ParseFile(u.fset, filepath.Join(repo, d[0], ent.Name()), nil, 0)
			if err != nil {
				continue
			}
			p.files = append(p.files, f)
		}
	}
	for _, d := range factsDirs {
		p := u.pkgs[d[0]]
		for _, f := range p.files {
			for _, decl := range f.Decls {
				gd, ok := decl.(*ast.GenDecl)
				if !ok {
					continue
				}
				for _, sp := range gd.Specs {
					ts, ok := sp.(*ast.TypeSpec)
					if !ok {
						continue
					}
					st, ok := ts.Type.(*ast.StructType)
					if !ok {
						continue
					}
					t := &fType{key: p.short + "." + ts.Name.Name, pkg: p, file: f, fields: map[string]ast.Expr{}, methods: map[string]*ast.FuncDecl{}, mutexes: map[string]bool{}}
					for _, fld := range st.Fields.List {
						if len(fld.Names) == 0 {
							t.embedded = append(t.embedded, fld.Type)
							continue
						}
						for _, nme := range fld.Names {
							t.fields[nme.Name] = fld.Type
							if se, ok := fld.Type.(*ast.SelectorExpr); ok {
								if x, ok := se.X.(*ast.Ident); ok && x.Name == "sync" && (se.Sel.Name == "Mutex" || se.Sel.Name == "RWMutex") {
									t.mutexes[nme.Name] = true
								}
							}
						}
					}
					u.types[t.key] = t
				}
			}
		}
	}
	for _, d := range factsDirs {
		p := u.pkgs[d[0]]
		for _, f := range p.files {
			for _, decl := range f.Decls {
				fd, ok := decl.(*ast.FuncDecl)
				if !ok {
					continue
				}
				p.fileOf[fd] = f
				if fd.Recv == nil || len(fd.Recv.List) == 0 {
					p.funcs[fd.Name.Name] = fd
					continue
				}
				if t := u.resolveType(p, f, fd.Recv.List[0].Type); t != nil {
					t.methods[fd.Name.Name] = fd
				}
			}
		}
	}
	return u
}

// resolveType maps a type expression to one of the struct types of the scanned packages (nil if it is none).
func (u *fUniverse) resolveType(p *fPkg, f *ast.File, e ast.Expr) *fType {
	switch x := e.(type) {
	case *ast.StarExpr:
		return u.resolveType(p, f, x.X)
	case *ast.ParenExpr:
		return u.resolveType(p, f, x.X)
	case *ast.Ident:
		return u.types[p.short+"."+x.Name]
	case *ast.SelectorExpr:
		alias, ok := x.X.(*ast.Ident)
		if !ok {
			return nil
		}
		for _, imp := range f.Imports {
			path := strings.Trim(imp.Path.Value, `"`)
			name := path[strings.LastIndex(path, "/")+1:]
			if imp.Name != nil {
				name = imp.Name.Name
			}
			if name != alias.Name {
				continue
			}
			for _, d := range factsDirs {
				if strings.HasSuffix(path, "/"+d[0]) {
					if d[1] == "rest" && x.Sel.Name == "Mux" {
						return u.types["engineApi.Mux"] // the interface rest.Mux: the API multiplexer production passes in
					}
					return u.types[d[1]+"."+x.Sel.Name]
				}
			}
		}
	}
	return nil
}

func embeddedName(e ast.Expr) string {
	switch x := e.(type) {
	case *ast.StarExpr:
		return embeddedName(x.X)
	case *ast.Ident:
		return x.Name
	case *ast.SelectorExpr:
		return x.Sel.Name
	}
	return ""
}

// method finds a method by name on the type or, breadth first, on what it embeds.
func (u *fUniverse) method(t *fType, name string) (*fType, *ast.FuncDecl) {
	queue := []*fType{t}
	for len(queue) > 0 {
		c := queue[0]
		queue = queue[1:]
		if fd, ok := c.methods[name]; ok {
			return c, fd
		}
		for _, e := range c.embedded {
			if et := u.resolveType(c.pkg, c.file, e); et != nil {
				queue = append(queue, et)
			}
		}
	}
	return nil, nil
}

// field finds a named field, or an embedded one by its type's name; the declared type comes with it.
func (u *fUniverse) field(t *fType, name string) (*fType, ast.Expr) {
	queue := []*fType{t}
	for len(queue) > 0 {
		c := queue[0]
		queue = queue[1:]
		if e, ok := c.fields[name]; ok {
			return c, e
		}
		for _, e := range c.embedded {
			if embeddedName(e) == name {
				return c, e
			}
			if et := u.resolveType(c.pkg, c.file, e); et != nil {
				queue = append(queue, et)
			}
		}
	}
	return nil, nil
}

func (u *fUniverse) mutexOf(t *fType, name string) bool {
	owner, _ := u.field(t, name)
	return owner != nil && owner.mutexes[name]
}

func recvName(fd *ast.FuncDecl) string {
	if fd.Recv == nil || len(fd.Recv.List) == 0 || len(fd.Recv.List[0].Names) == 0 {
		return ""
	}
	return fd.Recv.List[0].Names[0].Name
}

func fExprText(e ast.Expr) string {
	switch x := e.(type) {
	case *ast.Ident:
		return x.Name
	case *ast.SelectorExpr:
		return fExprText(x.X) + "." + x.Sel.Name
	case *ast.CallExpr:
		return fExprText(x.Fun) + "()"
	case *ast.StarExpr:
		return "*" + fExprText(x.X)
	case *ast.ParenExpr:
		return fExprText(x.X)
	case *ast.IndexExpr:
		return fExprText(x.X) + "[]"
	}
	return "?"
}

// ---- the walker

type fAccess struct {
	field string // <owner type>.<field>
	kind  string // R | W | & | C:<method called on the field's value>
	held  string // locks held, sorted, "+"-joined; "-" if none
	where string // entry: handler | foreign | start/go | start/main …
	fn    string // function the access is written in
}

type fWalker struct {
	u       *fUniverse
	out     []fAccess
	seen    map[string]bool
	goSites []string
}

func heldKey(h map[string]bool) string {
	var ks []string
	for k := range h {
		ks = append(ks, k)
	}
	if len(ks) == 0 {
		return "-"
	}
	sort.Strings(ks)
	return strings.Join(ks, "+")
}

func copyHeld(h map[string]bool, add ...string) map[string]bool {
	o := map[string]bool{}
	for k := range h {
		o[k] = true
	}
	for _, a := range add {
		o[a] = true
	}
	return o
}

// lockCall recognises <var>.<mutex field>.<Lock|Unlock|…>() on a variable of the environment.
func (w *fWalker) lockCall(e ast.Expr, env map[string]*fType) (field, op string, ok bool) {
	ce, isCall := e.(*ast.CallExpr)
	if !isCall {
		return "", "", false
	}
	se, isSel := ce.Fun.(*ast.SelectorExpr)
	if !isSel {
		return "", "", false
	}
	switch se.Sel.Name {
	case "Lock", "Unlock", "RLock", "RUnlock", "TryLock", "TryRLock":
	default:
		return "", "", false
	}
	inner, isSel := se.X.(*ast.SelectorExpr)
	if !isSel {
		return "", "", false
	}
	v, isIdent := inner.X.(*ast.Ident)
	if !isIdent || env[v.Name] == nil || !w.u.mutexOf(env[v.Name], inner.Sel.Name) {
		return "", "", false
	}
	return inner.Sel.Name, se.Sel.Name, true
}

// lockSel: the selector <var>.<mutex field>.<op> of a call that lockCall recognises.
func lockSel(e ast.Expr) *ast.SelectorExpr {
	if ce, ok := e.(*ast.CallExpr); ok {
		if se, ok := ce.Fun.(*ast.SelectorExpr); ok {
			return se
		}
	}
	return nil
}

// criticalPair: stmts[i] is <var>.<L>.Lock() and stmts[i+1] is defer <same var>.<L>.Unlock() for a mutex field L of a
// variable of the environment — L is held from there until the function returns.  The two selectors come with it.
func (w *fWalker) criticalPair(stmts []ast.Stmt, i int, env map[string]*fType) (string, *ast.SelectorExpr, *ast.SelectorExpr, bool) {
	if i < 0 || i+1 >= len(stmts) {
		return "", nil, nil, false
	}
	s0, ok0 := stmts[i].(*ast.ExprStmt)
	s1, ok1 := stmts[i+1].(*ast.DeferStmt)
	if !ok0 || !ok1 {
		return "", nil, nil, false
	}
	l0, op0, a := w.lockCall(s0.X, env)
	l1, op1, b := w.lockCall(s1.Call, env)
	if !a || !b || op0 != "Lock" || op1 != "Unlock" || l0 != l1 {
		return "", nil, nil, false
	}
	sel0, sel1 := lockSel(s0.X), lockSel(s1.Call)
	if sel0 == nil || sel1 == nil || fExprText(sel0.X) != fExprText(sel1.X) {
		return "", nil, nil, false
	}
	return l0, sel0, sel1, true
}

// lockWrapper: a method whose body is <recv>.<L>.Lock(); defer <recv>.<L>.Unlock(); <its one function parameter>() —
// the closure handed to it runs under L.
func (w *fWalker) lockWrapper(t *fType, fd *ast.FuncDecl) (string, bool) {
	if fd.Body == nil || len(fd.Body.List) != 3 || fd.Type.Params == nil || len(fd.Type.Params.List) != 1 || len(fd.Type.Params.List[0].Names) != 1 {
		return "", false
	}
	if _, isFunc := fd.Type.Params.List[0].Type.(*ast.FuncType); !isFunc {
		return "", false
	}
	env := map[string]*fType{recvName(fd): t}
	l0, _, _, ok := w.criticalPair(fd.Body.List, 0, env)
	s2, ok2 := fd.Body.List[2].(*ast.ExprStmt)
	if !ok || !ok2 {
		return "", false
	}
	ce, isCall := s2.X.(*ast.CallExpr)
	if !isCall || len(ce.Args) != 0 {
		return "", false
	}
	if id, isIdent := ce.Fun.(*ast.Ident); !isIdent || id.Name != fd.Type.Params.List[0].Names[0].Name {
		return "", false
	}
	return l0, true
}

// wrapperCall: <var>.M(func literal) for a lock wrapper M of the variable's type: the lock and the closure that runs under it.
func (w *fWalker) wrapperCall(e ast.Expr, env map[string]*fType) (string, *ast.FuncLit) {
	call, ok := e.(*ast.CallExpr)
	if !ok || len(call.Args) != 1 {
		return "", nil
	}
	f, ok := call.Fun.(*ast.SelectorExpr)
	if !ok {
		return "", nil
	}
	v, isIdent := f.X.(*ast.Ident)
	if !isIdent || env[v.Name] == nil {
		return "", nil
	}
	owner, callee := w.u.method(env[v.Name], f.Sel.Name)
	if callee == nil {
		return "", nil
	}
	l, isWrapper := w.lockWrapper(owner, callee)
	lit, isLit := call.Args[0].(*ast.FuncLit)
	if !isWrapper || !isLit {
		return "", nil
	}
	return l, lit
}

// globals: the package-level variables of a package and those of its package-level functions through which a statement can
// reach shared state (or leave the request's goroutine) without naming a receiver: a function that mentions a package-level
// variable, starts a goroutine, or calls such a function.  A helper that works on its arguments alone (say, one that reads the
// request's body into memory) is not among them.
func (p *fPkg) globals() map[string]bool {
	vars := map[string]bool{}
	funcs := map[string]*ast.FuncDecl{}
	for _, f := range p.files {
		for _, decl := range f.Decls {
			switch d := decl.(type) {
			case *ast.FuncDecl:
				if d.Recv == nil && d.Name.Name != "_" {
					funcs[d.Name.Name] = d
				}
			case *ast.GenDecl:
				if d.Tok != token.VAR {
					continue
				}
				for _, sp := range d.Specs {
					if vs, ok := sp.(*ast.ValueSpec); ok {
						for _, n := range vs.Names {
							if n.Name != "_" {
								vars[n.Name] = true
							}
						}
					}
				}
			}
		}
	}
	out := map[string]bool{}
	for v := range vars {
		out[v] = true
	}
	// a function's own parameters and locals may shadow a package-level name: that only makes the answer more cautious
	reaches := func(fd *ast.FuncDecl) bool {
		if fd.Body == nil {
			return true // no body to look at (assembly, linkname): assume the worst
		}
		found := false
		ast.Inspect(fd.Body, func(n ast.Node) bool {
			if found || n == nil {
				return false
			}
			switch x := n.(type) {
			case *ast.GoStmt:
				found = true
				return false
			case *ast.SelectorExpr:
				if id, ok := x.X.(*ast.Ident); ok && out[id.Name] {
					found = true
				}
				return !found
			case *ast.Ident:
				if out[x.Name] {
					found = true
				}
			}
			return true
		})
		return found
	}
	for changed := true; changed; {
		changed = false
		for name, fd := range funcs {
			if !out[name] && reaches(fd) {
				out[name] = true
				changed = true
			}
		}
	}
	return out
}

// fMentions: does the node use one of the names as an identifier (not as the selected name of a selector expression), start
// a goroutine, or defer something (a deferred call runs when the function returns: after a deferred Unlock placed later)?
func fMentions(n ast.Node, names map[string]bool) bool {
	found := false
	var visit func(ast.Node) bool
	visit = func(n ast.Node) bool {
		if found || n == nil {
			return false
		}
		switch x := n.(type) {
		case *ast.GoStmt, *ast.DeferStmt:
			found = true
			return false
		case *ast.SelectorExpr:
			ast.Inspect(x.X, visit)
			return false
		case *ast.Ident:
			if names[x.Name] {
				found = true
			}
		}
		return true
	}
	ast.Inspect(n, visit)
	return found
}

// fDeclared: the local variables a statement declares (`:=`, `var`), at any depth.
func fDeclared(n ast.Node, into map[string]bool) {
	ast.Inspect(n, func(n ast.Node) bool {
		switch x := n.(type) {
		case *ast.AssignStmt:
			if x.Tok == token.DEFINE {
				for _, l := range x.Lhs {
					if id, ok := l.(*ast.Ident); ok && id.Name != "_" {
						into[id.Name] = true
					}
				}
			}
		case *ast.ValueSpec:
			for _, id := range x.Names {
				if id.Name != "_" {
					into[id.Name] = true
				}
			}
		}
		return true
	})
}

// fServeLock: how ServeHTTP takes the request lock (see `facts servehttp`).
type fServeLock struct {
	lock           string // the mutex field; "" unless both conditions hold
	lockFirst      bool   // the first statement that touches the receiver (or package-level state) acquires a mutex field of it
	unlockDeferred bool   // … which is released by defer when ServeHTTP returns, nothing touching the receiver outside it
	form           string // pair | wrapper
	why            string // what is wrong, if something is
}

func (w *fWalker) serveLock(t *fType, fd *ast.FuncDecl) (r fServeLock) {
	if fd == nil || fd.Body == nil || recvName(fd) == "" {
		r.why = "no ServeHTTP with a named receiver and a body"
		return r
	}
	recv := recvName(fd)
	env := map[string]*fType{recv: t}
	names := t.pkg.globals()
	names[recv] = true
	stmts := fd.Body.List
	i := 0
	for i < len(stmts) && !fMentions(stmts[i], names) {
		i++
	}
	if i == len(stmts) {
		r.why = "no statement of ServeHTTP takes a lock"
		return r
	}
	if l, _, _, ok := w.criticalPair(stmts, i, env); ok {
		r.lock, r.lockFirst, r.unlockDeferred, r.form = l, true, true, "pair"
		return r
	}
	if es, ok := stmts[i].(*ast.ExprStmt); ok {
		if _, op, ok := w.lockCall(es.X, env); ok && op == "Lock" {
			r.lockFirst = true
			r.why = fmt.Sprintf("statement %d locks a mutex of the receiver, but the next statement is not `defer` unlocking the same mutex", i+1)
			return r
		}
		if l, lit := w.wrapperCall(es.X, env); lit != nil {
			r.lockFirst = true
			// what follows the wrapper call runs with the lock released: it may touch neither the receiver nor package-level
			// state, nor a local variable that the closure could have filled from them (a handler looked up under the
			// lock and called after it)
			carried := map[string]bool{}
			for _, s := range stmts[:i] {
				fDeclared(s, carried)
			}
			for v := range carried {
				if !fMentions(lit.Body, map[string]bool{v: true}) {
					delete(carried, v)
				}
			}
			for v := range names {
				carried[v] = true
			}
			for j := i + 1; j < len(stmts); j++ {
				if fMentions(stmts[j], carried) {
					r.why = fmt.Sprintf("statement %d runs after the lock wrapper has released the lock and touches the receiver, package-level state or a local variable shared with the closure (or defers)", j+1)
					return r
				}
			}
			r.lock, r.unlockDeferred, r.form = l, true, "wrapper"
			return r
		}
	}
	r.why = fmt.Sprintf("statement %d touches the receiver (or package-level state, or is a go / defer statement) and is neither <receiver>.<mutex field>.Lock() nor a call of a lock wrapper with a closure: something runs before the request lock is taken", i+1)
	return r
}

func (w *fWalker) fnName(t *fType, fd *ast.FuncDecl, p *fPkg) string {
	if t != nil {
		return t.key + "." + fd.Name.Name
	}
	return p.short + "." + fd.Name.Name
}

// walkFunc follows a function's body; env maps the variables whose type is one of the struct types.
func (w *fWalker) walkFunc(t *fType, p *fPkg, fd *ast.FuncDecl, env map[string]*fType, held map[string]bool, where string) {
	if fd.Body == nil {
		return
	}
	fn := w.fnName(t, fd, p)
	var envKeys []string
	for k, v := range env {
		if v != nil {
			envKeys = append(envKeys, k+"="+v.key)
		}
	}
	sort.Strings(envKeys)
	key := fn + "|" + strings.Join(envKeys, ",") + "|" + heldKey(held) + "|" + where
	if w.seen[key] {
		return
	}
	w.seen[key] = true
	w.walkBody(p, p.fileOf[fd], fd.Body.List, env, held, where, fn)
}

// walkBody: the top-level statements of a function (or closure) body, with the locks they take and release.
func (w *fWalker) walkBody(p *fPkg, file *ast.File, stmts []ast.Stmt, env map[string]*fType, held map[string]bool, where, fn string) {
	held = copyHeld(held)
	for _, s := range stmts {
		switch x := s.(type) {
		case *ast.ExprStmt:
			if l, op, ok := w.lockCall(x.X, env); ok {
				switch op {
				case "Lock":
					held[l] = true
				case "Unlock":
					delete(held, l)
				}
				continue // RLock and friends: shared, not counted as held
			}
		case *ast.DeferStmt:
			if _, _, ok := w.lockCall(x.Call, env); ok {
				continue // released when the function returns
			}
		}
		w.walkNode(p, file, s, env, held, where, fn)
	}
}

func (w *fWalker) record(owner *fType, field, kind string, held map[string]bool, where, fn string) {
	w.out = append(w.out, fAccess{field: owner.key + "." + field, kind: kind, held: heldKey(held), where: where, fn: fn})
}

// rootField: the <var>.<field> at the root of a selector / index chain, for a variable of the environment.
func (w *fWalker) rootField(e ast.Expr, env map[string]*fType) (*ast.SelectorExpr, *fType, bool) {
	for {
		switch x := e.(type) {
		case *ast.ParenExpr:
			e = x.X
			continue
		case *ast.IndexExpr:
			e = x.X
			continue
		case *ast.StarExpr:
			e = x.X
			continue
		case *ast.SelectorExpr:
			if v, isIdent := x.X.(*ast.Ident); isIdent && env[v.Name] != nil {
				if owner, _ := w.u.field(env[v.Name], x.Sel.Name); owner != nil {
					return x, owner, true
				}
				return nil, nil, false
			}
			e = x.X
			continue
		}
		return nil, nil, false
	}
}

func (w *fWalker) walkNode(p *fPkg, file *ast.File, root ast.Node, env map[string]*fType, held map[string]bool, where, fn string) {
	consumed := map[ast.Node]bool{}
	ast.Inspect(root, func(n ast.Node) bool {
		switch x := n.(type) {
		case *ast.GoStmt:
			w.goSites = append(w.goSites, fn)
			// a new goroutine holds none of its creator's locks
			w.walkCall(p, file, x.Call, env, map[string]bool{}, where+"/go", fn, consumed)
			for _, a := range x.Call.Args {
				w.walkNode(p, file, a, env, held, where, fn)
			}
			return false
		case *ast.FuncLit:
			w.walkBody(p, file, x.Body.List, env, held, where, fn)
			return false
		case *ast.AssignStmt:
			for _, l := range x.Lhs {
				if sel, owner, ok := w.rootField(l, env); ok {
					consumed[sel] = true
					w.record(owner, sel.Sel.Name, "W", held, where, fn)
				}
			}
		case *ast.IncDecStmt:
			if sel, owner, ok := w.rootField(x.X, env); ok {
				consumed[sel] = true
				w.record(owner, sel.Sel.Name, "W", held, where, fn)
			}
		case *ast.UnaryExpr:
			if x.Op == token.AND {
				if sel, owner, ok := w.rootField(x.X, env); ok {
					consumed[sel] = true
					w.record(owner, sel.Sel.Name, "&", held, where, fn)
				}
			}
		case *ast.CallExpr:
			return w.walkCall(p, file, x, env, held, where, fn, consumed)
		case *ast.SelectorExpr:
			if consumed[x] {
				return true
			}
			if v, isIdent := x.X.(*ast.Ident); isIdent && env[v.Name] != nil {
				if owner, _ := w.u.field(env[v.Name], x.Sel.Name); owner != nil {
					w.record(owner, x.Sel.Name, "R", held, where, fn)
				}
				return false
			}
		}
		return true
	})
}

// bind gives the callee's environment: its receiver and those parameters whose argument is a variable or field of one
// of the struct types.
func (w *fWalker) bind(callee *ast.FuncDecl, recv *fType, args []ast.Expr, p *fPkg, file *ast.File, env map[string]*fType) map[string]*fType {
	out := map[string]*fType{}
	if recv != nil && recvName(callee) != "" {
		out[recvName(callee)] = recv
	}
	i := 0
	if callee.Type.Params != nil {
		for _, fld := range callee.Type.Params.List {
			for _, nme := range fld.Names {
				if i < len(args) {
					if t := w.typeOfExpr(args[i], p, file, env); t != nil {
						out[nme.Name] = t
					}
				}
				i++
			}
		}
	}
	return out
}

func (w *fWalker) typeOfExpr(e ast.Expr, p *fPkg, file *ast.File, env map[string]*fType) *fType {
	switch x := e.(type) {
	case *ast.Ident:
		return env[x.Name]
	case *ast.SelectorExpr:
		if v, isIdent := x.X.(*ast.Ident); isIdent && env[v.Name] != nil {
			if owner, te := w.u.field(env[v.Name], x.Sel.Name); owner != nil {
				return w.u.resolveType(owner.pkg, owner.file, te)
			}
		}
	case *ast.UnaryExpr:
		return w.typeOfExpr(x.X, p, file, env)
	}
	return nil
}

// walkCall follows a call; the return value tells ast.Inspect whether to descend into the call expression itself.
func (w *fWalker) walkCall(p *fPkg, file *ast.File, call *ast.CallExpr, env map[string]*fType, held map[string]bool, where, fn string, consumed map[ast.Node]bool) bool {
	descend := func() bool {
		for _, a := range call.Args {
			w.walkNode(p, file, a, env, held, where, fn)
		}
		return false
	}
	switch f := call.Fun.(type) {
	case *ast.FuncLit: // go func() {…}() / func() {…}()
		w.walkBody(p, file, f.Body.List, env, held, where, fn)
		return descend()
	case *ast.Ident:
		if callee, ok := p.funcs[f.Name]; ok {
			w.walkFunc(nil, p, callee, w.bind(callee, nil, call.Args, p, file, env), held, where)
		}
		return descend()
	case *ast.SelectorExpr:
		// <var>.M(…)
		if v, isIdent := f.X.(*ast.Ident); isIdent && env[v.Name] != nil {
			if owner, callee := w.u.method(env[v.Name], f.Sel.Name); callee != nil {
				if l, lit := w.wrapperCall(call, env); lit != nil {
					w.walkBody(p, file, lit.Body.List, env, copyHeld(held, l), where, fn)
					return false
				}
				// the receiver stays the variable's own type: methods of an embedded type see the fields they declare
				w.walkFunc(owner, owner.pkg, callee, w.bind(callee, owner, call.Args, p, file, env), held, where)
				return descend()
			}
			if fo, _ := w.u.field(env[v.Name], f.Sel.Name); fo != nil {
				w.record(fo, f.Sel.Name, "R", held, where, fn) // a field of function type is called
			}
			return descend()
		}
		// <var>.<field>.M(…)
		if inner, isSel := f.X.(*ast.SelectorExpr); isSel {
			if v, isIdent := inner.X.(*ast.Ident); isIdent && env[v.Name] != nil {
				if fo, te := w.u.field(env[v.Name], inner.Sel.Name); fo != nil {
					if ft := w.u.resolveType(fo.pkg, fo.file, te); ft != nil {
						// the field is itself one of the struct types (a multiplexer held by the server, an embedded one)
						if owner, callee := w.u.method(ft, f.Sel.Name); callee != nil {
							w.walkFunc(owner, owner.pkg, callee, w.bind(callee, owner, call.Args, p, file, env), held, where)
						}
						return descend()
					}
					consumed[inner] = true
					w.record(fo, inner.Sel.Name, "C:"+f.Sel.Name, held, where, fn)
					return descend()
				}
			}
		}
	}
	return true
}

// Fields with an empty lockset that are accepted, with the reason (they are the expected `facts locksets` answer, as
// `@-`; everything else with an empty lockset is a failure):
//
//	rest.MuxImpl.server — the http.Server of a multiplexer's life cycle, not state that requests share.  Written by
//	MuxImpl.Start (in the goroutine RestServer.Start creates for the multiplexer, before ListenAndServe in the same
//	goroutine), handed out by Server() and used by Shutdown on the server's main goroutine after the shutdown signal.
//	For the admin multiplexer the signal comes from a handler its own ListenAndServe started, so the write happens
//	before the use; for the API multiplexer nothing orders the two if a shutdown is requested before the API goroutine
//	has run (a latent start-up race of the server object, reported to the maintainers; outside the property's clause
//	about the shared model).
var factsLifecycleFields = map[string]bool{"rest.MuxImpl.server": true}

func suiteEngineFacts(c *Ctx) {
	repo := os.Getenv("VERIF_REPO")
	if repo == "" {
		repo = "/repo"
	}
	u := loadFactsUniverse(repo)
	fset := u.fset
	pos := func(n ast.Node) string {
		p := fset.Position(n.Pos())
		rel, err := filepath.Rel(repo, p.Filename)
		if err != nil {
			rel = p.Filename
		}
		return fmt.Sprintf("%s:%d", rel, p.Line)
	}
	w := &fWalker{u: u, seen: map[string]bool{}}
	emit := func(name, res string) {
		c.Op("facts "+name, res)
		c.extra["facts_"+name] = res
		c.Stat("facts " + name + ": " + clip(res, 200))
		c.Nontrivial(name + "=" + res)
	}

	// ---- 1. rest.MuxImpl.ServeHTTP handles the request inside one critical section of a mutex field (the request lock)
	muxImpl := u.types["rest.MuxImpl"]
	sl := fServeLock{why: "rest.MuxImpl not found"}
	if muxImpl != nil {
		sl = w.serveLock(muxImpl, muxImpl.methods["ServeHTTP"])
	}
	lockFirst, unlockDeferred, requestLock := sl.lockFirst, sl.unlockDeferred, sl.lock
	// the canonical lock sites: <recv>.<L>.Lock() directly followed by defer <recv>.<L>.Unlock() in the top-level statements
	// of a method (L is held from there to the return: what walkBody models).  ServeHTTP's pair and the pair of a lock
	// wrapper are of that shape.
	canonical := map[*ast.SelectorExpr]bool{}
	for _, d := range factsDirs {
		p := u.pkgs[d[0]]
		for _, f := range p.files {
			for _, decl := range f.Decls {
				fd, ok := decl.(*ast.FuncDecl)
				if !ok || fd.Body == nil || fd.Recv == nil || len(fd.Recv.List) == 0 || recvName(fd) == "" {
					continue
				}
				t := u.resolveType(p, f, fd.Recv.List[0].Type)
				if t == nil {
					continue
				}
				env := map[string]*fType{recvName(fd): t}
				for i := range fd.Body.List {
					if _, s0, s1, ok := w.criticalPair(fd.Body.List, i, env); ok {
						canonical[s0], canonical[s1] = true, true
					}
				}
			}
		}
	}
	// no `go` statement in the engine's api package or the rest package (handlers run on the request's goroutine)
	var handlerGo, allGo, detached []string
	var lockSites []string
	var serveHTTPs, serves []string
	for _, d := range factsDirs {
		p := u.pkgs[d[0]]
		inHandlerPkg := d[1] == "engineApi" || d[1] == "rest" || d[1] == "serverApi"
		for _, f := range p.files {
			for _, decl := range f.Decls {
				fd, ok := decl.(*ast.FuncDecl)
				if !ok {
					continue
				}
				var t *fType
				if fd.Recv != nil && len(fd.Recv.List) > 0 {
					t = u.resolveType(p, f, fd.Recv.List[0].Type)
				}
				fn := w.fnName(t, fd, p)
				if fd.Name.Name == "ServeHTTP" && fd.Recv != nil {
					if t == nil {
						fn = p.short + ".(" + fExprText(fd.Recv.List[0].Type) + ").ServeHTTP" // a non-struct receiver
					}
					serveHTTPs = append(serveHTTPs, strings.TrimSuffix(fn, ".ServeHTTP"))
				}
				if fd.Body == nil {
					continue
				}
				ast.Inspect(fd.Body, func(n ast.Node) bool {
					switch x := n.(type) {
					case *ast.GoStmt:
						allGo = append(allGo, fn)
						if inHandlerPkg {
							handlerGo = append(handlerGo, pos(x))
						}
					case *ast.DeferStmt:
						if se, ok := x.Call.Fun.(*ast.SelectorExpr); ok {
							switch se.Sel.Name {
							case "Lock", "Unlock", "RLock", "RUnlock", "TryLock", "TryRLock":
								if !canonical[se] {
									lockSites = append(lockSites, fn+":defer:"+fExprText(se.X)+"."+se.Sel.Name)
								}
								return false
							}
						}
					case *ast.SelectorExpr:
						switch x.Sel.Name {
						case "Lock", "Unlock", "RLock", "RUnlock", "TryLock", "TryRLock":
							if !canonical[x] {
								lockSites = append(lockSites, fn+":"+fExprText(x.X)+"."+x.Sel.Name)
							}
						case "TimeoutHandler", "AfterFunc", "WithTimeout", "WithDeadline", "WithCancel":
							// library helpers that run (or abandon) work on another goroutine: a handler started through one
							// of them can outlive the request lock although no `go` statement appears in crem's own source
							detached = append(detached, fn+":"+fExprText(x.X)+"."+x.Sel.Name)
						}
					case *ast.CompositeLit:
						if se, ok := x.Type.(*ast.SelectorExpr); ok && fExprText(se) == "http.Server" {
							h := "none"
							for _, el := range x.Elts {
								if kv, ok := el.(*ast.KeyValueExpr); ok && fExprText(kv.Key) == "Handler" {
									h = fExprText(kv.Value)
								}
							}
							serves = append(serves, fn+":"+h)
						}
					}
					return true
				})
			}
		}
	}
	res := fmt.Sprintf("lock-first=%s unlock-deferred=%s go-statements=%d", b2s(lockFirst), b2s(unlockDeferred), len(handlerGo))
	c.Op("facts servehttp", res)
	c.extra["engine_facts"] = res
	c.Stat("facts: " + res)
	c.Nontrivial(res)
	if !lockFirst || !unlockDeferred {
		c.Fail("C16:structural-tie", "engine:no-request-lock", "rest.MuxImpl.ServeHTTP does not handle the request inside one critical section of a mutex field of the multiplexer (<receiver>.<mutex>.Lock() directly followed by defer <same>.Unlock(), or a lock wrapper called with a closure, with nothing that touches the receiver outside it): "+sl.why+". The locking model (Crem/Model/Locking.lean) does not describe this code; requests are handled without mutual exclusion ("+res+")", []string{"facts servehttp"})
	} else {
		c.Stat("facts: request lock taken by " + sl.form)
	}
	if len(handlerGo) > 0 {
		c.Fail("C16:structural-tie", "engine:handler-starts-goroutine", "go statements in request-handling packages: "+strings.Join(handlerGo, ", "), []string{"facts servehttp"})
	}

	// ---- 2. the handlers, and where they are registered
	type registration struct {
		site, target, handlerRecv, method string
		recvType                          *fType
		foreign                           bool
	}
	var regs []registration
	for _, d := range factsDirs {
		p := u.pkgs[d[0]]
		for _, f := range p.files {
			for _, decl := range f.Decls {
				fd, ok := decl.(*ast.FuncDecl)
				if !ok || fd.Body == nil {
					continue
				}
				var t *fType
				if fd.Recv != nil && len(fd.Recv.List) > 0 {
					t = u.resolveType(p, f, fd.Recv.List[0].Type)
				}
				env := map[string]*fType{}
				if t != nil && recvName(fd) != "" {
					env[recvName(fd)] = t
				}
				ast.Inspect(fd.Body, func(n ast.Node) bool {
					ce, ok := n.(*ast.CallExpr)
					if !ok || len(ce.Args) != 2 {
						return true
					}
					se, ok := ce.Fun.(*ast.SelectorExpr)
					if !ok || se.Sel.Name != "AddHandler" {
						return true
					}
					h, ok := ce.Args[1].(*ast.SelectorExpr)
					if !ok {
						return true // a handler passed through (AddHandler delegating to the handler map)
					}
					r := registration{site: w.fnName(t, fd, p), target: fExprText(se.X), handlerRecv: fExprText(h.X), method: h.Sel.Name}
					r.recvType = w.typeOfExpr(h.X, p, f, env)
					r.foreign = r.target != r.handlerRecv
					regs = append(regs, r)
					return true
				})
			}
		}
	}
	ownHeld := map[string]bool{}
	if requestLock != "" {
		ownHeld[requestLock] = true
	}
	var handlerFacts []string
	nOwn := 0
	for _, r := range regs {
		kind := "own"
		if r.foreign {
			kind = "foreign"
		}
		var owner *fType
		var fd *ast.FuncDecl
		if r.recvType != nil {
			owner, fd = u.method(r.recvType, r.method)
		}
		switch {
		case fd == nil: // a handler the extraction cannot follow is named, so that it cannot go unnoticed
			handlerFacts = append(handlerFacts, fmt.Sprintf("unresolved=%s:%s<-%s.%s", r.site, r.target, r.handlerRecv, r.method))
			continue
		case r.foreign:
			handlerFacts = append(handlerFacts, fmt.Sprintf("foreign=%s:%s<-%s.%s", r.site, r.target, r.handlerRecv, r.method))
		default:
			nOwn++
		}
		_ = kind
		if r.foreign {
			w.walkFunc(owner, owner.pkg, fd, map[string]*fType{recvName(fd): r.recvType}, map[string]bool{}, "foreign:"+r.recvType.key+"."+r.method)
		} else {
			w.walkFunc(owner, owner.pkg, fd, map[string]*fType{recvName(fd): r.recvType}, ownHeld, "handler")
		}
	}
	// ServeHTTP itself, on each multiplexer type that is served
	if muxImpl != nil {
		if fd := muxImpl.methods["ServeHTTP"]; fd != nil {
			for _, k := range []string{"engineApi.Mux", "admin.Mux"} {
				if t := u.types[k]; t != nil {
					w.walkFunc(muxImpl, muxImpl.pkg, fd, map[string]*fType{recvName(fd): t}, map[string]bool{}, "handler")
				}
			}
		}
	}

	// ---- 3. RestServer.Start: what runs before the first `go` statement, and everything from there on
	var beforeGo []string
	if rs := u.types["server.RestServer"]; rs != nil {
		if fd := rs.methods["Start"]; fd != nil && fd.Body != nil {
			env := map[string]*fType{recvName(fd): rs}
			first := len(fd.Body.List)
			for i, s := range fd.Body.List {
				isGo := false
				ast.Inspect(s, func(n ast.Node) bool {
					if _, ok := n.(*ast.GoStmt); ok {
						isGo = true
					}
					return !isGo
				})
				if isGo {
					first = i
					break
				}
				ast.Inspect(s, func(n ast.Node) bool {
					if ce, ok := n.(*ast.CallExpr); ok {
						beforeGo = append(beforeGo, fExprText(ce.Fun))
					}
					return true
				})
			}
			w.walkBody(rs.pkg, rs.pkg.fileOf[fd], fd.Body.List[first:], env, map[string]bool{}, "start", "server.RestServer.Start")
		}
	}
	bootstrap := "unreadable"
	if bf, err := parser.ParseFile(fset, filepath.Join(repo, "cmd/cremengine/bootstrap/Engine.go"), nil, 0); err == nil {
		for _, decl := range bf.Decls {
			if fd, ok := decl.(*ast.FuncDecl); ok && fd.Name.Name == "RunEngineFromArguments" && fd.Body != nil {
				var calls []string
				for _, s := range fd.Body.List {
					if es, ok := s.(*ast.ExprStmt); ok {
						if ce, ok := es.X.(*ast.CallExpr); ok {
							calls = append(calls, fExprText(ce.Fun))
							continue
						}
					}
					calls = append(calls, "?")
				}
				bootstrap = strings.Join(calls, ",")
			}
		}
	}

	// ---- 4. locksets of the fields written after start-up
	live := map[string]bool{}
	for _, a := range w.out {
		if a.kind == "W" {
			live[a.field] = true
		}
	}
	uniq := func(xs []string) []string {
		sort.Strings(xs)
		var out []string
		for i, x := range xs {
			if i == 0 || x != xs[i-1] {
				out = append(out, x)
			}
		}
		return out
	}
	lockset := map[string]map[string]bool{}
	unlockedAt := map[string][]string{}
	foreignTouches := map[string][]string{}
	for _, a := range w.out {
		if !live[a.field] {
			continue
		}
		cur := map[string]bool{}
		if a.held != "-" {
			for _, l := range strings.Split(a.held, "+") {
				cur[l] = true
			}
		}
		if ls, ok := lockset[a.field]; !ok {
			lockset[a.field] = cur
		} else {
			for l := range ls {
				if !cur[l] {
					delete(ls, l)
				}
			}
		}
		if strings.HasPrefix(a.where, "foreign:") {
			foreignTouches[a.field] = append(foreignTouches[a.field], strings.TrimPrefix(a.where, "foreign:"))
		}
	}
	for _, a := range w.out {
		if live[a.field] && len(lockset[a.field]) == 0 {
			// "0" sorts the accesses that hold nothing first
			rank := "1"
			if a.held == "-" {
				rank = "0"
			}
			unlockedAt[a.field] = append(unlockedAt[a.field], fmt.Sprintf("%s holding %s: %s in %s [%s]", rank, a.held, a.kind, a.fn, a.where))
		}
	}
	for f, xs := range unlockedAt {
		xs = uniq(xs)
		for i := range xs {
			xs[i] = xs[i][2:]
		}
		if len(xs) > 10 {
			xs = append(xs[:10], fmt.Sprintf("… and %d more accesses", len(xs)-10))
		}
		unlockedAt[f] = xs
	}
	// printed: the fields that are NOT consistently locked (`@-`: an access holds nothing, `@mixed`: no lock common to all
	// accesses) and their accesses from outside ServeHTTP; a field whose accesses share a lock is not printed
	var locksetFacts, postStart []string
	bare := map[string]bool{}
	for _, a := range w.out {
		if live[a.field] && a.held == "-" {
			bare[a.field] = true
		}
	}
	nUnderRequestLock := 0
	for f := range live {
		switch {
		case len(lockset[f]) > 0:
			if lockset[f][requestLock] {
				nUnderRequestLock++
			}
		case bare[f]:
			locksetFacts = append(locksetFacts, f+"@-")
		default:
			locksetFacts = append(locksetFacts, f+"@mixed")
		}
	}
	seenPS := map[string]bool{}
	for _, a := range w.out {
		if live[a.field] && len(lockset[a.field]) == 0 && strings.HasPrefix(a.where, "start") {
			holding := "locked"
			if a.held == "-" {
				holding = "-"
			}
			e := fmt.Sprintf("%s:%s:%s@%s", a.where, a.field, a.kind, holding)
			if !seenPS[e] {
				seenPS[e] = true
				postStart = append(postStart, e)
			}
		}
	}
	join := func(xs []string) string {
		if len(xs) == 0 {
			return "-"
		}
		return strings.Join(xs, " ")
	}
	sort.Strings(serveHTTPs)
	sort.Strings(serves)
	sort.Strings(lockSites)
	sort.Strings(allGo)
	sort.Strings(handlerFacts)
	sort.Strings(locksetFacts)
	sort.Strings(postStart)
	emit("servehttp-unique", "servehttp="+join(serveHTTPs)+" serves="+join(serves))
	emit("lock-sites", join(lockSites))
	emit("go-statements", join(allGo))
	sort.Strings(detached)
	emit("detached-execution", join(detached))
	emit("startup", "bootstrap="+bootstrap+" start-before-go="+join(beforeGo))
	emit("handlers", join(handlerFacts))
	emit("locksets", join(locksetFacts))
	emit("post-start", join(postStart))
	if len(detached) > 0 {
		c.Fail("C16:structural:detached-execution", "engine:handler-detached-from-request", "library helpers that run (or abandon) work on a goroutine of their own are used in the server packages: a handler started through one of them can go on after ServeHTTP has returned and released the request lock: "+clip(strings.Join(detached, " "), 2000), []string{"facts detached-execution"})
	}
	if len(lockSites) > 0 {
		c.Fail("C16:structural:lock-sites", "engine:non-canonical-lock-site", "lock operations that are not <receiver>.<mutex field>.Lock() directly followed by defer <same>.Unlock() in the top-level statements of a method (a lock released before the function returns, re-taken in the middle, shared, taken in a nested block or through a method value): the request is no longer one critical section, or the lockset walk does not model the site: "+clip(strings.Join(lockSites, " "), 2000), []string{"facts lock-sites"})
	}
	// the extraction must see the code it is about: own handlers, and state that they write under the request lock
	if requestLock != "" && (nOwn == 0 || nUnderRequestLock == 0) {
		c.Fail("C16:structural:extraction-sees-the-handlers", "engine:facts-extraction-blind", fmt.Sprintf("the extraction found %d handlers registered with their own multiplexer and %d fields written after start-up whose accesses all hold the request lock: it no longer sees the code (AddHandler registrations / handler methods moved?)", nOwn, nUnderRequestLock), []string{"facts handlers", "facts locksets"})
	}

	// ---- 5. what the facts mean for the property
	var foreignBad, otherBad []string
	for f := range live {
		if len(lockset[f]) > 0 || factsLifecycleFields[f] {
			continue
		}
		if len(foreignTouches[f]) > 0 {
			foreignBad = append(foreignBad, f)
		} else {
			otherBad = append(otherBad, f)
		}
	}
	sort.Strings(foreignBad)
	sort.Strings(otherBad)
	if len(foreignBad) > 0 {
		var sb strings.Builder
		for _, r := range regs {
			if r.foreign {
				fmt.Fprintf(&sb, "%s registers %s.%s with %s: the handler runs under that multiplexer's request lock, not under its own multiplexer's.\n", r.site, r.handlerRecv, r.method, r.target)
			}
		}
		for _, f := range foreignBad {
			fmt.Fprintf(&sb, "%s is written after start-up and no lock is held at all of its accesses (reached from the handler registered elsewhere: %s):\n  %s\n", f, strings.Join(uniq(foreignTouches[f]), ", "), strings.Join(unlockedAt[f], "\n  "))
		}
		c.Fail("C16:structural:handler-of-other-mux", "engine:handler-registered-on-foreign-mux", clip(sb.String(), 3000), []string{"facts handlers", "facts locksets"})
	}
	if len(otherBad) > 0 {
		var sb strings.Builder
		for _, f := range otherBad {
			fmt.Fprintf(&sb, "%s is written after start-up and no lock is held at all of its accesses:\n  %s\n", f, strings.Join(unlockedAt[f], "\n  "))
		}
		c.Fail("C16:structural:state-outside-request-lock", "engine:shared-state-outside-request-lock", clip(sb.String(), 3000), []string{"facts locksets", "facts post-start"})
	}
}
