//go:build verif

package main

// Correspondence suite `portability` (property C09, second half): the real catchment
// model, the real ModelCompressor.  For many action sets of the shipped datasets (all of
// them in the thorough tier) and of synthetic datasets with more than 64 / 128 actions:
// compress in one model instance, take the text, decode + decompress into an independently
// constructed instance (new dataset load / CoreModel / DeepClone: fresh Go map iteration
// orders), compare actions (planning unit, type, active flag), decision-variable values and
// the re-derived text; compare the sorted action order over many constructions and feed the
// real pre-sort (map) orders to the model's sort.

import (
	"fmt"
	"math"
	"os"
	"path/filepath"
	"sort"
	"strings"

	"github.com/LindsayBradford/crem/internal/pkg/dataset/csv"
	"github.com/LindsayBradford/crem/internal/pkg/model"
	"github.com/LindsayBradford/crem/internal/pkg/model/action"
	modelArchive "github.com/LindsayBradford/crem/internal/pkg/model/archive"
	"github.com/LindsayBradford/crem/internal/pkg/model/models/catchment"
	"github.com/LindsayBradford/crem/internal/pkg/parameters"
)

func init() { register("portability", suitePortability) }

var c09ShippedDatasets = []string{
	"internal/pkg/model/models/catchment/testdata/ValidModel.csv",
	"internal/pkg/model/models/catchment/testdata/TestingModel.csv",
	"cmd/cremengine/engine/api/testdata/ValidModel.csv",
}

type c09Dataset struct {
	name string
	rel  string // path relative to the working directory (catchment.Model joins it to cwd)
	abs  string
}

// ---------------------------------------------------------------- instance construction

const (
	c09KindModel = iota // catchment.NewModel + DataSourcePath parameter: loads the dataset itself
	c09KindCore         // csv.NewDataSet + Load + NewCoreModel().WithSourceDataSet
	c09KindClone        // DeepClone() of a c09KindModel instance (what the explorers, the saver and the engine use)
	c09KindCount
)

var c09KindNames = []string{"Model", "CoreModel", "DeepClone"}

func c09BuildInstance(ds c09Dataset, kind int) (m model.Model, err string) {
	err = protect(func() {
		switch kind {
		case c09KindModel, c09KindClone:
			cm := catchment.NewModel().WithParameters(parameters.Map{"DataSourcePath": ds.rel})
			if pe := cm.ParameterErrors(); pe != nil {
				panic(pe)
			}
			cm.Initialise(model.AsIs)
			if pe := cm.ParameterErrors(); pe != nil {
				panic(pe)
			}
			if kind == c09KindClone {
				m = cm.DeepClone()
			} else {
				m = cm
			}
		case c09KindCore:
			set := csv.NewDataSet("CatchmentModel")
			if le := set.Load(ds.abs); le != nil {
				panic(le)
			}
			core := catchment.NewCoreModel().WithSourceDataSet(set)
			core.Initialise(model.AsIs)
			m = core
		}
	})
	return
}

func c09ActionKey(a action.ManagementAction) string {
	return fmt.Sprintf("%d:%s", uint64(a.PlanningUnit()), string(a.Type()))
}

func c09KeysOf(m model.Model) []string {
	as := m.ManagementActions()
	out := make([]string, len(as))
	for i, a := range as {
		out[i] = c09ActionKey(a)
	}
	return out
}

func c09FlagsOf(m model.Model) []bool {
	as := m.ManagementActions()
	out := make([]bool, len(as))
	for i, a := range as {
		out[i] = a.IsActive()
	}
	return out
}

// c09ActiveSetOf is the *set* of active (planning unit, type) pairs, independent of any order.
func c09ActiveSetOf(m model.Model) string {
	var ks []string
	for _, a := range m.ManagementActions() {
		if a.IsActive() {
			ks = append(ks, c09ActionKey(a))
		}
	}
	sort.Strings(ks)
	return strings.Join(ks, " ")
}

func c09ValuesOfModel(m model.Model) (names []string, vals []float64) {
	names = m.NameMappedVariables().SortedKeys()
	for _, n := range names {
		vals = append(vals, m.DecisionVariable(n).Value())
	}
	return
}

func c09SetFlags(m model.Model, flags []bool) {
	for i, f := range flags {
		m.SetManagementAction(i, f)
	}
}

func c09CoreOf(m model.Model) *catchment.CoreModel {
	switch t := m.(type) {
	case *catchment.Model:
		return &t.CoreModel
	case *catchment.CoreModel:
		return t
	}
	return nil
}

// ---------------------------------------------------------------- synthetic datasets (> 64 actions)

// c09WriteReplicatedDataset copies the shipped catchment test dataset `copies` times with shifted
// planning-unit identifiers (k*100 + id) so that the model has copies*13 actions.
func c09WriteReplicatedDataset(srcDir, dstDir string, copies int) error {
	if err := os.MkdirAll(dstDir, 0o755); err != nil {
		return err
	}
	shift := func(file string, idCols []int, rowIdCol int) error {
		b, err := os.ReadFile(filepath.Join(srcDir, file))
		if err != nil {
			return err
		}
		lines := strings.Split(strings.ReplaceAll(strings.TrimSpace(string(b)), "\r", ""), "\n")
		var sb strings.Builder
		sb.WriteString(lines[0] + "\n")
		row := 0
		for k := 0; k < copies; k++ {
			for _, l := range lines[1:] {
				cells := strings.Split(l, ",")
				for _, c := range idCols {
					var v int
					if _, err := fmt.Sscanf(strings.TrimSpace(cells[c]), "%d", &v); err == nil {
						cells[c] = fmt.Sprint(v + 100*k)
					}
				}
				row++
				if rowIdCol >= 0 {
					cells[rowIdCol] = fmt.Sprint(row)
				}
				sb.WriteString(strings.Join(cells, ",") + "\n")
			}
		}
		return os.WriteFile(filepath.Join(dstDir, file), []byte(sb.String()), 0o644)
	}
	if err := shift("ValidSubcatchments.csv", []int{0, 1}, -1); err != nil {
		return err
	}
	if err := shift("ValidGullies.csv", []int{1}, 0); err != nil {
		return err
	}
	if err := shift("ValidActions.csv", []int{0}, -1); err != nil {
		return err
	}
	meta, err := os.ReadFile(filepath.Join(srcDir, "ValidModel.csv"))
	if err != nil {
		return err
	}
	return os.WriteFile(filepath.Join(dstDir, "ValidModel.csv"), meta, 0o644)
}

// ---------------------------------------------------------------- the suite

type c09PortRun struct {
	c        *Ctx
	ds       c09Dataset
	refKeys  []string
	n        int
	encSeen  map[string]string // text -> flags (canonical: a text names one active set)
	compress *modelArchive.ModelCompressor
}

func (p *c09PortRun) fail(pred, sig, detail string, ops []string) {
	p.c.Fail(pred, sig, "dataset "+p.ds.name+": "+detail, ops)
}

// orderCheck: many independent constructions end with the same sorted action list; the real
// pre-sort orders are fed to the model's sort (`order` lines) together with hypothesis H.
func (p *c09PortRun) orderCheck(constructions int) {
	c := p.c
	gatherOrders := map[string]struct{}{}
	for i := 0; i < constructions; i++ {
		kind := i % c09KindCount
		m, err := c09BuildInstance(p.ds, kind)
		if err != "" {
			p.fail("construct", "portability:construct", c09KindNames[kind]+": "+err, nil)
			return
		}
		keys := c09KeysOf(m)
		if strings.Join(keys, " ") != strings.Join(p.refKeys, " ") {
			p.fail("order-deterministic", "portability:action-order",
				fmt.Sprintf("construction %d (%s) sorted its actions as %v, the reference instance as %v", i, c09KindNames[kind], keys, p.refKeys), nil)
		}
		// the gathered (map-order) list of this instance, ids = position in Go's sorted list
		pos := map[string]int{}
		for j, k := range keys {
			pos[k] = j
		}
		core := c09CoreOf(m)
		if core == nil {
			continue
		}
		gathered := core.VerifGatherActions()
		toks := make([]string, len(gathered))
		for j, a := range gathered {
			toks[j] = fmt.Sprintf("%s:%d", c09ActionKey(a), pos[c09ActionKey(a)])
		}
		gatherOrders[strings.Join(toks, " ")] = struct{}{}
		want := make([]string, len(keys))
		for j, k := range keys {
			want[j] = fmt.Sprintf("%s:%d", k, j)
		}
		if len(gathered) != len(keys) {
			p.fail("gather", "portability:gather-size", fmt.Sprintf("gathered %d actions, model holds %d", len(gathered), len(keys)), nil)
		}
		op := "order " + strings.Join(toks, " ")
		c.Op(op, strings.Join(want, " "))
		c.Stat("order " + p.ds.name + " " + c09KindNames[kind])
		c.Nontrivial(op)
	}
	c.extra["gathered (pre-sort) orders "+p.ds.name] = fmt.Sprintf("%d distinct in %d constructions", len(gatherOrders), constructions)
	if p.n > 3 && constructions >= 10 && len(gatherOrders) < 2 {
		c.Note("dataset " + p.ds.name + ": every construction gathered its actions in the same order; map-order nondeterminism was not exercised")
	}
}

// transfer: instance A holds `flags` (reached by `route`), its text goes into instance B.
func (p *c09PortRun) transfer(a model.Model, flags []bool, route string, bKind int, bPreset []bool) {
	c := p.c
	var ops []string
	cmA := p.compress.Compress(a)
	text := cmA.Encoding()
	op1 := "pe " + c09Bits(flags)
	ops = append(ops, op1)
	c.Op(op1, "="+c09Esc(text))

	if !c09EqualBools(c09FlagsOf(a), flags) {
		p.fail("harness", "portability:harness-flags", "instance A does not hold the requested flags", ops)
		return
	}
	if prev, seen := p.encSeen[text]; seen && prev != c09Bits(flags) {
		p.fail("canonical", "portability:encoding-collision", fmt.Sprintf("action sets %s and %s both encode to %q", prev, c09Bits(flags), text), ops)
	}
	p.encSeen[text] = c09Bits(flags)

	b, err := c09BuildInstance(p.ds, bKind)
	if err != "" {
		p.fail("construct", "portability:construct", c09KindNames[bKind]+": "+err, ops)
		return
	}
	if bPreset != nil {
		c09SetFlags(b, bPreset) // "any" state of the receiving instance, not only as-is
	}
	// the engine's sequence (SolutionPool.AddSolution, Mux.reInitialiseModelWithEncoding)
	var decodeErr error
	if pn := protect(func() {
		cmB := p.compress.Compress(b)
		decodeErr = cmB.Decode(text)
		if decodeErr == nil {
			p.compress.Decompress(cmB, b)
		}
	}); pn != "" {
		p.fail("no-panic", "portability:panic", pn, ops)
		return
	}
	op2 := fmt.Sprintf("pd %d =%s", len(flags), c09Esc(text))
	ops = append(ops, op2)
	if decodeErr != nil {
		c.Op(op2, c09DecodeClass(decodeErr))
		p.fail("lossless", "portability:decode-rejected", fmt.Sprintf("text %q of instance A rejected by instance B: %v", text, decodeErr), ops)
		return
	}
	c.Op(op2, "ok "+c09Bits(c09FlagsOf(b)))

	// the property, directly on the implementation
	if ka, kb := strings.Join(c09KeysOf(a), " "), strings.Join(c09KeysOf(b), " "); ka != kb {
		p.fail("order-deterministic", "portability:action-order", "A: "+ka+" B: "+kb, ops)
	}
	if sa, sb := c09ActiveSetOf(a), c09ActiveSetOf(b); sa != sb {
		p.fail("lossless-portable", "portability:active-set", fmt.Sprintf("text %q: active in A {%s}, active in B after decode {%s}", text, sa, sb), ops)
	}
	if back := p.compress.Compress(b).Encoding(); back != text {
		p.fail("canonical", "portability:re-encoding", fmt.Sprintf("A encodes to %q, B after decoding it encodes to %q", text, back), ops)
	}
	if !p.compress.Compress(b).IsEquivalentTo(cmA) {
		p.fail("canonical", "portability:not-equivalent", "compressed states of A and B are not IsEquivalentTo", ops)
	}
	na, va := c09ValuesOfModel(a)
	nb, vb := c09ValuesOfModel(b)
	if strings.Join(na, ",") != strings.Join(nb, ",") {
		p.fail("values", "portability:variables", fmt.Sprintf("variables %v vs %v", na, nb), ops)
	} else {
		for i := range va {
			if va[i] != vb[i] {
				sig := "portability:values"
				if route != "index-order" || bPreset != nil {
					// A reached its set by another route than B (which applies it in index order from as-is)
					sig = "portability:values-route-dependent"
				}
				p.fail("values", sig, fmt.Sprintf("same active set {%s} (text %q), %s: A (route %s) %v, B (%s, decoded) %v, diff %g",
					c09ActiveSetOf(a), text, na[i], route, va[i], c09KindNames[bKind], vb[i], math.Abs(va[i]-vb[i])), ops)
				break
			}
		}
	}
	// the saver's use: Decompress the compressed state itself (no text) into a clone
	if bKind == c09KindClone {
		cl, err := c09BuildInstance(p.ds, c09KindClone)
		if err == "" {
			p.compress.Decompress(cmA, cl)
			if c09ActiveSetOf(cl) != c09ActiveSetOf(a) {
				p.fail("lossless-portable", "portability:saver-active-set", "Decompress(compressed A, clone) differs from A", ops)
			}
		}
	}
	active := 0
	for _, f := range flags {
		if f {
			active++
		}
	}
	c.Stat(fmt.Sprintf("transfer %s n=%d route=%s into=%s preset=%v", p.ds.name, len(flags), route, c09KindNames[bKind], bPreset != nil))
	if active > 0 {
		c.Nontrivial(p.ds.name + "|" + c09Bits(flags) + "|" + route + "|" + c09KindNames[bKind])
	}
}

// grayCodeUniqueness walks one instance through all 2^n action sets (one toggle per step) and
// checks that no two of them share a text, and that every text is the spec's (`pe` line).
func (p *c09PortRun) grayCodeUniqueness(m model.Model) {
	seen := map[string]int{}
	n := p.n
	c09SetFlags(m, make([]bool, n))
	prev := 0
	for k := 0; k < 1<<uint(n); k++ {
		g := k ^ (k >> 1)
		if d := g ^ prev; d != 0 {
			i := 0
			for d>>uint(i)&1 == 0 {
				i++
			}
			m.SetManagementAction(i, g>>uint(i)&1 == 1)
		}
		prev = g
		text := p.compress.Compress(m).Encoding()
		if other, dup := seen[text]; dup {
			p.fail("canonical", "portability:encoding-collision", fmt.Sprintf("action sets %b and %b both encode to %q", other, g, text), nil)
		}
		seen[text] = g
		if k%64 == 0 {
			p.c.Op("pe "+c09Bits(c09FlagsOf(m)), "="+c09Esc(text))
		}
	}
	p.c.Stat(fmt.Sprintf("gray-code walk %s: %d sets, %d distinct texts", p.ds.name, 1<<uint(n), len(seen)))
	if len(seen) != 1<<uint(n) {
		p.fail("canonical", "portability:encoding-collision", fmt.Sprintf("%d action sets but %d distinct texts", 1<<uint(n), len(seen)), nil)
	}
	c09SetFlags(m, make([]bool, n))
}

func suitePortability(c *Ctx) {
	if c.Replay != "" {
		// protocol lines are self-contained for the model side; on the Go side a replay re-runs the
		// archive part of each line (encode / decode of the given bits or text) on a real archive
		in := newC09Interp(c)
		for _, l := range readLines(c.Replay) {
			w := strings.Fields(l)
			if len(w) == 0 || strings.HasPrefix(l, "#") {
				continue
			}
			switch w[0] {
			case "pe":
				c.Op(l, in.exec("spec-enc "+strings.Join(w[1:], " ")))
			case "pd":
				c.Op(l, in.exec("spec-dec "+strings.Join(w[1:], " ")))
			}
		}
		return
	}
	cwd, _ := os.Getwd()
	var datasets []c09Dataset
	for _, rel := range c09ShippedDatasets {
		name := filepath.Base(filepath.Dir(filepath.Dir(rel))) + "/" + filepath.Base(rel)
		datasets = append(datasets, c09Dataset{name: name, rel: rel, abs: filepath.Join(cwd, rel)})
	}
	// synthetic: 6 and 10 copies of the shipped data (78 and 130 actions: above 64 / 128, not multiples of 64)
	for _, copies := range []int{6, 10} {
		dst := filepath.Join(c.Out, fmt.Sprintf("synthetic%d", copies))
		if err := c09WriteReplicatedDataset(filepath.Join(cwd, "internal/pkg/model/models/catchment/testdata"), dst, copies); err != nil {
			c.Fail("harness", "portability:synthetic-dataset", err.Error(), nil)
			continue
		}
		rel, err := filepath.Rel(cwd, filepath.Join(dst, "ValidModel.csv"))
		if err != nil {
			c.Fail("harness", "portability:synthetic-dataset", err.Error(), nil)
			continue
		}
		datasets = append(datasets, c09Dataset{name: fmt.Sprintf("synthetic-x%d", copies), rel: rel, abs: filepath.Join(dst, "ValidModel.csv")})
	}

	r := c.Rng.Fork() // Fork: util.go's streams for seeds k and k+1 are the same sequence shifted by one draw; forking decorrelates them
	for _, ds := range datasets {
		ref, err := c09BuildInstance(ds, c09KindModel)
		if err != "" {
			c.Fail("construct", "portability:construct", "dataset "+ds.name+": "+err, nil)
			continue
		}
		p := &c09PortRun{c: c, ds: ds, refKeys: c09KeysOf(ref), n: len(ref.ManagementActions()), encSeen: map[string]string{}, compress: new(modelArchive.ModelCompressor)}
		c.Stat(fmt.Sprintf("dataset %s actions=%d", ds.name, p.n))
		shipped := !strings.HasPrefix(ds.name, "synthetic")

		p.orderCheck((c.N(30, 300) + c.Shards - 1) / c.Shards)

		// walker: one long-lived instance moved from set to set by toggling (the explorers' route)
		walker, err := c09BuildInstance(ds, c09KindModel)
		if err != "" {
			continue
		}
		var sets [][]bool
		exhaustive := shipped && p.n <= 15 && c.Thorough()
		if exhaustive && c.Shard == 0 {
			p.grayCodeUniqueness(walker)
		}
		if exhaustive {
			for code := 0; code < 1<<uint(p.n); code++ {
				f := make([]bool, p.n)
				for i := range f {
					f[i] = code>>uint(i)&1 == 1
				}
				sets = append(sets, f)
			}
		} else {
			sets = append(sets, make([]bool, p.n))
			ones := make([]bool, p.n)
			for i := range ones {
				ones[i] = true
			}
			sets = append(sets, ones)
			for i := 0; i < p.n; i++ { // every single action
				f := make([]bool, p.n)
				f[i] = true
				sets = append(sets, f)
			}
			extra := c.N(150, 1500)
			if !shipped {
				extra = c.N(60, 600)
			}
			for i := 0; i < extra; i++ {
				sets = append(sets, c09RandBits(r, p.n, []float64{0.1, 0.5, 0.5, 0.9}[r.Intn(4)]))
			}
		}
		for si, flags := range sets {
			if si%c.Shards != c.Shard {
				continue
			}
			bKind := r.Intn(c09KindCount)
			var preset []bool
			if r.Chance(0.3) {
				preset = c09RandBits(r, p.n, 0.5)
			}
			// route 1: a fresh instance, flags applied in index order from the as-is state
			a, err := c09BuildInstance(ds, r.Intn(c09KindCount))
			if err != "" {
				p.fail("construct", "portability:construct", err, nil)
				break
			}
			c09SetFlags(a, flags)
			p.transfer(a, flags, "index-order", bKind, preset)
			// route 2: the long-lived walker, toggled towards the set in a random order
			idx := make([]int, p.n)
			for i := range idx {
				idx[i] = i
			}
			for i := len(idx) - 1; i > 0; i-- {
				j := r.Intn(i + 1)
				idx[i], idx[j] = idx[j], idx[i]
			}
			for _, i := range idx {
				walker.SetManagementAction(i, flags[i])
			}
			p.transfer(walker, flags, "walk", r.Intn(c09KindCount), nil)
		}
	}
}
