//go:build verif

package main

// Correspondence suite `portability` (property C09, second half): the real catchment
// model, the real ModelCompressor.  For many action sets of the shipped datasets (all of
// them in the thorough tier) and of synthetic datasets with 64, 78, 128, 130 and 192 actions
// (exact multiples of the 64-bit word included): compress in one model instance, take the
// text, decode + decompress into an independently constructed instance (new dataset load /
// CoreModel / DeepClone: fresh Go map iteration orders), compare actions (planning unit,
// type, active flag), decision-variable values and the re-derived text; the same with
// non-canonical texts (lower case, leading zeros, stray bits above the action count); compare
// the sorted action order over many constructions and feed the real pre-sort (map) orders to
// the model's sort.  The real call sites are driven as well: scenario.Saver.ObserveEvent on a
// real NonDominanceModelArchive / CompressedModelState (Saver.deriveSolutionFrom…: written
// JSON detail + CSV/JSON summaries are parsed back), and the engine's Mux in-process (PATCH
// /model Encoding = reInitialiseModelWithEncoding, POST /solutions + GET /solutions/<label> =
// SolutionPool.AddSolution, fed with the Saver's own summary).  `less` / `sort` lines drive
// ManagementActions.Less and ModelManagementActions.Sort directly over crem's own
// SimpleManagementAction stubs (equal keys, prefix-sharing type names, ids 0 and >= 2^63).

import (
	"github.com/LindsayBradford/crem/internal/pkg/model/models/modumb"
	"encoding/json"
	"fmt"
	"math"
	"net/http/httptest"
	"os"
	"path/filepath"
	"regexp"
	"sort"
	"strconv"
	"strings"

	engineapi "github.com/LindsayBradford/crem/cmd/cremengine/engine/api"
	solutionEncoding "github.com/LindsayBradford/crem/internal/pkg/annealing/solution/encoding"
	"github.com/LindsayBradford/crem/internal/pkg/dataset/csv"
	"github.com/LindsayBradford/crem/internal/pkg/model"
	"github.com/LindsayBradford/crem/internal/pkg/model/action"
	modelArchive "github.com/LindsayBradford/crem/internal/pkg/model/archive"
	"github.com/LindsayBradford/crem/internal/pkg/model/models/catchment"
	"github.com/LindsayBradford/crem/internal/pkg/model/planningunit"
	"github.com/LindsayBradford/crem/internal/pkg/observer"
	"github.com/LindsayBradford/crem/internal/pkg/parameters"
	"github.com/LindsayBradford/crem/internal/pkg/scenario"
	"github.com/LindsayBradford/crem/pkg/logging/loggers"
	"github.com/LindsayBradford/crem/pkg/threading"
)

func init() { register("portability", suitePortability) }

var c09ShippedDatasets = []string{
	"internal/pkg/model/models/catchment/testdata/ValidModel.csv",
	"internal/pkg/model/models/catchment/testdata/TestingModel.csv",
	"cmd/cremengine/engine/api/testdata/ValidModel.csv",
}

type c09Dataset struct {
	name string
	rel  string // path relative to the working directory (catchment.Model joins it to cwd)
	abs  string
}

// ---------------------------------------------------------------- instance construction

const (
	c09KindModel = iota // catchment.NewModel + DataSourcePath parameter: loads the dataset itself
	c09KindCore         // csv.NewDataSet + Load + NewCoreModel().WithSourceDataSet
	c09KindClone        // DeepClone() of a c09KindModel instance (what the explorers, the saver and the engine use)
	c09KindCount
)

var c09KindNames = []string{"Model", "CoreModel", "DeepClone"}

func c09BuildInstance(ds c09Dataset, kind int) (m model.Model, err string) {
	err = protect(func() {
		switch kind {
		case c09KindModel, c09KindClone:
			cm := catchment.NewModel().WithParameters(parameters.Map{"DataSourcePath": ds.rel})
			if pe := cm.ParameterErrors(); pe != nil {
				panic(pe)
			}
			cm.Initialise(model.AsIs)
			if pe := cm.ParameterErrors(); pe != nil {
				panic(pe)
			}
			if kind == c09KindClone {
				m = cm.DeepClone()
			} else {
				m = cm
			}
		case c09KindCore:
			set := csv.NewDataSet("CatchmentModel")
			if le := set.Load(ds.abs); le != nil {
				panic(le)
			}
			core := catchment.NewCoreModel().WithSourceDataSet(set)
			core.Initialise(model.AsIs)
			m = core
		}
	})
	return
}

func c09ActionKey(a action.ManagementAction) string {
	return fmt.Sprintf("%d:%s", uint64(a.PlanningUnit()), string(a.Type()))
}

func c09KeysOf(m model.Model) []string {
	as := m.ManagementActions()
	out := make([]string, len(as))
	for i, a := range as {
		out[i] = c09ActionKey(a)
	}
	return out
}

func c09FlagsOf(m model.Model) []bool {
	as := m.ManagementActions()
	out := make([]bool, len(as))
	for i, a := range as {
		out[i] = a.IsActive()
	}
	return out
}

// c09ActiveSetOf is the *set* of active (planning unit, type) pairs, independent of any order.
func c09ActiveSetOf(m model.Model) string {
	var ks []string
	for _, a := range m.ManagementActions() {
		if a.IsActive() {
			ks = append(ks, c09ActionKey(a))
		}
	}
	sort.Strings(ks)
	return strings.Join(ks, " ")
}

func c09ValuesOfModel(m model.Model) (names []string, vals []float64) {
	names = m.NameMappedVariables().SortedKeys()
	for _, n := range names {
		vals = append(vals, m.DecisionVariable(n).Value())
	}
	return
}

func c09SetFlags(m model.Model, flags []bool) {
	for i, f := range flags {
		m.SetManagementAction(i, f)
	}
}

func c09CoreOf(m model.Model) *catchment.CoreModel {
	switch t := m.(type) {
	case *catchment.Model:
		return &t.CoreModel
	case *catchment.CoreModel:
		return t
	}
	return nil
}

// ---------------------------------------------------------------- synthetic datasets (> 64 actions)

// c09WriteReplicatedDataset copies the shipped catchment test dataset `copies` times with shifted
// planning-unit identifiers (k*100 + id) so that the model has copies*13 actions.
func c09WriteReplicatedDataset(srcDir, dstDir string, copies int) error {
	if err := os.MkdirAll(dstDir, 0o755); err != nil {
		return err
	}
	shift := func(file string, idCols []int, rowIdCol int) error {
		b, err := os.ReadFile(filepath.Join(srcDir, file))
		if err != nil {
			return err
		}
		lines := strings.Split(strings.ReplaceAll(strings.TrimSpace(string(b)), "\r", ""), "\n")
		var sb strings.Builder
		sb.WriteString(lines[0] + "\n")
		row := 0
		for k := 0; k < copies; k++ {
			for _, l := range lines[1:] {
				cells := strings.Split(l, ",")
				for _, c := range idCols {
					var v int
					if _, err := fmt.Sscanf(strings.TrimSpace(cells[c]), "%d", &v); err == nil {
						cells[c] = fmt.Sprint(v + 100*k)
					}
				}
				row++
				if rowIdCol >= 0 {
					cells[rowIdCol] = fmt.Sprint(row)
				}
				sb.WriteString(strings.Join(cells, ",") + "\n")
			}
		}
		return os.WriteFile(filepath.Join(dstDir, file), []byte(sb.String()), 0o644)
	}
	if err := shift("ValidSubcatchments.csv", []int{0, 1}, -1); err != nil {
		return err
	}
	if err := shift("ValidGullies.csv", []int{1}, 0); err != nil {
		return err
	}
	if err := shift("ValidActions.csv", []int{0}, -1); err != nil {
		return err
	}
	meta, err := os.ReadFile(filepath.Join(srcDir, "ValidModel.csv"))
	if err != nil {
		return err
	}
	return os.WriteFile(filepath.Join(dstDir, "ValidModel.csv"), meta, 0o644)
}

// ---------------------------------------------------------------- the suite

type c09PortRun struct {
	c        *Ctx
	ds       c09Dataset
	refKeys  []string
	n        int
	encSeen  map[string]string // text -> flags (canonical: a text names one active set)
	compress *modelArchive.ModelCompressor
}

func (p *c09PortRun) fail(pred, sig, detail string, ops []string) {
	p.c.Fail(pred, sig, "dataset "+p.ds.name+": "+detail, ops)
}

// orderCheck: many independent constructions end with the same sorted action list; the real
// pre-sort orders are fed to the model's sort (`order` lines) together with hypothesis H.
func (p *c09PortRun) orderCheck(constructions int) {
	c := p.c
	gatherOrders := map[string]struct{}{}
	for i := 0; i < constructions; i++ {
		kind := i % c09KindCount
		m, err := c09BuildInstance(p.ds, kind)
		if err != "" {
			p.fail("construct", "portability:construct", c09KindNames[kind]+": "+err, nil)
			return
		}
		keys := c09KeysOf(m)
		if strings.Join(keys, " ") != strings.Join(p.refKeys, " ") {
			p.fail("order-deterministic", "portability:action-order",
				fmt.Sprintf("construction %d (%s) sorted its actions as %v, the reference instance as %v", i, c09KindNames[kind], keys, p.refKeys), nil)
		}
		// the gathered (map-order) list of this instance, ids = position in Go's sorted list
		pos := map[string]int{}
		for j, k := range keys {
			pos[k] = j
		}
		core := c09CoreOf(m)
		if core == nil {
			continue
		}
		gathered := core.VerifGatherActions()
		toks := make([]string, len(gathered))
		for j, a := range gathered {
			toks[j] = fmt.Sprintf("%s:%d", c09ActionKey(a), pos[c09ActionKey(a)])
		}
		gatherOrders[strings.Join(toks, " ")] = struct{}{}
		want := make([]string, len(keys))
		for j, k := range keys {
			want[j] = fmt.Sprintf("%s:%d", k, j)
		}
		if len(gathered) != len(keys) {
			p.fail("gather", "portability:gather-size", fmt.Sprintf("gathered %d actions, model holds %d", len(gathered), len(keys)), nil)
		}
		op := "order " + strings.Join(toks, " ")
		c.Op(op, strings.Join(want, " "))
		c.Stat("order " + p.ds.name + " " + c09KindNames[kind])
		c.Nontrivial(op)
	}
	c.extra["gathered (pre-sort) orders "+p.ds.name] = fmt.Sprintf("%d distinct in %d constructions", len(gatherOrders), constructions)
	if p.n > 3 && constructions >= 10 && len(gatherOrders) < 2 {
		c.Note("dataset " + p.ds.name + ": every construction gathered its actions in the same order; map-order nondeterminism was not exercised")
	}
}

// transfer: instance A holds `flags` (reached by `route`), its text goes into instance B.
func (p *c09PortRun) transfer(a model.Model, flags []bool, route string, bKind int, bPreset []bool, respell *Rng) {
	c := p.c
	var ops []string
	cmA := p.compress.Compress(a)
	text := cmA.Encoding()
	op1 := "pe " + c09Bits(flags)
	ops = append(ops, op1)
	c.Op(op1, "="+c09Esc(text))

	if !c09EqualBools(c09FlagsOf(a), flags) {
		p.fail("harness", "portability:harness-flags", "instance A does not hold the requested flags", ops)
		return
	}
	if prev, seen := p.encSeen[text]; seen && prev != c09Bits(flags) {
		p.fail("canonical", "portability:encoding-collision", fmt.Sprintf("action sets %s and %s both encode to %q", prev, c09Bits(flags), text), ops)
	}
	p.encSeen[text] = c09Bits(flags)

	b, err := c09BuildInstance(p.ds, bKind)
	if err != "" {
		p.fail("construct", "portability:construct", c09KindNames[bKind]+": "+err, ops)
		return
	}
	if bPreset != nil {
		c09SetFlags(b, bPreset) // "any" state of the receiving instance, not only as-is
	}
	// what is fed to B: A's own text, or (respell) a non-canonical spelling of the same set: lower / mixed case,
	// leading zeros, random bits at and above the action count in the last word
	fed := text
	if respell != nil {
		fed = c09ValidTextFor(respell, flags, true)
	}
	// the sequence of SolutionPool.AddSolution / Mux.reInitialiseModelWithEncoding, replayed on the real ModelCompressor
	var decodeErr error
	if pn := protect(func() {
		cmB := p.compress.Compress(b)
		decodeErr = cmB.Decode(fed)
		if decodeErr == nil {
			p.compress.Decompress(cmB, b)
		}
	}); pn != "" {
		p.fail("no-panic", "portability:panic", pn, ops)
		return
	}
	op2 := fmt.Sprintf("pd %d =%s", len(flags), c09Esc(fed))
	ops = append(ops, op2)
	if decodeErr != nil {
		c.Op(op2, c09DecodeClass(decodeErr))
		p.fail("lossless", "portability:decode-rejected", fmt.Sprintf("text %q (instance A encodes to %q) rejected by instance B: %v", fed, text, decodeErr), ops)
		return
	}
	c.Op(op2, "ok "+c09Bits(c09FlagsOf(b)))

	// the property, directly on the implementation
	if ka, kb := strings.Join(c09KeysOf(a), " "), strings.Join(c09KeysOf(b), " "); ka != kb {
		p.fail("order-deterministic", "portability:action-order", "A: "+ka+" B: "+kb, ops)
	}
	if sa, sb := c09ActiveSetOf(a), c09ActiveSetOf(b); sa != sb {
		p.fail("lossless-portable", "portability:active-set", fmt.Sprintf("text %q: active in A {%s}, active in B after decode {%s}", text, sa, sb), ops)
	}
	if back := p.compress.Compress(b).Encoding(); back != text {
		p.fail("canonical", "portability:re-encoding", fmt.Sprintf("A encodes to %q, B after decoding it encodes to %q", text, back), ops)
	}
	if !p.compress.Compress(b).IsEquivalentTo(cmA) {
		p.fail("canonical", "portability:not-equivalent", "compressed states of A and B are not IsEquivalentTo", ops)
	}
	na, va := c09ValuesOfModel(a)
	nb, vb := c09ValuesOfModel(b)
	if strings.Join(na, ",") != strings.Join(nb, ",") {
		p.fail("values", "portability:variables", fmt.Sprintf("variables %v vs %v", na, nb), ops)
	} else {
		for i := range va {
			if va[i] != vb[i] {
				sig := "portability:values"
				if route != "index-order" || bPreset != nil {
					// A reached its set by another route than B (which applies it in index order from as-is)
					sig = "portability:values-route-dependent"
				}
				p.fail("values", sig, fmt.Sprintf("same active set {%s} (text %q), %s: A (route %s) %v, B (%s, decoded) %v, diff %g",
					c09ActiveSetOf(a), text, na[i], route, va[i], c09KindNames[bKind], vb[i], math.Abs(va[i]-vb[i])), ops)
				break
			}
		}
	}
	// the saver's use: Decompress the compressed state itself (no text) into a clone
	if bKind == c09KindClone {
		cl, err := c09BuildInstance(p.ds, c09KindClone)
		if err == "" {
			p.compress.Decompress(cmA, cl)
			if c09ActiveSetOf(cl) != c09ActiveSetOf(a) {
				p.fail("lossless-portable", "portability:saver-active-set", "Decompress(compressed A, clone) differs from A", ops)
			}
		}
	}
	active := 0
	for _, f := range flags {
		if f {
			active++
		}
	}
	spelling := "canonical"
	if fed != text {
		spelling = "non-canonical"
	}
	c.Stat(fmt.Sprintf("transfer %s n=%d route=%s into=%s preset=%v text=%s", p.ds.name, len(flags), route, c09KindNames[bKind], bPreset != nil, spelling))
	if active > 0 {
		c.Nontrivial(p.ds.name + "|" + c09Bits(flags) + "|" + route + "|" + c09KindNames[bKind] + "|" + spelling)
	}
}

// grayCodeUniqueness walks one instance through all 2^n action sets (one toggle per step) and
// checks that no two of them share a text, and that every text is the spec's (`pe` line).
func (p *c09PortRun) grayCodeUniqueness(m model.Model) {
	seen := map[string]int{}
	n := p.n
	c09SetFlags(m, make([]bool, n))
	prev := 0
	for k := 0; k < 1<<uint(n); k++ {
		g := k ^ (k >> 1)
		if d := g ^ prev; d != 0 {
			i := 0
			for d>>uint(i)&1 == 0 {
				i++
			}
			m.SetManagementAction(i, g>>uint(i)&1 == 1)
		}
		prev = g
		text := p.compress.Compress(m).Encoding()
		if other, dup := seen[text]; dup {
			p.fail("canonical", "portability:encoding-collision", fmt.Sprintf("action sets %b and %b both encode to %q", other, g, text), nil)
		}
		seen[text] = g
		if k%64 == 0 {
			p.c.Op("pe "+c09Bits(c09FlagsOf(m)), "="+c09Esc(text))
		}
	}
	p.c.Stat(fmt.Sprintf("gray-code walk %s: %d sets, %d distinct texts", p.ds.name, 1<<uint(n), len(seen)))
	if len(seen) != 1<<uint(n) {
		p.fail("canonical", "portability:encoding-collision", fmt.Sprintf("%d action sets but %d distinct texts", 1<<uint(n), len(seen)), nil)
	}
	c09SetFlags(m, make([]bool, n))
}


// c09Synth: a synthetic dataset = the shipped catchment test data replicated `copies` times, with the last
// `drop` Wetland rows of the replicated actions table removed so that the action count hits a word boundary.
type c09Synth struct {
	name         string
	copies, drop int
	want         int // number of management actions the model must end with
}

var c09SynthSpecs = []c09Synth{
	{"synthetic-64", 5, 1, 64}, // exactly one full archive word
	{"synthetic-x6", 6, 0, 78},
	{"synthetic-128", 10, 2, 128}, // exactly two
	{"synthetic-x10", 10, 0, 130},
	{"synthetic-192", 15, 3, 192}, // exactly three
}

func c09DropWetlandRows(dstDir string, drop int) error {
	if drop == 0 {
		return nil
	}
	actionsFile := filepath.Join(dstDir, "ValidActions.csv")
	b, err := os.ReadFile(actionsFile)
	if err != nil {
		return err
	}
	lines := strings.Split(strings.TrimRight(string(b), "\n"), "\n")
	for i := len(lines) - 1; i > 0 && drop > 0; i-- {
		if strings.Contains(lines[i], ",Wetland,") {
			lines = append(lines[:i], lines[i+1:]...)
			drop--
		}
	}
	if drop > 0 {
		return fmt.Errorf("not enough Wetland rows to drop")
	}
	return os.WriteFile(actionsFile, []byte(strings.Join(lines, "\n")+"\n"), 0o644)
}

// ---------------------------------------------------------------- ManagementActions.Less / Sort, directly

// type names for the stub actions: the real ones, prefixes of one another, the empty name, case variants,
// multi-byte names (Go compares bytes, the model code points: the same order on valid UTF-8)
var c09StubTypes = []string{"GullyRestoration", "HillSlopeRestoration", "RiverBankRestoration", "WetlandsEstablishment",
	"", "G", "Gu", "Gully", "GullyRestoration2", "GullyRestoratioN", "gullyRestoration", "H", "A", "AB", "ABC", "B", "a", "Z", "z", "~", "!",
	"é", "éa", "e", "Ａ", "𝒜", "0", "00", "9", "10"}

var c09StubIds = []uint64{0, 1, 2, 17, 18, 923, 1<<31 - 1, 1 << 31, 1<<32 - 1, 1 << 32, 1<<53 + 1, 1<<63 - 1, 1 << 63, 1<<63 + 1, 1<<64 - 2, 1<<64 - 1}

type c09Stub struct {
	pu  uint64
	typ string
	id  int
}

func (s c09Stub) tok() string { return fmt.Sprintf("%d:%s:%d", s.pu, s.typ, s.id) }

func c09ParseStub(tok string) (c09Stub, bool) {
	f := strings.Split(tok, ":")
	if len(f) != 3 {
		return c09Stub{}, false
	}
	pu, e1 := strconv.ParseUint(f[0], 10, 64)
	id, e2 := strconv.Atoi(f[2])
	return c09Stub{pu, f[1], id}, e1 == nil && e2 == nil
}

// the stub is crem's own SimpleManagementAction; its identity (`id`) travels in a variable the order does not look at
func (s c09Stub) action() action.ManagementAction {
	return new(action.SimpleManagementAction).WithPlanningUnit(planningunit.Id(s.pu)).
		WithType(action.ManagementActionType(s.typ)).WithVariable("id", float64(s.id))
}

func c09StubOf(a action.ManagementAction) c09Stub {
	return c09Stub{uint64(a.PlanningUnit()), string(a.Type()), int(a.ModelVariableValue("id"))}
}

func c09RefLess(a, b c09Stub) bool { return a.pu < b.pu || (a.pu == b.pu && a.typ < b.typ) }

// c09LessLine: `less A B` -> 0|1, the real ManagementActions.Less on a two-element slice.
func c09LessLine(c *Ctx, a, b c09Stub) bool {
	op := "less " + a.tok() + " " + b.tok()
	var got bool
	if p := protect(func() { got = action.ManagementActions{a.action(), b.action()}.Less(0, 1) }); p != "" {
		c.Op(op, "panic")
		c.Fail("no-panic", "portability:less-panic", p, []string{op})
		return false
	}
	c.Op(op, b2s(got))
	if got != c09RefLess(a, b) {
		c.Fail("less-is-the-key-order", "portability:less-definition",
			fmt.Sprintf("Less(%s, %s) = %v, but (planning unit, type) compares as %v", a.tok(), b.tok(), got, c09RefLess(a, b)), []string{op})
	}
	cls := "pu-differs"
	if a.pu == b.pu {
		cls = "same-pu"
		switch {
		case a.typ == b.typ:
			cls += " same-type"
		case strings.HasPrefix(a.typ, b.typ) || strings.HasPrefix(b.typ, a.typ):
			cls += " type-prefix"
		case a.typ != "" && b.typ != "" && a.typ[0] == b.typ[0]:
			cls += " same-first-byte"
		}
	}
	if a.pu >= 1<<63 || b.pu >= 1<<63 {
		cls += " pu>=2^63"
	}
	c.Stat("less " + cls + " -> " + b2s(got))
	c.Nontrivial("less|" + cls + "|" + b2s(got))
	return got
}

// c09SortLine: `sort A B ..` -> the real ModelManagementActions.Add + Sort.  With distinct keys the whole list is
// determined (`d` + tokens with identities); with equal keys sort.Sort may order the twins either way, so only the
// key sequence is compared (`e` + pu:type).  The contract assumed of sort.Sort (a permutation, no later element Less
// than an earlier one) is checked directly on the result.
func c09SortLine(c *Ctx, stubs []c09Stub) {
	toks := make([]string, len(stubs))
	for i, s := range stubs {
		toks[i] = s.tok()
	}
	op := strings.TrimSpace("sort " + strings.Join(toks, " "))
	var sorted []c09Stub
	if p := protect(func() {
		m := new(action.ModelManagementActions)
		m.Initialise()
		for _, s := range stubs {
			m.Add(s.action())
		}
		m.Sort()
		for _, a := range m.Actions() {
			sorted = append(sorted, c09StubOf(a))
		}
	}); p != "" {
		c.Op(op, "panic")
		c.Fail("no-panic", "portability:sort-panic", p, []string{op})
		return
	}
	distinct := true
	seen := map[string]bool{}
	for _, s := range stubs {
		k := fmt.Sprintf("%d:%s", s.pu, s.typ)
		if seen[k] {
			distinct = false
		}
		seen[k] = true
	}
	out := make([]string, len(sorted))
	for i, s := range sorted {
		if distinct {
			out[i] = s.tok()
		} else {
			out[i] = fmt.Sprintf("%d:%s", s.pu, s.typ)
		}
	}
	res := "e"
	if distinct {
		res = "d"
	}
	c.Op(op, strings.TrimSpace(res+" "+strings.Join(out, " ")))
	// sort.Sort's contract, on the implementation
	ids := map[int]int{}
	for _, s := range stubs {
		ids[s.id]++
	}
	for _, s := range sorted {
		ids[s.id]--
	}
	perm := len(sorted) == len(stubs)
	for _, n := range ids {
		if n != 0 {
			perm = false
		}
	}
	if !perm {
		c.Fail("sort-contract", "portability:sort-not-a-permutation", fmt.Sprintf("%v sorted to %v", toks, out), []string{op})
	}
	for i := range sorted {
		for j := i + 1; j < len(sorted); j++ {
			if c09RefLess(sorted[j], sorted[i]) {
				c.Fail("sort-contract", "portability:sort-not-sorted", fmt.Sprintf("%v: %s stands before %s", out, sorted[i].tok(), sorted[j].tok()), []string{op})
				i = len(sorted)
				break
			}
		}
	}
	c.Stat(fmt.Sprintf("sort n=%s keys-distinct=%v", map[bool]string{true: "<=8", false: ">8"}[len(stubs) <= 8], distinct))
	c.Nontrivial(op)
}

func c09RandStub(r *Rng, id int, pool []c09Stub) c09Stub {
	if len(pool) > 0 && r.Chance(0.35) { // same planning unit as an earlier stub, often the same or a prefix type
		o := pool[r.Intn(len(pool))]
		s := c09Stub{o.pu, o.typ, id}
		switch r.Intn(4) {
		case 0: // equal key
		case 1:
			s.typ = o.typ + []string{"2", "a", "A", "é"}[r.Intn(4)]
		case 2:
			if len(o.typ) > 0 {
				s.typ = o.typ[:r.Intn(len(o.typ))]
				for !validUTF8C09(s.typ) {
					s.typ = s.typ[:len(s.typ)-1]
				}
			}
		default:
			s.typ = c09StubTypes[r.Intn(len(c09StubTypes))]
		}
		return s
	}
	pu := c09StubIds[r.Intn(len(c09StubIds))]
	if r.Chance(0.3) {
		pu = r.U64()
	}
	return c09Stub{pu, c09StubTypes[r.Intn(len(c09StubTypes))], id}
}

func validUTF8C09(s string) bool { return strings.ToValidUTF8(s, "") == s }

// c09OrderLines: direct `less` / `sort` lines (shard 0 does the exhaustive part).
func c09OrderLines(c *Ctx, r *Rng) {
	if c.Shard == 0 {
		// exhaustive pairs over a small grid of planning units x all type names: every ordered pair
		pus := []uint64{0, 17, 1<<63 - 1, 1 << 63, 1<<64 - 1}
		var grid []c09Stub
		for _, pu := range pus {
			for _, t := range c09StubTypes {
				grid = append(grid, c09Stub{pu, t, len(grid)})
			}
		}
		step := 1
		if !c.Thorough() {
			step = 3 // every third partner in the quick tier (the diagonal and its neighbours always)
		}
		for i, a := range grid {
			for j, b := range grid {
				if (i+j)%step != 0 && i != j && j != i+1 {
					continue
				}
				lab := c09LessLine(c, a, b)
				if i == j && lab {
					c.Fail("less-strict-order", "portability:less-not-irreflexive", a.tok(), nil)
				}
			}
		}
		c09SortLine(c, nil)
		c09SortLine(c, grid[:1])
		c09SortLine(c, grid)
	}
	n := (c.N(400, 6000) + c.Shards - 1) / c.Shards
	for k := 0; k < n; k++ {
		var pool []c09Stub
		m := 2 + r.Intn(7)
		if r.Chance(0.1) {
			m = 9 + r.Intn(60) // beyond sort.Sort's insertion-sort threshold (12): pdqsort proper
		}
		wantDistinct := r.Bool() // half of the lists have pairwise distinct keys (the whole result is then determined)
		keys := map[string]bool{}
		for i := 0; i < m; i++ {
			st := c09RandStub(r, i, pool)
			for tries := 0; wantDistinct && keys[fmt.Sprintf("%d:%s", st.pu, st.typ)] && tries < 50; tries++ {
				st = c09RandStub(r, i, pool)
			}
			keys[fmt.Sprintf("%d:%s", st.pu, st.typ)] = true
			pool = append(pool, st)
		}
		c09SortLine(c, pool)
		// the order laws directly on the implementation over triples of this pool
		for t := 0; t < 4; t++ {
			a, b, d := pool[r.Intn(m)], pool[r.Intn(m)], pool[r.Intn(m)]
			ab, ba, bd, ad := c09LessLine(c, a, b), c09LessLine(c, b, a), c09LessLine(c, b, d), c09LessLine(c, a, d)
			if ab && ba {
				c.Fail("less-strict-order", "portability:less-not-asymmetric", a.tok()+" "+b.tok(), nil)
			}
			if ab && bd && !ad {
				c.Fail("less-strict-order", "portability:less-not-transitive", a.tok()+" "+b.tok()+" "+d.tok(), nil)
			}
			if !ab && !ba && (a.pu != b.pu || a.typ != b.typ) {
				c.Fail("less-total-on-keys", "portability:less-not-total", a.tok()+" "+b.tok(), nil)
			}
		}
	}
}

// ---------------------------------------------------------------- the real call sites: Saver and engine

type c09Offered struct {
	flags  []bool
	active string
	names  []string
	vals   []float64
}

type c09SolutionDoc struct {
	Id                string
	DecisionVariables []struct {
		Name  string
		Value interface{} // a number in the Saver's files, a string in the engine's documents
	}
	ActiveManagementActions map[string][]string
	Attributes              []struct {
		Name  string
		Value interface{}
	}
	// summary documents
	Solutions []struct {
		Id      string
		Actions string
	}
	Type, Message string
}

var c09MemberRe = regexp.MustCompile(`\((\d+)/(\d+)\)\s*$`)

// bitsOfActive maps a planning-unit -> action-types document onto the reference action order by KEY (not index).
func (p *c09PortRun) bitsOfActive(m map[string][]string) (bits []bool, activeSet string, stray []string) {
	have := map[string]bool{}
	for pu, ts := range m {
		for _, t := range ts {
			have[pu+":"+t] = true
		}
	}
	bits = make([]bool, p.n)
	var ks []string
	for i, k := range p.refKeys {
		if have[k] {
			bits[i] = true
			ks = append(ks, k)
			delete(have, k)
		}
	}
	for k := range have {
		stray = append(stray, k)
	}
	sort.Strings(ks)
	sort.Strings(stray)
	return bits, strings.Join(ks, " "), stray
}

func c09RunSaver(otype, level, dir string, dec model.Model, ev *observer.Event) string {
	return protect(func() {
		saver := scenario.NewSaver().
			WithOutputType(solutionEncoding.OutputType(otype)).
			WithOutputPath(dir).
			WithOutputLevel(scenario.OutputLevel(level)).
			WithLogHandler(loggers.NewNullLogger())
		saver.SetDecompressionModel(dec)
		saver.ObserveEvent(*ev)
	})
}

type c09Engine struct{ mux *engineapi.Mux }

func c09NewEngine() *c09Engine {
	threading.ResetMainThreadChannel()
	ch := threading.GetMainThreadChannel()
	m := new(engineapi.Mux).Initialise().WithMainThreadChannel(&ch)
	m.SetLogger(loggers.NewNullLogger())
	return &c09Engine{mux: m}
}

func (e *c09Engine) do(method, path, ctype, body string) (status int, resp string, panicked string) {
	panicked = protect(func() {
		w := httptest.NewRecorder()
		r := httptest.NewRequest(method, "http://dummy.com/", strings.NewReader(body))
		r.URL.Path = path
		if ctype != "" {
			r.Header.Add("Content-Type", ctype)
		}
		e.mux.ServeHTTP(w, r)
		status, resp = w.Code, w.Body.String()
	})
	return
}

func (p *c09PortRun) newEngine() *c09Engine {
	e := c09NewEngine()
	toml := fmt.Sprintf("[Scenario]\nName = \"C09\"\n[Annealer]\nType = \"Kirkpatrick\"\n[Model]\nType = \"CatchmentModel\"\n[Model.Parameters]\nDataSourcePath = %q\n", p.ds.abs)
	if st, resp, pn := e.do("POST", "/api/v1/scenario", "application/toml", toml); pn != "" || st != 200 {
		p.fail("construct", "portability:engine-scenario", fmt.Sprintf("POST /api/v1/scenario: status %d panic %q body %.200s", st, pn, resp), nil)
		return nil
	}
	return e
}

// servedLine: one solution document served by the engine for `fed` (a text the spec reads as `flags`):
// `pd n =fed` -> `ok b<active actions of the document, by key>`; direct: the active set is `want`.
func (p *c09PortRun) servedLine(site, fed string, doc *c09SolutionDoc, wantActive string, ops []string) {
	bits, active, stray := p.bitsOfActive(doc.ActiveManagementActions)
	op := fmt.Sprintf("pd %d =%s", p.n, c09Esc(fed))
	ops = append(ops, op)
	p.c.Op(op, "ok "+c09Bits(bits))
	if len(stray) > 0 {
		p.fail("lossless-portable", "portability:"+site+"-unknown-action", fmt.Sprintf("text %q: the document names actions the model does not have: %v", fed, stray), ops)
	}
	if active != wantActive {
		p.fail("lossless-portable", "portability:"+site+"-active-set", fmt.Sprintf("text %q: expected active {%s}, the document shows {%s}", fed, wantActive, active), ops)
	}
	p.c.Stat(fmt.Sprintf("call site %s %s n=%d", site, p.ds.name, p.n))
	p.c.Nontrivial(p.ds.name + "|" + site + "|" + fed)
}

// enginePatch: PATCH /api/v1/model with an Encoding attribute (Mux.reInitialiseModelWithEncoding), then GET /api/v1/model.
func (p *c09PortRun) enginePatch(e *c09Engine, fed string, canonical string, wantActive string) {
	body := fmt.Sprintf(`[{"Name":"Encoding","Value":%s}]`, strconv.Quote(fed))
	st, resp, pn := e.do("PATCH", "/api/v1/model", "application/json", body)
	if pn != "" || st != 200 {
		p.fail("lossless", "portability:engine-patch-rejected", fmt.Sprintf("PATCH /api/v1/model Encoding=%q: status %d panic %q body %.200s", fed, st, pn, resp), nil)
		return
	}
	st, resp, pn = e.do("GET", "/api/v1/model", "", "")
	var doc c09SolutionDoc
	if pn != "" || st != 200 || json.Unmarshal([]byte(resp), &doc) != nil {
		p.fail("lossless", "portability:engine-model-unreadable", fmt.Sprintf("GET /api/v1/model: status %d panic %q body %.200s", st, pn, resp), nil)
		return
	}
	p.servedLine("engine-patch", fed, &doc, wantActive, nil)
	for _, a := range doc.Attributes {
		if a.Name == "Encoding" {
			got, _ := a.Value.(string)
			bits, _, _ := p.bitsOfActive(doc.ActiveManagementActions)
			op := "pe " + c09Bits(bits)
			p.c.Op(op, "="+c09Esc(got))
			if got != canonical {
				p.fail("canonical", "portability:engine-encoding-attribute", fmt.Sprintf("patched with %q (canonical %q), the model's Encoding attribute reads %q", fed, canonical, got), []string{op})
			}
		}
	}
}

// saverPath: K real model instances are offered to a real NonDominanceModelArchive (or one is compressed on its
// own), a FinishedAnnealing event carries it to a real Saver whose decompression model is an independently
// built instance; the written files are parsed back; the CSV summary is then posted to a real engine and every
// row is requested (SolutionPool.AddSolution), canonically and with non-canonical re-spellings of the texts.
func (p *c09PortRun) saverPath(r *Rng, walker model.Model, eng *c09Engine) {
	c := p.c
	single := r.Chance(0.25)
	k := 1
	if !single {
		k = 2 + r.Intn(6)
	}
	arch := modelArchive.New()
	arch.SetId("c09run")
	offered := map[string]c09Offered{}
	var members []*modelArchive.CompressedModelState
	for i := 0; i < k; i++ {
		flags := c09RandBits(r, p.n, []float64{0.1, 0.5, 0.5, 0.9}[r.Intn(4)])
		if r.Chance(0.3) && p.n > 64 { // a set living in one word only
			w := r.Intn((p.n + 63) / 64)
			for j := range flags {
				if j/64 != w {
					flags[j] = false
				}
			}
		}
		var a model.Model
		if r.Chance(0.3) {
			a = walker
		} else {
			var err string
			if a, err = c09BuildInstance(p.ds, r.Intn(c09KindCount)); err != "" {
				p.fail("construct", "portability:construct", err, nil)
				return
			}
		}
		c09SetFlags(a, flags)
		cm := p.compress.Compress(a)
		names, vals := c09ValuesOfModel(a)
		offered[cm.Encoding()] = c09Offered{flags: flags, active: c09ActiveSetOf(a), names: names, vals: vals}
		if single {
			cm.SetId("c09run")
			members = []*modelArchive.CompressedModelState{cm}
		} else {
			arch.AttemptToArchive(a) // the explorers' route: compress + Pareto filter
		}
	}
	ev := observer.NewEvent(observer.FinishedAnnealing)
	if single {
		ev.WithAttribute(scenario.CompressedModel, *members[0])
	} else {
		members = arch.Archive()
		ev.WithAttribute(scenario.ModelArchive, *arch)
	}
	dec, err := c09BuildInstance(p.ds, r.Intn(c09KindCount))
	if err != "" {
		p.fail("construct", "portability:construct", err, nil)
		return
	}
	if r.Chance(0.5) {
		c09SetFlags(dec, c09RandBits(r, p.n, 0.5))
	}
	dirJ, e1 := os.MkdirTemp(c.Out, "c09saveJ")
	dirC, e2 := os.MkdirTemp(c.Out, "c09saveC")
	if e1 != nil || e2 != nil {
		p.fail("harness", "portability:tempdir", fmt.Sprint(e1, e2), nil)
		return
	}
	defer os.RemoveAll(dirJ)
	defer os.RemoveAll(dirC)
	if pn := c09RunSaver("JSON", "Detail", dirJ, dec, ev); pn != "" {
		p.fail("no-panic", "portability:saver-panic", pn, nil)
		return
	}
	// ---- parse the JSON directory
	details := map[int]*c09SolutionDoc{} // member number (1-based), 0 = as-is
	var summary *c09SolutionDoc
	files, _ := filepath.Glob(filepath.Join(dirJ, "*.json"))
	for _, f := range files {
		b, _ := os.ReadFile(f)
		var doc c09SolutionDoc
		if err := json.Unmarshal(b, &doc); err != nil {
			p.fail("saver-output", "portability:saver-unreadable", filepath.Base(f)+": "+err.Error(), nil)
			return
		}
		switch {
		case doc.Solutions != nil:
			summary = &doc
		case strings.Contains(doc.Id, "As-Is"):
			d := doc
			details[0] = &d
		default:
			if m := c09MemberRe.FindStringSubmatch(doc.Id); m != nil {
				num, _ := strconv.Atoi(m[1])
				d := doc
				details[num] = &d
			}
		}
	}
	if summary == nil || len(details) != len(members)+1 {
		p.fail("saver-output", "portability:saver-files", fmt.Sprintf("%d members: summary found %v, %d detail documents in %v", len(members), summary != nil, len(details), files), nil)
		return
	}
	rowText := map[string]string{}
	for _, s := range summary.Solutions {
		rowText[s.Id] = s.Actions
	}
	label := func(j int) string {
		if single || len(members) == 1 { // the Saver labels "(1/1)" as Optimised, also for a one-member front
			return "Optimised"
		}
		return fmt.Sprintf("%d-of-%d", j+1, len(members))
	}
	type fedRow struct{ label, text, active string }
	var rows []fedRow
	for j, cm := range members {
		text := cm.Encoding()
		off, ok := offered[text]
		if !ok {
			p.fail("harness", "portability:harness-member", "archive member with a text no offered instance had: "+text, nil)
			continue
		}
		// summary row: the text the Saver's own instance derives after Decompress
		op1 := "pe " + c09Bits(off.flags)
		got, has := rowText[label(j)]
		c.Op(op1, "="+c09Esc(got))
		if !has || got != text {
			p.fail("canonical", "portability:saver-encoding", fmt.Sprintf("member %d: the run's instance encodes to %q, the Saver's summary row %q reads %q", j+1, text, label(j), got), []string{op1})
		}
		// detail document: the actions active in the Saver's instance, by (planning unit, type)
		p.servedLine("saver", text, details[j+1], off.active, []string{op1})
		for _, dv := range details[j+1].DecisionVariables {
			v, isNum := dv.Value.(float64)
			if str, isStr := dv.Value.(string); isStr {
				if f, err := strconv.ParseFloat(strings.ReplaceAll(str, ",", ""), 64); err == nil {
					v, isNum = f, true
				}
			}
			for i, nme := range off.names {
				if nme == dv.Name && (!isNum || math.Abs(v-off.vals[i]) > 0.0051+1e-9*math.Abs(off.vals[i])) {
					p.fail("values", "portability:saver-values", fmt.Sprintf("member %d %s: run's instance %v, Saver wrote %v", j+1, nme, off.vals[i], dv.Value), nil)
				}
			}
		}
		rows = append(rows, fedRow{label(j), text, off.active})
	}
	if _, active, _ := p.bitsOfActive(details[0].ActiveManagementActions); active != "" {
		p.fail("lossless-portable", "portability:saver-as-is", "the as-is document shows active actions {"+active+"}", nil)
	}
	c.Stat(fmt.Sprintf("saver event %s single=%v offered=%d archived=%d", p.ds.name, single, k, len(members)))

	// ---- the engine's pool, fed with the Saver's own CSV summary
	if eng == nil {
		return
	}
	if pn := c09RunSaver("CSV", "Summary", dirC, dec, ev); pn != "" {
		p.fail("no-panic", "portability:saver-panic", pn, nil)
		return
	}
	sums, _ := filepath.Glob(filepath.Join(dirC, "*-Summary.csv"))
	if len(sums) != 1 {
		p.fail("saver-output", "portability:saver-files", fmt.Sprintf("CSV summaries written: %v", sums), nil)
		return
	}
	csvBytes, _ := os.ReadFile(sums[0])
	csvText := string(csvBytes)
	respell := r.Chance(0.5)
	if respell { // the same rows, every member's text re-spelt non-canonically (the pool must serve the same sets)
		for i := range rows {
			alt := c09ValidTextFor(r, offered[rows[i].text].flags, true)
			if strings.Count(csvText, ", "+rows[i].text+", ") == 1 {
				csvText = strings.Replace(csvText, ", "+rows[i].text+", ", ", "+alt+", ", 1)
				rows[i].text = alt
			}
		}
	}
	if st, resp, pn := eng.do("POST", "/api/v1/solutions", "text/csv", csvText); pn != "" || st != 200 {
		p.fail("lossless", "portability:engine-summary-rejected", fmt.Sprintf("POST /api/v1/solutions of the Saver's own summary (respelt=%v): status %d panic %q body %.300s\n%s", respell, st, pn, resp, csvText), nil)
		return
	}
	for _, row := range rows {
		st, resp, pn := eng.do("GET", "/api/v1/solutions/"+row.label, "", "")
		var doc c09SolutionDoc
		if pn != "" || st != 200 || json.Unmarshal([]byte(resp), &doc) != nil {
			p.fail("lossless", "portability:engine-solution-unreadable", fmt.Sprintf("GET /api/v1/solutions/%s: status %d panic %q body %.200s", row.label, st, pn, resp), nil)
			continue
		}
		p.servedLine("engine-pool", row.text, &doc, row.active, nil)
	}
}

// c09TieDecode: the explorer's decode route (NonDominanceModelArchive.Decompress, used on every return-to-base) into a
// receiving model whose DECISION-VARIABLE VALUES already equal the archived state's although its action set differs.
// crem's multi-objective dumb model makes such ties plentiful (every planning unit offers the same three actions).
func c09TieDecode(c *Ctx, r *Rng) {
	for _, units := range []int64{2, 5, 22, 100} { // 6, 15, 66 and 300 actions
		build := func() model.Model {
			m := modumb.NewModel().WithParameters(parameters.Map{"NumberOfPlanningUnits": units})
			m.Initialise(model.AsIs)
			return m
		}
		var a, b model.Model
		if p := protect(func() { a, b = build(), build() }); p != "" {
			c.Stat("tie decode: modumb model not buildable: " + clip(p, 60))
			return
		}
		n := len(c09FlagsOf(a))
		for k := 0; k < 12; k++ {
			// A holds {i}, B holds {j}: same action type in another planning unit => equal variable vectors
			typ := r.Intn(3)
			pu1, pu2 := r.Intn(int(units)), r.Intn(int(units))
			if pu1 == pu2 {
				pu2 = (pu1 + 1) % int(units)
			}
			fa, fb := make([]bool, n), make([]bool, n)
			fa[pu1*3+typ], fb[pu2*3+typ] = true, true
			if k%3 == 2 { // two actions each
				t2 := (typ + 1) % 3
				fa[pu2*3+t2], fb[pu1*3+t2] = true, true
			}
			c09SetFlags(a, fa)
			c09SetFlags(b, fb)
			_, va := c09ValuesOfModel(a)
			_, vb := c09ValuesOfModel(b)
			tie := fmt.Sprint(va) == fmt.Sprint(vb)
			var got []bool
			if p := protect(func() {
				var arch modelArchive.NonDominanceModelArchive
				arch.Initialise()
				st := (&modelArchive.ModelCompressor{}).Compress(a)
				arch.Decompress(st, b)
				got = c09FlagsOf(b)
			}); p != "" {
				c.Fail("no-panic", "portability:panic", "tie decode: "+p, nil)
				return
			}
			c.Stat(fmt.Sprintf("tie decode: %d actions, values tie=%v", n, tie))
			if c09Bits(got) != c09Bits(fa) {
				c.Fail("lossless", "portability:active-set", fmt.Sprintf("multi-objective dumb model with %d actions: the archive decoded the state of set %s into an instance holding %s (decision-variable values equal: %v); the instance now holds %s",
					n, c09ActiveBitsShort(fa), c09ActiveBitsShort(fb), tie, c09ActiveBitsShort(got)), nil)
				return
			}
		}
	}
}

func c09ActiveBitsShort(bits []bool) string {
	var on []string
	for i, b := range bits {
		if b {
			on = append(on, strconv.Itoa(i))
		}
	}
	return "{" + strings.Join(on, ",") + "}"
}

func suitePortability(c *Ctx) {
	if c.Replay != "" {
		// protocol lines are self-contained for the model side; on the Go side a replay re-runs the
		// archive part of each line (encode / decode of the given bits or text) on a real archive
		in := newC09Interp(c)
		for _, l := range readLines(c.Replay) {
			w := strings.Fields(l)
			if len(w) == 0 || strings.HasPrefix(l, "#") {
				continue
			}
			switch w[0] {
			case "pe":
				c.Op(l, in.exec("spec-enc "+strings.Join(w[1:], " ")))
			case "pd":
				c.Op(l, in.exec("spec-dec "+strings.Join(w[1:], " ")))
			case "less":
				if len(w) == 3 {
					a, ok1 := c09ParseStub(w[1])
					b, ok2 := c09ParseStub(w[2])
					if ok1 && ok2 {
						c09LessLine(c, a, b)
					}
				}
			case "sort":
				var stubs []c09Stub
				ok := true
				for _, t := range w[1:] {
					st, k := c09ParseStub(t)
					ok = ok && k
					stubs = append(stubs, st)
				}
				if ok {
					c09SortLine(c, stubs)
				}
			}
		}
		return
	}
	cwd, _ := os.Getwd()
	var datasets []c09Dataset
	for _, rel := range c09ShippedDatasets {
		name := filepath.Base(filepath.Dir(filepath.Dir(rel))) + "/" + filepath.Base(rel)
		datasets = append(datasets, c09Dataset{name: name, rel: rel, abs: filepath.Join(cwd, rel)})
	}
	// synthetic: the shipped data replicated (and trimmed) to 64, 78, 128, 130 and 192 actions
	wantActions := map[string]int{}
	for _, sp := range c09SynthSpecs {
		dst := filepath.Join(c.Out, sp.name)
		err := c09WriteReplicatedDataset(filepath.Join(cwd, "internal/pkg/model/models/catchment/testdata"), dst, sp.copies)
		if err == nil {
			err = c09DropWetlandRows(dst, sp.drop)
		}
		if err != nil {
			c.Fail("harness", "portability:synthetic-dataset", err.Error(), nil)
			continue
		}
		rel, err := filepath.Rel(cwd, filepath.Join(dst, "ValidModel.csv"))
		if err != nil {
			c.Fail("harness", "portability:synthetic-dataset", err.Error(), nil)
			continue
		}
		wantActions[sp.name] = sp.want
		datasets = append(datasets, c09Dataset{name: sp.name, rel: rel, abs: filepath.Join(dst, "ValidModel.csv")})
	}

	r := c.Rng.Fork() // Fork: util.go's streams for seeds k and k+1 are the same sequence shifted by one draw; forking decorrelates them
	c09OrderLines(c, r.Fork())
	if c.Shard == 0 {
		c09TieDecode(c, r.Fork())
	}
	for _, ds := range datasets {
		ref, err := c09BuildInstance(ds, c09KindModel)
		if err != "" {
			c.Fail("construct", "portability:construct", "dataset "+ds.name+": "+err, nil)
			continue
		}
		p := &c09PortRun{c: c, ds: ds, refKeys: c09KeysOf(ref), n: len(ref.ManagementActions()), encSeen: map[string]string{}, compress: new(modelArchive.ModelCompressor)}
		c.Stat(fmt.Sprintf("dataset %s actions=%d", ds.name, p.n))
		shipped := !strings.HasPrefix(ds.name, "synthetic")
		if w, ok := wantActions[ds.name]; ok && w != p.n {
			c.Fail("harness", "portability:synthetic-dataset", fmt.Sprintf("%s was built to have %d actions, the model holds %d", ds.name, w, p.n), nil)
		}

		p.orderCheck((c.N(30, 300) + c.Shards - 1) / c.Shards)

		// walker: one long-lived instance moved from set to set by toggling (the explorers' route)
		walker, err := c09BuildInstance(ds, c09KindModel)
		if err != "" {
			continue
		}
		var sets [][]bool
		exhaustive := shipped && p.n <= 15 && c.Thorough()
		if exhaustive && c.Shard == 0 {
			p.grayCodeUniqueness(walker)
		}
		if exhaustive {
			for code := 0; code < 1<<uint(p.n); code++ {
				f := make([]bool, p.n)
				for i := range f {
					f[i] = code>>uint(i)&1 == 1
				}
				sets = append(sets, f)
			}
		} else {
			sets = append(sets, make([]bool, p.n))
			ones := make([]bool, p.n)
			for i := range ones {
				ones[i] = true
			}
			sets = append(sets, ones)
			for i := 0; i < p.n; i++ { // every single action (synthetic datasets, quick tier: those next to a word boundary + a sample)
				if !shipped && !c.Thorough() && !(i%64 <= 1 || i%64 >= 62 || i == p.n-1 || r.Chance(0.08)) {
					continue
				}
				f := make([]bool, p.n)
				f[i] = true
				sets = append(sets, f)
			}
			extra := c.N(150, 1500)
			if !shipped {
				extra = c.N(60, 600)
			}
			for i := 0; i < extra; i++ {
				sets = append(sets, c09RandBits(r, p.n, []float64{0.1, 0.5, 0.5, 0.9}[r.Intn(4)]))
			}
		}
		for si, flags := range sets {
			if si%c.Shards != c.Shard {
				continue
			}
			bKind := r.Intn(c09KindCount)
			var preset []bool
			if r.Chance(0.3) {
				preset = c09RandBits(r, p.n, 0.5)
			}
			// route 1: a fresh instance, flags applied in index order from the as-is state
			a, err := c09BuildInstance(ds, r.Intn(c09KindCount))
			if err != "" {
				p.fail("construct", "portability:construct", err, nil)
				break
			}
			c09SetFlags(a, flags)
			var respell *Rng
			if r.Chance(0.4) {
				respell = r
			}
			p.transfer(a, flags, "index-order", bKind, preset, respell)
			// route 2: the long-lived walker, toggled towards the set in a random order
			idx := make([]int, p.n)
			for i := range idx {
				idx[i] = i
			}
			for i := len(idx) - 1; i > 0; i-- {
				j := r.Intn(i + 1)
				idx[i], idx[j] = idx[j], idx[i]
			}
			for _, i := range idx {
				walker.SetManagementAction(i, flags[i])
			}
			respell = nil
			if r.Chance(0.4) {
				respell = r
			}
			p.transfer(walker, flags, "walk", r.Intn(c09KindCount), nil, respell)
		}
		// route 3: an instance of a LIMITED scenario after Initialise(Random) + Randomize(), as both explorers prepare
		// their models: its action order is still the scenario's, and its encoding means the same set in any instance
		for k := 0; k < c.N(3, 12); k++ {
			var a3 model.Model
			limit := 0.0
			if pn := protect(func() {
				all, e := c09BuildInstance(ds, c09KindModel)
				if e != "" {
					panic(e)
				}
				ones := make([]bool, p.n)
				for i := range ones {
					ones[i] = true
				}
				c09SetFlags(all, ones)
				limit = all.DecisionVariable("ImplementationCost").Value() * (0.2 + 0.6*r.Float())
				cm := catchment.NewModel().WithParameters(parameters.Map{"DataSourcePath": ds.rel, "MaximumImplementationCost": limit})
				if pe := cm.ParameterErrors(); pe != nil {
					panic(pe)
				}
				cm.Initialise(model.Random)
				cm.Randomize()
				a3 = cm
			}); pn != "" || a3 == nil {
				c.Stat("randomised limited instance: not built (" + clip(pn, 50) + ")")
				continue
			}
			if got, want := strings.Join(c09KeysOf(a3), " "), strings.Join(c09KeysOf(ref), " "); got != want {
				p.fail("order", "portability:action-order-changed", fmt.Sprintf("dataset %s: after Initialise(Random) + Randomize() under MaximumImplementationCost = %v the instance lists its actions as [%s]; every other instance of the scenario lists [%s]", ds.name, limit, clip(got, 400), clip(want, 400)), nil)
				break
			}
			c.Stat("randomised limited instance transferred")
			p.transfer(a3, c09FlagsOf(a3), "randomized-limited", r.Intn(c09KindCount), nil, nil)
		}

		// the real call sites: Saver (events with real archives), engine PATCH /model, engine solution pool
		eng := p.newEngine()
		events := (c.N(6, 60) + c.Shards - 1) / c.Shards
		if !shipped {
			events = (c.N(4, 30) + c.Shards - 1) / c.Shards
		}
		for i := 0; i < events; i++ {
			p.saverPath(r, walker, eng)
		}
		if eng != nil {
			patches := (c.N(12, 120) + c.Shards - 1) / c.Shards
			for i := 0; i < patches; i++ {
				flags := c09RandBits(r, p.n, []float64{0.1, 0.5, 0.5, 0.9}[r.Intn(4)])
				c09SetFlags(walker, flags)
				canonical := p.compress.Compress(walker).Encoding()
				fed := canonical
				if r.Bool() {
					fed = c09ValidTextFor(r, flags, true)
				}
				p.enginePatch(eng, fed, canonical, c09ActiveSetOf(walker))
			}
		}
	}
}
