//go:build verif

package main

import (
	"fmt"
	"math"
	"os"
	"path/filepath"
	"strconv"
	"strings"

	"github.com/LindsayBradford/crem/internal/pkg/annealing/cooling"
	"github.com/LindsayBradford/crem/internal/pkg/annealing/cooling/coolants/averaged"
	coolsup "github.com/LindsayBradford/crem/internal/pkg/annealing/cooling/coolants/suppapitnarm"
	"github.com/LindsayBradford/crem/internal/pkg/annealing/explorer/suppapitnarm"
	"github.com/LindsayBradford/crem/internal/pkg/model"
	marchive "github.com/LindsayBradford/crem/internal/pkg/model/archive"
	"github.com/LindsayBradford/crem/internal/pkg/model/models/catchment"
	"github.com/LindsayBradford/crem/internal/pkg/model/planningunit"
	"github.com/LindsayBradford/crem/internal/pkg/parameters"
	crand "github.com/LindsayBradford/crem/internal/pkg/rand"
	"github.com/LindsayBradford/crem/pkg/logging/loggers"
)

func init() { register("suppa-runs", suiteSuppaRuns) }

// unitSource scripts Float64Unitary(): Int63n(2^53) = Int63() & (2^53-1); u = that / (2^53-1).
type unitSource struct {
	next func() uint64 // 53-bit numerators
	log  []uint64
}

func (s *unitSource) Int63() int64 {
	v := s.next() & (1<<53 - 1)
	s.log = append(s.log, v)
	return int64(v)
}
func (s *unitSource) Seed(int64) {}

func unitOf(v uint64) float64 { return float64(int64(v)) / float64(int64(1)<<53-1) }

// sorted variable names -> (our index, precision): DissolvedNitrogen, ImplementationCost, OpportunityCost,
// ParticulateNitrogen, SedimentProduction, TotalNitrogen
var sortedVarIdx = []int{2, 4, 5, 1, 0, 3}

func scaledKeys(totals [6]float64) []int64 {
	out := make([]int64, 6)
	for k, vi := range sortedVarIdx {
		out[k] = int64(math.Round(totals[vi] * math.Pow10(varPrec[vi])))
	}
	return out
}

func hashStates(ss []*marchive.CompressedModelState) uint64 {
	h := uint64(1469598103934665603)
	prec := []int{3, 2, 2, 3, 3, 3}
	for _, s := range ss {
		h = h*31 + 7
		for k, v := range s.Variables {
			h = h*1000003 + uint64(int64(math.Round(v*math.Pow10(prec[k]))))
		}
		h = h*17 + 3
		for _, b := range stateBits(s) {
			if b {
				h = h*131 + 2
			} else {
				h = h*131 + 1
			}
		}
	}
	return h
}

type suppaRun struct {
	c       *Ctx
	ex      *suppapitnarm.Explorer
	cur     *catchment.Model
	pot     *catchment.Model
	cm      *CM // wraps cur for dumps / extraction
	potSrc  *scriptSource
	coolSrc *unitSource
	archSrc *scriptSource
	limVar  int
	limit   float64
	// reference return-to-base schedule (the property's own statement, computed independently)
	refCountdown uint64
	refStep      float64
	refMin       float64
	refFactor    float64
}

func relToCwd(p string) string {
	cwd, _ := os.Getwd()
	r, err := filepath.Rel(cwd, p)
	if err != nil {
		return p
	}
	return r
}

func flagsOf(m model.Model) []bool {
	as := m.ManagementActions()
	out := make([]bool, len(as))
	for i, a := range as {
		out[i] = a.IsActive()
	}
	return out
}

func totalsOf(m model.Model) [6]float64 {
	var t [6]float64
	for i := range varNames {
		t[i] = m.DecisionVariable(varNames[i]).Value()
	}
	return t
}

func suiteSuppaRuns(c *Ctx) {
	r := c.Rng
	type job struct {
		ds     string
		limVar int
		limit  float64
		kind   string
	}
	var jobs []job
	for _, ds := range shippedDatasets() {
		ref, err := newRef(ds, -1, 0)
		if err != nil {
			continue
		}
		for _, kind := range []string{"product", "averaged"} {
			for rep := 0; rep < c.N(1, 4); rep++ {
				jobs = append(jobs, job{ds, -1, 0, kind})
			}
			for v := 0; v < 6; v++ {
				for _, lim := range startLimitsFor(ref, r, v, c.N(1, 4)) {
					jobs = append(jobs, job{ds, v, lim, kind})
				}
			}
		}
	}
	for g := 0; g < c.N(3, 40); g++ {
		ds := genDataset(r.Fork(), filepath.Join(c.Out, "gen"), fmt.Sprintf("S%d_%d_", c.Shard, g))
		jobs = append(jobs, job{ds, -1, 0, []string{"product", "averaged"}[r.Intn(2)]})
		if ref, err := newRef(ds, -1, 0); err == nil && ref.cm.n() > 0 {
			v := r.Intn(6)
			for _, lim := range startLimitsFor(ref, r, v, 1) {
				jobs = append(jobs, job{ds, v, lim, []string{"product", "averaged"}[r.Intn(2)]})
			}
		}
	}
	iters := c.N(150, 1500)
	for ji, j := range jobs {
		if ji%c.Shards != c.Shard {
			continue
		}
		oneSuppaRun(c, r.Fork(), j.ds, j.limVar, j.limit, j.kind, iters)
	}
}

func oneSuppaRun(c *Ctx, r *Rng, ds string, limVar int, limit float64, kind string, iters int) {
	params := parameters.Map{"DataSourcePath": relToCwd(ds)}
	if limVar >= 0 {
		params[varMaxKey[limVar]] = limit
	}
	m := catchment.NewModel().WithParameters(params)
	if e := m.ParameterErrors(); e != nil {
		c.Stat("suppa model rejected: " + clip(e.Error(), 60))
		return
	}
	var coolant cooling.TemperatureCoolant
	if kind == "averaged" {
		coolant = averaged.NewCoolant()
	} else {
		coolant = coolsup.NewCoolant()
	}
	// explorer parameters: temperatures such that undesirable candidates are sometimes accepted
	t0 := []float64{0.001, 0.05, 1, 10, 1000, 1e6}[r.Intn(6)]
	cf := []float64{1, 0.999, 0.95, 0.5}[r.Intn(4)]
	initialStep := int64(1 + r.Intn(50))
	if r.Chance(0.2) {
		initialStep = 1
	}
	minRate := int64(1 + r.Intn(10))
	rtbFactor := []float64{0, 0.5, 0.9, 0.95, 1}[r.Intn(5)]
	exParams := parameters.Map{
		"StartingTemperature": t0, "CoolingFactor": cf,
		"InitialReturnToBaseStep": initialStep, "MinimumReturnToBaseRate": minRate, "ReturnToBaseAdjustmentFactor": rtbFactor,
	}
	ex := suppapitnarm.New().WithCoolant(coolant)
	ex.SetLogHandler(loggers.NewNullLogger())
	var initPanic string
	initPanic = protect(func() {
		ex.SetModel(m)
		if e := ex.SetParameters(exParams); e != nil {
			panic("explorer parameters rejected: " + e.Error())
		}
		ex.Initialise()
	})
	if initPanic != "" {
		// e.g. the deliberate "Attempt limit reached" panic when the limit never binds (C19/D18): not this suite's concern
		c.Stat("suppa run not started: " + clip(initPanic, 50))
		return
	}
	cur := ex.Model().(*catchment.Model)
	pot := ex.VerifPotentialModel().(*catchment.Model)
	run := &suppaRun{c: c, ex: ex, cur: cur, pot: pot, limVar: limVar, limit: limit,
		refCountdown: uint64(float64(initialStep)), refStep: float64(initialStep), refMin: float64(minRate), refFactor: rtbFactor}
	run.cm = &CM{m: &cur.CoreModel, limVar: limVar, limit: limit}
	for _, p := range cur.PlanningUnits() {
		run.cm.pus = append(run.cm.pus, p)
	}
	sortPUs(run.cm.pus)
	if run.cm.n() == 0 {
		return
	}
	// scripted sources, installed after Initialise() (which re-seeds from the clock)
	n := run.cm.n()
	run.potSrc = &scriptSource{next: func() int { return 0 }}
	pot.VerifSetActionRand(crand.New(run.potSrc))
	run.coolSrc = &unitSource{next: func() uint64 { return r.U64() }}
	ex.VerifCoolant().SetRandomNumberGenerator(crand.New(run.coolSrc))
	run.archSrc = &scriptSource{next: func() int { return 0 }}
	ex.VerifArchive().SetRandomNumberGenerator(crand.New(run.archSrc))

	// protocol: dataset + extracted data + start line
	dl := datasetLine(ds)
	c.Op(dl, "ok")
	// the extraction must come from an as-is model: use a separate instance
	asis, err := loadCM(ds, limVar, limit)
	if err != nil {
		return
	}
	asis.emitLoad(c)
	curBits, potBits := flagsOf(cur), flagsOf(pot)
	startLine := fmt.Sprintf("start %s %s %s %d %s %d %s %s", kind, floatBits(t0), floatBits(cf), minRate, floatBits(rtbFactor), initialStep,
		strings.ReplaceAll(bitsStr(curBits), "-", ""), strings.ReplaceAll(bitsStr(potBits), "-", ""))
	c.Op(startLine, "ok "+run.stateStr())
	c.Stat(fmt.Sprintf("suppa run kind=%s limit=%s n=%d", kind, limName(limVar), n))

	// C03: after the initial randomisation the limited variable is within its limit
	if limVar >= 0 && totalsOf(cur)[limVar] > limit {
		c.Fail("C03:initial-state-respects-limit", "suppa:initial-state-exceeds-limit", fmt.Sprintf("%s = %v > %v after Initialise()", varNames[limVar], totalsOf(cur)[limVar], limit), nil)
	}

	for it := 0; it < iters; it++ {
		if !run.iterate(r, n) {
			break
		}
	}
	run.finalChecks(ds)
}

func sortPUs(p []planningunit.Id) {
	for i := 1; i < len(p); i++ {
		for j := i; j > 0 && p[j] < p[j-1]; j-- {
			p[j], p[j-1] = p[j-1], p[j]
		}
	}
}

func (run *suppaRun) stateStr() string {
	ex := run.ex
	t := totalsOf(run.cur)
	var sb strings.Builder
	fmt.Fprintf(&sb, "cd=%d last=%d it=%d cur=%s", ex.VerifCountdown(), ex.VerifLastReturnedToBase(), ex.VerifCurrentIteration(), strings.ReplaceAll(bitsStr(flagsOf(run.cur)), "-", ""))
	for i := range varNames {
		sb.WriteByte(' ')
		sb.WriteString(gridFmt(t[i], varPrec[i]))
	}
	a := ex.VerifArchive().Archive()
	fmt.Fprintf(&sb, " arch=%d %d", len(a), hashStates(a))
	return sb.String()
}

func (run *suppaRun) iterate(r *Rng, n int) bool {
	c, ex := run.c, run.ex
	comp := marchive.ModelCompressor{}
	before := comp.Compress(run.cur)
	archBefore := append([]*marchive.CompressedModelState(nil), ex.VerifArchive().Archive()...)
	// scripted choices for this iteration
	run.potSrc.log = nil
	if run.limVar >= 0 {
		run.potSrc.next = func() int { return r.Intn(n) }
	} else {
		run.potSrc.next = func() int { return r.Intn(2) }
	}
	// the uniform draw: mostly random, sometimes extreme
	uNum := r.U64() & (1<<53 - 1)
	switch r.Intn(8) {
	case 0:
		uNum = 0
	case 1:
		uNum = 1<<53 - 1
	}
	run.coolSrc.log = nil
	run.coolSrc.next = func() uint64 { return uNum }
	pick := r.Intn(1 << 16)
	run.archSrc.log = nil
	run.archSrc.next = func() int {
		l := len(ex.VerifArchive().Archive())
		if l == 0 {
			return 0
		}
		return pick % l
	}
	iterNo := ex.VerifCurrentIteration()
	cdBefore := ex.VerifCountdown()
	if p := protect(func() { ex.TryRandomChange() }); p != "" {
		if strings.Contains(p, "Attempt limit reached") {
			c.Stat("suppa run ended: attempt-limit panic inside Randomize (limit never binds)")
			return false
		}
		c.Op("iter-panicked", "panic")
		c.Fail("no-panic", "suppa:iteration-panic", p, nil)
		return false
	}
	cand := comp.Compress(run.pot)
	diffs := cand.VariableDifferences(before)
	res := ex.VerifArchiveResult()
	// the archive verdict on the candidate is overwritten by a forced store; recover it
	moved := ex.VerifChangeAccepted()
	desirable := ex.VerifChangeIsDesirable()
	forced := res == marchive.StoredForcingDominatingStateRemoval
	resCodeStr := resCode(res)
	if forced {
		resCodeStr = "RD"
	}
	returned := ex.VerifLastReturnedToBase() == iterNo
	// schedule: first after the initial number of iterations, then at intervals max(minimum, step*factor)
	run.refCountdown--
	wantReturn := run.refCountdown == 0
	if wantReturn {
		run.refStep = math.Max(run.refMin, run.refStep*run.refFactor)
		run.refCountdown = uint64(run.refStep)
	}
	if wantReturn != returned {
		c.Fail("C06:return-to-base-schedule", "suppa:return-to-base-schedule-wrong", fmt.Sprintf("iteration %d: return-to-base expected=%v happened=%v (initial step/min/factor give countdown %d next)", iterNo, wantReturn, returned, run.refCountdown), nil)
	}
	probStr := "-"
	if !desirable {
		probStr = approxFmt(ex.VerifCoolant().AcceptanceProbability())
	}
	pickEff := 0
	if len(run.archSrc.log) > 0 {
		pickEff = run.archSrc.log[0]
	}
	var sb strings.Builder
	fmt.Fprintf(&sb, "iter %s %d %d", floatBits(unitOf(uNum)), pickEff, len(diffs))
	for _, d := range diffs {
		sb.WriteByte(' ')
		sb.WriteString(floatBits(d))
	}
	for _, d := range run.potSrc.log {
		sb.WriteByte(' ')
		sb.WriteString(strconv.Itoa(d))
	}
	c.Op(sb.String(), fmt.Sprintf("%s %s %s %s %s %s %s", resCodeStr, b2s(desirable), b2s(moved), b2s(forced), b2s(returned), probStr, run.stateStr()))

	// ---- direct evaluation of C06 / C05 / C03 on the implementation
	u := unitOf(uNum)
	// step rule
	if desirable != (resCodeStr == "SN" || resCodeStr == "SR" || resCodeStr == "RU") {
		c.Fail("C06:desirability-follows-archive-verdict", "suppa:desirability-wrong", fmt.Sprintf("archive verdict %s but desirable=%v", resCodeStr, desirable), nil)
	}
	if desirable && !moved {
		c.Fail("C06:desirable-moves", "suppa:desirable-not-moved", "candidate stored / already held but the explorer did not move to it", nil)
	}
	if !desirable {
		p := 1.0
		if _, isAvg := ex.VerifCoolant().(*averaged.Coolant); isAvg {
			p = 0
			for _, d := range diffs {
				p += math.Exp(-math.Abs(d) / temperatureBefore(ex))
			}
			p /= float64(len(diffs))
		} else {
			for _, d := range diffs {
				p *= math.Exp(-math.Abs(d) / temperatureBefore(ex))
			}
		}
		if math.Abs(p-u) > 1e-9 && moved != (p > u) {
			c.Fail("C06:undesirable-iff-probability-exceeds-draw", "suppa:metropolis-rule-wrong", fmt.Sprintf("p=%v u=%v moved=%v diffs=%v", p, u, moved, diffs), nil)
		}
		if moved != forced {
			c.Fail("C06:accepted-undesirable-is-forced", "suppa:accepted-not-forced", fmt.Sprintf("moved=%v forced=%v", moved, forced), nil)
		}
		if len(run.coolSrc.log) != 1 {
			c.Fail("harness:uniform-draws", "suppa:unexpected-uniform-draw-count", fmt.Sprint(len(run.coolSrc.log)), nil)
		}
	}
	// C05: the explorer only forces candidates the archive has just refused as dominated; invariants at every iteration
	archNow := ex.VerifArchive().Archive()
	for i, a := range archNow {
		for j, b := range archNow {
			if i != j && refDominates([]float64(a.Variables), []float64(b.Variables)) {
				c.Fail("C05:archive-non-dominated", "suppa:live-archive-member-dominated", fmt.Sprintf("iteration %d: member %d dominates member %d", iterNo, i, j), nil)
			}
			if i < j && a.Actions.IsEquivalentTo(&b.Actions) {
				c.Fail("C05:archive-no-duplicates", "suppa:live-archive-duplicate", fmt.Sprintf("iteration %d: members %d and %d share an action set", iterNo, i, j), nil)
			}
		}
	}
	_ = archBefore
	// current solution: the candidate if moved, unchanged otherwise (before any return-to-base)
	curEnc := bitsStr(flagsOf(run.cur))
	if !returned {
		want := bitsStr(stateBits(before))
		if moved {
			want = bitsStr(stateBits(cand))
		}
		if curEnc != want {
			c.Fail("C06:current-is-candidate-or-unchanged", "suppa:current-solution-wrong", fmt.Sprintf("moved=%v current=%s want=%s", moved, curEnc, want), nil)
		}
	} else {
		member := false
		for _, a := range archNow {
			if bitsStr(stateBits(a)) == curEnc {
				member = true
			}
		}
		if !member {
			c.Fail("C06:return-to-base-is-archive-member", "suppa:return-to-base-not-member", curEnc, nil)
		}
		c.Stat(fmt.Sprintf("suppa return-to-base countdown-before=%d", bucket(int(cdBefore))))
	}
	// C03: the held state and every archive member respect the limit
	if run.limVar >= 0 {
		if totalsOf(run.cur)[run.limVar] > run.limit {
			c.Fail("C03:held-state-respects-limit", "suppa:current-exceeds-limit", fmt.Sprintf("iteration %d: %s = %v > %v", iterNo, varNames[run.limVar], totalsOf(run.cur)[run.limVar], run.limit), nil)
		}
		li := 0
		for k, vi := range sortedVarIdx {
			if vi == run.limVar {
				li = k
			}
		}
		for _, a := range archNow {
			if a.Variables[li] > run.limit {
				c.Fail("C03:archived-state-respects-limit", "suppa:archive-member-exceeds-limit", fmt.Sprintf("iteration %d: %v > %v", iterNo, a.Variables[li], run.limit), nil)
			}
		}
	}
	c.Stat(fmt.Sprintf("suppa iter res=%s moved=%v returned=%v", resCodeStr, moved, returned))
	c.Nontrivial(fmt.Sprintf("%s|%s|%v|%v|%d", curEnc, resCodeStr, moved, returned, len(archNow)))

	// CoolDown as the annealer does, compared bit-exactly
	ex.CoolDown()
	c.Op("cool", floatBits(ex.VerifCoolant().Temperature()))
	return true
}

// temperatureBefore: the temperature used by the decision of the iteration just executed (CoolDown not yet applied).
func temperatureBefore(ex *suppapitnarm.Explorer) float64 { return ex.VerifCoolant().Temperature() }

// finalChecks: each reported member's objective values are those of the model evaluated at that member's action set.
func (run *suppaRun) finalChecks(ds string) {
	ref, err := newRef(ds, -1, 0)
	if err != nil {
		return
	}
	for _, a := range run.ex.VerifArchive().Archive() {
		s := ref.at(stateBits(a))
		for k, vi := range sortedVarIdx {
			if !near(a.Variables[k], s.totals[vi]) {
				run.c.Fail("C05:member-values-are-model-values", "suppa:archive-member-values-stale",
					fmt.Sprintf("member %s reports %s = %v but a fresh model at that action set gives %v", bitsStr(stateBits(a)), varNames[vi], a.Variables[k], s.totals[vi]), nil)
			}
		}
	}
	run.c.Stat(fmt.Sprintf("suppa final archive size bucket=%d", bucket(len(run.ex.VerifArchive().Archive()))))
}
