//go:build verif

package main

import (
	"fmt"
	"math"
	"os"
	"path/filepath"
	"strconv"
	"strings"

	"github.com/LindsayBradford/crem/internal/pkg/annealing/cooling"
	"github.com/LindsayBradford/crem/internal/pkg/annealing/cooling/coolants/averaged"
	coolsup "github.com/LindsayBradford/crem/internal/pkg/annealing/cooling/coolants/suppapitnarm"
	"github.com/LindsayBradford/crem/internal/pkg/annealing/explorer/suppapitnarm"
	"github.com/LindsayBradford/crem/internal/pkg/model"
	marchive "github.com/LindsayBradford/crem/internal/pkg/model/archive"
	"github.com/LindsayBradford/crem/internal/pkg/model/models/catchment"
	"github.com/LindsayBradford/crem/internal/pkg/model/planningunit"
	"github.com/LindsayBradford/crem/internal/pkg/observer"
	"github.com/LindsayBradford/crem/internal/pkg/parameters"
	crand "github.com/LindsayBradford/crem/internal/pkg/rand"
	"github.com/LindsayBradford/crem/pkg/logging/loggers"
)

func init() { register("suppa-runs", suiteSuppaRuns) }

// unitSource scripts Float64Unitary(): Int63n(2^53) = Int63() & (2^53-1); u = that / (2^53-1).
type unitSource struct {
	next func() uint64 // 53-bit numerators
	log  []uint64
}

func (s *unitSource) Int63() int64 {
	v := s.next() & (1<<53 - 1)
	s.log = append(s.log, v)
	return int64(v)
}
func (s *unitSource) Seed(int64) {}

func unitOf(v uint64) float64 { return float64(int64(v)) / float64(int64(1)<<53-1) }

// suppaEvent is one explorer event, copied at notification time.
type suppaEvent struct {
	note      string
	hasRes    bool
	res       string // ArchiveStorageResult (StorageResult.String())
	hasDes    bool
	desirable bool
	hasBase   bool
	base      string // New Base Model Encoding
}

// suppaRecorder records the explorer's own event stream: the archive verdict on the candidate
// (changeTriedIsDesirable), the forced store (AcceptUndesirableChange), the accept/revert notification and
// the return-to-base, as the explorer REPORTS them (the accessors only show the state afterwards).
type suppaRecorder struct{ events []suppaEvent }

func (r *suppaRecorder) ObserveEvent(e observer.Event) {
	if e.EventType != observer.Explorer {
		return
	}
	ev := suppaEvent{}
	for _, a := range e.AllAttributes() {
		switch a.Name {
		case "Note":
			ev.note, _ = a.Value.(string)
		case "ArchiveStorageResult":
			ev.res, ev.hasRes = a.Value.(string)
		case "ChangeDesirable":
			ev.desirable, ev.hasDes = a.Value.(bool)
		case "New Base Model Encoding":
			ev.base, ev.hasBase = a.Value.(string)
		}
	}
	r.events = append(r.events, ev)
}

func resCodeOfText(t string) string {
	for _, r := range []marchive.StorageResult{marchive.StoredReplacingDominatedEntries, marchive.StoredWithNoDominanceDetected,
		marchive.RejectedWithStoredEntryDominanceDetected, marchive.RejectedWithDuplicateEntryDetected, marchive.StoredForcingDominatingStateRemoval} {
		if r.String() == t {
			return resCode(r)
		}
	}
	return "?" + t
}

// iterationReport is what the event stream of one TryRandomChange says happened.
type iterationReport struct {
	verdict     string // archive verdict on the candidate, "" when not reported
	verdictDes  bool
	forcedEvent bool   // "Forcing Model into Archive" reported
	forcedRes   string // its ArchiveStorageResult
	decision    string // desirable | undesirable-accepted | undesirable-reverted | ""
	decisions   int
	returned    bool
	base        string
}

func readIteration(events []suppaEvent) iterationReport {
	var rep iterationReport
	for _, e := range events {
		switch {
		case e.hasRes && e.hasDes:
			rep.verdict, rep.verdictDes = resCodeOfText(e.res), e.desirable
		case e.note == "Forcing Model into Archive":
			rep.forcedEvent, rep.forcedRes = true, resCodeOfText(e.res)
		case e.note == "Accepting Desirable Change":
			rep.decision = "desirable"
			rep.decisions++
		case e.note == "Accepting Undesirable Change":
			rep.decision = "undesirable-accepted"
			rep.decisions++
		case e.note == "Reverting Undesirable Change":
			rep.decision = "undesirable-reverted"
			rep.decisions++
		case e.note == "Returning to Base":
			rep.returned, rep.base = true, e.base
		}
	}
	return rep
}

// checkIterationReport: the event stream against the state the accessors show (C05: a forced store only ever
// follows a refusal-as-dominated of the same candidate; C06: what is reported is what happened).
func checkIterationReport(c *Ctx, rep iterationReport, accessorRes marchive.StorageResult, desirable, moved, returned bool, curEncoding string, iterNo uint64) (verdict string, forced bool) {
	forced = accessorRes == marchive.StoredForcingDominatingStateRemoval
	verdict = rep.verdict
	if verdict == "" {
		c.Fail("C06:verdict-reported", "suppa:archive-verdict-not-reported", fmt.Sprintf("iteration %d: no ArchiveStorageResult/ChangeDesirable event", iterNo), nil)
		verdict = resCode(accessorRes)
	}
	if !forced && verdict != resCode(accessorRes) {
		c.Fail("C06:verdict-reported", "suppa:reported-verdict-differs", fmt.Sprintf("iteration %d: event stream says %s, explorer state says %s", iterNo, verdict, resCode(accessorRes)), nil)
	}
	if rep.verdictDes != desirable {
		c.Fail("C06:verdict-reported", "suppa:reported-desirability-differs", fmt.Sprintf("iteration %d: event says desirable=%v, state says %v", iterNo, rep.verdictDes, desirable), nil)
	}
	if forced != rep.forcedEvent || (rep.forcedEvent && rep.forcedRes != "F") {
		c.Fail("C05:forced-store-reported", "suppa:forced-store-report-differs", fmt.Sprintf("iteration %d: forced=%v, event=%v (%s)", iterNo, forced, rep.forcedEvent, rep.forcedRes), nil)
	}
	if forced && verdict != "RD" {
		c.Fail("C05:force-only-after-dominated-refusal", "suppa:forced-without-dominated-refusal", fmt.Sprintf("iteration %d: the archive's verdict on the candidate was %s, yet it was forced", iterNo, verdict), nil)
	}
	want := "undesirable-reverted"
	if desirable {
		want = "desirable"
	} else if moved {
		want = "undesirable-accepted"
	}
	if rep.decision != want || rep.decisions != 1 {
		c.Fail("C06:decision-reported", "suppa:reported-decision-differs", fmt.Sprintf("iteration %d: %d decision events, last %q, want %q", iterNo, rep.decisions, rep.decision, want), nil)
	}
	if rep.returned != returned {
		c.Fail("C06:return-to-base-reported", "suppa:return-to-base-report-differs", fmt.Sprintf("iteration %d: event=%v state=%v", iterNo, rep.returned, returned), nil)
	}
	if rep.returned && rep.base != curEncoding {
		c.Fail("C06:return-to-base-reported", "suppa:return-to-base-encoding-differs", fmt.Sprintf("iteration %d: reported base %s, current model encodes to %s", iterNo, rep.base, curEncoding), nil)
	}
	return verdict, forced
}

// aimedDraw: a 53-bit numerator whose u = v/(2^53-1) sits just outside the 1e-9 band around p
// (relative offsets 1e-8 .. 1e-3 either side), so that the comparison `p > u` is decided close to its boundary.
func aimedDraw(r *Rng, p float64) (uint64, bool) {
	if !(p > 0 && p <= 1) {
		return 0, false
	}
	off := math.Pow10(-(3 + r.Intn(6)))
	if r.Bool() {
		off = -off
	}
	t := p * (1 + off)
	if t < 0 || t > 1 {
		return 0, false
	}
	return uint64(math.Round(t * float64(int64(1)<<53-1))), true
}

// independentProbability recomputes the acceptance probability from the changes (the property's formula).
func independentProbability(averagedKind bool, diffs []float64, T float64) float64 {
	if averagedKind {
		p := 0.0
		for _, d := range diffs {
			p += math.Exp(-math.Abs(d) / T)
		}
		return p / float64(len(diffs))
	}
	p := 1.0
	for _, d := range diffs {
		p *= math.Exp(-math.Abs(d) / T)
	}
	return p
}

// checkMetropolis: "moves exactly when the acceptance probability (product / mean of exp(-|change_i|/T)) exceeds the draw".
// p is recomputed independently from the changes.  Outside the 1e-9 (relative) band around p the rule is evaluated on
// that p; the probability the coolant holds must be that p (relative 1e-12: same operations in the same order), and
// then the rule is also evaluated EXACTLY on it (no band).  One signature: all three are the same clause.
func checkMetropolis(c *Ctx, averagedKind bool, diffs []float64, T, pHeld, u float64, moved bool) {
	p := independentProbability(averagedKind, diffs, T)
	if math.Abs(p-u) > 1e-9*math.Max(p, u) && moved != (p > u) {
		c.Fail("C06:undesirable-iff-probability-exceeds-draw", "suppa:metropolis-rule-wrong", fmt.Sprintf("p=%v u=%v moved=%v diffs=%v T=%v", p, u, moved, diffs, T), nil)
		return
	}
	if !(math.Abs(p-pHeld) <= 1e-12*math.Max(math.Abs(p), math.Abs(pHeld))) && !(math.IsNaN(p) && math.IsNaN(pHeld)) {
		c.Fail("C06:undesirable-iff-probability-exceeds-draw", "suppa:metropolis-rule-wrong", fmt.Sprintf("the coolant decided with p=%v, the formula gives p=%v (u=%v moved=%v diffs=%v T=%v)", pHeld, p, u, moved, diffs, T), nil)
		return
	}
	if moved != (pHeld > u) {
		c.Fail("C06:undesirable-iff-probability-exceeds-draw", "suppa:metropolis-rule-wrong", fmt.Sprintf("exactly: p=%v u=%v moved=%v diffs=%v T=%v", pHeld, u, moved, diffs, T), nil)
	}
	if p < 0 || p > 1 {
		c.Fail("C06:probability-in-unit-interval", "suppa:probability-out-of-range", fmt.Sprintf("p=%v diffs=%v T=%v", p, diffs, T), nil)
	}
}

func diffsStr(diffs []float64) string {
	var sb strings.Builder
	sb.WriteString(strconv.Itoa(len(diffs)))
	for _, d := range diffs {
		sb.WriteByte(' ')
		sb.WriteString(approxFmt(d))
	}
	return sb.String()
}

// sorted variable names -> (our index, precision): DissolvedNitrogen, ImplementationCost, OpportunityCost,
// ParticulateNitrogen, SedimentProduction, TotalNitrogen
var sortedVarIdx = []int{2, 4, 5, 1, 0, 3}

func scaledKeys(totals [6]float64) []int64 {
	out := make([]int64, 6)
	for k, vi := range sortedVarIdx {
		out[k] = int64(math.Round(totals[vi] * math.Pow10(varPrec[vi])))
	}
	return out
}

func hashStates(ss []*marchive.CompressedModelState) uint64 {
	h := uint64(1469598103934665603)
	prec := []int{3, 2, 2, 3, 3, 3}
	for _, s := range ss {
		h = h*31 + 7
		for k, v := range s.Variables {
			h = h*1000003 + uint64(int64(math.Round(v*math.Pow10(prec[k]))))
		}
		h = h*17 + 3
		for _, b := range stateBits(s) {
			if b {
				h = h*131 + 2
			} else {
				h = h*131 + 1
			}
		}
	}
	return h
}

type suppaRun struct {
	c       *Ctx
	ex      *suppapitnarm.Explorer
	cur     *catchment.Model
	pot     *catchment.Model
	cm      *CM // wraps cur for dumps / extraction
	potSrc  *scriptSource
	coolSrc *unitSource
	archSrc *scriptSource
	rec     *suppaRecorder
	limVar  int
	limit   float64
	// reference return-to-base schedule (the property's own statement, computed independently)
	refCountdown uint64
	refStep      float64
	refMin       float64
	refFactor    float64
}

func relToCwd(p string) string {
	cwd, _ := os.Getwd()
	r, err := filepath.Rel(cwd, p)
	if err != nil {
		return p
	}
	return r
}

func flagsOf(m model.Model) []bool {
	as := m.ManagementActions()
	out := make([]bool, len(as))
	for i, a := range as {
		out[i] = a.IsActive()
	}
	return out
}

func totalsOf(m model.Model) [6]float64 {
	var t [6]float64
	for i := range varNames {
		t[i] = m.DecisionVariable(varNames[i]).Value()
	}
	return t
}

func suiteSuppaRuns(c *Ctx) {
	r := c.Rng
	type job struct {
		ds     string
		limVar int
		limit  float64
		kind   string
	}
	var jobs []job
	for _, ds := range shippedDatasets() {
		ref, err := newRef(ds, -1, 0)
		if err != nil {
			continue
		}
		for _, kind := range []string{"product", "averaged"} {
			for rep := 0; rep < c.N(1, 4); rep++ {
				jobs = append(jobs, job{ds, -1, 0, kind})
			}
			for v := 0; v < 6; v++ {
				for _, lim := range startLimitsFor(ref, r, v, c.N(1, 4)) {
					jobs = append(jobs, job{ds, v, lim, kind})
				}
			}
		}
	}
	for g := 0; g < c.N(3, 40); g++ {
		// the first generated dataset carries exact half-cent costs (seed C05k): the archived objective values of a member
		// reached by an on/off/on history must still be those of a fresh model at that action set (judged Go against Go)
		genExactCostTies, genForceTies = g == 0, g == 0
		ds := genDataset(r.Fork(), filepath.Join(c.Out, "gen"), fmt.Sprintf("S%d_%d_", c.Shard, g))
		genExactCostTies, genForceTies = false, false
		jobs = append(jobs, job{ds, -1, 0, []string{"product", "averaged"}[r.Intn(2)]})
		if ref, err := newRef(ds, -1, 0); err == nil && ref.cm.n() > 0 {
			v := r.Intn(6)
			for _, lim := range startLimitsFor(ref, r, v, 1) {
				jobs = append(jobs, job{ds, v, lim, []string{"product", "averaged"}[r.Intn(2)]})
			}
		}
	}
	iters := c.N(150, 1500)
	for ji, j := range jobs {
		if ji%c.Shards != c.Shard {
			continue
		}
		oneSuppaRun(c, r.Fork(), j.ds, j.limVar, j.limit, j.kind, iters)
	}
}

func oneSuppaRun(c *Ctx, r *Rng, ds string, limVar int, limit float64, kind string, iters int) {
	params := parameters.Map{"DataSourcePath": relToCwd(ds)}
	if limVar >= 0 {
		params[varMaxKey[limVar]] = limit
	}
	m := catchment.NewModel().WithParameters(params)
	if e := m.ParameterErrors(); e != nil {
		c.Stat("suppa model rejected: " + clip(e.Error(), 60))
		return
	}
	var coolant cooling.TemperatureCoolant
	if kind == "averaged" {
		coolant = averaged.NewCoolant()
	} else {
		coolant = coolsup.NewCoolant()
	}
	// explorer parameters: temperatures such that undesirable candidates are sometimes accepted
	t0 := []float64{0.001, 0.05, 1, 10, 1000, 1e6, 1e8}[r.Intn(7)]
	cf := []float64{1, 0.999, 0.95, 0.5}[r.Intn(4)]
	initialStep := int64(1 + r.Intn(50))
	if r.Chance(0.2) {
		initialStep = 1
	} else if r.Chance(0.1) {
		initialStep = int64(51 + r.Intn(iters-50)) // a late first return (still inside the run)
	}
	minRate := int64(1 + r.Intn(10))
	rtbFactor := []float64{0, 0.5, 0.9, 0.95, 1}[r.Intn(5)]
	checkND := r.Bool() // the explorer's own per-iteration self-check (panics when it fails): never fires (C05 inv_passes_selfcheck)
	exParams := parameters.Map{
		"StartingTemperature": t0, "CoolingFactor": cf,
		"InitialReturnToBaseStep": initialStep, "MinimumReturnToBaseRate": minRate, "ReturnToBaseAdjustmentFactor": rtbFactor,
		"CheckNonDominance": checkND,
	}
	ex := suppapitnarm.New().WithCoolant(coolant)
	ex.SetLogHandler(loggers.NewNullLogger())
	rec := &suppaRecorder{}
	ex.AddObserverAsFirst(rec)
	var initPanic string
	initPanic = protect(func() {
		ex.SetModel(m)
		if e := ex.SetParameters(exParams); e != nil {
			panic("explorer parameters rejected: " + e.Error())
		}
		ex.Initialise()
	})
	if initPanic != "" {
		// e.g. the deliberate "Attempt limit reached" panic when the limit never binds (C19/D18): not this suite's concern
		c.Stat("suppa run not started: " + clip(initPanic, 50))
		return
	}
	cur := ex.Model().(*catchment.Model)
	pot := ex.VerifPotentialModel().(*catchment.Model)
	run := &suppaRun{c: c, ex: ex, cur: cur, pot: pot, rec: rec, limVar: limVar, limit: limit,
		refCountdown: uint64(float64(initialStep)), refStep: float64(initialStep), refMin: float64(minRate), refFactor: rtbFactor}
	run.cm = &CM{m: &cur.CoreModel, limVar: limVar, limit: limit}
	for _, p := range cur.PlanningUnits() {
		run.cm.pus = append(run.cm.pus, p)
	}
	sortPUs(run.cm.pus)
	if run.cm.n() == 0 {
		return
	}
	// scripted sources, installed after Initialise() (which re-seeds from the clock)
	n := run.cm.n()
	run.potSrc = &scriptSource{next: func() int { return 0 }}
	pot.VerifSetActionRand(crand.New(run.potSrc))
	run.coolSrc = &unitSource{next: func() uint64 { return r.U64() }}
	ex.VerifCoolant().SetRandomNumberGenerator(crand.New(run.coolSrc))
	run.archSrc = &scriptSource{next: func() int { return 0 }}
	ex.VerifArchive().SetRandomNumberGenerator(crand.New(run.archSrc))

	// protocol: dataset + extracted data + start line
	dl := datasetLine(ds)
	c.Op(dl, "ok")
	// the extraction must come from an as-is model: use a separate instance
	asis, err := loadCM(ds, limVar, limit)
	if err != nil {
		return
	}
	asis.emitLoad(c)
	curBits, potBits := flagsOf(cur), flagsOf(pot)
	startLine := fmt.Sprintf("start %s %s %s %d %s %d %s %s", kind, floatBits(t0), floatBits(cf), minRate, floatBits(rtbFactor), initialStep,
		strings.ReplaceAll(bitsStr(curBits), "-", ""), strings.ReplaceAll(bitsStr(potBits), "-", ""))
	if checkND {
		startLine += " cnd"
	}
	c.Op(startLine, "ok "+run.stateStr())
	c.Stat(fmt.Sprintf("suppa run kind=%s limit=%s n=%d", kind, limName(limVar), n))
	c.Stat(fmt.Sprintf("suppa run CheckNonDominance=%v", checkND))

	// C03: after the initial randomisation the limited variable is within its limit
	if limVar >= 0 && totalsOf(cur)[limVar] > limit {
		c.Fail("C03:initial-state-respects-limit", "suppa:initial-state-exceeds-limit", fmt.Sprintf("%s = %v > %v after Initialise()", varNames[limVar], totalsOf(cur)[limVar], limit), nil)
	}

	for it := 0; it < iters; it++ {
		if !run.iterate(r, n) {
			break
		}
	}
	run.finalChecks(ds)
}

func sortPUs(p []planningunit.Id) {
	for i := 1; i < len(p); i++ {
		for j := i; j > 0 && p[j] < p[j-1]; j-- {
			p[j], p[j-1] = p[j-1], p[j]
		}
	}
}

func (run *suppaRun) stateStr() string {
	ex := run.ex
	t := totalsOf(run.cur)
	var sb strings.Builder
	fmt.Fprintf(&sb, "cd=%d last=%d it=%d cur=%s", ex.VerifCountdown(), ex.VerifLastReturnedToBase(), ex.VerifCurrentIteration(), strings.ReplaceAll(bitsStr(flagsOf(run.cur)), "-", ""))
	for i := range varNames {
		sb.WriteByte(' ')
		sb.WriteString(gridFmt(t[i], varPrec[i]))
	}
	a := ex.VerifArchive().Archive()
	fmt.Fprintf(&sb, " arch=%d %d", len(a), hashStates(a))
	return sb.String()
}

func (run *suppaRun) iterate(r *Rng, n int) bool {
	c, ex := run.c, run.ex
	comp := marchive.ModelCompressor{}
	before := comp.Compress(run.cur)
	archBefore := append([]*marchive.CompressedModelState(nil), ex.VerifArchive().Archive()...)
	// scripted choices for this iteration
	run.potSrc.log = nil
	if run.limVar >= 0 {
		run.potSrc.next = func() int { return r.Intn(n) }
	} else {
		run.potSrc.next = func() int { return r.Intn(2) }
	}
	// the uniform draw: mostly random, sometimes extreme
	uNum := r.U64() & (1<<53 - 1)
	switch r.Intn(8) {
	case 0:
		uNum = 0
	case 1:
		uNum = 1<<53 - 1
	}
	aim := r.Intn(4) == 0
	aimed := false
	run.coolSrc.log = nil
	run.coolSrc.next = func() uint64 {
		// the coolant has computed its probability by the time it draws: aim the draw just outside the 1e-9 band around it
		if aim {
			if v, ok := aimedDraw(r, ex.VerifCoolant().AcceptanceProbability()); ok {
				uNum, aimed = v, true
			}
		}
		return uNum
	}
	pick := r.Intn(1 << 16)
	run.archSrc.log = nil
	run.archSrc.next = func() int {
		l := len(ex.VerifArchive().Archive())
		if l == 0 {
			return 0
		}
		return pick % l
	}
	iterNo := ex.VerifCurrentIteration()
	cdBefore := ex.VerifCountdown()
	run.rec.events = nil
	if p := protect(func() { ex.TryRandomChange() }); p != "" {
		if isGiveUp(p) {
			c.Stat("suppa run ended: attempt-limit panic inside Randomize (limit never binds)")
			return false
		}
		if strings.Contains(p, "scripted random source: more than") {
			// the candidate's Randomize() spins (DESIGN 10.7): its limit-seeking loop has toggled every action it could, none
			// was invalid, attempts remain, and every further pick is `continue`d.  Needs non-monotone data (generated
			// adverse datasets: negative costs).  A hang of the optimised model's Randomize(), not a clause of C05/C06/C03:
			// the run ends here; counted and noted in the evidence.
			c.Stat("suppa run ended: the candidate's Randomize() spins (adverse data: every remaining toggle valid)")
			c.Note(fmt.Sprintf("Randomize() spins inside TryRandomChange at iteration %d (limit %s = %v, current set %s): crem would hang here", iterNo, limName(run.limVar), run.limit, bitsStr(flagsOf(run.cur))))
			return false
		}
		c.Op("iter-panicked", "panic")
		c.Fail("no-panic", "suppa:iteration-panic", p, nil)
		return false
	}
	cand := comp.Compress(run.pot)
	diffs := cand.VariableDifferences(before)
	res := ex.VerifArchiveResult()
	moved := ex.VerifChangeAccepted()
	desirable := ex.VerifChangeIsDesirable()
	returned := ex.VerifLastReturnedToBase() == iterNo
	// the archive verdict on the candidate is overwritten by a forced store: it is read off the explorer's own
	// event stream (and the stream is checked against the state)
	resCodeStr, forced := checkIterationReport(c, readIteration(run.rec.events), res, desirable, moved, returned, comp.Compress(run.cur).Encoding(), iterNo)
	// schedule: first after the initial number of iterations, then at intervals max(minimum, step*factor)
	run.refCountdown--
	wantReturn := run.refCountdown == 0
	if wantReturn {
		run.refStep = math.Max(run.refMin, run.refStep*run.refFactor)
		run.refCountdown = uint64(run.refStep)
	}
	if wantReturn != returned {
		c.Fail("C06:return-to-base-schedule", "suppa:return-to-base-schedule-wrong", fmt.Sprintf("iteration %d: return-to-base expected=%v happened=%v (initial step/min/factor give countdown %d next)", iterNo, wantReturn, returned, run.refCountdown), nil)
	}
	probStr := "-"
	if !desirable {
		probStr = approxFmt(ex.VerifCoolant().AcceptanceProbability())
	}
	pickEff := 0
	if len(run.archSrc.log) > 0 {
		pickEff = run.archSrc.log[0]
	}
	// the model receives the random choices only; the per-objective changes are compared, not given
	var sb strings.Builder
	fmt.Fprintf(&sb, "iter %s %d", floatBits(unitOf(uNum)), pickEff)
	for _, d := range run.potSrc.log {
		sb.WriteByte(' ')
		sb.WriteString(strconv.Itoa(d))
	}
	c.Op(sb.String(), fmt.Sprintf("%s %s %s %s %s %s %s %s", resCodeStr, b2s(desirable), b2s(moved), b2s(forced), b2s(returned), probStr, diffsStr(diffs), run.stateStr()))
	if len(diffs) != 6 {
		c.Fail("C06:change-per-objective", "suppa:changes-not-per-objective", fmt.Sprintf("%d changes for 6 objectives", len(diffs)), nil)
	}
	for k, vi := range sortedVarIdx {
		// change_i = candidate value - current value, over all objectives (independently of VariableDifferences)
		if k < len(diffs) && diffs[k] != cand.Variables[k]-before.Variables[k] {
			c.Fail("C06:change-per-objective", "suppa:change-not-candidate-minus-current", fmt.Sprintf("%s: %v != %v - %v", varNames[vi], diffs[k], cand.Variables[k], before.Variables[k]), nil)
		}
	}

	// ---- direct evaluation of C06 / C05 / C03 on the implementation
	u := unitOf(uNum)
	// step rule
	if desirable != (resCodeStr == "SN" || resCodeStr == "SR" || resCodeStr == "RU") {
		c.Fail("C06:desirability-follows-archive-verdict", "suppa:desirability-wrong", fmt.Sprintf("archive verdict %s but desirable=%v", resCodeStr, desirable), nil)
	}
	if desirable && !moved {
		c.Fail("C06:desirable-moves", "suppa:desirable-not-moved", "candidate stored / already held but the explorer did not move to it", nil)
	}
	if !desirable {
		_, isAvg := ex.VerifCoolant().(*averaged.Coolant)
		checkMetropolis(c, isAvg, diffs, temperatureBefore(ex), ex.VerifCoolant().AcceptanceProbability(), u, moved)
		if aimed {
			c.Stat(fmt.Sprintf("suppa draw aimed near p: moved=%v", moved))
		}
		if moved != forced {
			c.Fail("C06:accepted-undesirable-is-forced", "suppa:accepted-not-forced", fmt.Sprintf("moved=%v forced=%v", moved, forced), nil)
		}
		if len(run.coolSrc.log) != 1 {
			c.Fail("harness:uniform-draws", "suppa:unexpected-uniform-draw-count", fmt.Sprint(len(run.coolSrc.log)), nil)
		}
	}
	// C05: the explorer only forces candidates the archive has just refused as dominated; invariants at every iteration
	archNow := ex.VerifArchive().Archive()
	for i, a := range archNow {
		for j, b := range archNow {
			if i != j && refDominates([]float64(a.Variables), []float64(b.Variables)) {
				c.Fail("C05:archive-non-dominated", "suppa:live-archive-member-dominated", fmt.Sprintf("iteration %d: member %d dominates member %d", iterNo, i, j), nil)
			}
			if i < j && a.Actions.IsEquivalentTo(&b.Actions) {
				c.Fail("C05:archive-no-duplicates", "suppa:live-archive-duplicate", fmt.Sprintf("iteration %d: members %d and %d share an action set", iterNo, i, j), nil)
			}
		}
	}
	// "already holds its action set => moves with certainty": evaluated on the set's CONTENTS before the offer
	held := false
	for _, a := range archBefore {
		if bitsStr(stateBits(a)) == bitsStr(stateBits(cand)) {
			held = true
		}
	}
	if held && (!moved || forced || resCodeStr != "RU") {
		c.Fail("C06:held-action-set-moves", "suppa:held-action-set-not-certain", fmt.Sprintf("iteration %d: the set held the candidate's action set, verdict %s moved=%v forced=%v", iterNo, resCodeStr, moved, forced), nil)
	}
	if held {
		c.Stat("suppa candidate's action set already held")
	}
	// the forced store evicts exactly the members that dominate the candidate and appends it; a refusal leaves the set alone
	if forced {
		var want []*marchive.CompressedModelState
		for _, a := range archBefore {
			if !refDominates([]float64(a.Variables), []float64(cand.Variables)) {
				want = append(want, a)
			}
		}
		ok := len(archNow) == len(want)+1
		for k := 0; ok && k < len(want); k++ {
			ok = archNow[k] == want[k]
		}
		if !ok || bitsStr(stateBits(archNow[len(archNow)-1])) != bitsStr(stateBits(cand)) {
			c.Fail("C05:force-evicts-exactly-dominators", "suppa:wrong-forced-eviction", fmt.Sprintf("iteration %d: %d members before, %d after, %d survivors expected", iterNo, len(archBefore), len(archNow), len(want)), nil)
		}
	} else if resCodeStr == "RD" || resCodeStr == "RU" {
		same := len(archNow) == len(archBefore)
		for k := 0; same && k < len(archNow); k++ {
			same = archNow[k] == archBefore[k]
		}
		if !same {
			c.Fail("C05:refusal-leaves-archive", "suppa:refusal-changed-archive", fmt.Sprintf("iteration %d: verdict %s", iterNo, resCodeStr), nil)
		}
	}
	if len(archNow) == 0 {
		c.Fail("C06:solution-set-non-empty", "suppa:archive-empty-after-iteration", fmt.Sprintf("iteration %d", iterNo), nil)
	}
	// current solution: the candidate if moved, unchanged otherwise (before any return-to-base)
	curEnc := bitsStr(flagsOf(run.cur))
	if !returned {
		want := bitsStr(stateBits(before))
		if moved {
			want = bitsStr(stateBits(cand))
		}
		if curEnc != want {
			c.Fail("C06:current-is-candidate-or-unchanged", "suppa:current-solution-wrong", fmt.Sprintf("moved=%v current=%s want=%s", moved, curEnc, want), nil)
		}
	} else {
		member := false
		for _, a := range archNow {
			if bitsStr(stateBits(a)) == curEnc {
				member = true
			}
		}
		if !member {
			c.Fail("C06:return-to-base-is-archive-member", "suppa:return-to-base-not-member", curEnc, nil)
		}
		c.Stat(fmt.Sprintf("suppa return-to-base countdown-before=%d", bucket(int(cdBefore))))
	}
	// C03: the held state and every archive member respect the limit
	if run.limVar >= 0 {
		if totalsOf(run.cur)[run.limVar] > run.limit {
			c.Fail("C03:held-state-respects-limit", "suppa:current-exceeds-limit", fmt.Sprintf("iteration %d: %s = %v > %v", iterNo, varNames[run.limVar], totalsOf(run.cur)[run.limVar], run.limit), nil)
		}
		li := 0
		for k, vi := range sortedVarIdx {
			if vi == run.limVar {
				li = k
			}
		}
		for _, a := range archNow {
			if a.Variables[li] > run.limit {
				c.Fail("C03:archived-state-respects-limit", "suppa:archive-member-exceeds-limit", fmt.Sprintf("iteration %d: %v > %v", iterNo, a.Variables[li], run.limit), nil)
			}
		}
	}
	c.Stat(fmt.Sprintf("suppa iter res=%s moved=%v returned=%v", resCodeStr, moved, returned))
	c.Nontrivial(fmt.Sprintf("%s|%s|%v|%v|%d", curEnc, resCodeStr, moved, returned, len(archNow)))

	// CoolDown as the annealer does, compared bit-exactly
	ex.CoolDown()
	c.Op("cool", floatBits(ex.VerifCoolant().Temperature()))
	return true
}

// temperatureBefore: the temperature used by the decision of the iteration just executed (CoolDown not yet applied).
func temperatureBefore(ex *suppapitnarm.Explorer) float64 { return ex.VerifCoolant().Temperature() }

// finalChecks: each reported member's objective values are those of the model evaluated at that member's action set.
func (run *suppaRun) finalChecks(ds string) {
	ref, err := newRef(ds, -1, 0)
	if err != nil {
		return
	}
	for _, a := range run.ex.VerifArchive().Archive() {
		s := ref.at(stateBits(a))
		for k, vi := range sortedVarIdx {
			if !near(a.Variables[k], s.totals[vi]) {
				run.c.Fail("C05:member-values-are-model-values", "suppa:archive-member-values-stale",
					fmt.Sprintf("member %s reports %s = %v but a fresh model at that action set gives %v", bitsStr(stateBits(a)), varNames[vi], a.Variables[k], s.totals[vi]), nil)
			}
		}
	}
	run.c.Stat(fmt.Sprintf("suppa final archive size bucket=%d", bucket(len(run.ex.VerifArchive().Archive()))))
	checkReportedArchive(run.c, run.ex)
}

// checkReportedArchive: "when it is finally reported" - the ModelArchive attribute the explorer attaches to the
// FinishedAnnealing event (what the Saver writes the summary from) holds exactly the live archive's members, in
// order, and satisfies the invariant itself.  (What the Saver makes of it is C12's saved-runs suite and
// Properties/Compose.lean.)
func checkReportedArchive(c *Ctx, ex *suppapitnarm.Explorer) {
	attrs := ex.EventAttributes(observer.FinishedAnnealing)
	reported, ok := attrs.Value(suppapitnarm.ModelArchive).(marchive.NonDominanceModelArchive)
	if !ok {
		c.Fail("C05:reported-archive", "suppa:reported-archive-missing", fmt.Sprintf("FinishedAnnealing carries %T under ModelArchive", attrs.Value(suppapitnarm.ModelArchive)), nil)
		return
	}
	live, rep := ex.VerifArchive().Archive(), reported.Archive()
	same := len(live) == len(rep)
	for k := 0; same && k < len(live); k++ {
		same = live[k] == rep[k] || (bitsStr(stateBits(live[k])) == bitsStr(stateBits(rep[k])) && equalVec([]float64(live[k].Variables), []float64(rep[k].Variables)))
	}
	if !same {
		c.Fail("C05:reported-archive", "suppa:reported-archive-differs", fmt.Sprintf("live archive has %d members, the reported one %d (or contents differ)", len(live), len(rep)), nil)
	}
	for i, a := range rep {
		for j, b := range rep {
			if i != j && refDominates([]float64(a.Variables), []float64(b.Variables)) {
				c.Fail("C05:archive-non-dominated", "suppa:reported-archive-member-dominated", fmt.Sprintf("reported member %d dominates member %d", i, j), nil)
			}
			if i < j && a.Actions.IsEquivalentTo(&b.Actions) {
				c.Fail("C05:archive-no-duplicates", "suppa:reported-archive-duplicate", fmt.Sprintf("reported members %d and %d share an action set", i, j), nil)
			}
		}
	}
	c.Stat("suppa reported archive (FinishedAnnealing.ModelArchive) compared with the live one")
}
