//go:build verif

package main

// Shared machinery of the engine suites (properties C14, C15, C16): the real engine API
// multiplexer driven in-process, request classification into the structured form the Lean
// model (lean/Crem/Model/Engine.lean) takes, and canonical response tokens.

import (
	"bytes"
	"encoding/csv"
	"encoding/json"
	"fmt"
	"math"
	"net/http"
	"net/http/httptest"
	"os"
	"path/filepath"
	"regexp"
	"runtime/debug"
	"sort"
	"strconv"
	"strings"
	"unicode/utf8"

	"github.com/BurntSushi/toml"
	engineApi "github.com/LindsayBradford/crem/cmd/cremengine/engine/api"
	"github.com/LindsayBradford/crem/internal/pkg/annealing/solution"
	"github.com/LindsayBradford/crem/internal/pkg/model"
	"github.com/LindsayBradford/crem/internal/pkg/server"
	"github.com/LindsayBradford/crem/internal/pkg/server/admin"
	"github.com/LindsayBradford/crem/pkg/logging/loggers"
	"github.com/LindsayBradford/crem/pkg/threading"
)

// ---------------------------------------------------------------- tokens

func safeByte(b byte) bool {
	return (b >= '0' && b <= '9') || (b >= 'A' && b <= 'Z') || (b >= 'a' && b <= 'z') ||
		b == '_' || b == '.' || b == ':' || b == '/' || b == '-'
}

// escTok renders a byte string as `=<percent-escaped>`; the Lean driver has the same function.
func escTok(s string) string {
	var sb strings.Builder
	sb.WriteByte('=')
	for i := 0; i < len(s); i++ {
		b := s[i]
		if safeByte(b) {
			sb.WriteByte(b)
		} else {
			fmt.Fprintf(&sb, "%%%02X", b)
		}
	}
	return sb.String()
}

func unescTok(t string) string {
	t = strings.TrimPrefix(t, "=")
	var out []byte
	for i := 0; i < len(t); i++ {
		if t[i] == '%' && i+3 <= len(t) {
			if v, err := strconv.ParseUint(t[i+1:i+3], 16, 8); err == nil {
				out = append(out, byte(v))
				i += 2
				continue
			}
		}
		out = append(out, t[i])
	}
	return string(out)
}

func hexTok(b []byte) string { return "x" + fmt.Sprintf("%X", b) }

func unhexTok(t string) []byte {
	t = strings.TrimPrefix(t, "x")
	out := make([]byte, 0, len(t)/2)
	for i := 0; i+1 < len(t); i += 2 {
		v, err := strconv.ParseUint(t[i:i+2], 16, 8)
		if err != nil {
			break
		}
		out = append(out, byte(v))
	}
	return out
}

func fnv1a64(b []byte) uint64 {
	h := uint64(14695981039346656037)
	for _, c := range b {
		h ^= uint64(c)
		h *= 1099511628211
	}
	return h
}

func bitsTok(bs []bool) string {
	if len(bs) == 0 {
		return "-"
	}
	var sb strings.Builder
	for _, b := range bs {
		if b {
			sb.WriteByte('1')
		} else {
			sb.WriteByte('0')
		}
	}
	return sb.String()
}

// canonJSON is the canonical compact JSON text of a generically decoded value (object keys sorted).
func canonJSON(v interface{}) string {
	b, err := json.Marshal(v)
	if err != nil {
		return "!unmarshalable"
	}
	return string(b)
}

// ---------------------------------------------------------------- the action-set encoding, independently

func engEncode(bits []bool) string {
	nw := (len(bits) + 63) / 64
	words := make([]string, nw)
	for w := 0; w < nw; w++ {
		var v uint64
		for j := 0; j < 64 && w*64+j < len(bits); j++ {
			if bits[w*64+j] {
				v |= 1 << uint(j)
			}
		}
		words[w] = strconv.FormatUint(v, 16)
		words[w] = strings.ToUpper(words[w])
	}
	return strings.Join(words, ":")
}

func engDecode(n int, text string) ([]bool, bool) {
	parts := strings.Split(text, ":")
	if len(parts) != (n+63)/64 {
		return nil, false
	}
	out := make([]bool, n)
	for w, p := range parts {
		v, err := strconv.ParseUint(p, 16, 64)
		if err != nil {
			return nil, false
		}
		for j := 0; j < 64 && w*64+j < n; j++ {
			out[w*64+j] = v&(1<<uint(j)) != 0
		}
	}
	return out, true
}

// ---------------------------------------------------------------- scenarios the suites post

type engAct struct {
	pu  uint64
	typ string
}

type engVar struct {
	name string
	val  float64
}

// engScenario is one (data set, limit) pair; everything the harness knows about it comes from an
// independent reference instance of the catchment CoreModel (never from the engine under test).
type engScenario struct {
	key     string // universe key on the protocol
	dsRel   string // DataSourcePath as posted (relative to the harness's working directory)
	limVar  int
	limit   float64
	acts    []engAct
	pus     []uint64
	asIs    []engVar
	ref     *CM // reference model (with the limit), re-initialised per query
	dvCache map[string]string
	vCache  map[string]bool
	veCache map[string]string // text of the reference model's validation errors at the set ("" when valid)
	totals  map[string][6]float64
}

func (s *engScenario) n() int { return len(s.acts) }

func (s *engScenario) setRef(bits []bool) {
	s.ref.m.Initialise(model.AsIs)
	for i, b := range bits {
		if b {
			s.ref.m.SetManagementAction(i, true)
		}
	}
}

// dvJSON is the canonical JSON of the DecisionVariables a fresh model at exactly `bits` is encoded to
// (crem's own solution encoder over the reference model: formatting only).
func (s *engScenario) dvJSON(bits []bool) string {
	k := bitsTok(bits)
	if v, ok := s.dvCache[k]; ok {
		return v
	}
	s.setRef(bits)
	sol := new(solution.SolutionBuilder).WithId("ref").ForModel(s.ref.m).Build()
	raw, err := json.Marshal(sol.DecisionVariables)
	must(err)
	var g interface{}
	must(json.Unmarshal(raw, &g))
	out := canonJSON(g)
	ok, verr := s.ref.m.StateIsValid()
	ve := ""
	if !ok && verr != nil {
		ve = verr.Error()
	}
	var t [6]float64
	for i := range varNames {
		t[i] = s.ref.total(i)
	}
	if len(s.dvCache) < 100000 {
		s.dvCache[k] = out
		s.vCache[k] = ok
		s.veCache[k] = ve
		s.totals[k] = t
	}
	return out
}

// veTextAt is what a freshly initialised reference model at exactly `bits` says is wrong with that set under the
// scenario's limit (the text the engine's ValidationErrors attribute must carry); "" when the set is valid.
func (s *engScenario) veTextAt(bits []bool) string {
	k := bitsTok(bits)
	if v, ok := s.veCache[k]; ok {
		return v
	}
	s.dvJSON(bits)
	if v, ok := s.veCache[k]; ok {
		return v
	}
	s.setRef(bits)
	if ok, verr := s.ref.m.StateIsValid(); !ok && verr != nil {
		return verr.Error()
	}
	return ""
}

func (s *engScenario) validAt(bits []bool) bool {
	k := bitsTok(bits)
	if v, ok := s.vCache[k]; ok {
		return v
	}
	s.dvJSON(bits)
	if v, ok := s.vCache[k]; ok {
		return v
	}
	s.setRef(bits)
	ok, _ := s.ref.m.StateIsValid()
	return ok
}

func (s *engScenario) totalsAt(bits []bool) [6]float64 {
	s.dvJSON(bits)
	if t, ok := s.totals[bitsTok(bits)]; ok {
		return t
	}
	var t [6]float64
	return t
}

func (s *engScenario) universeLine() string {
	var sb strings.Builder
	fmt.Fprintf(&sb, "universe %s A %d", escTok(s.key), len(s.acts))
	for _, a := range s.acts {
		fmt.Fprintf(&sb, " %d %s", a.pu, escTok(a.typ))
	}
	fmt.Fprintf(&sb, " P %d", len(s.pus))
	for _, p := range s.pus {
		fmt.Fprintf(&sb, " %d", p)
	}
	fmt.Fprintf(&sb, " V %d", len(s.asIs))
	for _, v := range s.asIs {
		fmt.Fprintf(&sb, " %s %016X", escTok(v.name), math.Float64bits(v.val))
	}
	return sb.String()
}

func (s *engScenario) actIndex(pu uint64, typ string) int {
	for i, a := range s.acts {
		if a.pu == pu && a.typ == typ {
			return i
		}
	}
	return -1
}

func (s *engScenario) typesAt(pu uint64) []string {
	var out []string
	for _, a := range s.acts {
		if a.pu == pu {
			out = append(out, a.typ)
		}
	}
	return out
}

// engCatalogue materialises data sets under <out>/ds (the harness's working directory is <out>, so the
// posted DataSourcePath is relative and a replay file is location independent) and loads scenarios on demand.
type engCatalogue struct {
	root  string
	scen  map[string]*engScenario
	lines []string // universe lines already announced (re-announced after nothing: the driver keeps them)
}

func newEngCatalogue(out string) *engCatalogue {
	must(os.Chdir(out))
	return &engCatalogue{root: out, scen: map[string]*engScenario{}}
}

var genDsRe = regexp.MustCompile(`^ds/gen-(\d+)/`)
var bigDsRe = regexp.MustCompile(`^ds/big-(\d+)/`)

// genFourDataset: the shipped test data with a fourth action type (a wetland) at planning unit 17, which offers gully,
// hill-slope and river-bank restoration already: a planning unit with all FOUR action types (the shipped data sets have at
// most three per unit), so that per-unit action slices of length three with spare capacity exist.
func genFourDataset(repo, dir string) {
	must(os.MkdirAll(dir, 0o755))
	src := filepath.Join(repo, "cmd/cremengine/engine/api/testdata")
	for _, f := range []string{"ValidModel.csv", "ValidSubcatchments.csv", "ValidGullies.csv", "ValidActions.csv"} {
		b, err := os.ReadFile(filepath.Join(src, f))
		must(err)
		text := string(b)
		if f == "ValidActions.csv" {
			if !strings.HasSuffix(text, "\n") {
				text += "\n"
			}
			text += "17,Wetland,1500,250000,0,0,0,0,0,0,0,0,0.9,1,1\n"
		}
		if f == "ValidModel.csv" {
			text = strings.ReplaceAll(text, "Valid", "Four")
		}
		must(os.WriteFile(filepath.Join(dir, "Four"+strings.TrimPrefix(f, "Valid")), []byte(text), 0o644))
	}
}

// genTieDataset: the shipped engine data with every cost moved onto an EXACT half cent that binary64 represents exactly
// (x.125, x.375, x.625, x.875): RoundFloat(+c, 2) and RoundFloat(-c, 2) must mirror each other, or switching an action on
// and off again through an incremental route leaves a cent behind that the whole-set routes do not show (seed C14k).
func genTieDataset(repo, dir string) {
	must(os.MkdirAll(dir, 0o755))
	src := filepath.Join(repo, "cmd/cremengine/engine/api/testdata")
	fracs := []string{".125", ".375", ".625", ".875"}
	for _, f := range []string{"ValidModel.csv", "ValidSubcatchments.csv", "ValidGullies.csv", "ValidActions.csv"} {
		b, err := os.ReadFile(filepath.Join(src, f))
		must(err)
		text := string(b)
		if f == "ValidActions.csv" {
			lines := strings.Split(text, "\n")
			k := 0
			for i, l := range lines {
				cells := strings.Split(l, ",")
				if i == 0 || len(cells) < 4 {
					continue
				}
				for _, c := range []int{2, 3} {
					v := strings.TrimSpace(cells[c])
					if _, err := strconv.ParseUint(v, 10, 64); err == nil && v != "0" {
						cells[c] = v + fracs[k%4]
						k++
					}
				}
				lines[i] = strings.Join(cells, ",")
			}
			text = strings.Join(lines, "\n")
		}
		if f == "ValidModel.csv" {
			text = strings.ReplaceAll(text, "Valid", "Tie")
		}
		must(os.WriteFile(filepath.Join(dir, "Tie"+strings.TrimPrefix(f, "Valid")), []byte(text), 0o644))
	}
}

// genBigDataset: 20-26 planning units, most of them offering all four action types: more than 64 management actions, so
// that action-set encodings have two words (`<hex>:<hex>`) in PATCH bodies, the Encoding attribute and front matching.
func genBigDataset(r *Rng, dir string) {
	must(os.MkdirAll(dir, 0o755))
	f := func(v float64) string { return strconv.FormatFloat(v, 'g', -1, 64) }
	round := func(v float64, d int) float64 {
		x, _ := strconv.ParseFloat(strconv.FormatFloat(v, 'f', d, 64), 64)
		return x
	}
	nPU := 20 + r.Intn(7)
	var sub, gul, act strings.Builder
	sub.WriteString("Subcatchment,DownstreamId,ChannelLength,ChannelSlope,BankfullFlow,ChannelWidth,ChannelDepth,FloodplainWidth,ProportionOfRiparianVegetation,SubcatchmentArea,RiparianBufferArea,HillslopeArea\n")
	gul.WriteString("Identifier,Subcatchment,Volume,ChannelLengh\n")
	act.WriteString("Subcatchment,ActionType,OpportunityCost,ImplementationCost,ParticulateNitrogenOriginal,ParticulateNitrogenActioned,HillslopeErosionOriginal,HillslopeErosionActioned,FineSedimentOriginal,FineSedimentActioned,DissolvedNitrogenOriginal,DissolvedNitrogenActioned,DNRemovalEfficiency,PNRemovalEfficiency,SedimentRemovalEfficiency\n")
	for i := 0; i < nPU; i++ {
		p := 3 + 7*i
		veg := []float64{0.05, 0.114667, 0.2, 0.308863, 0.5, 0.6}[r.Intn(6)] // below the riparian target: a river-bank action exists
		fmt.Fprintf(&sub, "%d,%d,%s,%s,%s,%s,%s,%s,%s,%s,%s,%s\n", p, 1+r.Intn(30),
			f(round(5000+r.Float()*20000, 0)), f(round(0.00002+r.Float()*0.0002, 7)), f(round(0.02+r.Float()*9, 5)),
			f(round(1+r.Float()*20, 3)), f(round(0.1+r.Float()*5, 4)), f(round(300+r.Float()*2700, 2)),
			f(veg), f(round(1e6+r.Float()*5e6, 0)), f(round(5e4+r.Float()*1.5e5, 1)), f([]float64{17435.3, 980041, 21082.9}[r.Intn(3)]))
		if r.Chance(0.9) {
			fmt.Fprintf(&gul, "%d,%d,%s,%s\n", i+1, p, f(round(100+r.Float()*50000, 2)), f(round(100+r.Float()*1500, 3)))
			pn, dn := round(0.1+r.Float()*2, 6), round(r.Float()*0.01, 9)
			fmt.Fprintf(&act, "%d,Gully,%s,%s,%s,%s,0,0,0,0,%s,%s,0,0,0\n", p, f(round(r.Float()*9000, 0)), f(round(1000+r.Float()*200000, 0)),
				f(pn), f(round(pn*r.Float(), 6)), f(dn), f(round(dn*r.Float(), 9)))
		}
		if r.Chance(0.9) {
			ero := round(1+r.Float()*500, 3)
			pn, dn := round(0.1+r.Float()*10, 6), round(r.Float()*5, 6)
			fmt.Fprintf(&act, "%d,Hillslope,%s,%s,%s,%s,%s,%s,0,0,%s,%s,0,0,0\n", p, f(round(r.Float()*90000, 0)), f(round(1000+r.Float()*4e6, 0)),
				f(pn), f(round(pn*r.Float(), 6)), f(ero), f(round(ero*r.Float()*0.2, 4)), f(dn), f(round(dn*(0.8+0.2*r.Float()), 6)))
		}
		if r.Chance(0.9) {
			fo, dn := round(0.1+r.Float()*0.1, 6), round(r.Float()*1e-6, 12)
			fmt.Fprintf(&act, "%d,Riparian,%s,%s,0,0,0,0,%s,%s,%s,%s,%s,0,0\n", p, f(round(r.Float()*7000, 0)), f(round(1000+r.Float()*900000, 0)),
				f(fo), f(round(0.1+r.Float()*0.15, 6)), f(dn), f(round(dn*r.Float(), 12)), f([]float64{0.632175983, 0.5, 0.9}[r.Intn(3)]))
		}
		if r.Chance(0.9) {
			fmt.Fprintf(&act, "%d,Wetland,%s,%s,0,0,0,0,0,0,0,0,%s,%s,%s\n", p, f(round(r.Float()*20000, 0)), f(round(1000+r.Float()*2.5e6, 0)),
				f([]float64{0.99, 0.98, 0.5}[r.Intn(3)]), f([]float64{1, 0.9, 0.3}[r.Intn(3)]), f([]float64{1, 0.95, 0.4}[r.Intn(3)]))
		}
	}
	w := func(name, content string) { must(os.WriteFile(filepath.Join(dir, name), []byte(content), 0o644)) }
	w("bSubcatchments.csv", sub.String())
	w("bGullies.csv", gul.String())
	w("bActions.csv", act.String())
	w("bModel.csv", "TableName, FilePath\nSubcatchments, bSubcatchments.csv\nGullies, bGullies.csv\nActions, bActions.csv\n")
}

// ensureDataset makes sure the data set named by a relative path exists below the working directory.
// Known names: ds/valid/ValidModel.csv, ds/testing/TestingModel.csv (copies of the shipped test data),
// ds/gen-<seed>/<...>.csv (generated deterministically from the seed).
func (cat *engCatalogue) ensureDataset(rel string) bool {
	if _, err := os.Stat(filepath.Join(cat.root, rel)); err == nil {
		return true
	}
	repo := os.Getenv("VERIF_REPO")
	if repo == "" {
		repo = "/repo"
	}
	switch {
	case strings.HasPrefix(rel, "ds/valid/"):
		dir := filepath.Join(cat.root, "ds/valid")
		must(os.MkdirAll(dir, 0o755))
		src := filepath.Join(repo, "cmd/cremengine/engine/api/testdata")
		for _, f := range []string{"ValidModel.csv", "ValidSubcatchments.csv", "ValidGullies.csv", "ValidActions.csv"} {
			copyFile(filepath.Join(src, f), filepath.Join(dir, f))
		}
	case strings.HasPrefix(rel, "ds/testing/"):
		dir := filepath.Join(cat.root, "ds/testing")
		must(os.MkdirAll(dir, 0o755))
		src := filepath.Join(repo, "internal/pkg/model/models/catchment/testdata")
		for _, f := range []string{"TestingModel.csv", "TestingSubcatchments.csv", "TestingGullies.csv", "TestingActions.csv"} {
			copyFile(filepath.Join(src, f), filepath.Join(dir, f))
		}
	case strings.HasPrefix(rel, "ds/broken-"):
		// data sets that LOAD as CSV but cannot be built into a catchment model (or whose meta-file names a missing file):
		// a scenario naming one is a client error, whatever stage finds it out
		kind := strings.TrimSuffix(strings.TrimPrefix(rel, "ds/broken-"), "/bModel.csv")
		if rel != "ds/broken-"+kind+"/bModel.csv" {
			return false
		}
		dir := filepath.Join(cat.root, "ds", "broken-"+kind)
		must(os.MkdirAll(dir, 0o755))
		src := filepath.Join(repo, "cmd/cremengine/engine/api/testdata")
		for _, f := range []string{"ValidSubcatchments.csv", "ValidGullies.csv", "ValidActions.csv"} {
			copyFile(filepath.Join(src, f), filepath.Join(dir, f))
		}
		meta := "TableName, FilePath\nSubcatchments, ValidSubcatchments.csv\nGullies, ValidGullies.csv\nActions, ValidActions.csv\n"
		switch kind {
		case "noactions":
			meta = "TableName, FilePath\nSubcatchments, ValidSubcatchments.csv\nGullies, ValidGullies.csv\n"
		case "nosubs":
			meta = "TableName, FilePath\nGullies, ValidGullies.csv\nActions, ValidActions.csv\n"
		case "nogullies":
			meta = "TableName, FilePath\nSubcatchments, ValidSubcatchments.csv\nActions, ValidActions.csv\n"
		case "missingfile":
			meta = "TableName, FilePath\nSubcatchments, ValidSubcatchments.csv\nGullies, ValidGullies.csv\nActions, NoSuchActions.csv\n"
		case "headeronly":
			b, err := os.ReadFile(filepath.Join(dir, "ValidActions.csv"))
			must(err)
			must(os.WriteFile(filepath.Join(dir, "ValidActions.csv"), []byte(strings.SplitN(string(b), "\n", 2)[0]+"\n"), 0o644))
		case "emptymeta":
			meta = "TableName, FilePath\n"
		default:
			return false
		}
		must(os.WriteFile(filepath.Join(dir, "bModel.csv"), []byte(meta), 0o644))
	case rel == "ds/four/FourModel.csv":
		genFourDataset(repo, filepath.Join(cat.root, "ds/four"))
	case rel == "ds/tie/TieModel.csv":
		genTieDataset(repo, filepath.Join(cat.root, "ds/tie"))
	case bigDsRe.MatchString(rel):
		m := bigDsRe.FindStringSubmatch(rel)
		if rel != "ds/big-"+m[1]+"/bModel.csv" {
			return false
		}
		seed, _ := strconv.ParseUint(m[1], 10, 64)
		genBigDataset(NewRng(seed), filepath.Join(cat.root, "ds", "big-"+m[1]))
	default:
		m := genDsRe.FindStringSubmatch(rel)
		if m == nil {
			return false
		}
		if rel != "ds/gen-"+m[1]+"/gModel.csv" {
			return false
		}
		seed, _ := strconv.ParseUint(m[1], 10, 64)
		genDataset(NewRng(seed), filepath.Join(cat.root, "ds", "gen-"+m[1]), "g")
	}
	_, err := os.Stat(filepath.Join(cat.root, rel))
	return err == nil
}

func genDatasetRel(seed uint64, root string) string {
	dir := filepath.Join(root, "ds", fmt.Sprintf("gen-%d", seed))
	meta := genDataset(NewRng(seed), dir, "g")
	rel, err := filepath.Rel(root, meta)
	must(err)
	return rel
}

func limTok(limVar int, limit float64) string {
	if limVar < 0 {
		return "-"
	}
	return fmt.Sprintf("%d:%s", limVar, strconv.FormatFloat(limit, 'g', -1, 64))
}

// scenario returns (loading it if needed) the scenario for a data set path and limit; nil if the
// reference model cannot load it.
func (cat *engCatalogue) scenario(dsRel string, limVar int, limit float64) *engScenario {
	key := dsRel + "|" + limTok(limVar, limit)
	if s, ok := cat.scen[key]; ok {
		return s
	}
	if !cat.ensureDataset(dsRel) {
		cat.scen[key] = nil
		return nil
	}
	cm, err := loadCM(filepath.Join(cat.root, dsRel), limVar, limit)
	if err != nil || cm == nil || len(cm.m.ManagementActions()) == 0 {
		cat.scen[key] = nil
		return nil
	}
	s := &engScenario{key: key, dsRel: dsRel, limVar: limVar, limit: limit, ref: cm,
		dvCache: map[string]string{}, vCache: map[string]bool{}, veCache: map[string]string{}, totals: map[string][6]float64{}}
	for _, a := range cm.m.ManagementActions() {
		s.acts = append(s.acts, engAct{pu: uint64(a.PlanningUnit()), typ: string(a.Type())})
	}
	for _, p := range cm.m.PlanningUnits() {
		s.pus = append(s.pus, uint64(p))
	}
	names := cm.m.NameMappedVariables().SortedKeys()
	for _, nme := range names {
		s.asIs = append(s.asIs, engVar{name: nme, val: cm.m.DecisionVariable(nme).Value()})
	}
	cat.scen[key] = s
	return s
}

// scenarioText renders a scenario configuration as TOML.
func scenarioText(name, modelType, dsRel string, limits map[string]float64, comment string) string {
	var sb strings.Builder
	if comment != "" {
		sb.WriteString("# " + comment + "\n")
	}
	sb.WriteString("[Scenario]\nName = " + strconv.Quote(name) + "\n")
	sb.WriteString("[Model]\nType = " + strconv.Quote(modelType) + "\n[Model.Parameters]\n")
	if dsRel != "" {
		sb.WriteString("DataSourcePath = " + strconv.Quote(dsRel) + "\n")
	}
	keys := make([]string, 0, len(limits))
	for k := range limits {
		keys = append(keys, k)
	}
	sort.Strings(keys)
	for _, k := range keys {
		sb.WriteString(k + " = " + strconv.FormatFloat(limits[k], 'f', 3, 64) + "\n")
	}
	return sb.String()
}

// ---------------------------------------------------------------- the engine under test

type engResp struct {
	status   int
	header   http.Header
	body     []byte
	panicked string
	site     string
}

type eng struct {
	mux *engineApi.Mux
	rs  *server.RestServer
}

// newEng builds the API multiplexer the way cmd/cremengine does (RestServer.WithApiMux registers the
// status handler at "^/$"), with a silent logger.
func newEng() *eng {
	threading.ResetMainThreadChannel()
	ch := threading.GetMainThreadChannel()
	mux := new(engineApi.Mux).Initialise().WithMainThreadChannel(&ch)
	rs := new(server.RestServer).Initialise().WithApiMux(mux).WithLogger(loggers.NewNullLogger()).
		WithStatus(admin.ServiceStatus{ServiceName: "verif", Version: "0", Status: "RUNNING"})
	return &eng{mux: mux, rs: rs}
}

var apiFrameRe = regexp.MustCompile(`cremengine/engine/api\.(?:\(\*?\w+\)\.)?(\w+)`)
var cremFrameRe = regexp.MustCompile(`LindsayBradford/crem/[\w/]+\.(?:\(\*?\w+\)\.)?(\w+)`)

// panicSite names the first frame of the engine's api package on the panicking stack (the handler-ish site).
func panicSite(stack []byte) string {
	lines := strings.Split(string(stack), "\n")
	seenPanic := false
	first := ""
	for _, l := range lines {
		if strings.HasPrefix(l, "panic(") {
			seenPanic = true
			continue
		}
		if !seenPanic || strings.HasPrefix(l, "\t") {
			continue
		}
		if strings.Contains(l, "verifharness") {
			break
		}
		if m := apiFrameRe.FindStringSubmatch(l); m != nil {
			return m[1]
		}
		if first == "" {
			if m := cremFrameRe.FindStringSubmatch(l); m != nil {
				first = m[1]
			}
		}
	}
	if first != "" {
		return first
	}
	return "unknown"
}

type rawReq struct {
	method string
	path   string // URL path (already decoded form; it is put into r.URL.Path as is)
	ctype  string
	body   []byte
}

func serve(h http.Handler, q rawReq) (resp engResp) {
	w := httptest.NewRecorder()
	r := httptest.NewRequest("GET", "http://engine/", bytes.NewReader(q.body))
	r.Method = q.method
	r.URL.Path = q.path
	r.URL.RawPath = ""
	r.RequestURI = q.path
	if q.ctype != "" {
		r.Header.Set("Content-Type", q.ctype)
	}
	defer func() {
		if rec := recover(); rec != nil {
			resp.panicked = fmt.Sprint(rec)
			resp.site = panicSite(debug.Stack())
			resp.status = -1
		}
	}()
	h.ServeHTTP(w, r)
	resp.status = w.Code
	resp.header = w.Header()
	resp.body = w.Body.Bytes()
	return resp
}

func (e *eng) do(q rawReq) engResp { return serve(e.mux, q) }

// ---------------------------------------------------------------- paths (harness-side view of the routes, for choosing facts)

type pathKind int

const (
	pkOther pathKind = iota
	pkRoot
	pkScenario
	pkSolutions
	pkSolution
	pkModel
	pkActive
	pkApplicable
	pkSub
)

var subRe = regexp.MustCompile(`^/api/v1/model/subcatchment/([0-9]+)$`)
var solRe = regexp.MustCompile(`^/api/v1/solutions/([0-9A-Za-z_\-]+)$`)

func classifyPathGo(p string) (pathKind, string) {
	switch p {
	case "/":
		return pkRoot, ""
	case "/api/v1/scenario":
		return pkScenario, ""
	case "/api/v1/solutions":
		return pkSolutions, ""
	case "/api/v1/model":
		return pkModel, ""
	case "/api/v1/model/actions/active":
		return pkActive, ""
	case "/api/v1/model/actions/applicable":
		return pkApplicable, ""
	}
	if m := subRe.FindStringSubmatch(p); m != nil {
		return pkSub, m[1]
	}
	if m := solRe.FindStringSubmatch(p); m != nil {
		return pkSolution, m[1]
	}
	return pkOther, ""
}

// ---------------------------------------------------------------- body facts (independent generic decoding)

type nvp struct {
	Name  string
	Value interface{}
}

func decodeNvps(body []byte) ([]nvp, bool) {
	var out []nvp
	if err := json.Unmarshal(body, &out); err != nil {
		return nil, false
	}
	return out, true
}

func patchFacts(body []byte) (string, []nvp) {
	es, ok := decodeNvps(body)
	if !ok {
		return "patch bad", nil
	}
	var sb strings.Builder
	fmt.Fprintf(&sb, "patch %d", len(es))
	for _, e := range es {
		enc := "-"
		if e.Name == "Encoding" {
			if s, isStr := e.Value.(string); isStr {
				enc = "T" + escTok(s)
			} else {
				enc = "N"
			}
		}
		fmt.Fprintf(&sb, " %s %s %s", escTok(e.Name), escTok(canonJSON(e.Value)), enc)
	}
	return sb.String(), es
}

func subFacts(body []byte) (string, []nvp) {
	es, ok := decodeNvps(body)
	if !ok {
		return "sub bad", nil
	}
	var sb strings.Builder
	fmt.Fprintf(&sb, "sub %d", len(es))
	for _, e := range es {
		cls := "N"
		if s, isStr := e.Value.(string); isStr {
			switch s {
			case "Active":
				cls = "A"
			case "Inactive":
				cls = "I"
			default:
				cls = "S"
			}
		}
		fmt.Fprintf(&sb, " %s %s", escTok(e.Name), cls)
	}
	return sb.String(), es
}

type csvCell struct {
	kind byte // 'n', 'b', 't'
	f    float64
	str  string // CellString
}

func castCell(s string) csvCell {
	if f, err := strconv.ParseFloat(s, 64); err == nil {
		return csvCell{kind: 'n', f: f, str: fmt.Sprintf("%v", f)}
	}
	if _, err := strconv.ParseBool(s); err == nil {
		return csvCell{kind: 'b'}
	}
	return csvCell{kind: 't', str: s}
}

type csvTable struct {
	header []string
	rows   [][]csvCell
}

// parseCsvBody reads a CSV body the way the engine's handlers have it read: fields cast to number / boolean / text,
// except — for POST /solutions (ParseCsvTextIntoTableWithTextColumns) — the cells of columns headed exactly as one of
// textHeadings, which keep their text.
func parseCsvBody(body []byte, textHeadings ...string) *csvTable {
	r := csv.NewReader(bytes.NewReader(body))
	r.TrimLeadingSpace = true
	recs, err := r.ReadAll()
	if err != nil || len(recs) == 0 {
		return nil
	}
	t := &csvTable{header: recs[0]}
	for _, rec := range recs[1:] {
		row := make([]csvCell, len(rec))
		for i, f := range rec {
			row[i] = castCell(f)
			for _, th := range textHeadings {
				if i < len(recs[0]) && recs[0][i] == th {
					row[i] = csvCell{kind: 't', str: f}
				}
			}
		}
		t.rows = append(t.rows, row)
	}
	return t
}

func csvFacts(body []byte, textHeadings ...string) (string, *csvTable) {
	t := parseCsvBody(body, textHeadings...)
	if t == nil {
		return "csv err", nil
	}
	var sb strings.Builder
	fmt.Fprintf(&sb, "csv %d", len(t.header))
	for _, h := range t.header {
		sb.WriteByte(' ')
		sb.WriteString(escTok(h))
	}
	fmt.Fprintf(&sb, " %d", len(t.rows))
	for _, row := range t.rows {
		for _, c := range row {
			switch c.kind {
			case 'n':
				fmt.Fprintf(&sb, " n%016X/%s", math.Float64bits(c.f), escTok(c.str))
			case 'b':
				sb.WriteString(" b")
			default:
				sb.WriteString(" t" + escTok(c.str))
			}
		}
	}
	return sb.String(), t
}

type scenCfg struct {
	Scenario struct{ Name string }
	Model    struct {
		Type       string
		Parameters map[string]interface{}
	}
}

var registeredModelTypes = map[string]bool{"NullModel": true, "DumbModel": true, "MultiObjectiveDumbModel": true, "CatchmentModel": true}

// scenarioFacts classifies a POST /scenario body.  Only the shapes the suites generate are told apart
// precisely: a catchment model over a data set of the catalogue with at most one limit is `ok`.
func (cat *engCatalogue) scenarioFacts(body []byte) (string, *engScenario, string) {
	var cfg scenCfg
	var err error
	// toml v0.3.1 reports some malformed texts by panicking ("BUG: ..."): to the classification that is a text that does not decode
	if p := protect(func() { _, err = toml.Decode(string(body), &cfg) }); p != "" || err != nil {
		return "scen bad", nil, ""
	}
	if !registeredModelTypes[cfg.Model.Type] {
		return "scen interp", nil, ""
	}
	if cfg.Model.Type != "CatchmentModel" {
		if len(cfg.Model.Parameters) > 0 {
			return "scen interp", nil, "" // the suites only post parameters those models reject
		}
		return "scen noncatch " + escTok(cfg.Scenario.Name), nil, ""
	}
	limVar, limit, nLim := -1, 0.0, 0
	dsRel := ""
	for k, v := range cfg.Model.Parameters {
		if k == "DataSourcePath" {
			s, isStr := v.(string)
			if !isStr {
				return "scen interp", nil, ""
			}
			dsRel = s
			continue
		}
		found := false
		for i, mk := range varMaxKey {
			if k == mk {
				f, isF := v.(float64)
				if !isF {
					return "scen interp", nil, ""
				}
				limVar, limit, found = i, f, true
				nLim++
			}
		}
		if !found {
			return "scen interp", nil, "" // unsupported parameter key
		}
	}
	if nLim > 1 {
		return "scen interp", nil, ""
	}
	if dsRel == "" || !strings.HasSuffix(strings.ToLower(dsRel), ".csv") {
		if dsRel != "" {
			if st, err := os.Stat(dsRel); err != nil || st.IsDir() {
				return "scen interp", nil, "" // "must be a valid path to a readable file"
			}
		}
		return "scen loadfail", nil, "" // no data source, or one the model cannot read
	}
	if st, err := os.Stat(dsRel); err != nil || st.IsDir() {
		if !cat.ensureDataset(dsRel) {
			return "scen interp", nil, "" // "must be a valid path to a readable file"
		}
	}
	s := cat.scenario(dsRel, limVar, limit)
	if s == nil {
		return "scen loadfail", nil, ""
	}
	return "scen ok " + escTok(cfg.Scenario.Name) + " " + escTok(s.key), s, cfg.Scenario.Name
}

// ---------------------------------------------------------------- canonical responses

func isErrorDoc(body []byte) bool {
	var m map[string]interface{}
	if json.Unmarshal(body, &m) != nil {
		return false
	}
	// a JSON object that says it is an error and says why; further members (a time stamp, a status code, ...) are welcome
	t, _ := m["Type"].(string)
	_, hasMsg := m["Message"].(string)
	return t == "ERROR" && hasMsg
}

func isSuccessDoc(body []byte) bool {
	var m map[string]interface{}
	if json.Unmarshal(body, &m) != nil {
		return false
	}
	t, _ := m["Type"].(string)
	return t == "SUCCESS"
}

type modelDoc struct {
	Id                      string
	DecisionVariables       interface{}
	ActiveManagementActions map[string][]string
	Attributes              []nvp
}

// activeBits maps a planning-unit -> action-types document onto the scenario's action list; ok=false if
// it names something the scenario does not have (or names an action twice).
func activeBits(s *engScenario, m map[string][]string) ([]bool, bool) {
	bits := make([]bool, s.n())
	ok := true
	for puText, types := range m {
		pu, err := strconv.ParseUint(puText, 10, 64)
		if err != nil {
			ok = false
			continue
		}
		if len(types) == 0 {
			ok = false // the encoder never emits an empty list
		}
		for _, t := range types {
			i := s.actIndex(pu, t)
			if i < 0 || bits[i] {
				ok = false
				continue
			}
			bits[i] = true
		}
	}
	return bits, ok
}

func attrsTok(as []nvp) string {
	if len(as) == 0 {
		return "-"
	}
	items := make([]string, len(as))
	for i, a := range as {
		v := canonJSON(a.Value)
		if a.Name == "ValidationErrors" {
			if s, isStr := a.Value.(string); isStr && strings.Contains(s, "upper bound") {
				v = "VE"
			}
		}
		items[i] = escTok(a.Name) + "~" + escTok(v)
	}
	sort.Strings(items)
	return strings.Join(items, ",")
}

// canonCtx is what the canonicaliser may know: the scenario the engine currently serves (as established by
// the last POST /scenario answered 200) and whether the printf quirk was observed.
type canonCtx struct {
	scen    *engScenario
	fprintf bool
}

type canonOut struct {
	tok   string
	model *modelDoc // parsed GET /model document, when there is one
	bits  []bool    // active set shown (GET /model, GET active)
	notes []string  // well-formedness complaints (C15 direct checks)
}

func ctClass(h http.Header) string {
	switch h.Get("Content-Type") {
	case "application/json":
		return "json"
	case "application/toml":
		return "toml"
	case "text/csv":
		return "csv"
	}
	return "other:" + h.Get("Content-Type")
}

// canonResp renders a response as the token the model prints for the same request.
func canonResp(cx canonCtx, q rawReq, resp engResp) canonOut {
	var out canonOut
	if resp.panicked != "" {
		out.tok = "panic"
		return out
	}
	ct := ctClass(resp.header)
	if ct == "json" && !json.Valid(resp.body) {
		out.notes = append(out.notes, "declared-json-invalid")
	}
	if resp.status != 200 {
		if ct == "json" && isErrorDoc(resp.body) {
			out.tok = fmt.Sprintf("%d err", resp.status)
		} else {
			out.tok = fmt.Sprintf("%d err!%s", resp.status, ct)
			out.notes = append(out.notes, "no-error-document")
		}
		return out
	}
	kind, _ := classifyPathGo(q.path)
	pre := "200 "
	switch {
	case ct == "toml" || ct == "csv":
		if cx.fprintf && bytes.IndexByte(resp.body, '%') >= 0 {
			out.tok = pre + "text:" + ct + ":MANGLED"
		} else {
			out.tok = pre + fmt.Sprintf("text:%s:%d:%016X", ct, len(resp.body), fnv1a64(resp.body))
		}
	case ct != "json":
		out.tok = pre + "ctype!" + ct
	case kind == pkRoot && q.method == "GET":
		var m map[string]interface{}
		if json.Unmarshal(resp.body, &m) == nil && m["Status"] != nil && m["ServiceName"] != nil {
			out.tok = pre + "status"
		} else {
			out.tok = pre + "status!"
		}
	case q.method != "GET":
		if isSuccessDoc(resp.body) {
			out.tok = pre + "success"
		} else {
			out.tok = pre + "success!"
		}
	case kind == pkModel:
		var d modelDoc
		if json.Unmarshal(resp.body, &d) != nil || cx.scen == nil {
			out.tok = pre + "model!"
			return out
		}
		bits, ok := activeBits(cx.scen, d.ActiveManagementActions)
		r := "R" + escTok(cx.scen.key) + ":" + bitsTok(bits)
		if !ok {
			r = "R!actions"
		} else if canonJSON(d.DecisionVariables) != cx.scen.dvJSON(bits) {
			r = "R!variables:" + bitsTok(bits)
		}
		out.model, out.bits = &d, bits
		out.tok = pre + "model id" + escTok(d.Id) + " " + r + " attrs=" + attrsTok(d.Attributes)
	case kind == pkActive:
		var d struct{ ActiveManagementActions map[string][]string }
		if json.Unmarshal(resp.body, &d) != nil || cx.scen == nil {
			out.tok = pre + "active!"
			return out
		}
		bits, ok := activeBits(cx.scen, d.ActiveManagementActions)
		if !ok {
			out.tok = pre + "active!actions"
			return out
		}
		out.bits = bits
		out.tok = pre + "active " + escTok(cx.scen.key) + ":" + bitsTok(bits)
	case kind == pkApplicable:
		var d struct{ ApplicableActions map[string][]string }
		if json.Unmarshal(resp.body, &d) != nil || cx.scen == nil {
			out.tok = pre + "applicable!"
			return out
		}
		good := len(d.ApplicableActions) == len(cx.scen.pus)
		for _, pu := range cx.scen.pus {
			got := append([]string(nil), d.ApplicableActions[strconv.FormatUint(pu, 10)]...)
			want := cx.scen.typesAt(pu)
			sort.Strings(got)
			sort.Strings(want)
			if strings.Join(got, ",") != strings.Join(want, ",") {
				good = false
			}
		}
		if good {
			out.tok = pre + "applicable " + escTok(cx.scen.key)
		} else {
			out.tok = pre + "applicable!" + canonJSON(d.ApplicableActions)
		}
	case kind == pkSub:
		var es []nvp
		if json.Unmarshal(resp.body, &es) != nil {
			out.tok = pre + "sub!"
			return out
		}
		items := make([]string, 0, len(es))
		for _, e := range es {
			switch e.Value {
			case "Active":
				items = append(items, escTok(e.Name)+":1")
			case "Inactive":
				items = append(items, escTok(e.Name)+":0")
			default:
				items = append(items, escTok(e.Name)+":?")
			}
		}
		sort.Strings(items)
		if len(items) == 0 {
			out.tok = pre + "sub -"
		} else {
			out.tok = pre + "sub " + strings.Join(items, ",")
		}
	case kind == pkSolution:
		out.tok = pre + "solution"
	default:
		out.tok = pre + "json?"
	}
	return out
}

// reqLine renders the protocol line of a request.
func reqLine(obs string, q rawReq, facts string) string {
	m := q.method
	if strings.ContainsAny(m, " \n\r") || m == "" {
		m = "?"
	}
	return "req " + obs + " " + m + " " + escTok(q.path) + " " + escTok(q.ctype) + " " + hexTok(q.body) + " " + facts
}

func parseReqLine(line string) (rawReq, bool) {
	ws := strings.Split(line, " ")
	if len(ws) < 7 || (ws[0] != "req" && ws[0] != "raw") {
		return rawReq{}, false
	}
	return rawReq{method: ws[2], path: unescTok(ws[3]), ctype: unescTok(ws[4]), body: unhexTok(ws[5])}, true
}

func validUTF8(s string) bool { return utf8.ValidString(s) }
