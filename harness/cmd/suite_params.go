//go:build verif

package main

// Correspondence suite `params` (property C18): crem's parameter machinery
// (parameters.Parameters, the validators, every component's specification table and
// SetParameters) against the Lean model Crem/Model/Params.lean.
//
// Protocol (one op per line; values are prefix-coded tokens, strings/keys hex-coded):
//   comp <c> <all|enforced> <post…>          declare a component (mode, extra check)        -> ok
//   spec <c> k:<hex> <opt 0|1> <validator…> <default value>   one extracted specification  -> HYP SpecsWellFormed:<c>:<key> … ok
//   spect <c> k:<hex>                        type-level well-formedness of that entry       -> HYP SpecsTypeWellFormed:<c>:<key> … ok
//   specsdone <c>                            keys distinct, table complete                  -> HYP SpecKeysDistinct:<c> … <n>
//   readable s:<hex>                         file-system oracle: this string opens          -> ok
//   offers <c> <n> s:<hex>…                  decision variables the wired model offers      -> ok
//   load <inst> <c> <comp|all|enforced>      fresh component / raw Parameters               -> state
//   set <inst> <n> (k:<hex> <value>)*        SetParameters / Assign…UserValues              -> state
//   validate <c> k:<hex> <value>             Specifications.Validate verdict                -> valid|invalid|unsupported
//   vdirect <validator…> <value>             an exported validator called directly          -> valid|invalid
//   get <inst> k:<hex> <int|float|str|bool>  typed getter                                   -> value | panic
//   has <inst> k:<hex>                       HasEntry                                       -> 0|1
//   use <inst>                               run the component (Go only; failures via Fail) -> used
//   lateerr <inst> <n>                       the use appended n messages to the instance's parameter errors (catchment:
//                                            the data set did not load at Initialise; an oracle for the model)  -> state
//   part <inst> <c>                          the instance's SetParameters forwards every user map to a nested
//                                            component with <c>'s table (explorer under an annealer, coolant under
//                                            an explorer); `set <inst>` applies to the instance and all its parts   -> state of the part
//   pstate <inst> <i>                        state of the i-th nested part                  -> state
//   perrs <inst>                             ParameterErrors() != nil (own and nested errors merged) -> 0|1
// state = `errs <invalid> <unsupported> <message> map <n> (k:<hex> <value>)*` sorted by key.

import (
	"encoding/hex"
	"encoding/json"
	"fmt"
	"math"
	"os"
	"os/exec"
	"path/filepath"
	"reflect"
	"runtime"
	"runtime/debug"
	"sort"
	"strconv"
	"strings"
	"time"

	"github.com/BurntSushi/toml"

	"github.com/LindsayBradford/crem/internal/pkg/annealing/annealers"
	coolAveraged "github.com/LindsayBradford/crem/internal/pkg/annealing/cooling/coolants/averaged"
	coolKirk "github.com/LindsayBradford/crem/internal/pkg/annealing/cooling/coolants/kirkpatrick"
	coolSupp "github.com/LindsayBradford/crem/internal/pkg/annealing/cooling/coolants/suppapitnarm"
	expKirk "github.com/LindsayBradford/crem/internal/pkg/annealing/explorer/kirkpatrick"
	expSupp "github.com/LindsayBradford/crem/internal/pkg/annealing/explorer/suppapitnarm"
	"github.com/LindsayBradford/crem/internal/pkg/model"
	"github.com/LindsayBradford/crem/internal/pkg/model/models/catchment"
	catchParams "github.com/LindsayBradford/crem/internal/pkg/model/models/catchment/parameters"
	"github.com/LindsayBradford/crem/internal/pkg/model/models/dumb"
	"github.com/LindsayBradford/crem/internal/pkg/model/models/modumb"
	modumbParams "github.com/LindsayBradford/crem/internal/pkg/model/models/modumb/parameters"
	"github.com/LindsayBradford/crem/internal/pkg/parameters"
	"github.com/LindsayBradford/crem/internal/pkg/parameters/specification"
	cremrand "github.com/LindsayBradford/crem/internal/pkg/rand"
	"github.com/LindsayBradford/crem/pkg/logging/loggers"
)

func init() { register("params", suiteParams) }

// ---------------------------------------------------------------- value coding

func hexS(s string) string { return hex.EncodeToString([]byte(s)) }

func encValue(v interface{}) string {
	switch x := v.(type) {
	case nil:
		return "n"
	case int64:
		return "i:" + strconv.FormatInt(x, 10)
	case float64:
		return "f:" + floatBits(x)
	case string:
		return "s:" + hexS(x)
	case bool:
		return "b:" + b2s(x)
	case time.Time:
		return "d:" + hexS(x.Format(time.RFC3339Nano))
	case []interface{}:
		parts := []string{"a:" + strconv.Itoa(len(x))}
		for _, e := range x {
			parts = append(parts, encValue(e))
		}
		return strings.Join(parts, " ")
	case []map[string]interface{}: // TOML array of tables ([[k]]): a Go type of its own, hence a token of its own
		parts := []string{"A:" + strconv.Itoa(len(x))}
		for _, e := range x {
			parts = append(parts, encValue(e))
		}
		return strings.Join(parts, " ")
	case map[string]interface{}:
		keys := make([]string, 0, len(x))
		for k := range x {
			keys = append(keys, k)
		}
		sort.Strings(keys)
		parts := []string{"t:" + strconv.Itoa(len(x))}
		for _, k := range keys {
			parts = append(parts, "k:"+hexS(k), encValue(x[k]))
		}
		return strings.Join(parts, " ")
	}
	return "x:" + hexS(fmt.Sprintf("%T", v)) // a Go type no TOML document yields; the model has no such value
}

func unhex(s string) (string, error) {
	b, err := hex.DecodeString(s)
	return string(b), err
}

func decKey(tok string) (string, error) {
	if !strings.HasPrefix(tok, "k:") {
		return "", fmt.Errorf("bad key token %q", tok)
	}
	return unhex(tok[2:])
}

func decValue(toks []string, pos *int) (interface{}, error) {
	if *pos >= len(toks) {
		return nil, fmt.Errorf("value expected")
	}
	t := toks[*pos]
	*pos++
	switch {
	case t == "n":
		return nil, nil
	case strings.HasPrefix(t, "i:"):
		return strconv.ParseInt(t[2:], 10, 64)
	case strings.HasPrefix(t, "f:"):
		b, err := strconv.ParseUint(t[2:], 16, 64)
		return math.Float64frombits(b), err
	case strings.HasPrefix(t, "s:"):
		return unhex(t[2:])
	case strings.HasPrefix(t, "b:"):
		return t[2:] == "1", nil
	case strings.HasPrefix(t, "d:"):
		s, err := unhex(t[2:])
		if err != nil {
			return nil, err
		}
		return time.Parse(time.RFC3339Nano, s)
	case strings.HasPrefix(t, "a:"):
		n, err := strconv.Atoi(t[2:])
		if err != nil || n < 0 || n > 1000 {
			return nil, fmt.Errorf("bad array length")
		}
		out := make([]interface{}, 0, n)
		for i := 0; i < n; i++ {
			e, err := decValue(toks, pos)
			if err != nil {
				return nil, err
			}
			out = append(out, e)
		}
		return out, nil
	case strings.HasPrefix(t, "A:"):
		n, err := strconv.Atoi(t[2:])
		if err != nil || n < 0 || n > 1000 {
			return nil, fmt.Errorf("bad table-array length")
		}
		out := make([]map[string]interface{}, 0, n)
		for i := 0; i < n; i++ {
			e, err := decValue(toks, pos)
			if err != nil {
				return nil, err
			}
			m, isTable := e.(map[string]interface{})
			if !isTable {
				return nil, fmt.Errorf("table expected in an array of tables")
			}
			out = append(out, m)
		}
		return out, nil
	case strings.HasPrefix(t, "t:"):
		n, err := strconv.Atoi(t[2:])
		if err != nil || n < 0 || n > 1000 {
			return nil, fmt.Errorf("bad table length")
		}
		out := map[string]interface{}{}
		for i := 0; i < n; i++ {
			if *pos >= len(toks) {
				return nil, fmt.Errorf("table key expected")
			}
			k, err := decKey(toks[*pos])
			if err != nil {
				return nil, err
			}
			*pos++
			e, err := decValue(toks, pos)
			if err != nil {
				return nil, err
			}
			out[k] = e
		}
		return out, nil
	}
	return nil, fmt.Errorf("bad value token %q", t)
}

// sameValue: identity of Go values as the protocol sees them (floats by bit pattern).
func sameValue(a, b interface{}) bool { return encValue(a) == encValue(b) }

// valueClass is the coarse, seed-independent rendering used in failure signatures.
func valueClass(v interface{}) string {
	switch x := v.(type) {
	case int64:
		switch {
		case x == 0:
			return "0"
		case x == 1:
			return "1"
		case x >= 1<<32:
			return "huge"
		case x > 1:
			return "pos"
		}
		return "neg"
	case float64:
		switch {
		case math.IsNaN(x):
			return "nan"
		case math.IsInf(x, 0):
			return "inf"
		case x == 0:
			return "0"
		case x == 1:
			return "1"
		case math.Abs(x) >= 1e300:
			return "huge"
		case math.Abs(x) < 1e-300:
			return "tiny"
		case x < 0:
			return "neg"
		case x < 1:
			return "fraction"
		}
		return "pos"
	case string:
		if x == "" {
			return "empty"
		}
		return "string"
	case bool:
		return strconv.FormatBool(x)
	}
	return "other"
}

// ---------------------------------------------------------------- components

// setResult: what one SetParameters call did (its returned error, if the method returns one; the panic text)
type setResult struct {
	ret      error
	hasRet   bool
	panicked string
}

// nestedPart: a component the instance's SetParameters hands every user map on to
type nestedPart struct {
	comp string // the stand-alone component with the same specification table (declared to the model under this name)
	p    func() *parameters.Parameters
}

type paramInst struct {
	comp   *paramComp
	kind   string // comp | all | enforced
	set    func(parameters.Map) setResult
	p      func() *parameters.Parameters
	errs   func() error
	use    func(h *paramHarness, inst *paramInst) string
	nested []nestedPart
	maps   []parameters.Map // user maps applied so far
}

// setReturning wraps a SetParameters that returns an error; setSilently one that returns nothing.
func setReturning(f func(parameters.Map) error) func(parameters.Map) setResult {
	return func(m parameters.Map) (r setResult) {
		r.hasRet = true
		r.panicked = protect(func() { r.ret = f(m) })
		return r
	}
}

func setSilently(f func(parameters.Map)) func(parameters.Map) setResult {
	return func(m parameters.Map) (r setResult) {
		r.panicked = protect(func() { f(m) })
		return r
	}
}

type paramComp struct {
	name   string
	mode   string
	post   string
	offers []string
	fresh  func() *paramInst
}

func (i *paramInst) getInt(k string) (int64, bool) {
	v, ok := i.p().VerifParamMap()[k].(int64)
	return v, ok
}

func scriptedRand() *cremrand.Rand { return cremrand.New(&lcgSource{s: 12345}) }

type lcgSource struct{ s uint64 }

func (l *lcgSource) Int63() int64 {
	l.s = l.s*6364136223846793005 + 1442695040888963407
	return int64(l.s >> 1)
}
func (l *lcgSource) Seed(int64) {}

var limitKeys = []string{
	catchParams.MaximumSedimentProduction, catchParams.MaximumParticulateNitrogenProduction,
	catchParams.MaximumDissolvedNitrogenProduction, catchParams.MaximumTotalNitrogenProduction,
	catchParams.MaximumImplementationCost, catchParams.MaximumOpportunityCost,
}

func paramComponents() []*paramComp {
	var comps []*paramComp
	add := func(c *paramComp) { comps = append(comps, c) }

	add(&paramComp{name: "annealer", mode: "enforced", post: "none", fresh: func() *paramInst {
		sa := new(annealers.SimpleAnnealer)
		sa.Initialise()
		return &paramInst{
			set:  setReturning(sa.SetParameters),
			p:    sa.VerifParameters,
			errs: sa.ParameterErrors,
			use:  annealerUse(sa),
		}
	}})

	// the annealer as crem wires it: one SetParameters fans the user map out to the explorer and on to its coolant
	add(&paramComp{name: "annealer+kirk", mode: "enforced", post: "none", fresh: func() *paramInst {
		sa := new(annealers.SimpleAnnealer)
		sa.Initialise()
		ke := expKirk.New().WithModel(dumb.NewModel())
		ke.SetLogHandler(loggers.NewNullLogger())
		sa.SetSolutionExplorer(ke)
		return &paramInst{
			set:    setReturning(sa.SetParameters),
			p:      sa.VerifParameters,
			errs:   sa.ParameterErrors,
			use:    annealerUse(sa),
			nested: []nestedPart{{"kirkexplorer", ke.VerifParameters}, {"kirkcoolant", ke.Coolant.VerifCoolantParameters}},
		}
	}})
	add(&paramComp{name: "annealer+supp", mode: "enforced", post: "none", fresh: func() *paramInst {
		sa := new(annealers.SimpleAnnealer)
		sa.Initialise()
		co := coolSupp.NewCoolant()
		se := expSupp.New().WithCoolant(co).WithModel(modumb.NewModel().WithParameters(parameters.Map{modumbParams.NumberOfPlanningUnits: int64(4)}))
		se.SetLogHandler(loggers.NewNullLogger())
		sa.SetSolutionExplorer(se)
		return &paramInst{
			set:    setReturning(sa.SetParameters),
			p:      sa.VerifParameters,
			errs:   sa.ParameterErrors,
			use:    annealerUse(sa),
			nested: []nestedPart{{"suppexplorer", se.VerifParameters}, {"suppcoolant", co.VerifCoolantParameters}},
		}
	}})
	add(&paramComp{name: "annealer+avg", mode: "enforced", post: "none", fresh: func() *paramInst {
		sa := new(annealers.SimpleAnnealer)
		sa.Initialise()
		co := coolAveraged.NewCoolant()
		se := expSupp.New().WithCoolant(co).WithModel(modumb.NewModel().WithParameters(parameters.Map{modumbParams.NumberOfPlanningUnits: int64(4)}))
		se.SetLogHandler(loggers.NewNullLogger())
		sa.SetSolutionExplorer(se)
		return &paramInst{
			set:    setReturning(sa.SetParameters),
			p:      sa.VerifParameters,
			errs:   sa.ParameterErrors,
			use:    annealerUse(sa),
			nested: []nestedPart{{"suppexplorer", se.VerifParameters}, {"avgcoolant", co.VerifCoolantParameters}},
		}
	}})

	add(&paramComp{name: "kirkexplorer", mode: "enforced", post: "offered k:" + hexS(expKirk.DecisionVariableName),
		offers: []string{"ObjectiveValue"}, fresh: func() *paramInst {
			ke := expKirk.New().WithModel(dumb.NewModel())
			ke.SetLogHandler(loggers.NewNullLogger())
			return &paramInst{
				set:    setReturning(ke.SetParameters),
				p:      ke.VerifParameters,
				errs:   ke.ParameterErrors,
				nested: []nestedPart{{"kirkcoolant", ke.Coolant.VerifCoolantParameters}},
				use: func(h *paramHarness, inst *paramInst) string {
					return protect(func() {
						ke.Initialise()
						ke.SetRandomNumberGenerator(scriptedRand())
						for i := 0; i < 30; i++ {
							ke.TryRandomChange()
							ke.CoolDown()
						}
					})
				},
			}
		}})

	add(&paramComp{name: "suppexplorer", mode: "enforced", post: "none", fresh: func() *paramInst {
		co := coolSupp.NewCoolant()
		se := expSupp.New().WithCoolant(co).WithModel(modumb.NewModel().WithParameters(parameters.Map{modumbParams.NumberOfPlanningUnits: int64(4)}))
		se.SetLogHandler(loggers.NewNullLogger())
		return &paramInst{
			set:    setReturning(se.SetParameters),
			p:      se.VerifParameters,
			errs:   se.ParameterErrors,
			nested: []nestedPart{{"suppcoolant", co.VerifCoolantParameters}},
			use: func(h *paramHarness, inst *paramInst) string {
				return protect(func() {
					se.Initialise()
					for i := 0; i < 60; i++ {
						se.TryRandomChange()
						se.CoolDown()
					}
				})
			},
		}
	}})

	add(&paramComp{name: "kirkcoolant", mode: "enforced", post: "none", fresh: func() *paramInst {
		co := new(coolKirk.Coolant).Initialise()
		return &paramInst{
			set:  setSilently(func(m parameters.Map) { co.WithParameters(m) }), // the Kirkpatrick coolant has no SetParameters
			p:    co.VerifCoolantParameters,
			errs: co.ParameterErrors,
			use: func(h *paramHarness, inst *paramInst) string {
				return protect(func() {
					co.SetRandomNumberGenerator(scriptedRand())
					for i := 0; i < 10; i++ {
						co.DecideIfAcceptable(float64(i) - 3)
						co.CoolDown()
					}
				})
			},
		}
	}})

	add(&paramComp{name: "suppcoolant", mode: "enforced", post: "none", fresh: func() *paramInst {
		co := coolSupp.NewCoolant()
		return &paramInst{
			set:  setReturning(co.SetParameters),
			p:    co.VerifCoolantParameters,
			errs: co.ParameterErrors,
			use: func(h *paramHarness, inst *paramInst) string {
				return protect(func() {
					co.SetRandomNumberGenerator(scriptedRand())
					for i := 0; i < 10; i++ {
						co.DecideIfAcceptable([]float64{float64(i) - 3, 1, 0})
						co.CoolDown()
					}
				})
			},
		}
	}})

	add(&paramComp{name: "avgcoolant", mode: "enforced", post: "none", fresh: func() *paramInst {
		co := coolAveraged.NewCoolant()
		return &paramInst{
			set:  setReturning(co.SetParameters),
			p:    co.VerifCoolantParameters,
			errs: co.ParameterErrors,
			use: func(h *paramHarness, inst *paramInst) string {
				return protect(func() {
					co.SetRandomNumberGenerator(scriptedRand())
					for i := 0; i < 10; i++ {
						co.DecideIfAcceptable([]float64{float64(i) - 3, 1, 0})
						co.CoolDown()
					}
				})
			},
		}
	}})

	postCatch := "atmostone " + strconv.Itoa(len(limitKeys))
	for _, k := range limitKeys {
		postCatch += " k:" + hexS(k)
	}
	add(&paramComp{name: "catchment", mode: "all", post: postCatch, fresh: func() *paramInst {
		m := catchment.NewModel()
		return &paramInst{
			set:  setReturning(m.SetParameters),
			p:    m.VerifParameters,
			errs: m.ParameterErrors,
			use: func(h *paramHarness, inst *paramInst) string {
				failure := protect(func() {
					m.Initialise(model.Random)
					if m.ParameterErrors() != nil {
						panic("errors-after-initialise: " + clip(m.ParameterErrors().Error(), 300))
					}
					m.Randomize()
					for i := 0; i < 40; i++ {
						m.TryRandomChange()
						if ok, _ := m.ChangeIsValid(); ok && i%2 == 0 {
							m.AcceptChange()
						} else {
							m.RevertChange()
						}
					}
					failIfNotFinite(m)
				})
				return failure
			},
		}
	}})

	add(&paramComp{name: "dumb", mode: "all", post: "none", fresh: func() *paramInst {
		m := dumb.NewModel()
		return &paramInst{
			set:  setReturning(m.SetParameters),
			p:    m.VerifParameters,
			errs: m.ParameterErrors,
			use: func(h *paramHarness, inst *paramInst) string {
				return protect(func() {
					m.Initialise(model.Random)
					m.SetRandomNumberGenerator(scriptedRand())
					for i := 0; i < 20; i++ {
						m.TryRandomChange()
						if i%2 == 0 {
							m.AcceptChange()
						} else {
							m.RevertChange()
						}
					}
					failIfNotFinite(m)
				})
			},
		}
	}})

	add(&paramComp{name: "modumb", mode: "all", post: "none", fresh: func() *paramInst {
		m := modumb.NewModel()
		return &paramInst{
			set:  setReturning(m.SetParameters),
			p:    m.VerifParameters,
			errs: m.ParameterErrors,
			use: func(h *paramHarness, inst *paramInst) string {
				run := func() string {
					return protect(func() {
						m.Initialise(model.Random)
						for i := 0; i < 20; i++ {
							m.TryRandomChange()
							if i%2 == 0 {
								m.AcceptChange()
							} else {
								m.RevertChange()
							}
						}
						failIfNotFinite(m)
					})
				}
				if n, ok := inst.getInt(modumbParams.NumberOfPlanningUnits); ok && n > 20000 {
					return h.heavy(inst, run)
				}
				return run()
			},
		}
	}})
	return comps
}

// failIfNotFinite: a model that was given error-free parameters and ran must not hold NaN or infinite decision
// variables (a silent failure on a parameter's range: nothing panics, every result is garbage).
func failIfNotFinite(m model.Model) {
	vars := m.NameMappedVariables()
	if vars == nil {
		return
	}
	names := make([]string, 0, len(*vars))
	for name := range *vars {
		names = append(names, name)
	}
	sort.Strings(names)
	for _, name := range names {
		if v := (*vars)[name].Value(); math.IsNaN(v) || math.IsInf(v, 0) {
			panic(fmt.Sprintf("non-finite-result: decision variable %s = %v after an error-free parameterisation", name, v))
		}
	}
}

func annealerUse(sa *annealers.SimpleAnnealer) func(h *paramHarness, inst *paramInst) string {
	return func(h *paramHarness, inst *paramInst) string {
		if n, ok := inst.getInt(annealers.MaximumIterations); ok && n > 5000 {
			h.c.Stat("use skipped: annealer MaximumIterations too large to run")
			return ""
		}
		return protect(func() { sa.Anneal() })
	}
}

// rawInst is a bare parameters.Parameters enforcing a component's live table, driven through
// AssignAllUserValues or AssignOnlyEnforcedUserValues directly (so both loops meet every table).
func rawInst(c *paramComp, mode string) *paramInst {
	specs := c.fresh().p().VerifSpecifications()
	p := new(parameters.Parameters).Initialise("verif raw").Enforcing(&specs)
	return &paramInst{
		set: setSilently(func(m parameters.Map) {
			if mode == "all" {
				p.AssignAllUserValues(m)
			} else {
				p.AssignOnlyEnforcedUserValues(m)
			}
		}),
		p:    func() *parameters.Parameters { return p },
		errs: p.ValidationErrors,
	}
}

// ---------------------------------------------------------------- validator identification

func samePtr(a, b specification.SpecValidator) bool {
	return reflect.ValueOf(a).Pointer() == reflect.ValueOf(b).Pointer()
}

// validatorToken names the model's validator kind for a Go validator function.  Exported validators
// are recognised by function identity; their bounds are the model's transcription of Validators.go,
// not read back from the code (a changed bound must show up as a disagreement).  The two private
// validators are recognised by symbol name; the bank-erosion bounds are recomputed here from the
// documented expressions.
// pinnedPrivateValidators: the keys whose validators are PRIVATE functions of the pinned code, with the bounds transcribed from it.
// Such a key's validator may be rebuilt (a factory, a closure, another name) but must still do exactly this: a validator of
// another range on one of these keys is not a new specification, it is the old one got wrong.
var pinnedPrivateValidators = map[string]string{
	"YearsOfErosion":         "intbounds 1 9223372036854775807",
	"BankErosionFudgeFactor": "decbounds " + floatBits(math.Pow(10, -5)) + " " + floatBits(5*math.Pow(10, -4)),
}

func validatorTokenOf(s specification.Specification) string {
	tok := validatorToken(s.Validator)
	if want, pinned := pinnedPrivateValidators[s.Key]; pinned && tok != want {
		return "unknown:" + hexS("validator of "+s.Key+" behaves as ["+tok+"], the pinned code's as ["+want+"]")
	}
	return tok
}

func validatorToken(v specification.SpecValidator) string {
	switch {
	case v == nil:
		return "unknown:nil"
	case samePtr(v, specification.IsDecimal):
		return "decimal"
	case samePtr(v, specification.IsDecimalBetweenZeroAndOne):
		return "dec01"
	case samePtr(v, specification.IsNonNegativeDecimal):
		return "decnonneg"
	case samePtr(v, specification.IsInteger):
		return "integer"
	case samePtr(v, specification.IsNonNegativeInteger):
		return "intnonneg"
	case samePtr(v, specification.IsString):
		return "string"
	case samePtr(v, specification.IsBoolean):
		return "boolean"
	case samePtr(v, specification.IsReadableFile):
		return "readable"
	}
	name := runtime.FuncForPC(reflect.ValueOf(v).Pointer()).Name()
	switch {
	case strings.HasSuffix(name, "explorer/kirkpatrick.isOptimisationDirection"):
		return "direction"
	case strings.HasSuffix(name, "catchment/parameters.validateIsYearsOfErosion"):
		return "intbounds 1 9223372036854775807"
	case strings.HasSuffix(name, "catchment/parameters.validateIsBankErosionFudgeFactor"):
		return "decbounds " + floatBits(math.Pow(10, -5)) + " " + floatBits(5*math.Pow(10, -4))
	}
	// not a function this table knows by identity or by name (a validator built by a factory, a renamed one): recognise it by
	// what it DOES.  The answer is only a candidate: every later `vdirect` / assignment line compares the model's validator of
	// that kind with this function on many values, so a wrong recognition shows up as a disagreement.
	if tok := validatorTokenByBehaviour(v); tok != "" {
		return tok
	}
	return "unknown:" + hexS(name)
}

// validatorProbes: values of every dynamic type a TOML document can give a parameter, with the boundaries the known kinds have.
func validatorProbes() []interface{} {
	return []interface{}{
		nil, true, false, "", "x", "Minimising", "Maximising", []interface{}{int64(1)}, map[string]interface{}{"a": 1.0},
		int64(math.MinInt64), int64(-1), int64(0), int64(1), int64(2), int64(1000), int64(math.MaxInt64),
		math.Inf(-1), -math.MaxFloat64, -1.0, -math.SmallestNonzeroFloat64, math.Copysign(0, -1), 0.0, math.SmallestNonzeroFloat64,
		1e-5, 2e-4, 5e-4, 0.5, 1.0, math.Nextafter(1, 2), 2.0, 1e6, math.MaxFloat64, math.Inf(1), math.NaN(),
	}
}

func validatorSignature(v specification.SpecValidator) string {
	var sb strings.Builder
	for _, x := range validatorProbes() {
		verdict := "p"
		protect(func() { verdict = classifyVerdict(v("probe", x))[:1] })
		sb.WriteString(verdict)
	}
	return sb.String()
}

func validatorTokenByBehaviour(v specification.SpecValidator) string {
	sig := validatorSignature(v)
	for _, tok := range []string{"decimal", "dec01", "decnonneg", "integer", "intnonneg", "string", "boolean"} {
		if known, _ := directValidator([]string{tok}); known != nil && validatorSignature(known) == sig {
			return tok
		}
	}
	accepts := func(x interface{}) bool {
		ok := false
		protect(func() { ok = classifyVerdict(v("probe", x)) == "valid" })
		return ok
	}
	// an interval of decimals: the bounds by bisection over the ordering of the float64 bit patterns
	ord := func(f float64) uint64 { // order-preserving map float64 -> uint64
		b := math.Float64bits(f)
		if b>>63 == 1 {
			return ^b
		}
		return b | 1<<63
	}
	unord := func(u uint64) float64 {
		if u>>63 == 1 {
			return math.Float64frombits(u &^ (1 << 63))
		}
		return math.Float64frombits(^u)
	}
	for _, inside := range []float64{0.5, 2e-4, 1.0, 0.0, 1000.0, -1.0} {
		if !accepts(inside) || accepts("x") || accepts(int64(1)) || accepts(true) {
			continue
		}
		lo, hi := ord(math.Inf(-1)), ord(inside) // smallest accepted in [lo, hi], acceptance assumed to be an interval
		for lo < hi {
			mid := lo + (hi-lo)/2
			if accepts(unord(mid)) {
				hi = mid
			} else {
				lo = mid + 1
			}
		}
		lower := unord(lo)
		lo, hi = ord(inside), ord(math.Inf(1))
		for lo < hi {
			mid := lo + (hi-lo+1)/2
			if accepts(unord(mid)) {
				lo = mid
			} else {
				hi = mid - 1
			}
		}
		upper := unord(lo)
		tok := "decbounds " + floatBits(lower) + " " + floatBits(upper)
		if known, _ := directValidator(strings.Fields(tok)); known != nil && validatorSignature(known) == sig {
			return tok
		}
	}
	for _, inside := range []int64{1, 0, 1000, -1} {
		if !accepts(inside) || accepts("x") || accepts(1.0) || accepts(true) {
			continue
		}
		lo, hi := int64(math.MinInt64), inside
		for lo < hi {
			mid := lo + int64((uint64(hi)-uint64(lo))/2)
			if accepts(mid) {
				hi = mid
			} else {
				lo = mid + 1
			}
		}
		lower := lo
		lo, hi = inside, int64(math.MaxInt64)
		for lo < hi {
			mid := lo + int64((uint64(hi)-uint64(lo)+1)/2)
			if accepts(mid) {
				lo = mid
			} else {
				hi = mid - 1
			}
		}
		tok := fmt.Sprintf("intbounds %d %d", lower, lo)
		if known, _ := directValidator(strings.Fields(tok)); known != nil && validatorSignature(known) == sig {
			return tok
		}
	}
	return ""
}

// directValidator maps validator tokens to the exported Go validator (with explicit bounds for the two general ones).
func directValidator(w []string) (specification.SpecValidator, []string) {
	if len(w) == 0 {
		return nil, nil
	}
	switch w[0] {
	case "decimal":
		return specification.IsDecimal, w[1:]
	case "dec01":
		return specification.IsDecimalBetweenZeroAndOne, w[1:]
	case "decnonneg":
		return specification.IsNonNegativeDecimal, w[1:]
	case "integer":
		return specification.IsInteger, w[1:]
	case "intnonneg":
		return specification.IsNonNegativeInteger, w[1:]
	case "string":
		return specification.IsString, w[1:]
	case "boolean":
		return specification.IsBoolean, w[1:]
	case "readable":
		return specification.IsReadableFile, w[1:]
	case "decbounds":
		if len(w) < 3 {
			return nil, nil
		}
		lo, e1 := strconv.ParseUint(w[1], 16, 64)
		hi, e2 := strconv.ParseUint(w[2], 16, 64)
		if e1 != nil || e2 != nil {
			return nil, nil
		}
		return func(k string, v interface{}) error {
			return specification.IsDecimalWithInclusiveBounds(k, v, math.Float64frombits(lo), math.Float64frombits(hi))
		}, w[3:]
	case "intbounds":
		if len(w) < 3 {
			return nil, nil
		}
		lo, e1 := strconv.ParseInt(w[1], 10, 64)
		hi, e2 := strconv.ParseInt(w[2], 10, 64)
		if e1 != nil || e2 != nil {
			return nil, nil
		}
		return func(k string, v interface{}) error { return specification.IsIntegerWithInclusiveBounds(k, v, lo, hi) }, w[3:]
	}
	return nil, nil
}

func validatorTy(tok string) string {
	switch strings.Fields(tok)[0] {
	case "decimal", "dec01", "decnonneg", "decbounds":
		return "float"
	case "integer", "intnonneg", "intbounds":
		return "int"
	case "string", "readable", "direction":
		return "str"
	case "boolean":
		return "bool"
	}
	return ""
}

// ---------------------------------------------------------------- harness state

type paramHarness struct {
	c         *Ctx
	comps     map[string]*paramComp
	order     []*paramComp
	declared  map[string]bool
	specs     map[string]specification.Specifications // live table per component
	insts     map[string]*paramInst
	instOps   map[string][]string // op lines that built each instance (for replays / child runs)
	readable  map[string]bool     // strings already classified
	nextInst  int
	child     bool
	usesLeft  map[string]int
	reported  map[string]bool
	heavyMemo map[string]string
	nestedOf  map[string][]string // component -> the components its SetParameters forwards to
}

// specFor: the specification a user key meets in the component or, failing that, in one it forwards to.
func (h *paramHarness) specFor(comp, key string) (specification.Specification, bool) {
	if s, ok := h.specs[comp][key]; ok {
		return s, true
	}
	for _, n := range h.nestedOf[comp] {
		if s, ok := h.specs[n][key]; ok {
			return s, true
		}
	}
	return specification.Specification{}, false
}

// nestedKeys: the keys only the forwarded-to components specify (sorted).
func (h *paramHarness) nestedKeys(comp string) []string {
	seen := map[string]bool{}
	var out []string
	for _, n := range h.nestedOf[comp] {
		for k := range h.specs[n] {
			if _, own := h.specs[comp][k]; !own && !seen[k] {
				seen[k] = true
				out = append(out, k)
			}
		}
	}
	sort.Strings(out)
	return out
}

// isReadable: the file-system oracle of the model (`Env.readable`).  WHAT counts as a readable file (does a directory?) is the
// validator's own business and not the property's: the oracle is the answer of the code under test's IsReadableFile for the
// string, with os.Open as the fall-back when that panics.
func isReadable(s string) bool {
	verdict := ""
	if p := protect(func() { verdict = classifyVerdict(specification.IsReadableFile("oracle", s)) }); p == "" {
		return verdict == "valid"
	}
	f, err := os.Open(s)
	if err != nil {
		return false
	}
	f.Close()
	return true
}

// noteStrings sends the file-system oracle for every string in the value (before the op that uses it).
func (h *paramHarness) noteStrings(v interface{}) {
	switch x := v.(type) {
	case string:
		if _, seen := h.readable[x]; !seen {
			h.readable[x] = isReadable(x)
			if h.readable[x] {
				h.c.Op("readable s:"+hexS(x), "ok")
			}
		}
	}
}

func (h *paramHarness) ensureComp(name string) *paramComp {
	c := h.comps[name]
	if c == nil {
		return nil
	}
	if h.declared[name] {
		return c
	}
	h.declared[name] = true
	var inst *paramInst
	if p := protect(func() { inst = c.fresh() }); p != "" {
		// the component cannot even be constructed with its own defaults (e.g. a default of the wrong dynamic type)
		h.c.Fail("getter-total", "params:"+name+":construction-panic", name+": constructing the component with its default parameters panicked: "+p, []string{"load m0 " + name + " comp"})
		delete(h.comps, name)
		return nil
	}
	specs := inst.p().VerifSpecifications()
	h.specs[name] = specs
	h.c.Op("comp "+name+" "+c.mode+" "+c.post, "ok")
	if len(c.offers) > 0 {
		line := "offers " + name + " " + strconv.Itoa(len(c.offers))
		for _, o := range c.offers {
			line += " s:" + hexS(o)
		}
		h.c.Op(line, "ok")
	}
	keys := make([]string, 0, len(specs))
	for k := range specs {
		keys = append(keys, k)
	}
	sort.Strings(keys)
	for _, k := range keys {
		s := specs[k]
		tok := validatorTokenOf(s)
		h.noteStrings(s.DefaultValue)
		if s.Key != k {
			h.c.Fail("spec-table", "params:"+name+":"+k+":key-mismatch", "specification stored under a key different from its Key field: "+s.Key, nil)
		}
		h.c.Op(fmt.Sprintf("spec %s k:%s %s %s %s", name, hexS(k), b2s(s.IsOptional), tok, encValue(s.DefaultValue)), "ok")
		h.c.Op(fmt.Sprintf("spect %s k:%s", name, hexS(k)), "ok")
		h.c.Stat("spec " + name + " validator=" + strings.Fields(tok)[0] + " optional=" + b2s(s.IsOptional))
		if want, pinned := pinnedPrivateValidators[k]; pinned && strings.HasPrefix(tok, "unknown:") && s.Validator != nil {
			// the search for a failing input: a value on which this key's validator and the pinned range disagree
			if ref, _ := directValidator(strings.Fields(want)); ref != nil {
				wf := strings.Fields(want)
				var around []interface{}
				if wf[0] == "decbounds" {
					lo, _ := strconv.ParseUint(wf[1], 16, 64)
					hi, _ := strconv.ParseUint(wf[2], 16, 64)
					l, u := math.Float64frombits(lo), math.Float64frombits(hi)
					around = []interface{}{l, u, math.Nextafter(l, math.Inf(-1)), math.Nextafter(u, math.Inf(1)), (l + u) / 2, l / 2, u * 2}
				} else {
					lo, _ := strconv.ParseInt(wf[1], 10, 64)
					hi, _ := strconv.ParseInt(wf[2], 10, 64)
					around = []interface{}{lo, hi, lo - 1, lo + 1, hi - 1}
				}
				for _, x := range append(around, validatorProbes()...) {
					got, exp := "panic", "panic"
					protect(func() { got = classifyVerdict(s.Validator(k, x)) })
					protect(func() { exp = classifyVerdict(ref(k, x)) })
					if got != exp {
						h.c.Fail("C18:value-has-the-range-its-specification-demands", "params:"+name+":"+k+":range-not-enforced",
							fmt.Sprintf("component %s: the validator of %s judges %#v %s; the range the specification of the pinned code demands (%s) makes it %s", name, k, x, got, want, exp),
							[]string{"load m0 " + name + " comp", "validate " + name + " k:" + hexS(k) + " " + encValue(x)})
						break
					}
				}
			}
		}
		if strings.HasPrefix(tok, "unknown:") {
			// the tie is broken (the model cannot name this validator), which is not by itself a failing input
			h.c.Fail("structural:spec-table", "params:"+name+":"+k+":unknown-validator",
				"the validator of this key is not one the model knows (the specification table no longer corresponds to Crem/Model/Params.lean); extend the model and validatorToken if the change is intended", nil)
			continue
		}
		// the decidable hypothesis, evaluated directly on the implementation as well
		if !s.IsOptional && s.Validator != nil {
			verdict := classifyVerdict(s.Validator(k, s.DefaultValue))
			if verdict != "valid" {
				h.c.Fail("specs-well-formed", "params:"+name+":"+k+":default-fails-own-validator",
					fmt.Sprintf("component %s: the default %#v of the non-optional parameter %s is rejected by the parameter's own validator", name, s.DefaultValue, k),
					[]string{"load m0 " + name + " comp", "validate " + name + " k:" + hexS(k) + " " + encValue(s.DefaultValue)})
			}
		}
	}
	h.c.Op("specsdone "+name, strconv.Itoa(len(keys)))
	// the components this one forwards its user maps to: declared as well, and their live tables must be the
	// tables of the stand-alone components they are declared as (else the tie to the model is broken)
	for i, n := range inst.nested {
		h.nestedOf[name] = append(h.nestedOf[name], n.comp)
		if h.ensureComp(n.comp) == nil {
			h.c.Fail("structural:fan-out", "params:"+name+":nested-component-unavailable", fmt.Sprintf("%s: nested part %d (%s) cannot be declared", name, i, n.comp), nil)
			continue
		}
		if got, want := tableText(n.p().VerifSpecifications()), tableText(h.specs[n.comp]); got != want {
			h.c.Fail("structural:fan-out", "params:"+name+":nested-table-differs",
				fmt.Sprintf("%s: the specification table of nested part %d differs from the stand-alone %s's\nnested: %s\nalone:  %s", name, i, n.comp, got, want), nil)
		}
	}
	return c
}

// tableText: a specification table in canonical text form (keys sorted; validator kind, optional flag, default).
func tableText(specs specification.Specifications) string {
	keys := make([]string, 0, len(specs))
	for k := range specs {
		keys = append(keys, k)
	}
	sort.Strings(keys)
	var sb strings.Builder
	for _, k := range keys {
		s := specs[k]
		fmt.Fprintf(&sb, "%s %s %s %s; ", k, validatorTokenOf(s), b2s(s.IsOptional), encValue(s.DefaultValue))
	}
	return sb.String()
}

func classifyVerdict(e error) string {
	switch x := e.(type) {
	case *specification.MissingSpecificationError:
		return "unsupported"
	case specification.ValidationError:
		if x.IsValid() {
			return "valid"
		}
		return "invalid"
	}
	return "invalid"
}

func errClass(e error) int {
	switch e.(type) {
	case *specification.ValidSpecificationError:
		return 0
	case *specification.MissingSpecificationError:
		return 1
	}
	return 2
}

func (h *paramHarness) state(inst *paramInst) string { return stateOf(inst.p()) }

func stateOf(p *parameters.Parameters) string {
	var cnt [3]int
	for _, e := range p.VerifValidationErrors() {
		cnt[errClass(e)]++
	}
	m := p.VerifParamMap()
	keys := make([]string, 0, len(m))
	for k := range m {
		keys = append(keys, k)
	}
	sort.Strings(keys)
	var sb strings.Builder
	fmt.Fprintf(&sb, "errs %d %d %d map %d", cnt[0], cnt[1], cnt[2], len(keys))
	for _, k := range keys {
		sb.WriteString(" k:" + hexS(k) + " " + encValue(m[k]))
	}
	return sb.String()
}

// checkWT: the invariant of the theorem, evaluated on the implementation with its own validators.
func (h *paramHarness) checkWT(inst *paramInst, op string) {
	h.checkWTOf(inst, inst.comp.name, inst.p(), op)
	for i, n := range inst.nested {
		h.checkWTOf(inst, fmt.Sprintf("%s[part %d: %s]", inst.comp.name, i, n.comp), n.p(), op)
	}
}

func (h *paramHarness) checkWTOf(inst *paramInst, name string, p *parameters.Parameters, op string) {
	specs := p.VerifSpecifications()
	m := p.VerifParamMap()
	for k, v := range m {
		if classifyVerdict(specs.Validate(k, v)) != "valid" {
			if s, ok := specs[k]; ok && sameValue(v, s.DefaultValue) {
				continue // an ill-formed default: reported once by ensureComp (default-fails-own-validator)
			}
			h.c.Fail("well-typed-invariant", "params:"+name+":stored-value-fails-validator",
				fmt.Sprintf("%s: stored %s = %#v is not accepted by the specification", name, k, v), h.opsOf(inst, op))
		}
	}
	for k, s := range specs {
		if _, present := m[k]; !present && !s.IsOptional {
			h.c.Fail("well-typed-invariant", "params:"+name+":non-optional-key-missing", name+": "+k, h.opsOf(inst, op))
		}
	}
}

func (h *paramHarness) opsOf(inst *paramInst, op string) []string {
	for id, i := range h.insts {
		if i == inst {
			out := append([]string(nil), h.instOps[id]...)
			if op != "" && (len(out) == 0 || out[len(out)-1] != op) {
				out = append(out, op)
			}
			return out
		}
	}
	return []string{op}
}

// ---------------------------------------------------------------- op execution

func (h *paramHarness) exec(line string) {
	w := strings.Fields(line)
	if len(w) == 0 {
		return
	}
	c := h.c
	bad := func() { c.Op(line, "bad-op") }
	switch w[0] {
	case "comp", "spec", "spect", "specsdone", "readable", "offers", "part", "pstate", "perrs", "lateerr":
		return // regenerated from the live code by ensureComp / noteStrings / load / set / use
	case "load":
		if len(w) != 4 {
			bad()
			return
		}
		comp := h.ensureComp(w[2])
		if comp == nil {
			bad()
			return
		}
		var inst *paramInst
		switch w[3] {
		case "comp":
			inst = comp.fresh()
		case "all", "enforced":
			inst = rawInst(comp, w[3])
		default:
			bad()
			return
		}
		inst.comp, inst.kind = comp, w[3]
		h.insts[w[1]] = inst
		h.instOps[w[1]] = []string{line}
		c.Op(line, h.state(inst))
		if w[3] == "comp" {
			for _, n := range inst.nested {
				c.Op("part "+w[1]+" "+n.comp, stateOf(n.p()))
			}
		} else {
			inst.nested = nil
		}
		h.checkWT(inst, line)
	case "set":
		if len(w) < 3 {
			bad()
			return
		}
		inst := h.insts[w[1]]
		n, err := strconv.Atoi(w[2])
		if inst == nil || err != nil {
			bad()
			return
		}
		user := parameters.Map{}
		pos := 3
		for i := 0; i < n; i++ {
			if pos >= len(w) {
				bad()
				return
			}
			k, err := decKey(w[pos])
			pos++
			if err != nil {
				bad()
				return
			}
			v, err := decValue(w, &pos)
			if err != nil {
				bad()
				return
			}
			if _, dup := user[k]; dup {
				bad()
				return
			}
			user[k] = v
		}
		if pos != len(w) {
			bad()
			return
		}
		for _, v := range user {
			h.noteStrings(v)
		}
		h.instOps[w[1]] = append(h.instOps[w[1]], line)
		h.doSet(inst, user, line)
	case "validate":
		if len(w) < 4 {
			bad()
			return
		}
		comp := h.ensureComp(w[1])
		k, err := decKey(w[2])
		pos := 3
		if comp == nil || err != nil {
			bad()
			return
		}
		v, err := decValue(w, &pos)
		if err != nil || pos != len(w) {
			bad()
			return
		}
		h.noteStrings(v)
		var verdict string
		p := protect(func() { verdict = classifyVerdict(h.specs[comp.name].Validate(k, v)) })
		if p != "" {
			c.Op(line, "panic")
			c.Fail("no-panic", "params:"+comp.name+":validator-panic", p, []string{line})
			return
		}
		c.Op(line, verdict)
		c.Stat("validate " + comp.name + " " + verdict)
		c.Nontrivial("v " + comp.name + " " + w[2] + " " + valueKind(v) + " " + verdict)
	case "vdirect":
		// an exported validator of Validators.go called directly (covers validators no component uses)
		vf, rest := directValidator(w[1:])
		if vf == nil {
			bad()
			return
		}
		pos := 0
		v, err := decValue(rest, &pos)
		if err != nil || pos != len(rest) {
			bad()
			return
		}
		h.noteStrings(v)
		var verdict string
		if p := protect(func() { verdict = classifyVerdict(vf("Key", v)) }); p != "" {
			c.Op(line, "panic")
			c.Fail("no-panic", "params:validator-panic", w[1]+": "+p, []string{line})
			return
		}
		c.Op(line, verdict)
		c.Stat("vdirect " + w[1] + " " + valueKind(v) + " " + verdict)
		c.Nontrivial("d " + w[1] + " " + valueKind(v) + " " + verdict)
	case "get":
		if len(w) != 4 {
			bad()
			return
		}
		inst := h.insts[w[1]]
		k, err := decKey(w[2])
		if inst == nil || err != nil {
			bad()
			return
		}
		var out string
		p := protect(func() {
			switch w[3] {
			case "int":
				out = encValue(inst.p().GetInt64(k))
			case "float":
				out = encValue(inst.p().GetFloat64(k))
			case "str":
				out = encValue(inst.p().GetString(k))
			case "bool":
				out = encValue(inst.p().GetBoolean(k))
			default:
				out = "bad-op"
			}
		})
		if p != "" {
			out = "panic"
			// getter_total on the implementation: declared type + (non-optional or present) must not panic
			if s, ok := inst.p().VerifSpecifications()[k]; ok && validatorTy(validatorTokenOf(s)) == w[3] {
				if _, present := inst.p().VerifParamMap()[k]; present || !s.IsOptional {
					c.Fail("getter-total", "params:"+inst.comp.name+":getter-panic", fmt.Sprintf("%s: Get(%s) as its declared type %s panicked: %s", inst.comp.name, k, w[3], p), h.opsOf(inst, line))
				}
			}
		}
		c.Op(line, out)
		c.Stat("get " + w[3] + " -> " + map[bool]string{true: "panic", false: "value"}[out == "panic"])
	case "has":
		if len(w) != 3 {
			bad()
			return
		}
		inst := h.insts[w[1]]
		k, err := decKey(w[2])
		if inst == nil || err != nil {
			bad()
			return
		}
		c.Op(line, b2s(inst.p().HasEntry(k)))
	case "use":
		if len(w) != 2 || h.insts[w[1]] == nil {
			bad()
			return
		}
		inst := h.insts[w[1]]
		h.instOps[w[1]] = append(h.instOps[w[1]], line)
		errsBefore := len(inst.p().VerifValidationErrors())
		h.doUse(inst, line)
		c.Op(line, "used")
		// a use may be followed by further SetParameters calls: what it did to the parameter set is part of the history
		switch errsNow := len(inst.p().VerifValidationErrors()); {
		case errsNow > errsBefore:
			c.Op(fmt.Sprintf("lateerr %s %d", w[1], errsNow-errsBefore), h.state(inst))
			c.Stat("use appended parameter errors (" + inst.comp.name + ")")
		case errsNow < errsBefore:
			c.Fail("errors-accumulate", "params:"+inst.comp.name+":errors-lost", fmt.Sprintf("%s: %d validation error(s) before the use, %d after", inst.comp.name, errsBefore, errsNow), h.opsOf(inst, line))
		}
		h.checkWT(inst, line)
	default:
		bad()
	}
}

func valueKind(v interface{}) string {
	switch v.(type) {
	case nil:
		return "nil"
	case int64:
		return "int"
	case float64:
		return "float"
	case string:
		return "string"
	case bool:
		return "bool"
	case []interface{}:
		return "array"
	case []map[string]interface{}:
		return "tablearray"
	case map[string]interface{}:
		return "table"
	case time.Time:
		return "datetime"
	}
	return "other"
}

// tableView: one parameter set (the component's own or a nested component's) as it was before a SetParameters call
type tableView struct {
	label      string // how failure details name it
	mode       string
	p          *parameters.Parameters
	before     parameters.Map
	errsBefore []error
}

func viewOf(label, mode string, p *parameters.Parameters) *tableView {
	before := parameters.Map{}
	for k, v := range p.VerifParamMap() {
		before[k] = v
	}
	return &tableView{label: label, mode: mode, p: p, before: before, errsBefore: p.VerifValidationErrors()}
}

// evalClauses evaluates the property's per-call clauses on one parameter set, with the implementation's own
// validators: a valid user value replaces what was stored, an invalid one leaves it and is reported exactly once,
// unsupported keys are reported (all) or ignored (enforced), no other key changes, errors are never lost.
func (h *paramHarness) evalClauses(inst *paramInst, tv *tableView, user parameters.Map, line string) (nValid int, newErrs [3]int, complete bool) {
	c := h.c
	name, label, mode := inst.comp.name, tv.label, tv.mode
	specs := tv.p.VerifSpecifications()
	before, errsBefore := tv.before, tv.errsBefore
	after := tv.p.VerifParamMap()
	errsAfter := tv.p.VerifValidationErrors()
	if len(errsAfter) < len(errsBefore) {
		c.Fail("errors-accumulate", "params:"+name+":errors-lost",
			fmt.Sprintf("%s: %d validation error(s) before the call, %d after: reported errors were discarded", label, len(errsBefore), len(errsAfter)), h.opsOf(inst, line))
		return 0, newErrs, false
	}
	for _, e := range errsAfter[len(errsBefore):] {
		newErrs[errClass(e)]++
	}
	wantInvalid, wantUnsupported := 0, 0
	for k, v := range user {
		verdict := classifyVerdict(specs.Validate(k, v))
		_, specified := specs[k]
		switch {
		case verdict == "valid":
			nValid++
			// a valid user value replaces the default
			if got, ok := after[k]; !ok || !sameValue(got, v) {
				c.Fail("valid-value-replaces-default", "params:"+name+":valid-not-assigned",
					fmt.Sprintf("%s: %s = %#v is valid but the map holds %#v", label, k, v, after[k]), h.opsOf(inst, line))
			}
		default:
			// an invalid one leaves what was there and is reported
			old, had := before[k]
			got, has := after[k]
			if had != has || (had && !sameValue(old, got)) {
				c.Fail("invalid-value-leaves-default", "params:"+name+":invalid-assigned",
					fmt.Sprintf("%s: %s = %#v is %s but the entry changed from %#v to %#v", label, k, v, verdict, old, got), h.opsOf(inst, line))
			}
			if specified {
				wantInvalid++
			} else if mode == "all" {
				wantUnsupported++
			}
		}
	}
	if newErrs[0] != wantInvalid {
		c.Fail("invalid-value-reported-once", "params:"+name+":invalid-error-count",
			fmt.Sprintf("%s: %d rejected value(s) of specified keys, %d validation error(s) added", label, wantInvalid, newErrs[0]), h.opsOf(inst, line))
	}
	if newErrs[1] != wantUnsupported {
		sig := "params:" + name + ":unsupported-not-reported"
		if mode == "enforced" {
			sig = "params:" + name + ":unsupported-reported-in-enforced-mode"
		}
		c.Fail("unsupported-keys-reported", sig,
			fmt.Sprintf("%s (%s mode): %d unsupported key(s) supplied, %d reported", label, mode, wantUnsupported, newErrs[1]), h.opsOf(inst, line))
	}
	// nothing but user keys may change
	for k, v := range after {
		if _, mine := user[k]; mine {
			continue
		}
		if old, had := before[k]; !had || !sameValue(old, v) {
			c.Fail("other-keys-untouched", "params:"+name+":unrelated-key-changed", label+": "+k, h.opsOf(inst, line))
		}
	}
	return nValid, newErrs, true
}

// doSet applies one user map and evaluates the property's clauses directly on the implementation.
func (h *paramHarness) doSet(inst *paramInst, user parameters.Map, line string) {
	c := h.c
	name := inst.comp.name
	p := inst.p()
	specs := p.VerifSpecifications()
	mode := inst.kind
	if mode == "comp" {
		mode = inst.comp.mode
	}
	id := strings.Fields(line)[1]
	own := viewOf(name, mode, p)
	var nested []*tableView
	for i, n := range inst.nested {
		nested = append(nested, viewOf(fmt.Sprintf("%s[nested part %d: %s]", name, i, n.comp), h.comps[n.comp].mode, n.p()))
	}

	res := inst.set(user)
	inst.maps = append(inst.maps, user)
	if res.panicked != "" {
		c.Op(line, "panic")
		c.Fail("no-panic", "params:"+name+":set-parameters-panic", fmt.Sprintf("%s.SetParameters panicked: %s", name, res.panicked), h.opsOf(inst, line))
		return
	}
	c.Op(line, h.state(inst))
	// the fan-out: every nested component was handed the same user map; its state is compared with the model's
	// and the property's clauses are evaluated on it as on the component's own parameter set
	nestedErrs := 0
	for i, n := range inst.nested {
		c.Op(fmt.Sprintf("pstate %s %d", id, i), stateOf(n.p()))
		nestedErrs += len(n.p().VerifValidationErrors())
		if v, _, ok := h.evalClauses(inst, nested[i], user, line); ok && v > 0 {
			c.Stat("fan-out: valid value assigned in a nested component (" + name + " -> " + n.comp + ")")
		}
	}
	errsAfter := p.VerifValidationErrors()
	nValid, newErrs, complete := h.evalClauses(inst, own, user, line)
	if !complete {
		return
	}
	h.checkWT(inst, line)
	// the two observation points the property names: ParameterErrors() agrees with the error lists accumulated by
	// the component AND by every component it forwards to (also compared with the model: `perrs`), and the
	// SetParameters() result says the same
	if inst.kind == "comp" {
		reports := inst.errs() != nil
		c.Op("perrs "+id, b2s(reports))
		if reports != (len(errsAfter)+nestedErrs > 0) {
			c.Fail("errors-reported", "params:"+name+":parameter-errors-disagree",
				fmt.Sprintf("%s: ParameterErrors()=%v but %d own + %d nested validation error(s) accumulated", name, inst.errs(), len(errsAfter), nestedErrs), h.opsOf(inst, line))
		}
		switch {
		case !res.hasRet:
			c.Stat("SetParameters result: method returns none (" + name + ")")
		case (res.ret != nil) == reports:
			c.Stat(fmt.Sprintf("SetParameters result agrees with ParameterErrors(): errors=%v nested-only=%v", reports, reports && len(errsAfter) == 0))
		case res.ret == nil:
			c.Stat("SetParameters result: OMITS reported errors (" + name + ")")
			c.Fail("set-parameters-result", "params:"+name+":set-parameters-result-omits-errors",
				fmt.Sprintf("%s.SetParameters(%v) returned nil although ParameterErrors() reports %d own + %d nested validation error(s): %s", name, user, len(errsAfter), nestedErrs, clip(inst.errs().Error(), 400)), h.opsOf(inst, line))
		default:
			c.Fail("set-parameters-result", "params:"+name+":set-parameters-result-phantom-errors",
				fmt.Sprintf("%s.SetParameters(%v) returned %v although ParameterErrors() is nil", name, user, res.ret), h.opsOf(inst, line))
		}
	}
	bucket := func(n int) string {
		if n >= 2 {
			return "2+"
		}
		return strconv.Itoa(n)
	}
	c.Stat("set " + name + "/" + inst.kind)
	c.Stat(fmt.Sprintf("set outcome (%s mode): valid=%s invalid=%s unsupported=%s msg=%d call#%s", mode, bucket(nValid), bucket(newErrs[0]), bucket(newErrs[1]), newErrs[2], bucket(len(inst.maps)-1)))
	for k, v := range user {
		_, specified := specs[k]
		c.Nontrivial(fmt.Sprintf("s %s %s %s %s %s", name, mode, map[bool]string{true: k, false: "?unknown"}[specified], valueKind(v), classifyVerdict(specs.Validate(k, v))))
	}
}

// failClass is the coarse class of a later failure (minimisation must preserve it).
func failClass(msg string) string {
	switch {
	case isRoundingRefusal(msg):
		return "rounding-panic"
	case isGiveUp(msg):
		return "limit-unreachable"
	case strings.Contains(msg, "resource exhaustion"):
		return "resource-exhaustion"
	case strings.Contains(msg, "nil pointer"):
		return "nil-dereference"
	case strings.Contains(msg, "Source data file not supported"):
		return "data-source-not-supported"
	case strings.Contains(msg, "errors-after-initialise"):
		return "data-source-load-error"
	case strings.Contains(msg, "non-finite-result"):
		return "non-finite-result"
	}
	return "other"
}

// reproOps: a self-contained op sequence that rebuilds the instance from its user maps and uses it.
func reproOps(comp string, maps []parameters.Map) []string {
	ops := []string{"load m0 " + comp + " comp"}
	for _, m := range maps {
		keys := make([]string, 0, len(m))
		for k := range m {
			keys = append(keys, k)
		}
		sort.Strings(keys)
		vals := make([]interface{}, len(keys))
		for i, k := range keys {
			vals[i] = m[k]
		}
		ops = append(ops, setLine("m0", keys, vals))
	}
	return append(ops, "use m0")
}

// attribute reduces a later failure to the smallest set of accepted user values that still produces
// a failure of the same class (one key at a time; the shipped data set is fixed context).
func (h *paramHarness) attribute(inst *paramInst, failure string) (string, parameters.Map) {
	merged := parameters.Map{}
	for _, m := range inst.maps {
		for k, v := range m {
			if classifyVerdict(inst.p().VerifSpecifications().Validate(k, v)) == "valid" {
				merged[k] = v
			}
		}
	}
	class := failClass(failure)
	fails := func(m parameters.Map) bool {
		fresh := inst.comp.fresh()
		fresh.comp, fresh.kind = inst.comp, "comp"
		fresh.maps = []parameters.Map{m}
		if fresh.set(m).panicked != "" || fresh.errs() != nil {
			return false
		}
		return failClass(fresh.use(h, fresh)) == class && class != ""
	}
	if h.child || !fails(merged) {
		return describe(inst.comp.name, merged), merged
	}
	keys := make([]string, 0, len(merged))
	for k := range merged {
		if !isContext(inst.comp.name, k, merged[k]) {
			keys = append(keys, k)
		}
	}
	sort.Strings(keys)
	for _, k := range keys {
		trial := parameters.Map{}
		for k2, v := range merged {
			if k2 != k {
				trial[k2] = v
			}
		}
		if fails(trial) {
			merged = trial
		}
	}
	return describe(inst.comp.name, merged), merged
}

// isContext: the catchment model's shipped data set is the fixed context of a use, not a suspect.
func isContext(comp, k string, v interface{}) bool {
	return comp == "catchment" && k == catchParams.DataSourcePath && v == interface{}(catchmentCsv)
}

func pathClass(s string) string {
	st, err := os.Stat(s)
	switch {
	case s == "":
		return "empty"
	case err != nil:
		return "string"
	case st.IsDir():
		return "directory"
	case filepath.IsAbs(s):
		return "absolute-path"
	}
	return "file" + strings.ToLower(filepath.Ext(s))
}

func describe(comp string, m parameters.Map) string {
	keys := make([]string, 0, len(m))
	for k := range m {
		if !isContext(comp, k, m[k]) {
			keys = append(keys, k)
		}
	}
	if len(keys) == 0 {
		return "defaults"
	}
	sort.Strings(keys)
	parts := []string{}
	for _, k := range keys {
		if s, ok := m[k].(string); ok && k == catchParams.DataSourcePath {
			parts = append(parts, k+"="+pathClass(s))
			continue
		}
		parts = append(parts, k+"="+valueClass(m[k]))
	}
	return strings.Join(parts, "+")
}

func (h *paramHarness) doUse(inst *paramInst, line string) {
	c := h.c
	name := inst.comp.name
	if inst.kind != "comp" || inst.use == nil {
		return
	}
	if inst.errs() != nil {
		c.Stat("use " + name + ": skipped (component reports parameter errors)")
		return
	}
	for _, m := range inst.maps {
		for _, v := range m {
			if f, ok := v.(float64); ok && (math.IsNaN(f) || math.IsInf(f, 0)) {
				c.Stat("use " + name + ": skipped (NaN/Inf is not TOML-expressible: outside the property)")
				return
			}
		}
	}
	failure := inst.use(h, inst)
	if failure == "" {
		c.Stat("use " + name + ": ok")
		return
	}
	if isGiveUp(failure) {
		// D18: an accepted Maximum* limit that the data cannot meet; randomised, so not attributed to a value class
		sig := "params:" + name + ":variable-limit-unreachable:later-failure"
		c.Stat("use " + name + ": FAILED variable-limit-unreachable")
		if !h.reported[sig] {
			h.reported[sig] = true
			c.Fail("no-errors-no-later-failure", sig,
				fmt.Sprintf("component %s accepted %v without any parameter error, then panicked in use: %s", name, inst.maps, clip(failure, 400)), reproOps(name, inst.maps))
		}
		return
	}
	what, minimal := h.attribute(inst, failure)
	sig := "params:" + name + ":" + what + ":later-failure"
	if culprits, m := h.overflowRootCause(name, minimal, failure); len(culprits) > 0 {
		// D15, recorded per ROOT CAUSE (component, failure site) and not per key and value class: every
		// overflow-sized combination of keys whose specification states no range ends in the same guard,
		// or (an infinite partial product times zero, or Inf - Inf, is NaN, which the guard lets through)
		// in silently non-finite decision variables
		site := map[string]string{"rounding-panic": "overflow", "non-finite-result": "overflow-non-finite"}[failClass(failure)]
		sig = "params:" + name + ":" + site + ":later-failure"
		c.Stat(fmt.Sprintf("use %s: FAILED %s (%d unbounded IsDecimal key(s) responsible, combined magnitude 1e%d+)", name, site, len(culprits), 50*(int(m)/50)))
		c.Nontrivial(site + " " + name + " " + strings.Join(culprits, "+"))
	} else {
		c.Stat("use " + name + ": FAILED " + what)
	}
	if h.reported[sig] {
		return
	}
	h.reported[sig] = true
	ops := reproOps(name, []parameters.Map{minimal})
	c.Fail("no-errors-no-later-failure", sig,
		fmt.Sprintf("component %s accepted %v without any parameter error, then failed in use (%s): %s", name, minimal, failClass(failure), clip(failure, 600)), ops)
}

// overflowSizedAt: the combined decimal magnitude (sum of |log10 |v|| over the responsible values) from which a
// combination of accepted values counts as overflow-sized.  float64 ends at 1.8e308 and the shipped data set
// contributes factors far below 1e100, so RoundFloat's guard cannot trip below this on the unchanged formulas;
// a rounding panic at a smaller combined magnitude is a DIFFERENT failure and keeps its per-key signature.
const overflowSizedAt = 200

// overflowRootCause decides whether a later failure is the recorded root cause "a key whose specification
// states no range at all (IsDecimal) accepts overflow-sized values; an intermediate result then trips
// RoundFloat's guard, or becomes NaN (Inf * 0, Inf - Inf) and slips through it into the decision variables".
// It is when (a) the failure is that guard or a non-finite decision variable, (b) the 1-minimal responsible set (every
// member is necessary: resetting any one of them to its default makes the failure disappear) contains
// unbounded IsDecimal keys, none of them zero, and (c) those alone have a combined magnitude of at least
// 1e200.  Bounded keys may be in the set too (an in-range factor that tips a marginal product over); they
// are not the cause.  Returns the unbounded keys responsible and their combined magnitude, or nothing.
func (h *paramHarness) overflowRootCause(comp string, minimal parameters.Map, failure string) ([]string, float64) {
	class := failClass(failure)
	if class != "rounding-panic" && class != "non-finite-result" {
		return nil, 0
	}
	var culprits []string
	magnitude := 0.0
	for k, v := range minimal {
		s, ok := h.specs[comp][k]
		if !ok || validatorTokenOf(s) != "decimal" {
			continue
		}
		f, isFloat := v.(float64)
		if !isFloat || math.IsNaN(f) || math.IsInf(f, 0) {
			return nil, 0
		}
		if f == 0 {
			if class == "rounding-panic" {
				return nil, 0 // a zero cannot be needed to overflow a product: a zero divisor is another defect
			}
			culprits = append(culprits, k) // Inf * 0 = NaN: the zero is needed, the magnitude comes from the others
			continue
		}
		culprits = append(culprits, k)
		magnitude += math.Abs(math.Log10(math.Abs(f)))
	}
	if len(culprits) == 0 || magnitude < overflowSizedAt {
		return nil, 0
	}
	sort.Strings(culprits)
	return culprits, magnitude
}

// heavy runs a use that may exhaust memory or time in a child process with a watchdog.
func (h *paramHarness) heavy(inst *paramInst, run func() string) string {
	if h.child {
		go func() {
			start := time.Now()
			for {
				time.Sleep(50 * time.Millisecond)
				var ms runtime.MemStats
				runtime.ReadMemStats(&ms)
				if time.Since(start) > 1500*time.Millisecond || ms.HeapAlloc > 1<<29 {
					fmt.Fprintln(os.Stderr, "watchdog: resource budget exceeded")
					os.Exit(42)
				}
			}
		}()
		debug.SetGCPercent(50)
		return run()
	}
	memoKey := strings.Join(reproOps(inst.comp.name, inst.maps), "|")
	if r, ok := h.heavyMemo[memoKey]; ok {
		return r
	}
	result := h.heavyRun(inst)
	h.heavyMemo[memoKey] = result
	return result
}

func (h *paramHarness) heavyRun(inst *paramInst) string {
	exe := os.Getenv("VERIF_HARNESS")
	if exe == "" {
		exe, _ = os.Executable()
	}
	dir, err := os.MkdirTemp("", "params-child-")
	if err != nil {
		return ""
	}
	defer os.RemoveAll(dir)
	opsFile := filepath.Join(dir, "ops")
	must(os.WriteFile(opsFile, []byte(strings.Join(reproOps(inst.comp.name, inst.maps), "\n")+"\n"), 0o644))
	cmd := exec.Command(exe, "params", "-replay", opsFile, "-out", filepath.Join(dir, "out"))
	cmd.Env = append(os.Environ(), "VERIF_PARAMS_CHILD=1", "GOMEMLIMIT=2GiB")
	done := make(chan error, 1)
	var out []byte
	go func() {
		var e error
		out, e = cmd.CombinedOutput()
		done <- e
	}()
	select {
	case e := <-done:
		if e == nil {
			// the child ran the use to completion; did it record a failure?
			if b, err := os.ReadFile(filepath.Join(dir, "out", "stats.json")); err == nil {
				var st struct {
					Direct []DirectFailure `json:"direct_failures"`
				}
				if json.Unmarshal(b, &st) == nil {
					for _, d := range st.Direct {
						if strings.HasSuffix(d.Signature, ":later-failure") {
							return "failed in child process: " + d.Detail
						}
					}
				}
			}
			return ""
		}
		if ee, ok := e.(*exec.ExitError); ok && ee.ExitCode() == 42 {
			return "resource exhaustion (more than 1.5 s or 512 MiB in Initialise; killed by the watchdog)"
		}
		return "child process died: " + clip(string(out), 300)
	case <-time.After(30 * time.Second):
		cmd.Process.Kill()
		return "resource exhaustion (timeout)"
	}
}

// ---------------------------------------------------------------- generators

func probeValues(repo string) []interface{} {
	lo, hi := math.Pow(10, -5), 5*math.Pow(10, -4)
	negZero := math.Copysign(0, -1)
	vals := []interface{}{
		// int64
		int64(0), int64(1), int64(-1), int64(2), int64(100), int64(20000), int64(math.MaxInt64), int64(math.MaxInt64 - 1), int64(math.MinInt64),
		// float64
		float64(0), negZero, float64(1), float64(-1), 0.5, 2.0, 100.0, 0.95, 9.81,
		math.Nextafter(0, 1), math.Nextafter(0, -1), math.Nextafter(1, 2), math.Nextafter(1, 0),
		math.MaxFloat64, -math.MaxFloat64, math.Nextafter(math.MaxFloat64, 0), 1e308, 1e-308, 2.2250738585072014e-308,
		lo, hi, math.Nextafter(lo, 0), math.Nextafter(lo, 1), math.Nextafter(hi, 0), math.Nextafter(hi, 1), 1.5e-4,
		math.Inf(1), math.Inf(-1), math.NaN(), math.Float64frombits(0xfff8000000000001),
		// strings
		"", "Minimising", "Maximising", "minimising", "Minimising ", "ObjectiveValue", "Objective_0", "Foo", "0", "1.5", "true", "λ→∞",
		catchmentCsv, filepath.Join(repo, catchmentCsv), ".", "internal", "no/such/file.csv", "go.mod",
		// bool
		true, false,
		// arrays, tables, datetime
		[]interface{}{}, []interface{}{int64(1)}, []interface{}{0.5, 0.25}, []interface{}{"a"}, []interface{}{[]interface{}{int64(1)}, []interface{}{"x"}},
		map[string]interface{}{}, map[string]interface{}{"a": int64(1)}, map[string]interface{}{"x": map[string]interface{}{"y": 0.5}, "z": []interface{}{true}},
		// TOML arrays of tables ([[Key]] ... [[Key]]): BurntSushi/toml decodes them to []map[string]interface{}
		[]map[string]interface{}{{"a": int64(1)}}, []map[string]interface{}{{"a": 0.5}, {"b": "x", "c": []interface{}{int64(1)}}},
		time.Date(2019, 5, 27, 7, 32, 0, 0, time.UTC),
	}
	return vals
}

// tomlRoundTrip: the probe value, written as TOML and decoded by the library crem uses, must come
// back as the same dynamic Go value (this is what ties "TOML-expressible" to the Go types used here).
func tomlText(v interface{}) (string, bool) {
	switch x := v.(type) {
	case int64:
		return strconv.FormatInt(x, 10), true
	case float64:
		if math.IsNaN(x) || math.IsInf(x, 0) {
			return "", false // not expressible with BurntSushi/toml v0.3.1
		}
		s := strconv.FormatFloat(x, 'e', -1, 64)
		return s, true
	case string:
		return strconv.Quote(x), !strings.ContainsAny(strconv.Quote(x), "\\")
	case bool:
		return strconv.FormatBool(x), true
	case time.Time:
		return x.Format(time.RFC3339), true
	case []interface{}:
		parts := []string{}
		for _, e := range x {
			t, ok := tomlText(e)
			if !ok {
				return "", false
			}
			parts = append(parts, t)
		}
		return "[" + strings.Join(parts, ", ") + "]", true
	case map[string]interface{}:
		keys := make([]string, 0, len(x))
		for k := range x {
			keys = append(keys, k)
		}
		sort.Strings(keys)
		parts := []string{}
		for _, k := range keys {
			t, ok := tomlText(x[k])
			if !ok {
				return "", false
			}
			parts = append(parts, k+" = "+t)
		}
		return "{" + strings.Join(parts, ", ") + "}", true
	}
	return "", false
}

func (h *paramHarness) tomlCheck(v interface{}) {
	text, ok := tomlText(v)
	docText := "k = " + text + "\n"
	if tables, isTableArray := v.([]map[string]interface{}); isTableArray {
		// an array of tables is written as repeated [[k]] sections
		ok, docText = true, ""
		for _, t := range tables {
			docText += "[[k]]\n"
			keys := make([]string, 0, len(t))
			for key := range t {
				keys = append(keys, key)
			}
			sort.Strings(keys)
			for _, key := range keys {
				et, eok := tomlText(t[key])
				ok = ok && eok
				docText += key + " = " + et + "\n"
			}
		}
		text = docText
	}
	if !ok {
		h.c.Stat("toml: not expressible (" + valueKind(v) + ")")
		return
	}
	var doc map[string]interface{}
	if _, err := toml.Decode(docText, &doc); err != nil {
		h.c.Stat("toml: decode error (" + valueKind(v) + ")")
		return
	}
	if !sameValue(doc["k"], v) {
		h.c.Fail("harness:toml-round-trip", "params:harness:toml-round-trip", fmt.Sprintf("%s decodes to %s, the probe is %s", text, encValue(doc["k"]), encValue(v)), nil)
		return
	}
	h.c.Stat("toml: round trip ok (" + valueKind(v) + ")")
}

func (h *paramHarness) newInst(comp, kind string) string {
	h.nextInst++
	id := "c" + strconv.Itoa(h.nextInst)
	h.exec("load " + id + " " + comp + " " + kind)
	return id
}

func (h *paramHarness) drop(id string) {
	delete(h.insts, id)
	delete(h.instOps, id)
}

func setLine(id string, keys []string, vals []interface{}) string {
	line := "set " + id + " " + strconv.Itoa(len(keys))
	for i, k := range keys {
		line += " k:" + hexS(k) + " " + encValue(vals[i])
	}
	return line
}

var getterTypes = []string{"int", "float", "str", "bool"}

// randomValueFor draws a value for a specified key: mostly of the right type and in range.
func (h *paramHarness) randomValueFor(comp string, key string, probes []interface{}, forUse bool) interface{} {
	r := h.c.Rng
	s, ok := h.specFor(comp, key)
	if !ok || (!forUse && r.Chance(0.2)) {
		return probes[r.Intn(len(probes))]
	}
	tok := validatorTokenOf(s)
	switch strings.Fields(tok)[0] {
	case "decimal":
		switch r.Intn(6) {
		case 0:
			return []float64{0, 1, -1, math.MaxFloat64, -math.MaxFloat64, 1e308, 1e-308, math.Copysign(0, -1)}[r.Intn(8)]
		default:
			d, _ := s.DefaultValue.(float64)
			return d * (0.25 + 2*r.Float())
		}
	case "dec01":
		switch r.Intn(6) {
		case 0:
			return []float64{0, 1, math.Copysign(0, -1), math.Nextafter(1, 0), math.Nextafter(0, 1)}[r.Intn(5)]
		case 1:
			if forUse {
				return r.Float()
			}
			return []float64{math.Nextafter(1, 2), math.Nextafter(0, -1), -0.5, 1.5}[r.Intn(4)]
		default:
			return r.Float()
		}
	case "decnonneg":
		switch r.Intn(6) {
		case 0:
			return []float64{0, math.MaxFloat64, math.Nextafter(0, 1), 1}[r.Intn(4)]
		case 1:
			if forUse {
				return r.Float() * 1e5
			}
			return []float64{-1, math.Nextafter(0, -1), math.Inf(1)}[r.Intn(3)]
		default:
			return r.Float() * 1e5
		}
	case "decbounds":
		lo, hi := math.Pow(10, -5), 5*math.Pow(10, -4)
		switch r.Intn(5) {
		case 0:
			return []float64{lo, hi}[r.Intn(2)]
		case 1:
			if forUse {
				return lo + (hi-lo)*r.Float()
			}
			return []float64{math.Nextafter(lo, 0), math.Nextafter(hi, 1), 0, 1}[r.Intn(4)]
		default:
			return lo + (hi-lo)*r.Float()
		}
	case "integer", "intnonneg":
		switch r.Intn(6) {
		case 0:
			return []int64{0, 1, math.MaxInt64}[r.Intn(3)]
		case 1:
			if forUse {
				return int64(r.Intn(200))
			}
			return []int64{-1, math.MinInt64}[r.Intn(2)]
		default:
			return int64(r.Intn(200))
		}
	case "string":
		return []string{"ObjectiveValue", "Foo", "", "Objective_0"}[r.Intn(4)]
	case "direction":
		if forUse || r.Chance(0.7) {
			return []string{"Minimising", "Maximising"}[r.Intn(2)]
		}
		return []string{"minimising", "", "Max"}[r.Intn(3)]
	case "boolean":
		return r.Bool()
	case "readable":
		if forUse && r.Chance(0.2) {
			// spellings that are NOT the path of the file but that a lenient validator might take for it (blanks around it, an
			// environment variable in it): whatever the validator says of them, what it lets through must load later
			base := filepath.Base(catchmentCsv)
			return []string{catchmentCsv + " ", " " + catchmentCsv, "$VERIF_PARAMS_DIR/" + base, "${VERIF_PARAMS_DIR}/" + base, "./" + catchmentCsv}[r.Intn(5)]
		}
		if forUse || r.Chance(0.7) {
			return catchmentCsv
		}
		return []string{"", ".", "no/such/file.csv", "go.mod", catchmentCsv + " ", "$VERIF_PARAMS_DIR/" + filepath.Base(catchmentCsv)}[r.Intn(6)]
	}
	return probes[r.Intn(len(probes))]
}

func suiteParams(c *Ctx) {
	repo := os.Getenv("VERIF_REPO")
	if repo == "" {
		repo = "/repo"
	}
	os.Setenv("VERIF_PARAMS_DIR", filepath.Dir(catchmentCsv))
	if wd, err := os.Getwd(); err != nil || !isReadable(filepath.Join(wd, catchmentCsv)) {
		must(os.Chdir(repo)) // DataSourcePath is resolved against the working directory
	}
	h := &paramHarness{c: c, comps: map[string]*paramComp{}, declared: map[string]bool{}, specs: map[string]specification.Specifications{},
		insts: map[string]*paramInst{}, instOps: map[string][]string{}, readable: map[string]bool{}, usesLeft: map[string]int{}, reported: map[string]bool{}, heavyMemo: map[string]string{}, nestedOf: map[string][]string{},
		child: os.Getenv("VERIF_PARAMS_CHILD") == "1"}
	for _, pc := range paramComponents() {
		h.comps[pc.name] = pc
		h.order = append(h.order, pc)
	}

	if c.Replay != "" {
		for _, l := range readLines(c.Replay) {
			h.exec(l)
		}
		return
	}

	probes := probeValues(repo)
	for _, v := range probes {
		h.tomlCheck(v)
	}
	r := c.Rng

	// 0. every exported validator of Validators.go, called directly on every probe value; the two general
	//    bounded validators with random bounds (including reversed, equal, NaN and infinite bounds)
	for _, tok := range []string{"decimal", "dec01", "decnonneg", "integer", "intnonneg", "string", "boolean", "readable"} {
		for _, v := range probes {
			h.exec("vdirect " + tok + " " + encValue(v))
		}
	}
	var fprobes []float64
	var iprobes []int64
	for _, v := range probes {
		switch x := v.(type) {
		case float64:
			fprobes = append(fprobes, x)
		case int64:
			iprobes = append(iprobes, x)
		}
	}
	for i := 0; i < c.N(1500, 30000); i++ {
		if r.Bool() {
			lo, hi := fprobes[r.Intn(len(fprobes))], fprobes[r.Intn(len(fprobes))]
			var v interface{} = fprobes[r.Intn(len(fprobes))]
			switch r.Intn(8) {
			case 0:
				v = probes[r.Intn(len(probes))]
			case 1:
				v = math.Nextafter(lo, math.Inf(1))
			case 2:
				v = math.Nextafter(hi, math.Inf(-1))
			case 3:
				v = math.Nextafter(lo, math.Inf(-1))
			case 4:
				v = math.Nextafter(hi, math.Inf(1))
			case 5:
				v = math.Float64frombits(r.U64())
			}
			h.exec("vdirect decbounds " + floatBits(lo) + " " + floatBits(hi) + " " + encValue(v))
		} else {
			lo, hi := iprobes[r.Intn(len(iprobes))], iprobes[r.Intn(len(iprobes))]
			var v interface{} = iprobes[r.Intn(len(iprobes))]
			switch r.Intn(6) {
			case 0:
				v = probes[r.Intn(len(probes))]
			case 1:
				v = lo + 1
			case 2:
				v = hi - 1
			case 3:
				v = lo - 1
			case 4:
				v = hi + 1
			}
			h.exec("vdirect intbounds " + strconv.FormatInt(lo, 10) + " " + strconv.FormatInt(hi, 10) + " " + encValue(v))
		}
	}

	for _, pc := range h.order {
		if h.ensureComp(pc.name) == nil {
			continue
		}
		specKeys := make([]string, 0)
		for k := range h.specs[pc.name] {
			specKeys = append(specKeys, k)
		}
		sort.Strings(specKeys)
		unknownKeys := []string{"Bogus", "", strings.ToLower(specKeys[0]), specKeys[0] + " ", "MaximumIterations", "CoolingFactor", "DataSourcePath"}
		var unknown []string
		for _, k := range unknownKeys {
			if _, ok := h.specFor(pc.name, k); !ok {
				unknown = append(unknown, k)
			}
		}
		// keys the component does not specify itself but hands on to a component that does (explorer, coolant)
		partKeys := h.nestedKeys(pc.name)
		h.c.Stat(fmt.Sprintf("component %s: %d own key(s), %d key(s) of %d nested component(s)", pc.name, len(specKeys), len(partKeys), len(h.nestedOf[pc.name])))

		// 0. the freshly built component: defaults, every getter on every key
		id := h.newInst(pc.name, "comp")
		for _, k := range append(append([]string{}, specKeys...), unknown[0]) {
			for _, ty := range getterTypes {
				h.exec("get " + id + " k:" + hexS(k) + " " + ty)
			}
			h.exec("has " + id + " k:" + hexS(k))
		}
		h.exec("use " + id)
		h.drop(id)

		// 1. every key (specified and unknown) x every probe value, alone: verdict, assignment through the
		//    component and through both raw loops, getters afterwards, then use if error-free
		for _, k := range append(append(append([]string{}, specKeys...), partKeys...), unknown...) {
			for _, v := range probes {
				h.exec("validate " + pc.name + " k:" + hexS(k) + " " + encValue(v))
				kinds := []string{"comp"}
				if _, specified := h.specs[pc.name][k]; specified || k == unknown[0] {
					kinds = []string{"comp", "all", "enforced"}
				}
				for _, kind := range kinds {
					id := h.newInst(pc.name, kind)
					h.exec(setLine(id, []string{k}, []interface{}{v}))
					if kind == "comp" {
						for _, ty := range getterTypes {
							h.exec("get " + id + " k:" + hexS(k) + " " + ty)
						}
						h.exec("has " + id + " k:" + hexS(k))
						if pc.name == "catchment" && k != catchParams.DataSourcePath {
							// give the catchment model its data so that the key under test is what is exercised
							h.exec(setLine(id, []string{catchParams.DataSourcePath}, []interface{}{catchmentCsv}))
						}
						h.exec("use " + id)
					}
					h.drop(id)
				}
			}
		}

		// 2. combinations and sequences of user maps
		rounds := c.N(150, 2500)
		if pc.name == "catchment" {
			rounds = c.N(250, 4000)
		}
		allKeys := append(append(append([]string{}, specKeys...), partKeys...), unknown...)
		for round := 0; round < rounds; round++ {
			kind := []string{"comp", "comp", "all", "enforced"}[r.Intn(4)]
			forUse := kind == "comp" && r.Chance(0.6)
			id := h.newInst(pc.name, kind)
			nMaps := 1 + r.Intn(4)
			for mi := 0; mi < nMaps; mi++ {
				n := r.Intn(7)
				if n > len(allKeys) {
					n = len(allKeys)
				}
				perm := append([]string{}, allKeys...)
				for i := range perm {
					j := i + r.Intn(len(perm)-i)
					perm[i], perm[j] = perm[j], perm[i]
				}
				var keys []string
				var vals []interface{}
				for _, k := range perm {
					if len(keys) == n {
						break
					}
					if _, specified := h.specFor(pc.name, k); !specified && forUse && h.comps[pc.name].mode == "all" {
						continue
					}
					if forUse && pc.name == "catchment" && isLimitKey(k) && (hasLimit(keys) || limitAlready(h.insts[id])) {
						continue
					}
					keys = append(keys, k)
					vals = append(vals, h.randomValueFor(pc.name, k, probes, forUse))
				}
				if forUse && pc.name == "catchment" && mi == 0 && !contains(keys, catchParams.DataSourcePath) {
					keys = append(keys, catchParams.DataSourcePath)
					vals = append(vals, catchmentCsv)
				}
				h.exec(setLine(id, keys, vals))
				// use - set - use: a component that has already run is parameterised again
				if kind == "comp" && mi+1 < nMaps && r.Chance(0.3) {
					h.c.Stat("use between two SetParameters calls (" + pc.name + ")")
					h.exec("use " + id)
				}
			}
			for _, k := range specKeys {
				s := h.specs[pc.name][k]
				h.exec("get " + id + " k:" + hexS(k) + " " + validatorTy(validatorTokenOf(s)))
				if r.Chance(0.15) {
					h.exec("get " + id + " k:" + hexS(k) + " " + getterTypes[r.Intn(4)])
				}
				if s.IsOptional {
					h.exec("has " + id + " k:" + hexS(k))
				}
			}
			if kind == "comp" {
				h.exec("use " + id)
			}
			h.drop(id)
		}

		// 3. every decimal key at magnitudes across the whole float64 range, alone and in pairs / triples
		h.magnitudeStream(pc, specKeys)
	}
}

// ---------------------------------------------------------------- magnitude stream
//
// Every key with a decimal validator, at magnitudes spread over the WHOLE float64 range (log-uniform in
// +-[1e-300, 1e300]) rather than near its default or at the extremes only: alone, and in pairs and triples
// (products of individually unremarkable values such as 1e160 * 1e160 overflow).  Each case is a fresh
// component, one SetParameters (compared with the model as any other `set`), typed reads, then a use.

func pow10f(e float64) float64 { return math.Pow(10, e) }

// decimalBoundsOf: the bounds of a decbounds token (bit patterns), else ok=false.
func decimalBoundsOf(tok string) (lo, hi float64, ok bool) {
	w := strings.Fields(tok)
	if len(w) != 3 || w[0] != "decbounds" {
		return 0, 0, false
	}
	l, e1 := strconv.ParseUint(w[1], 16, 64)
	u, e2 := strconv.ParseUint(w[2], 16, 64)
	return math.Float64frombits(l), math.Float64frombits(u), e1 == nil && e2 == nil
}

// magnitudeValue draws a log-uniform magnitude for a decimal key: mostly inside what the validator accepts
// (so that the component gets used), sometimes outside (so that the rejection is compared as well).
func magnitudeValue(tok string, r *Rng) float64 {
	anywhere := func() float64 { return pow10f(-300 + 600*r.Float()) }
	switch strings.Fields(tok)[0] {
	case "decimal":
		if r.Chance(0.05) {
			return 0
		}
		v := anywhere()
		if r.Chance(0.25) {
			return -v
		}
		return v
	case "decnonneg":
		if r.Chance(0.1) {
			return -anywhere()
		}
		return anywhere()
	case "dec01":
		if r.Chance(0.1) {
			return []float64{-1, 1}[r.Intn(2)] * anywhere()
		}
		return pow10f(-300 * r.Float())
	case "decbounds":
		if lo, hi, ok := decimalBoundsOf(tok); ok && lo > 0 && hi > lo && !r.Chance(0.1) {
			return math.Min(hi, math.Max(lo, pow10f(math.Log10(lo)+(math.Log10(hi)-math.Log10(lo))*r.Float())))
		}
		return anywhere()
	}
	return anywhere()
}

// gridValue: the large (small) end of what the validator accepts, for the deterministic pair/triple grid.
func gridValue(tok string, exp float64) float64 {
	switch strings.Fields(tok)[0] {
	case "dec01":
		if exp > 0 {
			return 1
		}
	case "decbounds":
		if lo, hi, ok := decimalBoundsOf(tok); ok {
			if exp > 0 {
				return hi
			}
			return lo
		}
	}
	return pow10f(exp)
}

func (h *paramHarness) magnitudeCase(pc *paramComp, keys []string, vals []interface{}, how string) {
	c := h.c
	id := h.newInst(pc.name, "comp")
	inst := h.insts[id]
	if inst == nil {
		return
	}
	setKeys, setVals := append([]string{}, keys...), append([]interface{}{}, vals...)
	if pc.name == "catchment" && !contains(setKeys, catchParams.DataSourcePath) {
		setKeys, setVals = append(setKeys, catchParams.DataSourcePath), append(setVals, catchmentCsv)
	}
	h.exec(setLine(id, setKeys, setVals))
	sum, accepted := 0.0, 0
	for i, k := range keys {
		h.exec("get " + id + " k:" + hexS(k) + " float")
		f := vals[i].(float64)
		stored := []interface{}{inst.p().VerifParamMap()[k]}
		for _, n := range inst.nested {
			stored = append(stored, n.p().VerifParamMap()[k])
		}
		for _, sv := range stored {
			if got, ok := sv.(float64); ok && math.Float64bits(got) == math.Float64bits(f) {
				accepted++
				break
			}
		}
		if f != 0 {
			sum += math.Log10(math.Abs(f))
		}
	}
	bucket := int(math.Floor(sum/300)) * 300
	c.Stat(fmt.Sprintf("magnitude %s: %d key(s), all accepted=%v, sum of log10|v| in [%d,%d)", how, len(keys), accepted == len(keys), bucket, bucket+300))
	c.Stat("magnitude cases " + pc.name)
	h.exec("use " + id)
	h.drop(id)
}

func (h *paramHarness) magnitudeStream(pc *paramComp, specKeys []string) {
	r := h.c.Rng
	toks := map[string]string{}
	var dkeys, unbounded []string
	for _, k := range append(append([]string{}, specKeys...), h.nestedKeys(pc.name)...) {
		sp, _ := h.specFor(pc.name, k)
		tok := validatorTokenOf(sp)
		if validatorTy(tok) == "float" {
			dkeys = append(dkeys, k)
			toks[k] = tok
			if tok == "decimal" {
				unbounded = append(unbounded, k)
			}
		}
	}
	if len(dkeys) == 0 {
		return
	}
	compatible := func(keys []string, k string) bool { // distinct keys; the catchment model allows one limit only
		return !contains(keys, k) && !(pc.name == "catchment" && isLimitKey(k) && hasLimit(keys))
	}
	// (a) deterministic grid, alone: powers of ten across the range, both signs at two of them
	for _, k := range dkeys {
		for _, e := range []float64{-300, -200, -100, -30, 30, 100, 150, 160, 200, 250, 290, 299, 300} {
			h.magnitudeCase(pc, []string{k}, []interface{}{pow10f(e)}, "grid")
		}
		for _, e := range []float64{-300, 160, 300} {
			h.magnitudeCase(pc, []string{k}, []interface{}{-pow10f(e)}, "grid")
		}
	}
	// (b) deterministic grid, every pair: both large, both small, one of each (each as large/small as its validator accepts)
	for i, k1 := range dkeys {
		for _, k2 := range dkeys[i+1:] {
			if !compatible([]string{k1}, k2) {
				continue
			}
			for _, e := range [][2]float64{{160, 160}, {-160, -160}, {160, -160}, {-160, 160}} {
				h.magnitudeCase(pc, []string{k1, k2}, []interface{}{gridValue(toks[k1], e[0]), gridValue(toks[k2], e[1])}, "grid")
			}
		}
	}
	// (c) deterministic grid, every triple of keys whose specification states no range
	for i, k1 := range unbounded {
		for j, k2 := range unbounded[i+1:] {
			for _, k3 := range unbounded[i+1+j+1:] {
				for _, e := range []float64{110, -110} {
					h.magnitudeCase(pc, []string{k1, k2, k3}, []interface{}{pow10f(e), pow10f(e), pow10f(e)}, "grid")
				}
				// an overflowing partial product times zero is NaN, which no guard stops
				for _, vs := range [][]interface{}{{1e160, 1e160, 0.0}, {1e160, 0.0, 1e160}, {0.0, 1e160, 1e160}} {
					h.magnitudeCase(pc, []string{k1, k2, k3}, vs, "grid")
				}
			}
		}
	}
	// (d) random: 1-3 keys (unbounded ones preferred), each at its own log-uniform magnitude
	rounds := h.c.N(25, 400) * len(dkeys)
	if max := h.c.N(300, 6000); rounds > max {
		rounds = max
	}
	for round := 0; round < rounds; round++ {
		n := 1 + r.Intn(3)
		var keys []string
		var vals []interface{}
		for tries := 0; len(keys) < n && tries < 20; tries++ {
			pool := dkeys
			if len(unbounded) > 0 && r.Chance(0.6) {
				pool = unbounded
			}
			k := pool[r.Intn(len(pool))]
			if !compatible(keys, k) {
				continue
			}
			keys = append(keys, k)
			vals = append(vals, magnitudeValue(toks[k], r))
		}
		h.magnitudeCase(pc, keys, vals, "random")
	}
}

func contains(xs []string, x string) bool {
	for _, y := range xs {
		if y == x {
			return true
		}
	}
	return false
}

func isLimitKey(k string) bool { return contains(limitKeys, k) }

func hasLimit(keys []string) bool {
	for _, k := range keys {
		if isLimitKey(k) {
			return true
		}
	}
	return false
}

func limitAlready(inst *paramInst) bool {
	if inst == nil {
		return false
	}
	for _, k := range limitKeys {
		if inst.p().HasEntry(k) {
			return true
		}
	}
	return false
}
