//go:build verif && race

package main

// raceEnabled: this harness binary was built with -race (thorough tier of suites marked "race").
const raceEnabled = true
