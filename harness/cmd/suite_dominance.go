//go:build verif

package main

import (
	"fmt"
	"math"
	"strconv"
	"strings"

	"github.com/LindsayBradford/crem/pkg/dominance"
)

func init() { register("dominance", suiteDominance) }

func keyFloat(k int64) float64 {
	if k < 0 {
		return math.Float64frombits(uint64(-k) | 1<<63)
	}
	return math.Float64frombits(uint64(k))
}

// domKeyTok is the protocol token of one component: the integer key of the monotone map, except that negative
// zero travels as `-0` (the Lean driver reads it as 0; a replay rebuilds -0.0, so a defect that tells the two
// zeros apart replays as found).
func domKeyTok(f float64) string {
	if f == 0 && math.Signbit(f) {
		return "-0"
	}
	return strconv.FormatInt(floatKey(f), 10)
}

func domTokFloat(tok string) float64 {
	if tok == "-0" {
		return math.Copysign(0, -1)
	}
	k, _ := strconv.ParseInt(tok, 10, 64)
	return keyFloat(k)
}

func vecOf(fs []float64) *dominance.Float64Vector {
	v := dominance.Float64Vector(append([]float64(nil), fs...))
	return &v
}

func domOpLine(x, y []float64) string {
	var sb strings.Builder
	sb.WriteString("dom ")
	sb.WriteString(strconv.Itoa(len(x)))
	for _, f := range x {
		sb.WriteByte(' ')
		sb.WriteString(domKeyTok(f))
	}
	for _, f := range y {
		sb.WriteByte(' ')
		sb.WriteString(domKeyTok(f))
	}
	return sb.String()
}

// foreignCandidate is a dominance.Candidate that is not a Float64Vector (IsComparable must answer false for it).
type foreignCandidate struct{}

func (foreignCandidate) IsComparable(dominance.Candidate) bool       { return false }
func (foreignCandidate) Dominates(dominance.Candidate) bool          { return false }
func (foreignCandidate) IsDominatedBy(dominance.Candidate) bool      { return false }
func (foreignCandidate) NoDominancePresent(dominance.Candidate) bool { return true }

// cmpPair: IsComparable on vectors of any two lengths (`cmp dx dy x.. y..` -> 0|1); the other operations are
// defined for equal lengths only (Dominates indexes the argument with the receiver's range).
func cmpPair(c *Ctx, x, y []float64) {
	var sb strings.Builder
	fmt.Fprintf(&sb, "cmp %d %d", len(x), len(y))
	for _, f := range append(append([]float64(nil), x...), y...) {
		sb.WriteByte(' ')
		sb.WriteString(domKeyTok(f))
	}
	op := sb.String()
	vx, vy := vecOf(x), vecOf(y)
	var got, back, foreign bool
	if p := protect(func() {
		got = vx.IsComparable(vy)
		back = vy.IsComparable(vx)
		foreign = vx.IsComparable(foreignCandidate{})
	}); p != "" {
		c.Op(op, "panic")
		c.Fail("no-panic", "dominance:panic", p, []string{op})
		return
	}
	c.Op(op, b2s(got))
	if got != (len(x) == len(y)) || back != got {
		c.Fail("comparable-iff-same-length", "dominance:comparable", fmt.Sprintf("lengths %d and %d: IsComparable = %v / %v", len(x), len(y), got, back), []string{op})
	}
	if foreign {
		c.Fail("comparable-iff-same-length", "dominance:comparable-foreign", "a Candidate of another type was called comparable", []string{op})
	}
	c.Stat(fmt.Sprintf("cmp equal-length=%v", len(x) == len(y)))
	if len(x) != len(y) {
		c.Nontrivial(fmt.Sprintf("cmp %d %d", len(x), len(y)))
	}
}

// refDominates is the property's own statement, evaluated with Go's operators.
func refDominates(x, y []float64) bool {
	all, some := true, false
	for i := range x {
		if !(x[i] <= y[i]) {
			all = false
		}
		if x[i] < y[i] {
			some = true
		}
	}
	return all && some
}

var domHistory [][2][]float64
var domTick uint64

func sameFloats(a, b []float64) bool {
	if len(a) != len(b) {
		return false
	}
	for i := range a {
		if math.Float64bits(a[i]) != math.Float64bits(b[i]) {
			return false
		}
	}
	return true
}

func domPair(c *Ctx, x, y []float64, tag string) {
	// the float -> integer key map must agree with Go's own comparison on every component pair used
	for i := range x {
		if (x[i] < y[i]) != (floatKey(x[i]) < floatKey(y[i])) || (x[i] > y[i]) != (floatKey(x[i]) > floatKey(y[i])) {
			c.Fail("harness:floatKey-not-monotone", "floatKey", fmt.Sprintf("%v vs %v", x[i], y[i]), nil)
		}
	}
	// history independence: a comparison of ANOTHER pair (usually of another length, not ending in a self-comparison)
	// is made right before the judged one; its own verdict is judged too.  Without it every judged call would follow a
	// self-comparison of equal length, and state kept between calls could not show.
	if n := len(domHistory); n > 0 {
		domTick++
		h := domHistory[int((domTick*2654435761)>>7)%n]
		hx, hy := vecOf(h[0]), vecOf(h[1])
		var hd bool
		if pp := protect(func() { hd = hx.Dominates(hy) }); pp == "" && hd != refDominates(h[0], h[1]) {
			c.Fail("dominates-iff", "dominance:definition", fmt.Sprintf("Dominates(%v,%v)=%v, strict Pareto order says %v (call made between two other comparisons)", h[0], h[1], hd, !hd), []string{domOpLine(h[0], h[1])})
		}
	}
	if len(x) == len(y) && len(x) > 0 && !sameFloats(x, y) {
		if len(domHistory) < 64 {
			domHistory = append(domHistory, [2][]float64{x, y})
		} else {
			domHistory[int(domTick)%64] = [2][]float64{x, y}
		}
	}
	vx, vy := vecOf(x), vecOf(y)
	var d, idb, ndp, cmp bool
	p := protect(func() {
		d = vx.Dominates(vy)
		idb = vx.IsDominatedBy(vy)
		ndp = vx.NoDominancePresent(vy)
		cmp = vx.IsComparable(vy)
	})
	op := domOpLine(x, y)
	if p != "" {
		c.Op(op, "panic")
		c.Fail("no-panic", "dominance:panic", p, []string{op})
		return
	}
	dp := vx.DominancePresent(vy)
	c.Op(op, fmt.Sprintf("%s %s %s %s %s", b2s(d), b2s(idb), b2s(dp), b2s(ndp), b2s(cmp)))

	// direct evaluation of the property on the implementation
	ref := refDominates(x, y)
	if d != ref {
		c.Fail("dominates-iff", "dominance:definition", fmt.Sprintf("Dominates(%v,%v)=%v, strict Pareto order says %v", x, y, d, ref), []string{op})
	}
	if idb != refDominates(y, x) {
		c.Fail("converse", "dominance:converse", fmt.Sprintf("IsDominatedBy(%v,%v)=%v", x, y, idb), []string{op})
	}
	if d && vy.Dominates(vx) {
		c.Fail("asymmetric", "dominance:asymmetric", fmt.Sprintf("%v and %v dominate each other", x, y), []string{op})
	}
	if ndp != vy.NoDominancePresent(vx) {
		c.Fail("ndp-symmetric", "dominance:ndp-symmetric", fmt.Sprintf("%v %v", x, y), []string{op})
	}
	if ndp != (!ref && !refDominates(y, x)) {
		c.Fail("ndp-definition", "dominance:ndp-definition", fmt.Sprintf("%v %v", x, y), []string{op})
	}
	// distribution
	rel := "incomparable"
	switch {
	case ref:
		rel = "x-dominates"
	case refDominates(y, x):
		rel = "y-dominates"
	case equalVec(x, y):
		rel = "equal"
	}
	c.Stat(fmt.Sprintf("%s d=%d %s", tag, len(x), rel))
	if rel != "incomparable" || len(x) > 1 {
		c.Nontrivial(op)
	}
}

func equalVec(x, y []float64) bool {
	for i := range x {
		if x[i] != y[i] {
			return false
		}
	}
	return true
}

var specialFloats = []float64{
	0, math.Copysign(0, -1), 1, -1, 2, 0.5, -0.5, math.MaxFloat64, -math.MaxFloat64,
	math.SmallestNonzeroFloat64, -math.SmallestNonzeroFloat64, 1e-310, -1e-310, 1e300, -1e300,
	math.Nextafter(1, 2), math.Nextafter(1, 0), 123.456, 123.457, 739969.412,
}

func randFloat(r *Rng) float64 {
	switch r.Intn(5) {
	case 0:
		return specialFloats[r.Intn(len(specialFloats))]
	case 1:
		return float64(r.Intn(7) - 3)
	case 2:
		return math.Round((r.Float()*2000-1000)*1000) / 1000
	default:
		for {
			f := math.Float64frombits(r.U64())
			if !math.IsNaN(f) && !math.IsInf(f, 0) {
				return f
			}
		}
	}
}

func suiteDominance(c *Ctx) {
	if c.Replay != "" {
		for _, l := range readLines(c.Replay) {
			w := strings.Fields(l)
			if len(w) >= 3 && w[0] == "cmp" {
				dx, _ := strconv.Atoi(w[1])
				dy, _ := strconv.Atoi(w[2])
				if dx < 0 || dy < 0 || len(w) != 3+dx+dy {
					continue
				}
				fs := make([]float64, dx+dy)
				for i := range fs {
					fs[i] = domTokFloat(w[3+i])
				}
				cmpPair(c, fs[:dx], fs[dx:])
				continue
			}
			if len(w) < 2 || w[0] != "dom" {
				continue
			}
			d, _ := strconv.Atoi(w[1])
			if d < 0 || len(w) != 2+2*d {
				continue
			}
			fs := make([]float64, 2*d)
			for i := range fs {
				fs[i] = domTokFloat(w[2+i])
			}
			domPair(c, fs[:d], fs[d:], "replay")
		}
		return
	}
	// 1. exhaustive pairs over a small grid incl. signed zeros
	grid := []float64{-1, math.Copysign(0, -1), 0, 1, 2}
	maxD := 4
	for d := 1; d <= maxD; d++ {
		n := 1
		for i := 0; i < 2*d; i++ {
			n *= len(grid)
		}
		for code := 0; code < n; code++ {
			fs := make([]float64, 2*d)
			k := code
			for i := range fs {
				fs[i] = grid[k%len(grid)]
				k /= len(grid)
			}
			domPair(c, fs[:d], fs[d:], "grid")
		}
	}
	// 1b. exhaustive TRIPLES over the same grid (d <= 2 quick, d <= 3 thorough): transitivity, asymmetry, irreflexivity and
	// the converse evaluated directly on the implementation for every (x, y, z); the pairs themselves are compared
	// with the model above, so only the chains found are written as protocol lines
	maxT := c.N(2, 3)
	for d := 1; d <= maxT; d++ {
		n := 1
		for i := 0; i < d; i++ {
			n *= len(grid)
		}
		vecs := make([][]float64, n)
		for code := range vecs {
			v := make([]float64, d)
			k := code
			for i := range v {
				v[i] = grid[k%len(grid)]
				k /= len(grid)
			}
			vecs[code] = v
		}
		dom := make([][]bool, n)
		for i := range dom {
			dom[i] = make([]bool, n)
			for j := range dom[i] {
				dom[i][j] = vecOf(vecs[i]).Dominates(vecOf(vecs[j]))
			}
		}
		chains := 0
		for i := 0; i < n; i++ {
			if dom[i][i] {
				c.Fail("irreflexive", "dominance:irreflexive", fmt.Sprintf("%v", vecs[i]), []string{domOpLine(vecs[i], vecs[i])})
			}
			for j := 0; j < n; j++ {
				if dom[i][j] && dom[j][i] {
					c.Fail("asymmetric", "dominance:asymmetric", fmt.Sprintf("%v and %v dominate each other", vecs[i], vecs[j]), []string{domOpLine(vecs[i], vecs[j]), domOpLine(vecs[j], vecs[i])})
				}
				if vecOf(vecs[i]).IsDominatedBy(vecOf(vecs[j])) != dom[j][i] {
					c.Fail("converse", "dominance:converse", fmt.Sprintf("IsDominatedBy(%v,%v)", vecs[i], vecs[j]), []string{domOpLine(vecs[i], vecs[j])})
				}
				if !dom[i][j] {
					continue
				}
				for k := 0; k < n; k++ {
					if !dom[j][k] {
						continue
					}
					chains++
					// fresh calls on fresh vectors for the conclusion (the table entry was computed from other objects)
					if !dom[i][k] || !vecOf(vecs[i]).Dominates(vecOf(vecs[k])) {
						c.Fail("transitive", "dominance:transitive", fmt.Sprintf("%v > %v > %v", vecs[i], vecs[j], vecs[k]),
							[]string{domOpLine(vecs[i], vecs[j]), domOpLine(vecs[j], vecs[k]), domOpLine(vecs[i], vecs[k])})
					}
					if d <= 2 && chains%7 == 0 {
						domPair(c, vecs[i], vecs[k], "grid-chain")
					}
				}
			}
		}
		c.Stat(fmt.Sprintf("grid triples d=%d: all %d^3 triples, %d chains x>y>z", d, n, chains))
		c.extra[fmt.Sprintf("exhaustive grid triples d=%d", d)] = fmt.Sprintf("%d triples, %d chains", n*n*n, chains)
	}
	// 1c. IsComparable on every pair of lengths 0..6 (and random longer ones below)
	for dx := 0; dx <= 6; dx++ {
		for dy := 0; dy <= 6; dy++ {
			x, y := make([]float64, dx), make([]float64, dy)
			for i := range x {
				x[i] = grid[(i+dx)%len(grid)]
			}
			for i := range y {
				y[i] = grid[(i+2*dy)%len(grid)]
			}
			cmpPair(c, x, y)
		}
	}
	// 2. random pairs and triples, dimension 1..8, tie-heavy
	r := c.Rng
	triples := c.N(20000, 400000)
	for t := 0; t < triples; t++ {
		d := 1 + r.Intn(8)
		pool := make([]float64, 1+r.Intn(4))
		for i := range pool {
			pool[i] = randFloat(r)
		}
		mk := func() []float64 {
			v := make([]float64, d)
			for i := range v {
				if r.Chance(0.7) {
					v[i] = pool[r.Intn(len(pool))]
				} else {
					v[i] = randFloat(r)
				}
			}
			return v
		}
		x := mk()
		var y, z []float64
		switch r.Intn(4) {
		case 0: // y = x with some components raised, z = y raised again: chains
			y = append([]float64(nil), x...)
			for i := range y {
				if r.Chance(0.4) && y[i] < math.MaxFloat64 { // stay finite: the property speaks of finite vectors
					y[i] = math.Nextafter(y[i], math.Inf(1))
				}
			}
			z = append([]float64(nil), y...)
			for i := range z {
				if r.Chance(0.4) && z[i] < math.MaxFloat64 {
					z[i] = math.Nextafter(z[i], math.Inf(1))
				}
			}
		default:
			y, z = mk(), mk()
		}
		domPair(c, x, y, "rand")
		domPair(c, y, z, "rand")
		domPair(c, x, z, "rand")
		domPair(c, x, x, "self")
		if t%8 == 0 { // unequal (and equal) lengths for IsComparable
			w := make([]float64, r.Intn(12))
			for i := range w {
				w[i] = randFloat(r)
			}
			cmpPair(c, x, w)
		}
		// transitivity and irreflexivity on the implementation
		vx, vy, vz := vecOf(x), vecOf(y), vecOf(z)
		if vx.Dominates(vy) && vy.Dominates(vz) {
			c.Stat("chain")
			if !vx.Dominates(vz) {
				c.Fail("transitive", "dominance:transitive", fmt.Sprintf("%v > %v > %v", x, y, z), []string{domOpLine(x, y), domOpLine(y, z), domOpLine(x, z)})
			}
		}
		if vx.Dominates(vx) {
			c.Fail("irreflexive", "dominance:irreflexive", fmt.Sprintf("%v", x), []string{domOpLine(x, x)})
		}
		if !vx.NoDominancePresent(vx) {
			c.Fail("ndp-self", "dominance:ndp-self", fmt.Sprintf("%v", x), []string{domOpLine(x, x)})
		}
	}
}
