//go:build verif

package main

// The catchment-model part of suite kirk-script (properties C04 and C03): the REAL kirkpatrick.Explorer over the REAL
// catchment model on the shipped datasets and on generated ones (incl. the adverse, non-monotone ones), with no limit
// or with a limit on ANY of the six decision variables that is attainable at the optimiser's starting extreme
// (`startLimitsFor`: exact ties with the starting extreme and with other attainable values, off-grid, mid-way, zero).
//
// Everything random is scripted from one seed: the model's action picks (from the moment Initialise() builds the
// actions, so that the Randomize() inside Explorer.Initialise() is reproducible too) and the explorer's uniform draws.
// A sequence is therefore a function of (dataset, seed, steps); a failing one is replayed from a `kcatch` line.
//
// C03, evaluated directly: after Explorer.Initialise() and after EVERY TryRandomChange the limited variable of the
// model the explorer holds is within the limit, and so is the value a FRESH model takes at the held action set.
// C04's predicates (validity first / improving accepts / Metropolis rule / objective update) are evaluated by
// kirkRig.try as before; the Lean driver replays every step on the scripted model.

import (
	"fmt"
	"path/filepath"
	"strconv"
	"strings"

	"github.com/LindsayBradford/crem/internal/pkg/model"
	"github.com/LindsayBradford/crem/internal/pkg/model/models/catchment"
	"github.com/LindsayBradford/crem/internal/pkg/parameters"
	crand "github.com/LindsayBradford/crem/internal/pkg/rand"
)

// kirkSeededCatchment is the real catchment model.  The one addition: its action-picking random source is the
// harness's scripted one from the moment the model (re)builds its actions (the production code seeds it from the clock).
type kirkSeededCatchment struct {
	*catchment.Model
	src *scriptSource
}

func (w *kirkSeededCatchment) Initialise(t model.InitialisationType) {
	w.Model.Initialise(t)
	w.Model.VerifSetActionRand(crand.New(w.src))
}

var kirkGenCounter, kirkSeqCounter int

func clipInts(xs []int, n int) string {
	if len(xs) <= n {
		return fmt.Sprint(xs)
	}
	return fmt.Sprintf("%v … (%d draws)", xs[:n], len(xs))
}

func limKeyName(v int) string {
	if v < 0 {
		return "no limit"
	}
	return varMaxKey[v]
}

// kirkCatchmentPlan picks the dataset and the limited variable of the next sequence, cycling systematically: the limited
// variable goes through none, sed, pn, dn, tn, ic, oc; the dataset through shipped / generated / generated-adverse.
func kirkCatchmentPlan(c *Ctx, r *Rng) (ds string, limVar int) {
	k := kirkSeqCounter
	kirkSeqCounter++
	limVar = k%7 - 1
	switch (k / 7) % 3 {
	case 0:
		shipped := shippedDatasets()
		return shipped[(k/21)%len(shipped)], limVar
	case 1:
		for {
			kirkGenCounter++
			ds = genDataset(r.Fork(), filepath.Join(c.Out, "gen"), fmt.Sprintf("K%d_", kirkGenCounter))
			if !strings.Contains(filepath.Base(ds), "adv_") {
				return ds, limVar
			}
		}
	default:
		for {
			kirkGenCounter++
			ds = genDataset(r.Fork(), filepath.Join(c.Out, "gen"), fmt.Sprintf("K%d_", kirkGenCounter))
			if strings.Contains(filepath.Base(ds), "adv_") {
				return ds, limVar
			}
		}
	}
}

func kirkCatchmentReplay(c *Ctx, w []string) {
	seed, err1 := strconv.ParseUint(w[1], 10, 64)
	steps, err2 := strconv.Atoi(w[2])
	limVar, err3 := strconv.Atoi(w[3])
	if err1 != nil || err2 != nil || err3 != nil || limVar < -1 || limVar > 5 || len(w) < 5 {
		return
	}
	ds := materialiseDataset("dataset "+strings.Join(w[4:], " "), filepath.Join(c.Out, "replay-ds"))
	kirkCatchmentRun(c, ds, seed, steps, limVar)
}

func kirkCatchmentRun(c *Ctx, ds string, seed uint64, steps int, limVar int) {
	r := NewRng(seed)
	replayLine := func() []string {
		return []string{fmt.Sprintf("kcatch %d %d %d %s", seed, steps, limVar, strings.TrimPrefix(datasetLine(ds), "dataset "))}
	}
	dsTag := "shipped"
	switch base := filepath.Base(ds); {
	case strings.Contains(base, "adv_"):
		dsTag = "adverse"
	case strings.HasPrefix(base, "K") || strings.HasPrefix(filepath.Base(filepath.Dir(ds)), "replay"):
		dsTag = "generated"
	}
	objective := varNames[r.Intn(len(varNames))]
	dir := []string{"min", "max"}[r.Intn(2)]
	a := []float64{0.9, 0.99, 1}[r.Intn(3)]
	params := parameters.Map{"DataSourcePath": relToCwd(ds)}
	limit := 0.0
	ref, err := newRef(ds, -1, 0)
	if err != nil || ref.cm.n() == 0 {
		c.Stat("catchment: dataset without actions / rejected (skipped)")
		return
	}
	n := ref.cm.n()
	if limVar >= 0 {
		// a limit makes the model report invalid changes; C03's premise: attainable at the starting extreme
		limit = startLimitsFor(ref, r, limVar, 1)[0]
		params[varMaxKey[limVar]] = limit
	}
	src := &scriptSource{}
	if limVar >= 0 {
		src.next = func() int { return r.Intn(n) } // the limit-seeking loops draw an action index
	} else {
		src.next = func() int { return r.Intn(2) } // the unbounded randomisation draws activate / ignore per action
	}
	var k *kirkRig
	var m *kirkSeededCatchment
	pan := protect(func() {
		m = &kirkSeededCatchment{Model: catchment.NewModel().WithParameters(params), src: src}
		if e := m.ParameterErrors(); e != nil {
			panic("parameters rejected: " + e.Error())
		}
		var p2 string
		// temperature on the scale of the objective's changes is chosen after a look at the model
		k, p2 = newKirkRig(dir, 1, a, m, objective)
		if p2 != "" {
			panic(p2)
		}
	})
	initDraws := append([]int(nil), src.log...)
	if pan != "" || k == nil || k.explorer == nil {
		if isGiveUp(pan) {
			// the deliberate panic of Randomize() when the limit never binds within n attempts (C19's matter)
			c.Stat(fmt.Sprintf("catchment: Randomize() gave up, limit never binds (skipped) limit=%s", limName(limVar)))
			return
		}
		// anything else: under a limit attainable at the starting extreme the explorer must come up with a state
		// (a scripted source that is asked for more than 20000 draws reports that Randomize() spins)
		pred, sig := "no-panic", "kirk:panic"
		if limVar >= 0 {
			pred, sig = "C03:kirk-initialisation-yields-a-state-within-the-limit", "kirk:initialisation-fails-under-attainable-limit:"+varShort[limVar]
		}
		c.Fail(pred, sig, fmt.Sprintf("Explorer.Initialise() over the catchment model: %s; dataset %s (n=%d), %s = %v; Randomize() drew %v",
			clip(pan, 300), filepath.Base(ds), n, limKeyName(limVar), limit, clipInts(initDraws, 40)), replayLine())
		return
	}
	k.approx = true
	T := []float64{0.01, 1, 100, 10000, 1e6}[r.Intn(5)]
	k.explorer.Temperature = T
	obj0 := k.objective()
	tracked := obj0
	k.tracked = &tracked // see kirkRig.tracked: the driver's scripted model does not re-round; the real objective is judged directly
	c.Op(fmt.Sprintf("reset %s %s %s %s", dir, floatBits(T), floatBits(a), floatBits(obj0)), "ok")
	c.Stat(fmt.Sprintf("catchment sequence data=%s limit=%s", dsTag, limName(limVar)))
	c.Stat(fmt.Sprintf("catchment sequence objective=%s dir=%s", objective, dir))

	// C03 on the state the explorer holds
	what := func() string {
		return fmt.Sprintf("dataset %s (n=%d), %s = %v, objective %s %s, T=%v; Randomize() drew %v", filepath.Base(ds), n, limKeyName(limVar), limit, dir, objective, T, clipInts(initDraws, 40))
	}
	var history []string
	holds := func(when string) bool {
		if limVar < 0 {
			return true
		}
		flags := flagsOf(m)
		held := m.DecisionVariable(varNames[limVar]).Value()
		fresh := ref.at(flags).totals[limVar]
		enc := strings.ReplaceAll(bitsStr(flags), "-", "")
		tail := history
		if len(tail) > 12 {
			tail = tail[len(tail)-12:]
		}
		if held > limit {
			c.Fail("C03:kirk-held-state-respects-limit", "kirk:held-state-exceeds-limit:"+varShort[limVar],
				fmt.Sprintf("%s: the model held by the Kirkpatrick explorer has %s = %v > limit %v (active set %s); %s; last steps (action proposed:outcome): %s",
					when, varNames[limVar], held, limit, enc, what(), strings.Join(tail, " ")), replayLine())
			return false
		}
		if fresh > limit {
			c.Fail("C03:kirk-held-state-respects-limit", "kirk:held-set-exceeds-limit-on-a-fresh-model:"+varShort[limVar],
				fmt.Sprintf("%s: the model held by the Kirkpatrick explorer reports %s = %v <= limit %v, but a fresh model at its active set %s has %v; %s; last steps (action proposed:outcome): %s",
					when, varNames[limVar], held, limit, enc, fresh, what(), strings.Join(tail, " ")), replayLine())
			return false
		}
		if held == limit {
			c.Stat("catchment: held state exactly at the limit")
		}
		return true
	}
	if !holds("after Explorer.Initialise()") {
		return
	}
	if limVar >= 0 {
		c.Stat(fmt.Sprintf("catchment: initial state within limit (%s, %s data)", varShort[limVar], dsTag))
	}
	src.next = func() int { return r.Intn(n) } // TryRandomChange picks the action to toggle
	for i := 0; i < steps; i++ {
		if r.Chance(0.3) {
			k.cool(c)
			continue
		}
		// the draw cannot be aimed at p here (the model picks the change); uniform + boundaries
		src.log = nil
		before := flagsOf(m)
		k.try(c, 0, true, kirkDraw(r, -1), "catchment")
		outcome := "?"
		if len(k.rec.events) > 0 {
			outcome = "reverted"
			for _, e := range k.rec.events {
				switch e.note {
				case "Invalid Change":
					outcome = "invalid"
				case "Accepting Desirable Change", "Accepting Undesirable Change":
					outcome = "accepted"
				}
			}
		}
		picked := -1
		if len(src.log) > 0 {
			picked = src.log[0]
		}
		history = append(history, fmt.Sprintf("%d:%s", picked, outcome))
		if limVar >= 0 {
			c.Stat(fmt.Sprintf("catchment limited try limit=%s %s", varShort[limVar], outcome))
			if outcome == "invalid" {
				c.Nontrivial(fmt.Sprintf("kc|%s|%s|%s|%d", filepath.Base(ds), varShort[limVar], bitsStr(before), picked))
			}
		}
		if !holds(fmt.Sprintf("after TryRandomChange #%d (proposed action %d: %s)", len(history), picked, outcome)) {
			break
		}
	}
	protect(func() { k.explorer.TearDown() })
}
