//go:build verif && !race

package main

const raceEnabled = false
