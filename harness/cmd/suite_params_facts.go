//go:build verif

package main

// `params-facts` (property C18): a small go/ast fact extractor over crem's sources.
//
// Fact checked: every call site of a typed parameter getter
//     <something>.GetInt64(K) / GetFloat64(K) / GetString(K) / GetBoolean(K)
// in crem's non-test sources names, through a string constant K, a key of the specification table
// of the component the constant belongs to; the validator of that key demands exactly the dynamic
// type the getter asserts; and the key is non-optional or the call sits where HasEntry(K) is known to
// hold: in the body of an `if` whose condition being true implies it, or in the else branch of one whose
// condition being false implies it (polarity-aware: `!`, `&&`, `||`; see hasEntryGuards).  A fact that no
// longer holds is a broken structural tie (predicate `structural:…`), not a failing input.  Together with `getter_total` (Crem/Properties/C18.lean) this is what makes
// "no typed read can panic" a statement about the real call sites.
//
// The specification tables are the live ones (extracted from the running components, as in the
// `params` suite); the sources are parsed from $VERIF_REPO (default /repo) with go/parser only.

import (
	"fmt"
	"go/ast"
	"go/parser"
	"go/token"
	"os"
	"path/filepath"
	"sort"
	"strconv"
	"strings"
)

func init() { register("params-facts", suiteParamsFacts) }

// package directory (relative to the repo) that declares a component's key constants -> component
var factPkgComp = map[string]string{
	"internal/pkg/annealing/annealers":                     "annealer",
	"internal/pkg/annealing/explorer/kirkpatrick":          "kirkexplorer",
	"internal/pkg/annealing/explorer/suppapitnarm":         "suppexplorer",
	"internal/pkg/annealing/cooling/coolants/kirkpatrick":  "kirkcoolant",
	"internal/pkg/annealing/cooling/coolants/suppapitnarm": "suppcoolant",
	"internal/pkg/annealing/cooling/coolants/averaged":     "avgcoolant",
	"internal/pkg/model/models/catchment/parameters":       "catchment",
	"internal/pkg/model/models/dumb":                       "dumb",
	"internal/pkg/model/models/modumb/parameters":          "modumb",
}

var getterTy = map[string]string{"GetInt64": "int", "GetFloat64": "float", "GetString": "str", "GetBoolean": "bool"}

const modulePath = "github.com/LindsayBradford/crem/"

// stringConsts collects `const Name [string] = "literal"` declarations of one package directory.
func stringConsts(fset *token.FileSet, dir string) map[string]string {
	out := map[string]string{}
	pkgs, err := parser.ParseDir(fset, dir, func(fi os.FileInfo) bool { return !strings.HasSuffix(fi.Name(), "_test.go") }, 0)
	if err != nil {
		return out
	}
	for _, p := range pkgs {
		for _, f := range p.Files {
			for _, d := range f.Decls {
				gd, ok := d.(*ast.GenDecl)
				if !ok || gd.Tok != token.CONST {
					continue
				}
				for _, sp := range gd.Specs {
					vs := sp.(*ast.ValueSpec)
					for i, n := range vs.Names {
						if i < len(vs.Values) {
							if bl, ok := vs.Values[i].(*ast.BasicLit); ok && bl.Kind == token.STRING {
								if s, err := strconv.Unquote(bl.Value); err == nil {
									out[n.Name] = s
								}
							}
						}
					}
				}
			}
		}
	}
	return out
}

func exprText(e ast.Expr) string {
	switch x := e.(type) {
	case *ast.Ident:
		return x.Name
	case *ast.SelectorExpr:
		return exprText(x.X) + "." + x.Sel.Name
	}
	return "?"
}

// hasEntryGuards: the key expressions K such that the condition having the given truth value IMPLIES
// …HasEntry(K).  Polarity-aware: `A && B` true implies both, `A || B` true implies only what both imply,
// `!A` swaps the polarity (so the else branch of `if !p.HasEntry(K)` is guarded, its body is not), and a
// HasEntry call buried in any other expression (a comparison, an argument) guards nothing.
func hasEntryGuards(cond ast.Expr, truth bool) []string {
	switch x := cond.(type) {
	case *ast.ParenExpr:
		return hasEntryGuards(x.X, truth)
	case *ast.UnaryExpr:
		if x.Op == token.NOT {
			return hasEntryGuards(x.X, !truth)
		}
	case *ast.BinaryExpr:
		l, r := hasEntryGuards(x.X, truth), hasEntryGuards(x.Y, truth)
		conj := (x.Op == token.LAND && truth) || (x.Op == token.LOR && !truth) // both operands are known
		disj := (x.Op == token.LOR && truth) || (x.Op == token.LAND && !truth) // only one of them is
		switch {
		case conj:
			return append(l, r...)
		case disj:
			var both []string
			for _, k := range l {
				for _, k2 := range r {
					if k == k2 {
						both = append(both, k)
					}
				}
			}
			return both
		}
	case *ast.CallExpr:
		if se, ok := x.Fun.(*ast.SelectorExpr); ok && se.Sel.Name == "HasEntry" && len(x.Args) == 1 && truth {
			return []string{exprText(x.Args[0])}
		}
	}
	return nil
}

func suiteParamsFacts(c *Ctx) {
	repo := os.Getenv("VERIF_REPO")
	if repo == "" {
		repo = "/repo"
	}
	if wd, err := os.Getwd(); err != nil || !isReadable(filepath.Join(wd, catchmentCsv)) {
		must(os.Chdir(repo))
	}
	// live specification tables
	type specInfo struct {
		ty       string
		optional bool
	}
	tables := map[string]map[string]specInfo{}
	for _, pc := range paramComponents() {
		t := map[string]specInfo{}
		pc := pc
		if p := protect(func() {
			for k, s := range pc.fresh().p().VerifSpecifications() {
				t[k] = specInfo{ty: validatorTy(validatorToken(s.Validator)), optional: s.IsOptional}
			}
		}); p != "" {
			c.Fail("structural:getter-call-site-facts", "params:facts:"+pc.name+":construction-panic", pc.name+": "+p, nil)
		}
		tables[pc.name] = t
	}

	fset := token.NewFileSet()
	constCache := map[string]map[string]string{}
	constsOf := func(rel string) map[string]string {
		if m, ok := constCache[rel]; ok {
			return m
		}
		m := stringConsts(fset, filepath.Join(repo, rel))
		constCache[rel] = m
		return m
	}

	var files []string
	for _, root := range []string{"internal", "cmd", "pkg"} {
		filepath.Walk(filepath.Join(repo, root), func(path string, info os.FileInfo, err error) error {
			if err != nil {
				return nil
			}
			if info.IsDir() && (info.Name() == "vendor" || info.Name() == "testdata" || info.Name() == "verifharness") {
				return filepath.SkipDir
			}
			if !info.IsDir() && strings.HasSuffix(path, ".go") && !strings.HasSuffix(path, "_test.go") && !strings.HasPrefix(info.Name(), "verif_access") {
				files = append(files, path)
			}
			return nil
		})
	}
	sort.Strings(files)

	sites := 0
	for _, path := range files {
		f, err := parser.ParseFile(fset, path, nil, 0)
		if err != nil {
			c.Fail("structural:facts", "params:facts:parse-error", path+": "+err.Error(), nil)
			continue
		}
		rel, _ := filepath.Rel(repo, path)
		relDir := filepath.Dir(rel)
		// import alias -> package directory relative to the repo
		imports := map[string]string{}
		for _, im := range f.Imports {
			p, _ := strconv.Unquote(im.Path.Value)
			if !strings.HasPrefix(p, modulePath) {
				continue
			}
			dir := strings.TrimPrefix(p, modulePath)
			alias := filepath.Base(dir)
			if im.Name != nil {
				alias = im.Name.Name
			}
			imports[alias] = dir
		}
		// resolve a key expression to (component, key)
		resolve := func(e ast.Expr) (comp, key string, ok bool) {
			switch x := e.(type) {
			case *ast.BasicLit:
				if x.Kind == token.STRING {
					s, _ := strconv.Unquote(x.Value)
					return factPkgComp[relDir], s, factPkgComp[relDir] != ""
				}
			case *ast.Ident:
				dirs := []string{relDir}
				for alias, d := range imports { // dot imports
					if alias == "." {
						dirs = append(dirs, d)
					}
				}
				for _, d := range dirs {
					if v, found := constsOf(d)[x.Name]; found {
						// the constant may be declared in the component's package or in its parameters package
						return factPkgComp[d], v, factPkgComp[d] != ""
					}
				}
			case *ast.SelectorExpr:
				if id, isId := x.X.(*ast.Ident); isId {
					if d, found := imports[id.Name]; found {
						if v, found := constsOf(d)[x.Sel.Name]; found {
							return factPkgComp[d], v, factPkgComp[d] != ""
						}
					}
				}
			}
			return "", "", false
		}

		var ifStack []*ast.IfStmt
		var stack []ast.Node
		ast.Inspect(f, func(n ast.Node) bool {
			if n == nil {
				top := stack[len(stack)-1]
				stack = stack[:len(stack)-1]
				if is, ok := top.(*ast.IfStmt); ok && len(ifStack) > 0 && ifStack[len(ifStack)-1] == is {
					ifStack = ifStack[:len(ifStack)-1]
				}
				return true
			}
			stack = append(stack, n)
			if is, ok := n.(*ast.IfStmt); ok {
				ifStack = append(ifStack, is)
			}
			ce, ok := n.(*ast.CallExpr)
			if !ok || len(ce.Args) != 1 {
				return true
			}
			se, ok := ce.Fun.(*ast.SelectorExpr)
			if !ok {
				return true
			}
			ty, isGetter := getterTy[se.Sel.Name]
			if !isGetter {
				return true
			}
			// only receivers that are parameter sets: `….parameters.GetX(…)` or an identifier named parameters
			recv := exprText(se.X)
			if !(strings.HasSuffix(recv, ".parameters") || recv == "parameters" || strings.HasSuffix(recv, "Parameters")) {
				c.Stat("getter-named call on a non-parameter receiver (ignored): " + recv)
				return true
			}
			pos := fset.Position(ce.Pos())
			where := fmt.Sprintf("%s:%d", rel, pos.Line)
			sites++
			comp, key, resolved := resolve(ce.Args[0])
			op := fmt.Sprintf("fact %s %s(%s)", where, se.Sel.Name, exprText(ce.Args[0]))
			if !resolved {
				c.Op(op, "unresolved-key")
				c.Fail("structural:getter-call-site-facts", "params:facts:unresolved-key", where+": the key expression "+exprText(ce.Args[0])+" is not a string constant of a known component", []string{op})
				return true
			}
			spec, specified := tables[comp][key]
			guarded := false
			keyText := exprText(ce.Args[0])
			for _, is := range ifStack {
				var guards []string
				if pos := ce.Pos(); pos >= is.Body.Pos() && pos <= is.Body.End() {
					guards = hasEntryGuards(is.Cond, true) // inside the body the condition held
				} else if is.Else != nil && pos >= is.Else.Pos() && pos <= is.Else.End() {
					guards = hasEntryGuards(is.Cond, false) // inside the else branch it did not
				}
				for _, g := range guards {
					if g == keyText {
						guarded = true
					}
				}
			}
			switch {
			case !specified:
				c.Op(op, "unspecified-key")
				c.Fail("structural:getter-call-site-facts", "params:facts:"+comp+":"+key+":unspecified", where+": reads a key that "+comp+"'s specification table does not contain", []string{op})
			case spec.ty != ty:
				c.Op(op, "type-mismatch")
				c.Fail("structural:getter-call-site-facts", "params:facts:"+comp+":"+key+":type-mismatch", fmt.Sprintf("%s: %s asserts %s but the key's validator demands %s", where, se.Sel.Name, ty, spec.ty), []string{op})
			case spec.optional && !guarded:
				c.Op(op, "optional-unguarded")
				c.Fail("structural:getter-call-site-facts", "params:facts:"+comp+":"+key+":optional-unguarded", where+": reads an optional key outside an `if HasEntry(key)` body", []string{op})
			default:
				c.Op(op, "ok "+comp+" "+key+" "+ty+map[bool]string{true: " guarded", false: ""}[guarded])
				c.Stat(fmt.Sprintf("call site ok: %s %s optional=%v guarded=%v", comp, se.Sel.Name, spec.optional, guarded))
				c.Nontrivial(comp + " " + key + " " + se.Sel.Name)
			}
			return true
		})
	}
	c.extra["getter_call_sites"] = sites
	if sites < 40 {
		c.Fail("structural:getter-call-site-facts", "params:facts:too-few-call-sites", fmt.Sprintf("only %d typed-getter call sites found under %s (the unchanged tree has 49): the extractor no longer sees the code", sites, repo), nil)
	}
}
