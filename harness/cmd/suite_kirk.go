//go:build verif

package main

// Suite kirk-script (property C04): the REAL kirkpatrick.Explorer is driven
//   (a) over a scripted model.Model (scripted objective change incl. ±0 / tiny / huge /
//       non-finite, scripted validity verdict) with a scripted math/rand.Source, so the uniform
//       draw is known exactly (u = 0, u = 1, u a few grid steps above/below p), and
//   (b) over the real catchment model (the model's own random choices are recorded, the
//       explorer's draws are scripted).
// Every TryRandomChange / CoolDown is one protocol line; the Lean driver runs the model of
// Crem/Model/Kirkpatrick.lean with Float arithmetic on the same lines.  The Metropolis rule is
// also evaluated directly on what the implementation did (search for a failing input).

import (
	"github.com/LindsayBradford/crem/internal/pkg/model/models/dumb"
	"fmt"
	"math"
	mrand "math/rand"
	"strconv"
	"strings"

	"github.com/LindsayBradford/crem/internal/pkg/annealing/explorer/kirkpatrick"
	"github.com/LindsayBradford/crem/internal/pkg/model"
	"github.com/LindsayBradford/crem/internal/pkg/model/variable"
	"github.com/LindsayBradford/crem/internal/pkg/observer"
	"github.com/LindsayBradford/crem/internal/pkg/parameters"
	cremrand "github.com/LindsayBradford/crem/internal/pkg/rand"
	cremerrors "github.com/LindsayBradford/crem/pkg/errors"
)

func init() { register("kirk-script", suiteKirk) }

// ---------------------------------------------------------------- scripted pieces

// scriptedSource is a math/rand.Source whose next Int63 is set by the harness.
type scriptedSource struct {
	next  int64
	calls int
}

func (s *scriptedSource) Int63() int64 { s.calls++; return s.next }
func (s *scriptedSource) Seed(int64)   {}

var _ mrand.Source = (*scriptedSource)(nil)

// scriptedModel implements model.Model: the pending change and its validity are whatever
// the harness scripted; AcceptChange adds the change to the objective value, RevertChange
// leaves it.  Everything else is the null model's.
type scriptedModel struct {
	model.Model // null model
	objective    float64
	pendingDelta float64
	pendingValid bool
	nextDelta    float64
	nextValid    bool
	calls        []byte
}

func newScriptedModel(objective float64) *scriptedModel {
	return &scriptedModel{Model: model.NewNullModel(), objective: objective, pendingValid: true}
}

func (m *scriptedModel) Initialise(model.InitialisationType) {}
func (m *scriptedModel) Randomize()                          {}
func (m *scriptedModel) TearDown()                           {}
func (m *scriptedModel) DeepClone() model.Model              { c := *m; return &c }
func (m *scriptedModel) TryRandomChange() {
	m.calls = append(m.calls, 'T')
	m.pendingDelta, m.pendingValid = m.nextDelta, m.nextValid
}
func (m *scriptedModel) ChangeIsValid() (bool, *cremerrors.CompositeError) {
	if m.pendingValid {
		return true, nil
	}
	e := cremerrors.New("scripted validation")
	e.AddMessage("scripted invalid change")
	return false, e
}
func (m *scriptedModel) AcceptChange() {
	m.calls = append(m.calls, 'A')
	m.objective += m.pendingDelta
}
func (m *scriptedModel) RevertChange()                         { m.calls = append(m.calls, 'R') }
func (m *scriptedModel) OffersDecisionVariable(string) bool     { return true }
func (m *scriptedModel) DecisionVariableChange(string) float64 { return m.pendingDelta }
func (m *scriptedModel) DecisionVariable(name string) variable.DecisionVariable {
	v := variable.NewSimpleDecisionVariable(name)
	v.SetValue(m.objective)
	return v
}

// eventRecorder copies what it needs out of every event at once (attribute arrays are shared
// between observers and may be rewritten later).
type kirkEvent struct {
	note      string
	hasDelta  bool
	delta     float64
	hasDes    bool
	desirable bool
	hasProb   bool
	prob      float64
	hasTemp   bool
	temp      float64
}

type kirkRecorder struct{ events []kirkEvent }

func (r *kirkRecorder) ObserveEvent(e observer.Event) {
	if e.EventType != observer.Explorer {
		return
	}
	ke := kirkEvent{}
	for _, a := range e.AllAttributes() {
		switch a.Name {
		case "Note":
			ke.note, _ = a.Value.(string)
		case kirkpatrick.ChangeInObjectiveValue:
			ke.delta, ke.hasDelta = a.Value.(float64)
		case "ChangeIsDesirable":
			ke.desirable, ke.hasDes = a.Value.(bool)
		case "AcceptanceProbability":
			ke.prob, ke.hasProb = a.Value.(float64)
		case "Temperature":
			ke.temp, ke.hasTemp = a.Value.(float64)
		}
	}
	r.events = append(r.events, ke)
}

// ---------------------------------------------------------------- the explorer under test

type kirkRig struct {
	dir      string // min | max | unset
	explorer *kirkpatrick.Explorer
	scripted *scriptedModel // nil in catchment mode
	src      *scriptedSource
	rec      *kirkRecorder
	approx   bool // objective compared approximately (catchment mode)
	// tracked (catchment mode over generated data): the objective the driver's scripted model holds -- the starting value
	// plus every accepted reported change, added in binary64 WITHOUT the catchment model's re-rounding to its grid.  The
	// objective token of a `tryc` line is this accumulation (a relative tolerance cannot absorb the difference once the
	// objective cancels to near zero); the real objective is judged by the direct clause objective-update.
	tracked *float64
}

func (k *kirkRig) objective() float64 {
	if k.scripted != nil {
		return k.scripted.objective
	}
	return k.explorer.ObjectiveValue()
}

func bitsOrNaN(f float64) string {
	if math.IsNaN(f) {
		return "nan"
	}
	return floatBits(f)
}

func approxTok(f float64) string {
	switch {
	case math.IsNaN(f):
		return "nan"
	case math.IsInf(f, 1):
		return "inf"
	case math.IsInf(f, -1):
		return "-inf"
	case math.Abs(f) < 1e-300:
		return "~0"
	}
	return "~" + strconv.FormatFloat(f, 'e', 17, 64)
}

func parseBitsTok(s string) (float64, bool) {
	if s == "nan" {
		return math.NaN(), true
	}
	b, err := strconv.ParseUint(s, 16, 64)
	if err != nil || len(s) != 16 {
		return 0, false
	}
	return math.Float64frombits(b), true
}

var kirkRigTick int

func newKirkRig(dir string, T, a float64, m model.Model, objectiveName string) (*kirkRig, string) {
	k := &kirkRig{dir: dir, src: &scriptedSource{}, rec: &kirkRecorder{}}
	p := protect(func() {
		ke := kirkpatrick.New()
		ke.SetLogHandler(nil) // -> null logger
		// as crem's configuration does: parameters first (against the null model), then the model
		if dir != "unset" {
			params := parameters.Map{}
			if dir == "max" {
				params[kirkpatrick.OptimisationDirection] = "Maximising"
			} else {
				params[kirkpatrick.OptimisationDirection] = "Minimising"
			}
			if objectiveName != "" {
				params[kirkpatrick.DecisionVariableName] = objectiveName
			}
			ke.SetParameters(params)
		}
		ke.SetModel(m)
		// every other rig: a clone of the configured explorer (as every run of a scenario is) is re-parameterised with the
		// OPPOSITE direction before this explorer is used — what one explorer is told must not reach another
		kirkRigTick++
		if dir != "unset" && kirkRigTick%2 == 0 {
			opposite := parameters.Map{kirkpatrick.OptimisationDirection: "Maximising"}
			if dir == "max" {
				opposite[kirkpatrick.OptimisationDirection] = "Minimising"
			}
			protect(func() {
				if sib, ok := ke.DeepClone().(*kirkpatrick.Explorer); ok {
					sib.SetParameters(opposite)
				}
			})
		}
		ke.Initialise()
		// after Initialise (which re-seeds from the clock): scripted draws
		ke.SetRandomNumberGenerator(cremrand.New(k.src))
		ke.Temperature = T
		ke.CoolingFactor = a
		ke.AddObserver(k.rec)
		k.explorer = ke
	})
	return k, p
}

// unitaryOf is crem's own Float64Unitary on a source whose next Int63 is v
func unitaryOf(v int64) float64 {
	return cremrand.New(&scriptedSource{next: v}).Float64Unitary()
}

// improvingGo is the property's "improves the objective in the configured direction"
func improvingGo(dir string, d float64) bool {
	switch dir {
	case "min":
		return d < 0
	case "max":
		return d > 0
	}
	return false
}

// try executes one TryRandomChange.  For the scripted model (delta, valid) are scripted; in
// catchment mode they are read back from what the model reported.
func (k *kirkRig) try(c *Ctx, delta float64, valid bool, v int64, tag string) {
	ke := k.explorer
	before := k.objective()
	T := ke.Temperature
	k.src.next, k.src.calls = v, 0
	k.rec.events = k.rec.events[:0]
	if k.scripted != nil {
		k.scripted.nextDelta, k.scripted.nextValid = delta, valid
		k.scripted.calls = k.scripted.calls[:0]
	}
	pan := protect(func() { ke.TryRandomChange() })
	opName := "try"
	if k.approx {
		opName = "tryc"
	}
	if pan != "" {
		op := fmt.Sprintf("%s %s %s %d -", opName, b2s(valid), bitsOrNaN(delta), v)
		c.Op(op, "panic")
		c.Fail("no-panic", "kirk:panic", pan, nil)
		return
	}
	// what the implementation did, from its events
	kind, evs := "?", []string{}
	var pEv float64
	hasP := false
	dRep := math.NaN()
	sawInvalid := false
	for _, e := range k.rec.events {
		switch {
		case e.note == "Trying Random Model Change":
			evs = append(evs, "n")
		case e.note == "Invalid Change":
			evs = append(evs, "i:"+bitsOrNaN(e.delta))
			kind, dRep, sawInvalid = "inv", e.delta, true
		case e.hasDes:
			evs = append(evs, "d"+b2s(e.desirable)+":"+bitsOrNaN(e.delta))
			dRep = e.delta
		case e.note == "Accepting Desirable Change":
			evs = append(evs, "ad")
			kind, pEv, hasP = "des", e.prob, e.hasProb
		case e.note == "Accepting Undesirable Change":
			evs = append(evs, "au")
			kind, pEv, hasP = "uacc", e.prob, e.hasProb
		case e.note == "Reverting Undesirable Change":
			evs = append(evs, "ru")
			kind, pEv, hasP = "urev", e.prob, e.hasProb
		default:
			evs = append(evs, "?"+e.note)
		}
	}
	after := k.objective()
	var calls string
	if k.scripted != nil {
		calls = strings.TrimPrefix(string(k.scripted.calls), "T")
	} else {
		// catchment mode: validity and change are the model's own; accept/revert is what the events say
		valid = !sawInvalid
		delta = dRep
		if kind == "des" || kind == "uacc" {
			calls = "A"
		} else {
			calls = "R"
		}
	}
	u := unitaryOf(v)
	// a draw within 1e-9 of p cannot be decided across exp implementations: hint Go's verdict
	hint := "-"
	// (u = 1 is decidable: no exp exceeds 1 at a non-positive argument; so is u = 0 unless p is
	// subnormal or at the underflow threshold)
	decidable := u == 1 || (u == 0 && (pEv >= 1e-300 || (pEv == 0 && math.Abs(dRep)/T > 750)))
	if (kind == "uacc" || kind == "urev") && hasP && math.Abs(pEv-u) <= 0.9e-9 && !decidable {
		hint = calls
		c.Stat("near-draw (|p-u|<=1e-9, model follows Go's verdict; rule checked directly)")
	}
	op := fmt.Sprintf("%s %s %s %d %s", opName, b2s(valid), bitsOrNaN(delta), v, hint)
	pTok := "-"
	if hasP {
		pTok = approxTok(pEv)
	}
	objTok := bitsOrNaN(after)
	if k.approx {
		objTok = approxTok(after)
	}
	if k.tracked != nil {
		if calls == "A" {
			*k.tracked += dRep
		}
		objTok = approxTok(*k.tracked)
	}
	c.Op(op, fmt.Sprintf("%s %s %d %s %s %s %s %s %s", kind, calls, k.src.calls, bitsOrNaN(dRep), pTok,
		approxTok(ke.AcceptanceProbability), objTok, strings.Join(evs, ","), bitsOrNaN(u)))

	// ---- the property, evaluated directly on the implementation
	// (replay = an explorer reset to the state before this step, then the step)
	aNow := ke.CoolingFactor
	ops := []string{fmt.Sprintf("reset %s %s %s %s", k.dir, bitsOrNaN(T), bitsOrNaN(aNow), bitsOrNaN(before)), op}
	ctx := fmt.Sprintf("dir=%s T=%v delta=%v valid=%v u=%v -> %s calls=%s p=%v draws=%d", k.dir, T, delta, valid, u, kind, calls, pEv, k.src.calls)
	accepted := calls == "A"
	if calls != "A" && calls != "R" {
		c.Fail("one-accept-or-revert", "kirk:accept-revert-calls", ctx, ops)
	}
	finite := !math.IsNaN(delta) && !math.IsInf(delta, 0)
	switch {
	case !valid:
		if kind != "inv" || accepted {
			c.Fail("invalid-reverts", "kirk:invalid-not-reverted", ctx, ops)
		}
	case k.dir != "unset" && finite && T > 0 && !math.IsInf(T, 0):
		if improvingGo(k.dir, delta) {
			if !accepted || kind != "des" || !hasP || pEv != 1 || k.src.calls != 0 {
				c.Fail("improving-accepts", "kirk:improving-not-accepted", ctx, ops)
			}
		} else {
			if kind != "uacc" && kind != "urev" {
				c.Fail("otherwise-iff", "kirk:metropolis-rule", "not decided by the draw: "+ctx, ops)
			} else {
				if accepted != (pEv > u) || k.src.calls != 1 {
					c.Fail("otherwise-iff", "kirk:metropolis-rule", "accepted != (p > u): "+ctx, ops)
				}
				want := math.Exp(-math.Abs(delta) / T)
				if !(math.Abs(pEv-want) <= 1e-12*want+1e-300) {
					c.Fail("otherwise-iff", "kirk:probability-formula", fmt.Sprintf("p=%v, exp(-|d|/T)=%v: %s", pEv, want, ctx), ops)
				}
			}
		}
		if hasP && !(pEv >= 0 && pEv <= 1) {
			c.Fail("prob-range", "kirk:probability-range", ctx, ops)
		}
	}
	// observation, not a clause of the property (which quantifies over positive temperatures): T = 0 is the DEFAULT
	// StartingTemperature; there exp(-|d|/0) is 0 for d != 0 and NaN for d = 0 (reported as it is), and nothing
	// that is not an improvement is ever accepted
	if valid && k.dir != "unset" && finite && T == 0 && (kind == "uacc" || kind == "urev") && hasP {
		switch {
		case delta == 0 && math.IsNaN(pEv) && !accepted:
			c.Stat("observation T=0 (default StartingTemperature): zero change -> probability reported as NaN, reverted")
		case delta != 0 && pEv == 0 && !accepted:
			c.Stat("observation T=0 (default StartingTemperature): worsening change -> probability 0, reverted")
		default:
			c.Stat("observation T=0 (default StartingTemperature): other behaviour")
		}
	}
	if k.dir != "unset" && finite && !math.IsNaN(before) && !math.IsInf(before, 0) {
		want := before
		if accepted {
			want = before + dRep
		}
		tol := 0.0
		if k.approx {
			tol = 1e-9*math.Max(math.Abs(before), math.Abs(want)) + 1e-9
		}
		if !(math.Abs(after-want) <= tol) && !(math.IsInf(want, 0) && want == after) {
			c.Fail("objective-update", "kirk:objective-update", fmt.Sprintf("before=%v reported change=%v accepted=%v after=%v: %s", before, dRep, accepted, after, ctx), ops)
		}
	}
	// ---- distribution
	c.Stat(fmt.Sprintf("%s dir=%s %s", tag, k.dir, kind))
	if kind == "uacc" || kind == "urev" || kind == "des" {
		c.Nontrivial(fmt.Sprintf("%s|%s|%s", k.dir, floatBits(T), op))
	}
}

func (k *kirkRig) cool(c *Ctx) {
	k.rec.events = k.rec.events[:0]
	pan := protect(func() { k.explorer.CoolDown() })
	if pan != "" {
		c.Op("cool", "panic")
		c.Fail("no-panic", "kirk:panic", pan, nil)
		return
	}
	ev := "?"
	if len(k.rec.events) == 1 && k.rec.events[0].note == "Cooling" && k.rec.events[0].hasTemp {
		ev = "c:" + bitsOrNaN(k.rec.events[0].temp)
	}
	c.Op("cool", bitsOrNaN(k.explorer.Temperature)+" "+ev)
	c.Stat("cool")
}

// ---------------------------------------------------------------- generators

var kirkTemps = []float64{1, 10, 1000, 0.001, 0.5, 123.456, 1e-300, 5e-324, 1e300, math.MaxFloat64, math.Inf(1), 0}
var kirkFactors = []float64{0, 0.5, 0.9, 0.999, 1}

func kirkTemp(r *Rng) float64 {
	if r.Chance(0.3) {
		return kirkTemps[r.Intn(len(kirkTemps))]
	}
	return math.Pow(10, r.Float()*12-6)
}

func kirkDelta(r *Rng, T float64) float64 {
	sign := 1.0
	if r.Bool() {
		sign = -1
	}
	switch r.Intn(10) {
	case 0:
		return math.Copysign(0, sign)
	case 1:
		tiny := []float64{5e-324, 1e-310, 1e-300, 1e-30}
		return sign * tiny[r.Intn(len(tiny))]
	case 2:
		huge := []float64{1e300, math.MaxFloat64, 1e30}
		return sign * huge[r.Intn(len(huge))]
	case 3:
		if r.Chance(0.1) {
			return math.NaN()
		}
		if r.Chance(0.1) {
			return math.Inf(int(sign))
		}
		return sign * float64(1+r.Intn(3))
	case 4: // deep in the tail: exp underflows / is subnormal
		if T > 0 && !math.IsInf(T, 0) {
			ratios := []float64{700, 708.4, 745, 745.2, 800, 1e5}
			return sign * T * ratios[r.Intn(len(ratios))]
		}
		return sign
	default: // |delta|/T log-uniform in [1e-6, 50]
		if T > 0 && !math.IsInf(T, 0) && T < 1e290 {
			return sign * T * math.Pow(10, r.Float()*7.7-6)
		}
		return sign * math.Pow(10, r.Float()*6-3)
	}
}

const unitaryMask = int64(1)<<53 - 1

// kirkDraw scripts the source's next Int63: boundary draws (u = 0, u = 1, masked bits),
// draws a few grid steps either side of the acceptance probability, and uniform ones.
func kirkDraw(r *Rng, p float64) int64 {
	switch r.Intn(8) {
	case 0:
		return 0
	case 1:
		return unitaryMask // u = 1
	case 2:
		return int64(r.U64()>>1) | unitaryMask // high bits set, masked away: u = 1
	case 3:
		return (int64(r.U64()>>1) &^ unitaryMask) // u = 0 with high bits set
	case 4:
		if p >= 0 && p <= 1 {
			steps := []int64{0, 1, -1, 1000, -1000, 20000000, -20000000, 30000000, -30000000, 100000000, -100000000, 1 << 40, -(1 << 40), 1 << 46, -(1 << 46)}
			k := int64(math.Round(p*float64(unitaryMask))) + steps[r.Intn(len(steps))]
			if k < 0 {
				k = 0
			}
			if k > unitaryMask {
				k = unitaryMask
			}
			return k
		}
	}
	return int64(r.U64() >> 1)
}

func kirkDirOf(r *Rng) string {
	switch r.Intn(9) {
	case 0:
		return "unset"
	case 1, 2, 3, 4:
		return "min"
	}
	return "max"
}

func kirkScriptedSequence(c *Ctx, r *Rng, steps int) {
	dir, T, a := kirkDirOf(r), kirkTemp(r), kirkFactors[r.Intn(len(kirkFactors))]
	obj0 := []float64{1000, 0, -5, 1e15, 123.456}[r.Intn(5)]
	m := newScriptedModel(obj0)
	k, pan := newKirkRig(dir, T, a, m, "")
	k.scripted = m
	op := fmt.Sprintf("reset %s %s %s %s", dir, floatBits(T), floatBits(a), floatBits(obj0))
	if pan != "" {
		c.Op(op, "panic")
		c.Fail("no-panic", "kirk:panic", pan, []string{op})
		return
	}
	c.Op(op, "ok")
	c.Stat(fmt.Sprintf("sequence dir=%s", dir))
	for i := 0; i < steps; i++ {
		if r.Chance(0.1) {
			k.cool(c)
			continue
		}
		Tn := k.explorer.Temperature
		d := kirkDelta(r, Tn)
		valid := !r.Chance(0.15)
		p := math.Exp(-math.Abs(d) / Tn)
		k.try(c, d, valid, kirkDraw(r, p), "scripted")
	}
}

const catchmentCsv = "internal/pkg/model/models/catchment/testdata/ValidModel.csv"

// kirkCatchmentSequence: the same explorer over the real catchment model (suite_kirk_catchment.go): shipped and
// generated (incl. adverse) datasets, no limit or a limit on any of the six variables (property C03).
func kirkCatchmentSequence(c *Ctx, r *Rng, steps int) {
	ds, limVar := kirkCatchmentPlan(c, r)
	kirkCatchmentRun(c, ds, r.U64(), steps, limVar)
}

// kirkDumbSequence: the real explorer over crem's own DumbModel (Model.Type = "DumbModel" in a configuration): the model
// picks the change (+-1 within its range), reports it, and must apply exactly that on acceptance.
func kirkDumbSequence(c *Ctx, r *Rng, steps int) {
	dir := []string{"min", "max"}[r.Intn(2)]
	a := []float64{0.9, 0.99, 1}[r.Intn(3)]
	var k *kirkRig
	pan := protect(func() {
		m := dumb.NewModel()
		// half of the sequences start on or next to an end of the model's configured objective range (the defaults 0 / 2000,
		// or a narrow range of its own): what the model reports there must still be what an acceptance applies (seed C04k)
		if r.Chance(0.5) {
			lo, hi := 0.0, 2000.0
			if r.Chance(0.5) {
				lo = float64(r.Intn(2000)) - 1000
				hi = lo + float64(1+r.Intn(4))
			}
			init := []float64{lo, lo + 1, hi - 1, hi}[r.Intn(4)]
			if err := m.SetParameters(parameters.Map{dumb.InitialObjectiveValue: init, dumb.MinimumObjectiveValue: lo, dumb.MaximumObjectiveValue: hi}); err != nil {
				panic("DumbModel refuses its range parameters: " + err.Error())
			}
			c.Stat("dumb-model sequence starting at an end of the objective range")
		}
		m.Initialise(model.AsIs)
		var p2 string
		k, p2 = newKirkRig(dir, 1, a, m, "ObjectiveValue")
		if p2 != "" {
			panic(p2)
		}
	})
	if pan != "" || k == nil || k.explorer == nil {
		c.Fail("no-panic", "kirk:panic", "DumbModel under the Kirkpatrick explorer: "+pan, nil)
		return
	}
	k.approx = true
	T := []float64{0.1, 1, 10, 1000}[r.Intn(4)]
	k.explorer.Temperature = T
	obj0 := k.objective()
	c.Op(fmt.Sprintf("reset %s %s %s %s", dir, floatBits(T), floatBits(a), floatBits(obj0)), "ok")
	c.Stat(fmt.Sprintf("dumb-model sequence dir=%s", dir))
	for i := 0; i < steps; i++ {
		if r.Chance(0.2) {
			k.cool(c)
			continue
		}
		k.try(c, 0, true, kirkDraw(r, math.Exp(-1/k.explorer.Temperature)), "dumb")
	}
	protect(func() { k.explorer.TearDown() })
}

// ---------------------------------------------------------------- replay

func kirkReplay(c *Ctx, lines []string) {
	var k *kirkRig
	for _, l := range lines {
		w := strings.Fields(l)
		if len(w) == 0 {
			continue
		}
		switch {
		case w[0] == "reset" && len(w) == 5:
			T, ok1 := parseBitsTok(w[2])
			a, ok2 := parseBitsTok(w[3])
			obj, ok3 := parseBitsTok(w[4])
			if !ok1 || !ok2 || !ok3 {
				continue
			}
			m := newScriptedModel(obj)
			var pan string
			k, pan = newKirkRig(w[1], T, a, m, "")
			k.scripted = m
			if pan != "" {
				c.Op(l, "panic")
				k = nil
				continue
			}
			c.Op(l, "ok")
		case (w[0] == "try" || w[0] == "tryc") && len(w) == 5 && k != nil:
			d, ok := parseBitsTok(w[2])
			v, err := strconv.ParseInt(w[3], 10, 64)
			if !ok || err != nil {
				continue
			}
			// a recorded catchment step is replayed on the scripted model (same change, same verdict)
			k.approx = w[0] == "tryc"
			k.try(c, d, w[1] == "1", v, "replay")
		case w[0] == "cool" && k != nil:
			k.cool(c)
		case w[0] == "kcatch" && len(w) >= 5:
			// a whole sequence over the real catchment model, re-run from its recorded seed and dataset
			kirkCatchmentReplay(c, w)
			k = nil
		}
	}
}

func suiteKirk(c *Ctx) {
	if c.Replay != "" {
		kirkReplay(c, readLines(c.Replay))
		return
	}
	r := c.Rng
	// fixed opening: every decision kind at the exact boundaries, both directions
	for _, dir := range []string{"min", "max", "unset"} {
		m := newScriptedModel(1000)
		k, pan := newKirkRig(dir, 10, 0.5, m, "")
		k.scripted = m
		if pan != "" {
			c.Fail("no-panic", "kirk:panic", pan, nil)
			continue
		}
		c.Op(fmt.Sprintf("reset %s %s %s %s", dir, floatBits(10), floatBits(0.5), floatBits(1000)), "ok")
		for _, d := range []float64{0, math.Copysign(0, -1), 3, -3, 5e-324, -5e-324, 1e300, -1e300, 7000, -7000} {
			p := math.Exp(-math.Abs(d) / 10)
			kp := int64(math.Round(p * float64(unitaryMask)))
			for _, v := range []int64{0, unitaryMask, kp, kp + 1, kp - 1, kp + 30000000, kp - 30000000, 1 << 52} {
				if v < 0 {
					v = 0
				}
				if v > unitaryMask {
					v = unitaryMask
				}
				k.try(c, d, true, v, "opening")
			}
			k.try(c, d, false, 0, "opening")
		}
		k.cool(c)
	}
	seqs := c.N(1200, 12000)
	for s := 0; s < seqs; s++ {
		kirkScriptedSequence(c, r, 20+r.Intn(100))
	}
	// long sequences
	for s := 0; s < c.N(2, 20); s++ {
		kirkScriptedSequence(c, r, c.N(3000, 10000))
	}
	for s := 0; s < c.N(63, 315); s++ { // 7 limit choices x 3 kinds of dataset x 3 (15) rounds
		kirkCatchmentSequence(c, r, c.N(160, 400))
	}
	for s := 0; s < c.N(8, 40); s++ {
		kirkDumbSequence(c, r, c.N(200, 600))
	}
}
