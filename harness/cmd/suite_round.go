//go:build verif

package main

// round-ops: the rounding primitive every figure of the catchment model, every written cell and every quoted value passes
// through, `pkg/math.RoundFloat(value, precision)`, against the Lean definition the theorems are about
// (`Crem.rnd`, Crem/Model/Round.lean: half away from zero on the 10^-p grid), line by line:
//
//   round <16 hex bits of value> <precision>  ->  <the rounded value, written with <precision> decimals> | refuse | big
//
// `refuse` = the code's deliberate refusal (|value| > MaxFloat64 / 10^p; the text is learnt, DESIGN 4); `big` = a value whose
// scaled magnitude is beyond 2^52 (every float there is an integer: rounding is the identity up to the double rounding of
// value*10^p/10^p, which is not compared).  The driver answers BOUNDARY where value*10^p is within float error of a
// half-integer WITHOUT being one (Go decides those by the last bit of its float product).  EXACT half-integers — x.5, x.25,
// x.125, x.375, … scaled — are decided: the product is exact in binary64 and math.Round rounds away from zero.
// Direct clauses (Go against Go, no model): mirror RoundFloat(-v, p) = -RoundFloat(v, p) (what makes do/undo cancel),
// idempotence, |RoundFloat(v, p) - v| <= half a grid unit, the result is on the grid.

import (
	"fmt"
	"math"

	cremmath "github.com/LindsayBradford/crem/pkg/math"
)

func init() { register("round-ops", suiteRound) }

func roundOnce(v float64, p int) (res float64, outcome string) {
	if pan := protect(func() { res = cremmath.RoundFloat(v, p) }); pan != "" {
		if isRoundingRefusal(pan) {
			return 0, "refuse"
		}
		return 0, "panic:" + pan
	}
	return res, "ok"
}

func roundCase(c *Ctx, v float64, p int, tag string) {
	op := fmt.Sprintf("round %s %d", floatBits(v), p)
	shift := math.Pow(10, float64(p))
	res, outcome := roundOnce(v, p)
	c.Stat("round " + tag + " " + clip(outcome, 12))
	switch {
	case outcome == "refuse":
		c.Op(op, "refuse")
	case outcome != "ok":
		c.Op(op, "panic")
		c.Fail("no-panic", "round:panic", fmt.Sprintf("RoundFloat(%v, %d): %s", v, p, outcome), []string{op})
		return
	case math.IsNaN(v):
		c.Op(op, "nan")
	case math.Abs(v)*shift >= 1<<52:
		c.Op(op, "big")
	default:
		c.Op(op, gridFmt(res, p))
	}
	if outcome != "ok" || math.IsNaN(v) || math.Abs(v)*shift >= 1<<52 {
		return
	}
	c.Nontrivial(fmt.Sprintf("round|%d|%s", p, floatBits(v)))
	// mirror: rounding commutes with negation (an action switched on and off again must leave nothing behind)
	if neg, o2 := roundOnce(-v, p); o2 != "ok" || neg != -res {
		c.Fail("C01:rounding-mirrors", "round:not-odd", fmt.Sprintf("RoundFloat(%v, %d) = %v but RoundFloat(%v, %d) = %v (%s)", v, p, res, -v, p, neg, o2), []string{op})
	}
	// idempotence: a figure on the grid stays where it is
	if again, o3 := roundOnce(res, p); o3 != "ok" || again != res {
		c.Fail("C11:rounding-idempotent", "round:not-idempotent", fmt.Sprintf("RoundFloat(%v, %d) = %v, rounded again = %v (%s)", v, p, res, again, o3), []string{op})
	}
	// nearest: never further than half a grid unit (one part in 2^40 of slack for the float product)
	if d := math.Abs(res - v); d > 0.5/shift*(1+1e-9)+math.Abs(v)*1e-15 {
		c.Fail("C11:rounding-nearest", "round:not-nearest", fmt.Sprintf("RoundFloat(%v, %d) = %v is %v away, more than half a grid unit", v, p, res, d), []string{op})
	}
	// on the grid
	if k := res * shift; math.Abs(k-math.Round(k)) > 1e-6*math.Max(1, math.Abs(k))*1e-3 {
		c.Fail("C11:rounding-on-grid", "round:off-grid", fmt.Sprintf("RoundFloat(%v, %d) = %v is not a multiple of 10^-%d", v, p, res, p), []string{op})
	}
}

func suiteRound(c *Ctx) {
	if c.Replay != "" {
		for _, l := range readLines(c.Replay) {
			var bits uint64
			var p int
			if n, _ := fmt.Sscanf(l, "round %x %d", &bits, &p); n == 2 {
				roundCase(c, math.Float64frombits(bits), p, "replay")
			}
		}
		return
	}
	r := c.Rng
	precisions := []int{0, 1, 2, 3, 6}
	// fixed opening: the exact ties of every sign and precision, zeros, the refusal threshold, NaN and the infinities
	for _, p := range precisions {
		shift := math.Pow(10, float64(p))
		for _, k := range []float64{0.5, 1.5, 2.5, 1234.5, 8369012.5, 0.25, 0.75, 0.125, 0.375, 0.625, 0.875, 72482312.5} {
			for _, sgn := range []float64{1, -1} {
				// k/shift is an exact tie of the precision only when the quotient is exact: the driver says BOUNDARY otherwise
				roundCase(c, sgn*k/shift, p, "tie")
			}
		}
		for _, v := range []float64{0, math.Copysign(0, -1), 5e-324, -5e-324, 1e-300, 0.49999999999999994, -0.49999999999999994,
			math.MaxFloat64, -math.MaxFloat64, math.MaxFloat64 / shift / 4, math.MaxFloat64 / shift * 4, math.Inf(1), math.Inf(-1), math.NaN(), 1e300, -1e300, 1e15, 4503599627370497, 1e22} {
			if p == 0 && (v == math.MaxFloat64/shift*4) {
				continue
			}
			roundCase(c, v, p, "special")
		}
	}
	n := c.N(20000, 400000)
	for i := 0; i < n; i++ {
		p := precisions[r.Intn(len(precisions))]
		shift := math.Pow(10, float64(p))
		var v float64
		tag := "random"
		switch r.Intn(6) {
		case 0: // binary-exact ties: (2m+1)/2 scaled by a power of two that 10^p absorbs only for p = 0; dyadic fractions at the precision
			m := float64(r.Intn(2000000) - 1000000)
			v = (m + []float64{0.5, 0.25, 0.125, 0.375, 0.625, 0.875, 0.0625}[r.Intn(7)])
			if p > 0 && r.Chance(0.7) {
				// x.125-style half cents: (integer + tie fraction at precision p) — exact in binary64 for p <= 3 when the fraction is dyadic
				frac := []float64{0.5, 0.25, 0.75, 0.125, 0.375, 0.625, 0.875}[r.Intn(7)]
				v = float64(r.Intn(2000000)-1000000) + frac
			}
			tag = "dyadic"
		case 1: // decimal ties x.xx5 (not exact in binary64: BOUNDARY or decided by the float's own side)
			v = (float64(r.Intn(2000000)-1000000) + 0.5) / shift
			tag = "decimal-tie"
		case 2: // just off a tie
			v = (float64(r.Intn(200000)-100000)+0.5)/shift + []float64{1e-7, -1e-7, 1e-5, -1e-5, 1e-3, -1e-3}[r.Intn(6)]/shift
			tag = "near-tie"
		case 3: // grid values and their neighbours
			v = float64(r.Intn(2000000)-1000000) / shift
			if r.Chance(0.5) {
				v = math.Nextafter(v, []float64{math.Inf(1), math.Inf(-1)}[r.Intn(2)])
			}
			tag = "grid"
		case 4: // magnitudes across the range
			e := r.Intn(40) - 20
			v = (r.Float()*2 - 1) * math.Pow(10, float64(e))
			tag = "magnitude"
		default: // any bit pattern of moderate exponent
			v = math.Float64frombits(r.U64())
			if math.IsNaN(v) || math.IsInf(v, 0) || math.Abs(v) > 1e13 || (v != 0 && math.Abs(v) < 1e-13) {
				v = (r.Float()*2 - 1) * 1e6
			}
			tag = "bits"
		}
		// keep clear of the 2^52 border of `big` (the two sides compute it in different arithmetic)
		if a := math.Abs(v) * shift; a > 1<<50 && a < 1<<54 {
			continue
		}
		roundCase(c, v, p, tag)
	}
}
