//go:build verif

package main

// Correspondence suite `boolarchive-ops` (property C09): drives the real
// pkg/archive.BooleanArchive through an interpreter of protocol lines (so that a
// stored op sequence replays exactly) and evaluates the property's own clauses
// directly on the implementation (`check`, `checkpair`, `spec-enc`, `spec-dec`).

import (
	"errors"
	"fmt"
	"strconv"
	"strings"

	"github.com/LindsayBradford/crem/pkg/archive"
)

func init() { register("boolarchive-ops", suiteBoolArchive) }

// ---------------------------------------------------------------- text transport

func c09Esc(s string) string {
	var sb strings.Builder
	for i := 0; i < len(s); i++ {
		b := s[i]
		if b < 0x21 || b == 0x7F || b == '%' {
			fmt.Fprintf(&sb, "%%%02X", b)
		} else {
			sb.WriteByte(b)
		}
	}
	return sb.String()
}

func c09Unesc(s string) string {
	var sb strings.Builder
	for i := 0; i < len(s); i++ {
		if s[i] == '%' && i+2 < len(s) {
			if v, err := strconv.ParseUint(s[i+1:i+3], 16, 8); err == nil {
				sb.WriteByte(byte(v))
				i += 2
				continue
			}
		}
		sb.WriteByte(s[i])
	}
	return sb.String()
}

func c09Bits(bs []bool) string {
	var sb strings.Builder
	sb.WriteByte('b')
	for _, b := range bs {
		if b {
			sb.WriteByte('1')
		} else {
			sb.WriteByte('0')
		}
	}
	return sb.String()
}

func c09ParseBits(tok string) ([]bool, bool) {
	if len(tok) == 0 || tok[0] != 'b' {
		return nil, false
	}
	out := make([]bool, 0, len(tok)-1)
	for _, ch := range tok[1:] {
		switch ch {
		case '1':
			out = append(out, true)
		case '0':
			out = append(out, false)
		default:
			return nil, false
		}
	}
	return out, true
}

func c09DecodeClass(err error) string {
	if err == nil {
		return "ok"
	}
	var ne *strconv.NumError
	if errors.As(err, &ne) {
		switch ne.Err {
		case strconv.ErrSyntax:
			return "err:syntax"
		case strconv.ErrRange:
			return "err:range"
		}
		return "err:num-other"
	}
	// Decode has two ways to fail: an entry that does not parse (a *strconv.NumError, however wrapped) and a wrong number of
	// entries; the wording of the latter is nobody's contract
	return "err:count"
}

// ---------------------------------------------------------------- interpreter

type c09Interp struct {
	c     *Ctx
	slots map[int]*archive.BooleanArchive
	// a slot is tainted after a failing Decode that CHANGED it (a partial write: more than 64 entries,
	// right entry count, first entry good, a later one bad): the Go code then keeps the words it has
	// already overwritten and the old memoised text (transcribed quirk, see the Lean model); direct
	// property failures are not raised for tainted slots (counted instead).  Every other failing
	// Decode must leave the archive untouched (checked) and the property clauses stay in force.
	tainted map[int]bool
	recent  []string // op lines since the last reset (context of a direct failure)
}

func newC09Interp(c *Ctx) *c09Interp {
	return &c09Interp{c: c, slots: map[int]*archive.BooleanArchive{}, tainted: map[int]bool{}}
}

func c09ValuesOf(a *archive.BooleanArchive) (bs []bool, panicked string) {
	bs = make([]bool, a.Len())
	panicked = protect(func() {
		for i := range bs {
			bs[i] = a.Value(i)
		}
	})
	return
}

func c09Rebuild(bs []bool) *archive.BooleanArchive {
	f := archive.New(len(bs))
	for i, b := range bs {
		f.SetValue(i, b)
	}
	return f
}

func c09EqualBools(x, y []bool) bool {
	if len(x) != len(y) {
		return false
	}
	for i := range x {
		if x[i] != y[i] {
			return false
		}
	}
	return true
}

func (in *c09Interp) fail(slotsUsed []int, predicate, signature, detail string) {
	for _, s := range slotsUsed {
		if in.tainted[s] {
			in.c.Stat("quirk: clause " + predicate + " fails on an archive whose last Decode failed (stale cache / partial overwrite; not raised)")
			return
		}
	}
	in.c.Fail(predicate, signature, detail, append([]string(nil), in.recent...))
}

// exec runs one protocol line on the implementation and returns the canonical result.
func (in *c09Interp) exec(line string) string {
	w := strings.Fields(line)
	if len(w) == 0 {
		return "bad-op"
	}
	if w[0] == "reset" {
		in.slots = map[int]*archive.BooleanArchive{}
		in.tainted = map[int]bool{}
		in.recent = in.recent[:0]
	}
	in.recent = append(in.recent, line)
	atoi := func(s string) int { v, _ := strconv.Atoi(s); return v }
	slot := func(i int) *archive.BooleanArchive {
		if len(w) <= i {
			return nil
		}
		return in.slots[atoi(w[i])]
	}
	textArg := func(i int) (string, bool) {
		if len(w) <= i || !strings.HasPrefix(w[i], "=") {
			return "", false
		}
		return c09Unesc(w[i][1:]), true
	}
	switch w[0] {
	case "reset":
		return "ok"
	case "new":
		if len(w) != 3 {
			return "bad-op"
		}
		a := archive.New(atoi(w[2]))
		in.slots[atoi(w[1])] = a
		in.tainted[atoi(w[1])] = false
		return fmt.Sprintf("ok %d", a.ArchiveLen())
	case "set":
		a := slot(1)
		if a == nil || len(w) != 4 {
			return "bad-op"
		}
		if p := protect(func() { a.SetValue(atoi(w[2]), w[3] == "1") }); p != "" {
			return "panic"
		}
		in.tainted[atoi(w[1])] = false
		return "ok"
	case "fill":
		a := slot(1)
		if a == nil || len(w) != 3 {
			return "bad-op"
		}
		bs, ok := c09ParseBits(w[2])
		if !ok {
			return "bad-op"
		}
		if p := protect(func() {
			for i, b := range bs {
				a.SetValue(i, b)
			}
		}); p != "" {
			return "panic"
		}
		if len(bs) > 0 {
			in.tainted[atoi(w[1])] = false
		}
		return "ok"
	case "get":
		a := slot(1)
		if a == nil || len(w) != 3 {
			return "bad-op"
		}
		var v bool
		if p := protect(func() { v = a.Value(atoi(w[2])) }); p != "" {
			return "panic"
		}
		return b2s(v)
	case "enc":
		a := slot(1)
		if a == nil {
			return "bad-op"
		}
		var s string
		if p := protect(func() { s = a.Encoding() }); p != "" {
			return "panic"
		}
		return "=" + c09Esc(s)
	case "dec":
		a := slot(1)
		t, ok := textArg(2)
		if a == nil || !ok {
			return "bad-op"
		}
		var err error
		wordsBefore, cacheBefore := a.VerifWords(), a.VerifCachedEncoding()
		if p := protect(func() { err = a.Decode(t) }); p != "" {
			return "panic"
		}
		if err == nil {
			in.tainted[atoi(w[1])] = false
			return c09DecodeClass(err)
		}
		// a failing Decode: only a *partial write* (right entry count, >= 2 entries, entry 0 parses, a later one does
		// not) may leave a trace; every other failure must leave words and memoised text exactly as they were, and
		// even a partial write keeps size, word count, memoised text and the last word (Lean: failed_decode_unchanged,
		// failed_decode_keeps_len_high)
		wordsAfter, cacheAfter := a.VerifWords(), a.VerifCachedEncoding()
		changed := cacheAfter != cacheBefore || len(wordsAfter) != len(wordsBefore)
		for i := 0; !changed && i < len(wordsAfter); i++ {
			changed = wordsAfter[i] != wordsBefore[i]
		}
		entries := strings.Split(t, ":")
		partial := false
		if len(entries) == len(wordsBefore) && len(entries) >= 2 {
			_, e0 := strconv.ParseUint(entries[0], 16, 64)
			partial = e0 == nil
		}
		lastKept := len(wordsAfter) == len(wordsBefore) && (len(wordsAfter) == 0 || wordsAfter[len(wordsAfter)-1] == wordsBefore[len(wordsBefore)-1])
		if (changed && !partial) || cacheAfter != cacheBefore || !lastKept {
			in.c.Fail("failed-decode-leaves-archive", "boolarchive:failed-decode-wrote",
				fmt.Sprintf("size %d: Decode(%q) failed (%v) and changed the archive: words %X -> %X, memoised text %q -> %q (partial write possible: %v)",
					a.Len(), t, err, wordsBefore, wordsAfter, cacheBefore, cacheAfter, partial), append([]string(nil), in.recent...))
		}
		if changed {
			in.tainted[atoi(w[1])] = true
			in.c.Stat("dec failed: partial write (words in front of the bad entry overwritten, memoised text kept)")
		} else {
			in.c.Stat("dec failed: archive untouched (property clauses stay in force)")
		}
		return c09DecodeClass(err)
	case "eqv":
		a, b := slot(1), slot(2)
		if a == nil || b == nil {
			return "bad-op"
		}
		var v bool
		if p := protect(func() { v = a.IsEquivalentTo(b) }); p != "" {
			return "panic"
		}
		return b2s(v)
	case "state":
		a := slot(1)
		if a == nil {
			return "bad-op"
		}
		ws := a.VerifWords()
		hs := make([]string, len(ws))
		for i, x := range ws {
			hs[i] = strconv.FormatUint(x, 16)
			hs[i] = strings.ToUpper(hs[i])
		}
		return fmt.Sprintf("%d %s c=%s", a.Len(), strings.Join(hs, ","), c09Esc(a.VerifCachedEncoding()))
	case "bits":
		a := slot(1)
		if a == nil {
			return "bad-op"
		}
		bs, p := c09ValuesOf(a)
		if p != "" {
			return "panic"
		}
		return c09Bits(bs)
	case "spec-enc":
		// the spec's `encode` against the implementation: a fresh archive filled in index order
		if len(w) != 2 {
			return "bad-op"
		}
		bs, ok := c09ParseBits(w[1])
		if !ok {
			return "bad-op"
		}
		var s string
		if p := protect(func() { s = c09Rebuild(bs).Encoding() }); p != "" {
			return "panic"
		}
		return "=" + c09Esc(s)
	case "spec-dec":
		// the spec's `decode n` against the implementation: Decode into a fresh archive, read every value
		t, ok := textArg(2)
		if len(w) != 3 || !ok {
			return "bad-op"
		}
		var res string
		if p := protect(func() {
			f := archive.New(atoi(w[1]))
			if err := f.Decode(t); err != nil {
				res = c09DecodeClass(err)
				return
			}
			bs, _ := c09ValuesOf(f)
			res = "ok " + c09Bits(bs)
		}); p != "" {
			return "panic"
		}
		return res
	case "check":
		// the property's clauses for one archive, evaluated on the implementation only:
		//  stale-encoding: Encoding() is the text a freshly filled archive with the same values gives
		//  roundtrip:      Decode(Encoding()) into a fresh archive of the same size reproduces every value
		a := slot(1)
		if a == nil {
			return "bad-op"
		}
		res := "ok"
		if p := protect(func() {
			bs, _ := c09ValuesOf(a)
			enc := a.Encoding()
			if fresh := c09Rebuild(bs).Encoding(); fresh != enc {
				res = "FAIL:stale-encoding"
				in.fail([]int{atoi(w[1])}, "encoding-current", "boolarchive:stale-encoding",
					fmt.Sprintf("size %d: Encoding()=%q but the values held encode to %q", a.Len(), enc, fresh))
				return
			}
			f := archive.New(a.Len())
			err := f.Decode(enc)
			back, _ := c09ValuesOf(f)
			if err != nil || !c09EqualBools(back, bs) {
				res = "FAIL:roundtrip"
				if a.Len() >= 1 { // the empty archive is outside the property (and known not to round-trip)
					in.fail([]int{atoi(w[1])}, "lossless", "boolarchive:roundtrip",
						fmt.Sprintf("size %d: values %s encode to %q which decodes to %s (err=%v)", a.Len(), c09Bits(bs), enc, c09Bits(back), err))
				}
			}
		}); p != "" {
			return "panic"
		}
		return res
	case "checkpair":
		// canonical: equal Encoding() iff equal values iff IsEquivalentTo (same size only)
		a, b := slot(1), slot(2)
		if a == nil || b == nil {
			return "bad-op"
		}
		if a.Len() != b.Len() {
			return "skip"
		}
		res := "ok"
		if p := protect(func() {
			x, _ := c09ValuesOf(a)
			y, _ := c09ValuesOf(b)
			same := c09EqualBools(x, y)
			ea, eb := a.Encoding(), b.Encoding()
			used := []int{atoi(w[1]), atoi(w[2])}
			if (ea == eb) != same {
				res = "FAIL:canonical"
				in.fail(used, "canonical", "boolarchive:canonical",
					fmt.Sprintf("size %d: values %s / %s, encodings %q / %q", a.Len(), c09Bits(x), c09Bits(y), ea, eb))
				return
			}
			if a.IsEquivalentTo(b) != same {
				res = "FAIL:equivalent"
				in.fail(used, "equivalent-iff", "boolarchive:equivalent",
					fmt.Sprintf("size %d: values %s / %s, IsEquivalentTo=%v", a.Len(), c09Bits(x), c09Bits(y), a.IsEquivalentTo(b)))
			}
		}); p != "" {
			return "panic"
		}
		return res
	}
	return "bad-op"
}

// do executes a line, records it, and keeps the distribution / distinct-case statistics.
func (in *c09Interp) do(line string) string {
	w := strings.Fields(line)
	// cache state and size *before* the operation (accessor), for the distinct-case key
	key := ""
	if len(w) >= 2 && w[0] != "new" && w[0] != "spec-enc" && w[0] != "spec-dec" {
		if s, err := strconv.Atoi(w[1]); err == nil {
			if a := in.slots[s]; a != nil {
				cache := "cache-empty"
				if a.VerifCachedEncoding() != "" {
					cache = "cached"
				}
				word := "-"
				if (w[0] == "set" || w[0] == "get") && len(w) >= 3 {
					if idx, err := strconv.Atoi(w[2]); err == nil {
						switch {
						case idx < 0:
							word = "neg"
						case idx >= a.Len():
							word = "oob"
						default:
							word = strconv.Itoa(idx / 64)
						}
					}
				}
				key = fmt.Sprintf("n=%d %s word=%s %s", a.Len(), w[0], word, cache)
			}
		}
	}
	res := in.exec(line)
	in.c.Op(line, res)
	kind := w[0]
	if kind == "dec" && strings.HasPrefix(res, "err") && len(w) >= 2 {
		// what a REJECTED encoding leaves behind is not the property's matter (the direct clause above bounds it): the model
		// continues from what the implementation's archive holds now
		if s, err := strconv.Atoi(w[1]); err == nil && in.slots[s] != nil {
			a := in.slots[s]
			ws := a.VerifWords()
			hs := make([]string, len(ws))
			for i, x := range ws {
				hs[i] = strings.ToUpper(strconv.FormatUint(x, 16))
			}
			words := "-"
			if len(hs) > 0 {
				words = strings.Join(hs, ",")
			}
			in.c.Op(fmt.Sprintf("resync %d %s =%s", s, words, c09Esc(a.VerifCachedEncoding())), "ok")
		}
	}
	cls := res
	if strings.HasPrefix(res, "=") || strings.HasPrefix(res, "b") || strings.HasPrefix(res, "ok ") {
		cls = "value"
	} else if len(res) > 0 && res[0] >= '0' && res[0] <= '9' {
		cls = "value"
	}
	in.c.Stat(kind + " -> " + cls)
	if key != "" && !strings.HasPrefix(key, "n=0 ") {
		in.c.Nontrivial(key + " -> " + cls)
	}
	if res == "panic" && (kind == "enc" || kind == "dec" || kind == "eqv" || kind == "check" || kind == "checkpair" || kind == "spec-enc" || kind == "spec-dec" || kind == "bits" || kind == "fill") {
		in.c.Fail("no-panic", "boolarchive:panic:"+kind, "operation panicked: "+line, append([]string(nil), in.recent...))
	}
	return res
}

// ---------------------------------------------------------------- generators

func c09RandBits(r *Rng, n int, density float64) []bool {
	bs := make([]bool, n)
	for i := range bs {
		bs[i] = r.Chance(density)
	}
	return bs
}

// roundTripScript: fill slot 0 with bs the way ModelCompressor does, compare with the spec, decode
// into a second archive that already holds something else (and a memoised text), compare.
func (in *c09Interp) roundTripScript(bs []bool, other []bool) {
	n := len(bs)
	in.do("reset")
	in.do(fmt.Sprintf("new 0 %d", n))
	in.do("fill 0 " + c09Bits(bs))
	in.do("state 0")
	enc := in.do("enc 0")
	in.do("spec-enc " + c09Bits(bs))
	in.do("check 0")
	in.do(fmt.Sprintf("new 1 %d", n))
	if other != nil {
		in.do("fill 1 " + c09Bits(other))
		in.do("enc 1") // memoise, so that a Decode that forgot to reset the cache shows
		in.do("checkpair 0 1")
	}
	in.do("dec 1 " + enc)
	in.do("state 1")
	in.do("enc 1")
	in.do("bits 1")
	in.do("eqv 0 1")
	in.do("checkpair 0 1")
	in.do(fmt.Sprintf("spec-dec %d %s", n, enc))
}

var c09BoundaryIdx = []int{0, 1, 31, 32, 62, 63, 64, 65, 66, 126, 127, 128, 129, 130, 190, 191, 192, 193, 199}

func c09StructuredPatterns(r *Rng, n int, extraRandom int) [][]bool {
	var out [][]bool
	out = append(out, make([]bool, n))
	ones := make([]bool, n)
	for i := range ones {
		ones[i] = true
	}
	out = append(out, ones)
	for _, i := range c09BoundaryIdx {
		if i < n {
			p := make([]bool, n)
			p[i] = true
			out = append(out, p)
			q := append([]bool(nil), ones...)
			q[i] = false
			out = append(out, q)
		}
	}
	if n > 0 {
		p := make([]bool, n)
		p[n-1] = true
		out = append(out, p)
		alt := make([]bool, n)
		for i := range alt {
			alt[i] = i%2 == 0
		}
		out = append(out, alt)
	}
	for k := 0; k < extraRandom; k++ {
		out = append(out, c09RandBits(r, n, []float64{0.05, 0.5, 0.5, 0.95}[r.Intn(4)]))
	}
	return out
}

// c09ValidTextFor renders bits as a *non-canonical but valid* encoding: random case, leading zeros,
// garbage in the unused high bits of the last word.
func c09ValidTextFor(r *Rng, bs []bool, noise bool) string {
	n := len(bs)
	nw := (n + 63) / 64
	parts := make([]string, nw)
	for k := 0; k < nw; k++ {
		var wv uint64
		for j := 0; j < 64; j++ {
			i := 64*k + j
			if i < n {
				if bs[i] {
					wv |= 1 << uint(j)
				}
			} else if noise && r.Bool() {
				wv |= 1 << uint(j)
			}
		}
		s := strconv.FormatUint(wv, 16)
		if noise {
			switch r.Intn(4) {
			case 0:
				s = strings.ToUpper(s)
			case 1:
				s = strings.Repeat("0", r.Intn(20)) + s
			case 2:
				b := []byte(s)
				for i := range b {
					if r.Bool() {
						b[i] = strings.ToUpper(string(b[i]))[0]
					}
				}
				s = string(b)
			}
		} else {
			s = strings.ToUpper(s)
		}
		parts[k] = s
	}
	return strings.Join(parts, ":")
}

var c09MalformedEntries = []string{
	"", " ", "g", "G", "z", "0x1", "0X1F", "x1", "+1", "-1", "-0", " 1", "1 ", "\t1", "1\n", "1\r", "1_0", "_1", "1.0", "1e3",
	"10000000000000000", "FFFFFFFFFFFFFFFFF", "1FFFFFFFFFFFFFFFF", "FFFFFFFFFFFFFFFFFz", "zFFFFFFFFFFFFFFFFF",
	"00000000000000000000000000000000z", "١", "Ａ", "é", "1é", "%41", "%", "%4", "\x00", "1\x00", "1,2", "1;2", "0b1", "0o7", "１",
}

var c09ValidOddEntries = []string{
	"0", "00", "f", "F", "ff", "Ff", "fF", "FFFFFFFFFFFFFFFF", "ffffffffffffffff", "0000000000000000000000001",
	"00000000000000000FFFFFFFFFFFFFFFF", "8000000000000000", "7FFFFFFFFFFFFFFF", "DEADBEEF", "deadBEEF", "abcdef", "ABCDEF", "123456789",
}

func c09MalformedTextsFor(r *Rng, n int) []string {
	nw := (n + 63) / 64
	var out []string
	good := func() string { return c09ValidOddEntries[r.Intn(len(c09ValidOddEntries))] }
	join := func(k int, badAt int, bad string) string {
		parts := make([]string, k)
		for i := range parts {
			if i == badAt {
				parts[i] = bad
			} else {
				parts[i] = good()
			}
		}
		return strings.Join(parts, ":")
	}
	// wrong entry counts (all entries valid)
	for _, k := range []int{0, nw - 1, nw + 1, nw + 2, 2 * nw} {
		if k < 0 || k == nw {
			continue
		}
		if k == 0 {
			out = append(out, "")
		} else {
			out = append(out, join(k, -1, ""))
		}
	}
	out = append(out, ":", "::", strings.Repeat(":", nw), strings.Repeat(":", nw+1))
	// right count, one bad entry at each position class (first, middle, last)
	for _, bad := range c09MalformedEntries {
		pos := []int{0}
		if nw > 1 {
			pos = append(pos, nw-1)
		}
		if nw > 2 {
			pos = append(pos, 1)
		}
		out = append(out, join(nw, pos[r.Intn(len(pos))], bad))
	}
	// right count, valid but odd entries
	for i := 0; i < 6; i++ {
		out = append(out, join(nw, -1, ""))
	}
	// two bad entries of different classes: the left one decides
	if nw > 1 {
		out = append(out, "10000000000000000:"+join(nw-1, 0, "zz"))
		out = append(out, "zz:"+join(nw-1, 0, "10000000000000000"))
	}
	return out
}

func (in *c09Interp) malformedScript(r *Rng, n int) {
	for _, t := range c09MalformedTextsFor(r, n) {
		in.do("reset")
		in.do(fmt.Sprintf("new 0 %d", n))
		base := c09RandBits(r, n, 0.5)
		in.do("fill 0 " + c09Bits(base))
		if r.Chance(0.7) {
			in.do("enc 0") // memoised text present when the failing Decode arrives
		}
		in.do("dec 0 =" + c09Esc(t))
		in.do("state 0")
		in.do("enc 0")
		in.do("bits 0")
		in.do(fmt.Sprintf("spec-dec %d =%s", n, c09Esc(t)))
		// recovery: a later successful mutation must bring the archive back in line
		if r.Bool() && n > 0 {
			in.do(fmt.Sprintf("set 0 %d %s", r.Intn(n), b2s(r.Bool())))
		} else {
			in.do("dec 0 =" + c09Esc(c09ValidTextFor(r, c09RandBits(r, n, 0.5), true)))
		}
		in.do("state 0")
		in.do("check 0")
	}
}

// negativeIndexScript: Go `int` indices below zero, systematically: -1..-63 are silent no-ops that still drop the
// memoised text (word 0, mask 0), <= -64 and anything on the empty archive panic (runtime index error); the
// content, the raw words and the re-derived text must be untouched either way.
func (in *c09Interp) negativeIndexScript(r *Rng, n int) {
	in.do("reset")
	in.do(fmt.Sprintf("new 0 %d", n))
	in.do("fill 0 " + c09Bits(c09RandBits(r, n, 0.5)))
	for _, idx := range []int{-1, -2, -31, -32, -62, -63, -64, -65, -127, -128, -129, -1 << 31, -1 << 62} {
		if r.Bool() {
			in.do("enc 0") // a memoised text is present when the negative index arrives
		}
		in.do(fmt.Sprintf("get 0 %d", idx))
		in.do(fmt.Sprintf("set 0 %d %s", idx, b2s(r.Bool())))
		in.do("state 0")
		in.do(fmt.Sprintf("set 0 %d 1", idx))
		in.do(fmt.Sprintf("get 0 %d", idx))
		in.do("state 0")
		in.do("enc 0")
		in.do("check 0")
	}
}

func (in *c09Interp) randomOpsScript(r *Rng, n int, steps int) {
	in.do("reset")
	in.do(fmt.Sprintf("new 0 %d", n))
	in.do(fmt.Sprintf("new 1 %d", n))
	m := n
	if r.Chance(0.3) {
		m = r.Intn(201)
	}
	in.do(fmt.Sprintf("new 2 %d", m))
	sizes := []int{n, n, m}
	pickIdx := func(sz int) int {
		switch r.Intn(20) {
		case 0:
			return sz
		case 1:
			return sz + 1 + r.Intn(100)
		case 2:
			return []int{-1, -2, -63, -64, -65, -128, -1000}[r.Intn(7)]
		case 3, 4, 5:
			if sz > 0 {
				c := c09BoundaryIdx[r.Intn(len(c09BoundaryIdx))]
				if c < sz {
					return c
				}
				return sz - 1
			}
		}
		if sz == 0 {
			return 0
		}
		return r.Intn(sz)
	}
	for s := 0; s < steps; s++ {
		k := r.Intn(3)
		sz := sizes[k]
		switch r.Intn(16) {
		case 0, 1, 2, 3, 4:
			in.do(fmt.Sprintf("set %d %d %s", k, pickIdx(sz), b2s(r.Bool())))
		case 5, 6:
			in.do(fmt.Sprintf("get %d %d", k, pickIdx(sz)))
		case 7, 8, 9:
			in.do(fmt.Sprintf("enc %d", k))
		case 10:
			// decode the (canonical) text of another slot
			j := r.Intn(3)
			enc := in.do(fmt.Sprintf("enc %d", j))
			in.do(fmt.Sprintf("dec %d %s", k, enc))
		case 11:
			// decode a valid, possibly non-canonical text for this size
			in.do(fmt.Sprintf("dec %d =%s", k, c09Esc(c09ValidTextFor(r, c09RandBits(r, sz, 0.5), r.Chance(0.7)))))
		case 12:
			if r.Chance(0.4) {
				ts := c09MalformedTextsFor(r, sz)
				in.do(fmt.Sprintf("dec %d =%s", k, c09Esc(ts[r.Intn(len(ts))])))
			} else {
				in.do(fmt.Sprintf("state %d", k))
			}
		case 13:
			in.do(fmt.Sprintf("eqv %d %d", r.Intn(3), r.Intn(3)))
			in.do(fmt.Sprintf("checkpair %d %d", r.Intn(3), r.Intn(3)))
		case 14:
			in.do(fmt.Sprintf("state %d", k))
			in.do(fmt.Sprintf("bits %d", k))
		case 15:
			in.do(fmt.Sprintf("check %d", k))
		}
	}
	for k := 0; k < 3; k++ {
		in.do(fmt.Sprintf("state %d", k))
		in.do(fmt.Sprintf("enc %d", k))
		in.do(fmt.Sprintf("check %d", k))
	}
	in.do("checkpair 0 1")
}

func suiteBoolArchive(c *Ctx) {
	in := newC09Interp(c)
	if c.Replay != "" {
		for _, l := range readLines(c.Replay) {
			if strings.HasPrefix(l, "#") || strings.HasPrefix(l, "resync ") { // resync lines are re-issued by the failing dec itself
				continue
			}
			in.do(l)
		}
		return
	}
	r := c.Rng.Fork() // Fork: util.go's streams for seeds k and k+1 are the same sequence shifted by one draw; forking decorrelates them
	// 4. random interleavings of SetValue / Value / Encoding / Decode / IsEquivalentTo (split over shards)
	cases := c.N(4000, 60000) / c.Shards
	defer func() {
		for i := 0; i < cases; i++ {
			var n int
			switch r.Intn(4) {
			case 0:
				n = []int{1, 2, 13, 63, 64, 65, 66, 127, 128, 129, 191, 192, 193, 200}[r.Intn(14)]
			case 1:
				n = 1 + r.Intn(20)
			default:
				n = 1 + r.Intn(200)
			}
			in.randomOpsScript(r, n, 20+r.Intn(60))
		}
	}()
	if c.Shard != 0 {
		return
	}
	// 1. exhaustive bit patterns for n <= 10 (n = 0 included: the empty archive's quirk is transcribed)
	for _, n := range []int{1, 2, 3, 4, 5, 6, 7, 8, 9, 10, 0} {
		for code := 0; code < 1<<uint(n); code++ {
			bs := make([]bool, n)
			for i := range bs {
				bs[i] = code>>uint(i)&1 == 1
			}
			var other []bool
			if n > 0 {
				other = c09RandBits(r, n, 0.5)
			}
			in.roundTripScript(bs, other)
		}
	}
	// 2. structured and random patterns for every size 11..200 (and again the small ones)
	extra := c.N(2, 12)
	for n := 1; n <= 200; n++ {
		for _, bs := range c09StructuredPatterns(r, n, extra) {
			var other []bool
			switch r.Intn(3) {
			case 0:
				other = c09RandBits(r, n, 0.5)
			case 1:
				other = append([]bool(nil), bs...)
				j := r.Intn(n)
				other[j] = !other[j]
			}
			in.roundTripScript(bs, other)
		}
	}
	// 2b. negative indices, sizes around the word boundaries (and the empty archive)
	for _, n := range []int{0, 1, 2, 13, 63, 64, 65, 128, 130, 200} {
		in.negativeIndexScript(r, n)
	}
	// 3. malformed encodings, sizes around the word boundaries
	for _, n := range []int{0, 1, 13, 63, 64, 65, 127, 128, 129, 200} {
		reps := c.N(1, 4)
		for i := 0; i < reps; i++ {
			in.malformedScript(r, n)
		}
	}
}
