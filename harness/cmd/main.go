//go:build verif

// Package main is the correspondence harness of /verif.  It is injected into
// /repo's module at build time with `go build -tags verif -overlay` (as
// /repo/internal/verifharness) so that it can drive crem's real, internal
// packages in-process.  Nothing here is ever written into /repo.
package main

import (
	"flag"
	"fmt"
	"os"
	"sort"
)

type suiteFunc func(ctx *Ctx)

var suites = map[string]suiteFunc{}

// globalOut is the suite's output directory (scratch files such as derived datasets go below it)
var globalOut string

func register(name string, f suiteFunc) { suites[name] = f }

func main() {
	if len(os.Args) < 2 {
		usage()
	}
	name := os.Args[1]
	fs := flag.NewFlagSet(name, flag.ExitOnError)
	seed := fs.Uint64("seed", 1, "PRNG seed (VERIF_SEED)")
	tier := fs.String("tier", "quick", "quick|thorough")
	out := fs.String("out", "", "output directory")
	replay := fs.String("replay", "", "ops file to re-execute instead of generating")
	shard := fs.Int("shard", 0, "shard index")
	shards := fs.Int("shards", 1, "number of shards")
	_ = fs.Parse(os.Args[2:])

	f, ok := suites[name]
	if !ok {
		usage()
	}
	if *out == "" {
		fmt.Fprintln(os.Stderr, "missing -out")
		os.Exit(2)
	}
	globalOut = *out
	ctx := newCtx(name, *seed, *tier, *out, *replay, *shard, *shards)
	ctx.Args = fs.Args()
	f(ctx)
	ctx.finish()
}

func usage() {
	names := make([]string, 0, len(suites))
	for n := range suites {
		names = append(names, n)
	}
	sort.Strings(names)
	fmt.Fprintln(os.Stderr, "usage: harness <suite> -seed N -tier quick|thorough -out DIR [-replay ops]")
	fmt.Fprintln(os.Stderr, "suites:", names)
	os.Exit(2)
}
