//go:build verif

package main

// Reflection walk used by the multi-run suite (C08) to sample the hypothesis `ClonePrivate` on the real
// objects: every pointer / map / slice backing array / channel reachable from a value is
// collected with the path of (unexported) fields that leads to it.  reflect allows Field, Elem,
// Index, MapRange, Len, IsNil and Pointer on values reached through unexported fields (only
// Interface() and Set() are refused), so the whole object graph can be read without package
// unsafe.  A slice is identified by the END address of its backing array (so that two slices over
// one array that start at different offsets are recognised as sharing).  Zero-size objects are
// ignored: Go gives all of them one address, so they would look shared without sharing anything.

import (
	"fmt"
	"hash/fnv"
	"math"
	"reflect"
	"sort"
	"strings"
)

// nodeKey: slices live in a key space of their own (their identity is the END of the backing
// array, an address that may coincide with the start of an unrelated object)
type nodeKey struct {
	a uintptr
	s bool
}

type walkNode struct {
	addr   nodeKey
	kind   string // ptr | map | slice | chan | func
	typ    string // Go type of the node (for a pointer: the pointer type)
	path   string // shortest field path from the root
	parent nodeKey
	depth  int
	slen   int // slices: length and capacity
	scap   int
	val    reflect.Value // the pointer / map / slice / chan value itself (content can be re-read later)
}

type walkGraph struct {
	nodes map[nodeKey]*walkNode
	order []nodeKey
}

type walkItem struct {
	v      reflect.Value
	path   string
	parent nodeKey
	depth  int
}

// walkFrom collects every identity reachable from root (breadth first: paths are shortest).
func walkFrom(root interface{}) *walkGraph {
	g := &walkGraph{nodes: map[nodeKey]*walkNode{}}
	queue := []walkItem{{v: reflect.ValueOf(root), path: "annealer"}}
	add := func(a uintptr, kind string, v reflect.Value, it walkItem) bool {
		if a == 0 {
			return false
		}
		addr := nodeKey{a, kind == "slice"}
		if _, seen := g.nodes[addr]; seen {
			return false
		}
		g.nodes[addr] = &walkNode{addr: addr, kind: kind, typ: v.Type().String(), path: it.path, parent: it.parent, depth: it.depth, val: v}
		g.order = append(g.order, addr)
		return true
	}
	for len(queue) > 0 {
		it := queue[0]
		queue = queue[1:]
		v := it.v
		if !v.IsValid() {
			continue
		}
		switch v.Kind() {
		case reflect.Interface:
			if !v.IsNil() {
				queue = append(queue, walkItem{v.Elem(), it.path, it.parent, it.depth})
			}
		case reflect.Ptr:
			if v.IsNil() || v.Type().Elem().Size() == 0 {
				continue
			}
			if add(v.Pointer(), "ptr", v, it) {
				queue = append(queue, walkItem{v.Elem(), it.path + "(*" + shortType(v.Type().Elem().String()) + ")", nodeKey{v.Pointer(), false}, it.depth + 1})
			}
		case reflect.Struct:
			t := v.Type()
			for i := 0; i < v.NumField(); i++ {
				queue = append(queue, walkItem{v.Field(i), it.path + "." + t.Field(i).Name, it.parent, it.depth})
			}
		case reflect.Map:
			if v.IsNil() {
				continue
			}
			if add(v.Pointer(), "map", v, it) {
				iter := v.MapRange()
				for iter.Next() {
					k := iter.Key()
					ks := "?"
					switch k.Kind() {
					case reflect.String:
						ks = k.String()
					case reflect.Int, reflect.Int64, reflect.Int32:
						ks = fmt.Sprint(k.Int())
					case reflect.Uint, reflect.Uint64, reflect.Uint32:
						ks = fmt.Sprint(k.Uint())
					}
					queue = append(queue, walkItem{k, it.path + "[key]", nodeKey{v.Pointer(), false}, it.depth + 1})
					queue = append(queue, walkItem{iter.Value(), it.path + "[" + ks + "]", nodeKey{v.Pointer(), false}, it.depth + 1})
				}
			}
		case reflect.Slice:
			if v.IsNil() || v.Cap() == 0 || v.Type().Elem().Size() == 0 {
				continue
			}
			// identity of a slice = the END of its backing array (equal for every slice over one array)
			end := v.Pointer() + uintptr(v.Cap())*v.Type().Elem().Size()
			if add(end, "slice", v, it) {
				g.nodes[nodeKey{end, true}].slen, g.nodes[nodeKey{end, true}].scap = v.Len(), v.Cap()
				if elemMayPoint(v.Type().Elem()) {
					for i := 0; i < v.Len(); i++ {
						queue = append(queue, walkItem{v.Index(i), fmt.Sprintf("%s[%d]", it.path, i), nodeKey{end, true}, it.depth + 1})
					}
				}
			}
		case reflect.Array:
			if elemMayPoint(v.Type().Elem()) {
				for i := 0; i < v.Len(); i++ {
					queue = append(queue, walkItem{v.Index(i), fmt.Sprintf("%s[%d]", it.path, i), it.parent, it.depth})
				}
			}
		case reflect.Chan:
			if !v.IsNil() {
				add(v.Pointer(), "chan", v, it)
			}
		case reflect.Func:
			// code pointers are immutable; state captured by a closure is not visible to reflect (noted in the rule text)
		case reflect.UnsafePointer:
			// opaque
		}
	}
	return g
}

func elemMayPoint(t reflect.Type) bool {
	switch t.Kind() {
	case reflect.Bool, reflect.Int, reflect.Int8, reflect.Int16, reflect.Int32, reflect.Int64, reflect.Uint, reflect.Uint8, reflect.Uint16,
		reflect.Uint32, reflect.Uint64, reflect.Uintptr, reflect.Float32, reflect.Float64, reflect.Complex64, reflect.Complex128:
		return false
	}
	return true
}

func shortType(t string) string {
	t = strings.ReplaceAll(t, "github.com/LindsayBradford/crem/", "")
	return t
}

// sharedTop returns the top-most nodes of a (by its breadth-first tree) that are also reachable in b.
func sharedTop(a, b *walkGraph) []*walkNode {
	var out []*walkNode
	for _, addr := range a.order {
		n := a.nodes[addr]
		if _, ok := b.nodes[addr]; !ok {
			continue
		}
		if n.parent.a != 0 {
			if _, parentShared := b.nodes[n.parent]; parentShared {
				continue
			}
		}
		out = append(out, n)
	}
	sort.Slice(out, func(i, j int) bool { return out[i].path < out[j].path })
	return out
}

// findByType returns the first node (breadth first) whose type string is one of the given ones.
func (g *walkGraph) findByType(types ...string) *walkNode {
	for _, addr := range g.order {
		n := g.nodes[addr]
		for _, t := range types {
			if n.typ == t {
				return n
			}
		}
	}
	return nil
}

// ---------------------------------------------------------------- content of a node
//
// The SHALLOW content of a node is everything stored in the object itself: scalars by value, strings by
// content, and for every pointer / map / slice header / channel / function / interface it holds the
// IDENTITY it refers to (not what is stored there: that is the content of another node).  Re-reading
// the content of the same node later and comparing leaf by leaf tells whether, and where, the object
// was written in between.  Everything is read with the reflect operations that are allowed on values
// reached through unexported fields.

type nodeContent map[string]string

func hashStr(s string) string {
	if len(s) <= 48 {
		return fmt.Sprintf("%q", s)
	}
	h := fnv.New64a()
	h.Write([]byte(s))
	return fmt.Sprintf("str#%d:%016x", len(s), h.Sum64())
}

func shallowInto(v reflect.Value, path string, out nodeContent) {
	if !v.IsValid() {
		out[path] = "<invalid>"
		return
	}
	switch v.Kind() {
	case reflect.Bool:
		out[path] = fmt.Sprint(v.Bool())
	case reflect.Int, reflect.Int8, reflect.Int16, reflect.Int32, reflect.Int64:
		out[path] = fmt.Sprint(v.Int())
	case reflect.Uint, reflect.Uint8, reflect.Uint16, reflect.Uint32, reflect.Uint64, reflect.Uintptr:
		out[path] = fmt.Sprint(v.Uint())
	case reflect.Float32, reflect.Float64:
		out[path] = fmt.Sprintf("%016x", math.Float64bits(v.Float()))
	case reflect.Complex64, reflect.Complex128:
		c := v.Complex()
		out[path] = fmt.Sprintf("%016x,%016x", math.Float64bits(real(c)), math.Float64bits(imag(c)))
	case reflect.String:
		out[path] = hashStr(v.String())
	case reflect.Ptr, reflect.Map, reflect.Chan, reflect.Func, reflect.UnsafePointer:
		if v.Kind() != reflect.UnsafePointer && v.IsNil() {
			out[path] = "nil"
		} else {
			out[path] = fmt.Sprintf("%s@%x", v.Kind(), v.Pointer())
		}
	case reflect.Slice:
		if v.IsNil() {
			out[path] = "nil"
		} else {
			out[path] = fmt.Sprintf("slice@%x len=%d cap=%d", v.Pointer(), v.Len(), v.Cap())
		}
	case reflect.Interface:
		if v.IsNil() {
			out[path] = "nil"
		} else {
			out[path+"(type)"] = v.Elem().Type().String()
			shallowInto(v.Elem(), path, out)
		}
	case reflect.Struct:
		t := v.Type()
		if v.NumField() == 0 {
			out[path] = "{}"
		}
		for i := 0; i < v.NumField(); i++ {
			shallowInto(v.Field(i), path+"."+t.Field(i).Name, out)
		}
	case reflect.Array:
		for i := 0; i < v.Len(); i++ {
			shallowInto(v.Index(i), fmt.Sprintf("%s[%d]", path, i), out)
		}
	default:
		out[path] = "<" + v.Kind().String() + ">"
	}
}

func keyString(k reflect.Value) string {
	c := nodeContent{}
	shallowInto(k, "", c)
	var parts []string
	for p, val := range c {
		parts = append(parts, p+"="+val)
	}
	sort.Strings(parts)
	return strings.Join(parts, ",")
}

// contentOf reads the shallow content of a node NOW (through the value recorded when the graph was walked).
func contentOf(n *walkNode) (c nodeContent) {
	c = nodeContent{}
	defer func() {
		if r := recover(); r != nil {
			c["<unreadable>"] = fmt.Sprint(r)
		}
	}()
	v := n.val
	switch n.kind {
	case "ptr":
		shallowInto(v.Elem(), "", c)
	case "map":
		c["<len>"] = fmt.Sprint(v.Len())
		iter := v.MapRange()
		for iter.Next() {
			shallowInto(iter.Value(), "["+keyString(iter.Key())+"]", c)
		}
	case "slice":
		// the whole backing array the header recorded at walk time gives access to (elements beyond
		// len too: an append by somebody who shares the array lands there)
		full := v
		if v.Cap() > v.Len() {
			full = v.Slice(0, v.Cap())
		}
		for i := 0; i < full.Len(); i++ {
			shallowInto(full.Index(i), fmt.Sprintf("[%d]", i), c)
		}
	case "chan":
		c["<len>"] = fmt.Sprint(v.Len())
	}
	return c
}

type graphSnapshot map[nodeKey]nodeContent

func snapshotGraph(g *walkGraph) graphSnapshot {
	s := graphSnapshot{}
	for k, n := range g.nodes {
		s[k] = contentOf(n)
	}
	return s
}

// writtenNode is a node whose content differs between two snapshots, with the first differing leaf.
type writtenNode struct {
	Path   string `json:"path"`
	Type   string `json:"type"`
	Kind   string `json:"kind"`
	Leaf   string `json:"leaf"`
	Before string `json:"before"`
	After  string `json:"after"`
	Leaves int    `json:"leaves"`
	key    nodeKey
}

func diffSnapshots(g *walkGraph, before, after graphSnapshot) []writtenNode {
	var out []writtenNode
	for _, k := range g.order {
		b, a := before[k], after[k]
		var leaves []string
		for l, bv := range b {
			if av, ok := a[l]; !ok || av != bv {
				leaves = append(leaves, l)
			}
		}
		for l := range a {
			if _, ok := b[l]; !ok {
				leaves = append(leaves, l)
			}
		}
		if len(leaves) == 0 {
			continue
		}
		sort.Strings(leaves)
		n := g.nodes[k]
		bv, ok1 := b[leaves[0]]
		av, ok2 := a[leaves[0]]
		if !ok1 {
			bv = "<absent>"
		}
		if !ok2 {
			av = "<absent>"
		}
		out = append(out, writtenNode{Path: n.path, Type: n.typ, Kind: n.kind, Leaf: leaves[0], Before: bv, After: av, Leaves: len(leaves), key: k})
	}
	sort.Slice(out, func(i, j int) bool { return out[i].Path < out[j].Path })
	return out
}
