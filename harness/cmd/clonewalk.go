//go:build verif

package main

// Reflection walk used by the multi-run suite (C08) to establish `ClonePrivate` on the real
// objects: every pointer / map / slice backing array / channel reachable from a value is
// collected with the path of (unexported) fields that leads to it.  reflect allows Field, Elem,
// Index, MapRange, Len, IsNil and Pointer on values reached through unexported fields (only
// Interface() and Set() are refused), so the whole object graph can be read without package
// unsafe.  A slice is identified by the END address of its backing array (so that two slices over
// one array that start at different offsets are recognised as sharing).  Zero-size objects are
// ignored: Go gives all of them one address, so they would look shared without sharing anything.

import (
	"fmt"
	"reflect"
	"sort"
	"strings"
)

// nodeKey: slices live in a key space of their own (their identity is the END of the backing
// array, an address that may coincide with the start of an unrelated object)
type nodeKey struct {
	a uintptr
	s bool
}

type walkNode struct {
	addr   nodeKey
	kind   string // ptr | map | slice | chan | func
	typ    string // Go type of the node (for a pointer: the pointer type)
	path   string // shortest field path from the root
	parent nodeKey
	depth  int
	slen   int // slices: length and capacity
	scap   int
}

type walkGraph struct {
	nodes map[nodeKey]*walkNode
	order []nodeKey
}

type walkItem struct {
	v      reflect.Value
	path   string
	parent nodeKey
	depth  int
}

// walkFrom collects every identity reachable from root (breadth first: paths are shortest).
func walkFrom(root interface{}) *walkGraph {
	g := &walkGraph{nodes: map[nodeKey]*walkNode{}}
	queue := []walkItem{{v: reflect.ValueOf(root), path: "annealer"}}
	add := func(a uintptr, kind string, v reflect.Value, it walkItem) bool {
		if a == 0 {
			return false
		}
		addr := nodeKey{a, kind == "slice"}
		if _, seen := g.nodes[addr]; seen {
			return false
		}
		g.nodes[addr] = &walkNode{addr: addr, kind: kind, typ: v.Type().String(), path: it.path, parent: it.parent, depth: it.depth}
		g.order = append(g.order, addr)
		return true
	}
	for len(queue) > 0 {
		it := queue[0]
		queue = queue[1:]
		v := it.v
		if !v.IsValid() {
			continue
		}
		switch v.Kind() {
		case reflect.Interface:
			if !v.IsNil() {
				queue = append(queue, walkItem{v.Elem(), it.path, it.parent, it.depth})
			}
		case reflect.Ptr:
			if v.IsNil() || v.Type().Elem().Size() == 0 {
				continue
			}
			if add(v.Pointer(), "ptr", v, it) {
				queue = append(queue, walkItem{v.Elem(), it.path + "(*" + shortType(v.Type().Elem().String()) + ")", nodeKey{v.Pointer(), false}, it.depth + 1})
			}
		case reflect.Struct:
			t := v.Type()
			for i := 0; i < v.NumField(); i++ {
				queue = append(queue, walkItem{v.Field(i), it.path + "." + t.Field(i).Name, it.parent, it.depth})
			}
		case reflect.Map:
			if v.IsNil() {
				continue
			}
			if add(v.Pointer(), "map", v, it) {
				iter := v.MapRange()
				for iter.Next() {
					k := iter.Key()
					ks := "?"
					switch k.Kind() {
					case reflect.String:
						ks = k.String()
					case reflect.Int, reflect.Int64, reflect.Int32:
						ks = fmt.Sprint(k.Int())
					case reflect.Uint, reflect.Uint64, reflect.Uint32:
						ks = fmt.Sprint(k.Uint())
					}
					queue = append(queue, walkItem{k, it.path + "[key]", nodeKey{v.Pointer(), false}, it.depth + 1})
					queue = append(queue, walkItem{iter.Value(), it.path + "[" + ks + "]", nodeKey{v.Pointer(), false}, it.depth + 1})
				}
			}
		case reflect.Slice:
			if v.IsNil() || v.Cap() == 0 || v.Type().Elem().Size() == 0 {
				continue
			}
			// identity of a slice = the END of its backing array (equal for every slice over one array)
			end := v.Pointer() + uintptr(v.Cap())*v.Type().Elem().Size()
			if add(end, "slice", v, it) {
				g.nodes[nodeKey{end, true}].slen, g.nodes[nodeKey{end, true}].scap = v.Len(), v.Cap()
				if elemMayPoint(v.Type().Elem()) {
					for i := 0; i < v.Len(); i++ {
						queue = append(queue, walkItem{v.Index(i), fmt.Sprintf("%s[%d]", it.path, i), nodeKey{end, true}, it.depth + 1})
					}
				}
			}
		case reflect.Array:
			if elemMayPoint(v.Type().Elem()) {
				for i := 0; i < v.Len(); i++ {
					queue = append(queue, walkItem{v.Index(i), fmt.Sprintf("%s[%d]", it.path, i), it.parent, it.depth})
				}
			}
		case reflect.Chan:
			if !v.IsNil() {
				add(v.Pointer(), "chan", v, it)
			}
		case reflect.Func:
			// code pointers are immutable; state captured by a closure is not visible to reflect (noted in the rule text)
		case reflect.UnsafePointer:
			// opaque
		}
	}
	return g
}

func elemMayPoint(t reflect.Type) bool {
	switch t.Kind() {
	case reflect.Bool, reflect.Int, reflect.Int8, reflect.Int16, reflect.Int32, reflect.Int64, reflect.Uint, reflect.Uint8, reflect.Uint16,
		reflect.Uint32, reflect.Uint64, reflect.Uintptr, reflect.Float32, reflect.Float64, reflect.Complex64, reflect.Complex128:
		return false
	}
	return true
}

func shortType(t string) string {
	t = strings.ReplaceAll(t, "github.com/LindsayBradford/crem/", "")
	return t
}

// sharedTop returns the top-most nodes of a (by its breadth-first tree) that are also reachable in b.
func sharedTop(a, b *walkGraph) []*walkNode {
	var out []*walkNode
	for _, addr := range a.order {
		n := a.nodes[addr]
		if _, ok := b.nodes[addr]; !ok {
			continue
		}
		if n.parent.a != 0 {
			if _, parentShared := b.nodes[n.parent]; parentShared {
				continue
			}
		}
		out = append(out, n)
	}
	sort.Slice(out, func(i, j int) bool { return out[i].path < out[j].path })
	return out
}

// findByType returns the first node (breadth first) whose type string is one of the given ones.
func (g *walkGraph) findByType(types ...string) *walkNode {
	for _, addr := range g.order {
		n := g.nodes[addr]
		for _, t := range types {
			if n.typ == t {
				return n
			}
		}
	}
	return nil
}
