//go:build verif

package main

// The output layer (C11's last clause: "the same holds for the figures written to solution files and served by the
// engine"): every such figure is produced by variable.MakeEncodeable through solution.SolutionBuilder.  The walk builds
// the real Solution of the walked model, evaluates the aggregate clauses on ITS figures (direct clauses) and sends them
// through the protocol as the `enc` operation (Lean: Crem/Model/Solution.lean `solutionVariables`,
// theorems Properties/C11Out.lean).

import (
	"fmt"
	"math"
	"sort"
	"strconv"
	"strings"

	"github.com/LindsayBradford/crem/internal/pkg/annealing/solution"
	solutioncsv "github.com/LindsayBradford/crem/internal/pkg/annealing/solution/encoding/csv"
	"github.com/LindsayBradford/crem/internal/pkg/model"
	"github.com/LindsayBradford/crem/internal/pkg/model/models/catchment/actions"
	"github.com/LindsayBradford/crem/internal/pkg/model/planningunit"
	"github.com/LindsayBradford/crem/internal/pkg/model/variable"
)

func varIndexOf(name string) int {
	for i, n := range varNames {
		if n == name {
			return i
		}
	}
	return -1
}

// encodeables builds the Solution of the walked model and returns the protocol text of its decision variables:
//   <short name> <value> <k> <unit>=<value> …  |  …          (variables in the order the builder leaves them in)
func (w *walker) encodeables(after string) { w.encodeablesOf(after, false) }

// encodeablesOf: conformant = the state was reached by a conformant history (C01 applies: what is written must be what a fresh
// model loaded with the same action set writes — same variables, same values, same listed units)
func (w *walker) encodeablesOf(after string, conformant bool) {
	cm := w.cm
	var sol *solution.Solution
	if p := protect(func() { sol = new(solution.SolutionBuilder).WithId("walk").ForModel(cm.m).Build() }); p != "" {
		w.op("enc", "panic")
		w.fail("no-panic", "catchment:solution-builder-panic", fmt.Sprintf("after %s: %s", after, p))
		return
	}
	// the detail file of the solution (`…-NameMappedVariables.csv`), written by crem's own marshaler and read back cell by cell
	detail := map[string][]string{}
	if p := protect(func() {
		text, err := new(solutioncsv.DecisionVariableMarshaler).Marshal(sol)
		if err != nil {
			panic(err)
		}
		for li, l := range strings.Split(strings.TrimRight(string(text), "\n"), "\n") {
			cells := strings.Split(l, ", ")
			if li == 0 || len(cells) < 3+len(sol.PlanningUnits) {
				continue
			}
			detail[cells[0]] = append([]string{cells[1]}, cells[len(cells)-len(sol.PlanningUnits):]...)
		}
	}); p != "" {
		w.op("enc", "panic")
		w.fail("no-panic", "catchment:detail-marshaler-panic", fmt.Sprintf("after %s: %s", after, p))
		return
	}
	var parts []string
	byVar := map[int]variable.EncodeableDecisionVariable{}
	prevName := ""
	for k, dv := range sol.DecisionVariables {
		vi := varIndexOf(dv.Name)
		if vi < 0 {
			parts = append(parts, "unknown-variable")
			continue
		}
		if k > 0 && !(prevName < dv.Name) {
			// the order in which a solution lists its variables is nobody's property: counted, and canonicalised below
			w.c.Stat("enc: the solution lists its variables in another order than by name (not compared)")
		}
		prevName = dv.Name
		byVar[vi] = dv
		var sb strings.Builder
		fmt.Fprintf(&sb, "%s %s %d", varShort[vi], gridFmt(dv.Value, varPrec[vi]), len(dv.ValuePerPlanningUnit))
		sum := 0.0
		listed := append(variable.PlanningUnitValues(nil), dv.ValuePerPlanningUnit...)
		sort.SliceStable(listed, func(a, b int) bool { return listed[a].PlanningUnit < listed[b].PlanningUnit })
		seenUnit := map[planningunit.Id]bool{}
		for j, pv := range listed {
			fmt.Fprintf(&sb, " %d=%s", pv.PlanningUnit, gridFmt(pv.Value, varPrec[vi]))
			sum += pv.Value
			if dv.ValuePerPlanningUnit[j].PlanningUnit != pv.PlanningUnit {
				w.c.Stat("enc: a variable lists its planning units in another order than by id (not compared)")
			}
			// a unit listed twice would be counted twice by every reader that sums the list
			if seenUnit[pv.PlanningUnit] {
				w.fail("C11:written-figures", "catchment:encodeable-unit-listed-twice:"+varShort[vi], fmt.Sprintf("after %s: %s lists unit %d twice", after, dv.Name, pv.PlanningUnit))
			}
			seenUnit[pv.PlanningUnit] = true
			// every listed figure is the model's own per-unit value
			if mv := cm.unit(vi, pv.PlanningUnit); !near(mv, pv.Value) {
				w.fail("C11:written-figures", "catchment:encodeable-unit-differs-from-model:"+varShort[vi], fmt.Sprintf("after %s: %s unit %d written as %v, the model holds %v (set %s)", after, dv.Name, pv.PlanningUnit, pv.Value, mv, bitsStr(cm.flags())))
			}
		}
		// C11 on the written figures: total = sum of the LISTED unit shares
		if !near(sum, dv.Value) {
			w.fail("C11:total-is-sum-of-units", "catchment:written-total-not-sum:"+varShort[vi], fmt.Sprintf("after %s: %s written Value %v but the written planning-unit values sum to %v (set %s)", after, dv.Name, dv.Value, sum, bitsStr(cm.flags())))
		}
		if mv := cm.total(vi); !near(mv, dv.Value) {
			w.fail("C11:written-figures", "catchment:encodeable-value-differs-from-model:"+varShort[vi], fmt.Sprintf("after %s: %s written as %v, the model holds %v (set %s)", after, dv.Name, dv.Value, mv, bitsStr(cm.flags())))
		}
		// a unit the model gives a share that is visible at the reporting precision is listed
		half := 0.5 * math.Pow10(-varPrec[vi])
		for _, p := range cm.pus {
			if mv := cm.unit(vi, p); math.Abs(mv) > half*1.001 {
				found := false
				for _, pv := range dv.ValuePerPlanningUnit {
					if pv.PlanningUnit == p {
						found = true
					}
				}
				if !found {
					w.fail("C11:written-figures", "catchment:encodeable-unit-missing:"+varShort[vi], fmt.Sprintf("after %s: %s unit %d holds %v in the model but is not written (set %s)", after, dv.Name, p, mv, bitsStr(cm.flags())))
					break
				}
			}
		}
		// the variable's row of the detail file: Value cell, then one cell per planning unit of the solution
		sb.WriteString(" D")
		row, ok := detail[dv.Name]
		if !ok || len(row) != 1+len(sol.PlanningUnits) {
			w.fail("C11:written-figures", "catchment:detail-row-missing:"+varShort[vi], fmt.Sprintf("after %s: the detail file has no complete row for %s", after, dv.Name))
			sb.WriteString(" missing")
		} else {
			cellSum := 0.0
			for k, cell := range row {
				x, okNum := parseLocalisedNumber(strings.TrimSpace(cell))
				if !okNum {
					x = math.NaN()
				}
				if k == 0 {
					if !near(x, dv.Value) {
						w.fail("C11:written-figures", "catchment:detail-value-differs:"+varShort[vi], fmt.Sprintf("after %s: the detail file gives %s = %q, the solution holds %v", after, dv.Name, cell, dv.Value))
					}
					continue
				}
				cellSum += x
				fmt.Fprintf(&sb, " %s", gridFmt(x, varPrec[vi]))
			}
			// C11 in the file: the Value cell is the sum of the row's planning-unit cells
			if !near(cellSum, dv.Value) {
				w.fail("C11:total-is-sum-of-units", "catchment:detail-total-not-sum:"+varShort[vi], fmt.Sprintf("after %s: detail file row of %s: Value %v, planning-unit cells sum to %v (set %s)", after, dv.Name, dv.Value, cellSum, bitsStr(cm.flags())))
			}
		}
		parts = append(parts, sb.String())
	}
	if len(byVar) != len(varNames) {
		w.fail("C11:written-figures", "catchment:encodeable-variable-missing", fmt.Sprintf("after %s: the solution lists %d of the model's %d variables", after, len(byVar), len(varNames)))
	}
	// total nitrogen = particulate + dissolved on the written figures, catchment and every unit (absent = 0)
	read := func(dv variable.EncodeableDecisionVariable, p planningunit.Id) float64 {
		for _, pv := range dv.ValuePerPlanningUnit {
			if pv.PlanningUnit == p {
				return pv.Value
			}
		}
		return 0
	}
	if tn, ok := byVar[3]; ok {
		pn, dn := byVar[1], byVar[2]
		if !near(tn.Value, pn.Value+dn.Value) {
			w.fail("C11:tn-is-pn-plus-dn", "catchment:written-tn-not-pn-plus-dn", fmt.Sprintf("after %s: written TN %v PN %v DN %v (set %s)", after, tn.Value, pn.Value, dn.Value, bitsStr(cm.flags())))
		}
		for _, p := range cm.pus {
			if a, b, c := read(tn, p), read(pn, p), read(dn, p); !near(a, b+c) {
				w.fail("C11:tn-is-pn-plus-dn", "catchment:written-unit-tn-not-pn-plus-dn", fmt.Sprintf("after %s: unit %d written TN %v PN %v DN %v (set %s)", after, p, a, b, c, bitsStr(cm.flags())))
				break
			}
		}
	}
	w.c.Stat(w.tag + " enc (solution figures)")
	line := "enc"
	ids := ""
	for _, p := range sol.PlanningUnits {
		ids += fmt.Sprintf(" %d", p)
	}
	if conformant && w.ref != nil {
		flags := cm.flags()
		var solRef *solution.Solution
		if p := protect(func() {
			// a freshly initialised model to which exactly this set is applied (Ref.at answers from its cache: done here)
			w.ref.cm.m.Initialise(model.AsIs)
			for i, b := range flags {
				if b {
					w.ref.cm.m.SetManagementAction(i, true)
				}
			}
			solRef = new(solution.SolutionBuilder).WithId("walk").ForModel(w.ref.cm.m).Build()
		}); p == "" && solRef != nil {
			refVars := map[string]variable.EncodeableDecisionVariable{}
			for _, dv := range solRef.DecisionVariables {
				refVars[dv.Name] = dv
			}
			for _, dv := range sol.DecisionVariables {
				rv, ok := refVars[dv.Name]
				vi := varIndexOf(dv.Name)
				if !ok || vi < 0 {
					continue
				}
				diff := ""
				if !near(rv.Value, dv.Value) {
					diff = fmt.Sprintf("Value %v here, %v there", dv.Value, rv.Value)
				}
				units := func(l variable.PlanningUnitValues) map[planningunit.Id]float64 {
					m := map[planningunit.Id]float64{}
					for _, pv := range l {
						m[pv.PlanningUnit] = pv.Value
					}
					return m
				}
				a, b := units(dv.ValuePerPlanningUnit), units(rv.ValuePerPlanningUnit)
				for _, p := range cm.pus {
					va, ina := a[p]
					vb, inb := b[p]
					if diff == "" && (ina != inb || !near(va, vb)) {
						diff = fmt.Sprintf("unit %d: listed=%v value %v here, listed=%v value %v there", p, ina, va, inb, vb)
					}
				}
				if diff == "" && len(dv.ValuePerPlanningUnit) != len(rv.ValuePerPlanningUnit) {
					diff = fmt.Sprintf("%d entries here, %d there", len(dv.ValuePerPlanningUnit), len(rv.ValuePerPlanningUnit))
				}
				if diff != "" {
					w.fail("C01:written-figures-history-independent", "catchment:written-figures-history-dependent:"+varShort[vi],
						fmt.Sprintf("after %s: the solution built from this model and the one built from a fresh model with the same active set %s differ in %s: %s", after, bitsStr(flags), dv.Name, diff))
					break
				}
			}
		}
	}
	// canonical order of the line: by the variable's name as the model lists them (dn ic oc pn sed tn)
	sort.SliceStable(parts, func(a, b int) bool { return parts[a] < parts[b] })
	w.op(line+ids, strings.Join(parts, " | "))
	w.managementActionsFile(after, sol, ids)
}

var actionTypeNames = map[string]int{
	string(actions.GullyRestorationType): 0, string(actions.HillSlopeRestorationType): 1,
	string(actions.RiverBankRestorationType): 2, string(actions.WetlandsEstablishmentType): 3,
}

// managementActionsFile: the solution's management-actions file, written by crem's own marshaler and read back cell by cell:
// one row per planning unit of the solution, a 0/1 cell per action type.  Direct clauses: a cell is 1 exactly when the model
// has an ACTIVE action of that type in that unit; every action of the model has its column and its row.
func (w *walker) managementActionsFile(after string, sol *solution.Solution, ids string) {
	cm := w.cm
	var text []byte
	if p := protect(func() {
		var err error
		text, err = new(solutioncsv.ManagementActionMarshaler).Marshal(sol)
		if err != nil {
			panic(err)
		}
	}); p != "" {
		w.op("mact"+ids, "panic")
		w.fail("no-panic", "catchment:management-actions-marshaler-panic", fmt.Sprintf("after %s: %s", after, p))
		return
	}
	lines := strings.Split(strings.TrimRight(string(text), "\n"), "\n")
	head := strings.Split(lines[0], ", ")
	var sb strings.Builder
	sb.WriteString("H")
	cols := []int{}
	for _, h := range head[1:] {
		ti, ok := actionTypeNames[strings.TrimSpace(h)]
		if !ok {
			ti = -1
		}
		cols = append(cols, ti)
	}
	// canonical column order of the line: by action type (the order of the columns in the file is nobody's property)
	order := make([]int, len(cols))
	for i := range order {
		order[i] = i
	}
	sort.SliceStable(order, func(a, b int) bool { return cols[order[a]] < cols[order[b]] })
	for _, ci := range order {
		fmt.Fprintf(&sb, " %d", cols[ci])
	}
	sb.WriteString(" |")
	type key struct {
		p planningunit.Id
		t int
	}
	active, offered := map[key]bool{}, map[key]bool{}
	for _, a := range cm.m.ManagementActions() {
		k := key{a.PlanningUnit(), typeIdx(a.Type())}
		offered[k] = true
		if a.IsActive() {
			active[k] = true
		}
	}
	seen := map[key]bool{}
	for _, l := range lines[1:] {
		cells := strings.Split(l, ", ")
		if len(cells) != len(head) {
			w.fail("C11:written-figures", "catchment:management-actions-row-malformed", fmt.Sprintf("after %s: row %q has %d cells under %d headings", after, l, len(cells), len(head)))
			continue
		}
		pu, err := strconv.ParseUint(strings.TrimSpace(cells[0]), 10, 64)
		if err != nil {
			continue
		}
		fmt.Fprintf(&sb, " %d:", pu)
		for _, ci := range order {
			sb.WriteString(strings.TrimSpace(cells[1+ci]))
		}
		for ci, c := range cells[1:] {
			c = strings.TrimSpace(c)
			k := key{planningunit.Id(pu), cols[ci]}
			seen[k] = true
			if (c == "1") != active[k] {
				w.fail("C12:management-actions-file-faithful", "catchment:management-actions-cell-wrong", fmt.Sprintf("after %s: unit %d, column %q: the file says %q, the model's action of that unit and type is active=%v (offered=%v; set %s)", after, pu, head[1+ci], c, active[k], offered[k], bitsStr(cm.flags())))
			}
		}
	}
	for k := range offered {
		if !seen[k] {
			w.fail("C12:management-actions-file-faithful", "catchment:management-actions-cell-missing", fmt.Sprintf("after %s: the model's action of unit %d, type %d has no cell in the file", after, k.p, k.t))
			break
		}
	}
	w.op("mact"+ids, sb.String())
}
