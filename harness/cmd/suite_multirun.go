//go:build verif

package main

// Suite multi-run (property C08: runs of a scenario are independent and safe to execute
// concurrently).
//
//  1. The hypothesis `ClonePrivate` of the model, sampled on the real objects.  For every annealer
//     family crem's configuration can build (Kirkpatrick, Suppapitnarm, AveragedSuppapitnarm over the
//     catchment model with shipped CSV data; Kirkpatrick over the DumbModel; Kirkpatrick with
//     CheckingLoopInvariant) the configured annealer is built by crem's own configuration path, cloned
//     twice with DeepClone() and prepared exactly as Runner.run does (ids, observer wiring, explorer
//     Initialise()).  The object graphs of template and clones are walked by reflection; every identity
//     reachable from BOTH clones is reduced to its top-most nodes, each of which must be on the reviewed
//     allow-list below: Ctx.Fail `runs:clone-shares:<type>` otherwise.  Then both clones are ANNEALED (one
//     after the other, in process) with the content of every node shared between the clones or with the
//     template recorded before and after: a shared node whose content changed was written by that run;
//     unless every access to it is lock-guarded (classes below) that is `runs:shared-written:<type><field>`.
//     The walk is repeated after annealing.  The sets (shared nodes a clone reaches = R, shared nodes it
//     wrote = W, lock-guarded = L) go to the Lean driver, which evaluates the model's `Disjoint` on them.
//  2. Whole scenarios, each in a CHILD PROCESS (see suite_multirun_child.go): run counts 1-6 x
//     concurrency 1-6, three families, CSV data by relative and by absolute path, relative and
//     absolute output path, CSV and JSON output, OutputLevel Summary and Detail.  Per run: temperature,
//     first iteration number, archive size at StartedAnnealing; number and ids of FinishedAnnealing
//     events with the encodings of the solutions the run finished with; final temperature; one complete
//     output file holding exactly those encodings.  Compared with the model's expectation
//     (`fresh_start_anneal`, `noninterference`) and evaluated directly.  In every child the content of
//     every object reachable from the configured annealer is compared before / after Run().
//  3. Process-global state: the working directory must be the same before and after Run(); one
//     concurrent scenario per family is executed under `strace -f -e trace=chdir` and any chdir
//     between the two markers bracketing Run() is a failure; concurrent relative-path scenarios
//     are repeated until one run fails to load its data.
//  4. Fault injection: ONE designated run panics while it is cloned (Runner.run before Anneal), in a
//     chosen iteration, or in a FinishedAnnealing observer placed before the saver; the sibling runs'
//     results must still appear and Run() must return, naming the failed run.
//  5. result = solo on the real code: with every generator of a run seeded from the run's id (harness-side
//     wrapper, see the child) the same scenario is executed with all runs concurrent, with all runs
//     sequential, and every run ALONE (Runner.run(i) only): the files of run i must be byte-identical.
//  6. With a `-race` build of the harness (thorough tier) the children are race-instrumented:
//     every "WARNING: DATA RACE" block on stderr => `runs:data-race:<racing symbol>`, one per symbol.

import (
	"bytes"
	"context"
	"encoding/csv"
	"encoding/json"
	"fmt"
	"io"
	"math"
	"os"
	"os/exec"
	"path/filepath"
	"regexp"
	"sort"
	"strconv"
	"strings"
	"sync"
	"time"

	"github.com/LindsayBradford/crem/internal/pkg/annealing"
	"github.com/LindsayBradford/crem/internal/pkg/observer"
)

func init() { register("multi-run", suiteMultiRun) }

// ---------------------------------------------------------------- allow-list of shared objects

// A top-most node reachable from two clones is acceptable only if it falls in one of these
// classes.  Reviewed against the source: each class is either never written after the scenario
// has been built, or guards its state with a lock.
type allowRule struct {
	class  string
	reason string
	match  func(n *walkNode) bool
}

func typeIs(ts ...string) func(n *walkNode) bool {
	return func(n *walkNode) bool {
		for _, t := range ts {
			if n.typ == t {
				return true
			}
		}
		return false
	}
}
func pathHas(subs ...string) func(n *walkNode) bool {
	return func(n *walkNode) bool {
		for _, s := range subs {
			if strings.Contains(n.path, s) {
				return true
			}
		}
		return false
	}
}

var allowRules = []allowRule{
	{"notifier", "the annealer's event notifier and its observer list are shared by design: observers are added while the scenario is built, the list is only read during runs (observers: the message observer is stateless apart from its logger; the saver locks; see `observers` below)",
		typeIs("*observer.SynchronousAnnealingEventNotifier")},
	{"logger", "log handlers: destinations are configured at construction; writes go through log.Logger (internally locked) or os.File",
		func(n *walkNode) bool {
			return strings.HasPrefix(n.typ, "*loggers.") || strings.Contains(n.path, ".ContainedLogger.") || strings.Contains(n.path, ".logHandler") || strings.Contains(n.path, "LogHandler")
		}},
	{"parameters", "parameter values, specifications and validation-error collectors: written by SetParameters while the scenario is built, only read by runs",
		func(n *walkNode) bool {
			return strings.Contains(n.path, ".parameters.") || strings.Contains(n.path, ".Parameters.") || strings.HasPrefix(n.typ, "*specification.") || strings.HasPrefix(n.typ, "parameters.Map") || strings.HasPrefix(n.typ, "*errors.CompositeError")
		}},
	{"dataset", "data set tables: filled by Load, only read afterwards", func(n *walkNode) bool {
		return strings.HasPrefix(n.typ, "*tables.") || strings.HasPrefix(n.typ, "*dataset.") || strings.HasPrefix(n.typ, "*csv.DataSet") || strings.HasPrefix(n.typ, "tables.") || strings.HasPrefix(n.typ, "dataset.")
	}},
	{"annealer-base-attributes", "SimpleAnnealer.baseAttributes: [Id, MaximumIterations], len = cap = 2; every use appends (which copies, the array being full) and never replaces an existing name, so the shared array is only read",
		func(n *walkNode) bool {
			return n.typ == "attributes.Attributes" && strings.HasSuffix(n.path, "SimpleAnnealer.baseAttributes") && n.slen == n.scap
		}},
	{"saver", "scenario.Saver: decompression model behind decompressionMutex", typeIs("*scenario.Saver")},
	{"immutable-runtime", "time zones, type descriptors, os.File handles of the standard streams", typeIs("*time.Location", "*os.File", "*os.file")},
}

func classify(n *walkNode) (string, bool) {
	for _, r := range allowRules {
		if r.match(n) {
			return r.class, true
		}
	}
	return "-", false
}

// Being reachable from two runs is one thing, being WRITTEN during a run another: the allow-list above
// exempts a shared node (with everything below it) from `runs:clone-shares`, it does not exempt it from
// the content comparison.  A node of the shared part whose content changed during Run() / Anneal() is
// admissible only if every access to it is inside a lock-guarded section:
var (
	saverFieldsRe     = regexp.MustCompile(`^(\.[A-Za-z_]\w*)+$`)
	saverModelTypeRe  = regexp.MustCompile(`^\*\w+\.Model$`)
	saverModelBelowRe = regexp.MustCompile(`^(\.[A-Za-z_]\w*)+\(\*\w+\.Model\)`)
)

var writtenRules = []struct {
	class, reason string
	match         func(path, typ string) bool
}{
	{"harness", "the suite's own recording observer / fault wrapper (locks itself)", func(p, t string) bool {
		return strings.Contains(p, "(*main.") || strings.HasPrefix(t, "*main.") || strings.HasPrefix(t, "main.")
	}},
	{"saver-locked", "the model that the one Saver of a scenario decompresses solutions into (scenario.Saver.decompressionModel in the pinned code), and everything below it: only touched under the Saver's mutex (Saver.go derive*Solution*).  Recognised by what it is - a model reached from the Saver through plain fields - not by the field's name",
		func(p, t string) bool {
			i := strings.LastIndex(p, "(*scenario.Saver)")
			if i < 0 {
				return false
			}
			rest := p[i+len("(*scenario.Saver)"):]
			return (saverFieldsRe.MatchString(rest) && saverModelTypeRe.MatchString(t)) || saverModelBelowRe.MatchString(rest)
		}},
	{"logger-locked", "log destinations: written through log.Logger / os.File, which lock internally", func(p, t string) bool {
		return strings.Contains(p, "(*log.Logger)") || strings.Contains(p, "(*os.File)") || strings.Contains(p, "(*os.file)") || strings.HasPrefix(t, "*log.Logger") || t == "*os.file" || t == "*os.File"
	}},
}

func classifyWritten(path, typ string) (string, bool) {
	for _, r := range writtenRules {
		if r.match(path, typ) {
			return r.class, true
		}
	}
	return "-", false
}

// writtenSignature names a written shared object by its type and the first field that differs.
func writtenSignature(w writtenNode) string {
	leaf := w.Leaf
	if i := strings.Index(leaf, "["); i >= 0 {
		leaf = leaf[:i] + "[]"
	}
	return "runs:shared-written:" + shortType(w.Type) + leaf
}

// ---------------------------------------------------------------- environment

type mrEnv struct {
	c        *Ctx
	harness  string
	race     bool
	repo     string
	caseRoot string
	nCase    int
}

var familyCoolantTypes = map[string][]string{
	"Kirkpatrick":          {"*kirkpatrick.Explorer"}, // the coolant is embedded by value in the explorer
	"Suppapitnarm":         {"*suppapitnarm.Coolant"},
	"AveragedSuppapitnarm": {"*averaged.Coolant"},
}

func datasetFiles(stem string) []string {
	// stem = Valid | Testing ; the meta file names its three tables by relative path
	return []string{stem + "Model.csv", stem + "Subcatchments.csv", stem + "Gullies.csv", stem + "Actions.csv"}
}

func (e *mrEnv) testdataDir() string {
	return filepath.Join(e.repo, "internal/pkg/model/models/catchment/testdata")
}

func copyFile(src, dst string) {
	b, err := os.ReadFile(src)
	must(err)
	must(os.WriteFile(dst, b, 0o644))
}

// prepare creates the case directory: <root>/<n>/{cwd/data/<dataset>, out}
func (e *mrEnv) prepare(k *mrCase, stem string, absData, absOut bool) string {
	e.nCase++
	dir := filepath.Join(e.caseRoot, fmt.Sprintf("%04d", e.nCase))
	cwd := filepath.Join(dir, "cwd")
	must(os.MkdirAll(filepath.Join(cwd, "data"), 0o755))
	must(os.MkdirAll(filepath.Join(dir, "out"), 0o755))
	for _, f := range datasetFiles(stem) {
		copyFile(filepath.Join(e.testdataDir(), f), filepath.Join(cwd, "data", f))
	}
	k.Cwd = cwd
	k.DataPath = filepath.Join("data", stem+"Model.csv")
	if absData {
		k.DataPath = filepath.Join(cwd, k.DataPath)
	}
	k.OutputPath = "solutions"
	if absOut {
		k.OutputPath = filepath.Join(cwd, "solutions")
	}
	return dir
}

// ---------------------------------------------------------------- running one child

type mrEvent struct {
	kind   byte
	fields map[string]string
}

type mrResult struct {
	k                 mrCase
	dir               string
	exit              int
	timedOut          bool
	stderr            string
	child             childResult
	haveChild         bool
	events            []mrEvent
	written           []writtenNode
	haveWritten       bool
	strace            string
	straceRan         bool
	straceUnavailable bool
	wall              time.Duration
}

func (e *mrEnv) runChild(k mrCase, dir string) *mrResult {
	r := &mrResult{k: k, dir: dir}
	b, _ := json.Marshal(k)
	casePath := filepath.Join(dir, "case.json")
	must(os.WriteFile(casePath, b, 0o644))
	outDir := filepath.Join(dir, "out")
	args := []string{e.harness, "multi-run-child", "-out", outDir, casePath}
	straceOut := filepath.Join(dir, "strace.txt")
	if k.Strace {
		if st, err := exec.LookPath("strace"); err == nil {
			args = append([]string{st, "-f", "-e", "trace=chdir", "-o", straceOut}, args...)
			r.straceRan = true
		}
	}
	timeout := 40 * time.Second
	if e.race {
		timeout = 240 * time.Second
	}
	ctx, cancel := context.WithTimeout(context.Background(), timeout)
	defer cancel()
	cmd := exec.CommandContext(ctx, args[0], args[1:]...)
	cmd.Dir = k.Cwd
	cmd.Stdout = io.Discard
	var errBuf bytes.Buffer
	cmd.Stderr = &limitedWriter{w: &errBuf, n: 1 << 20}
	cmd.Env = append(os.Environ(), "GOTRACEBACK=single")
	t0 := time.Now()
	err := cmd.Run()
	r.wall = time.Since(t0)
	if ctx.Err() == context.DeadlineExceeded {
		r.timedOut = true
	}
	if err != nil {
		if ee, ok := err.(*exec.ExitError); ok {
			r.exit = ee.ExitCode()
		} else {
			r.exit = -1
		}
	}
	r.stderr = errBuf.String()
	if cb, err := os.ReadFile(filepath.Join(outDir, "child.json")); err == nil {
		if json.Unmarshal(cb, &r.child) == nil {
			r.haveChild = true
		}
	}
	if wb, err := os.ReadFile(filepath.Join(outDir, "written.json")); err == nil {
		if json.Unmarshal(wb, &r.written) == nil {
			r.haveWritten = true
		}
	}
	if eb, err := os.ReadFile(filepath.Join(outDir, "events.log")); err == nil {
		for _, l := range strings.Split(string(eb), "\n") {
			if l == "" {
				continue
			}
			fs := strings.Split(l, "\t")
			ev := mrEvent{kind: fs[0][0], fields: map[string]string{}}
			for _, f := range fs[1:] {
				if i := strings.IndexByte(f, '='); i > 0 {
					ev.fields[f[:i]] = f[i+1:]
				}
			}
			r.events = append(r.events, ev)
		}
	}
	if r.straceRan {
		if sb, err := os.ReadFile(straceOut); err == nil {
			r.strace = string(sb)
		}
		if !strings.Contains(r.strace, markerBegin) && !r.haveChild {
			// strace could not trace the child (ptrace not permitted here): run the case without it
			k.Strace = false
			plain := e.runChild(k, dir)
			plain.k.Strace = true
			plain.straceRan = false
			plain.straceUnavailable = true
			return plain
		}
	}
	return r
}

type limitedWriter struct {
	w io.Writer
	n int
}

func (l *limitedWriter) Write(p []byte) (int, error) {
	if l.n > 0 {
		q := p
		if len(q) > l.n {
			q = q[:l.n]
		}
		l.w.Write(q)
		l.n -= len(q)
	}
	return len(p), nil
}

var panicLineRe = regexp.MustCompile(`(?m)^(panic|fatal error): (.*)$`)

func firstPanic(stderr string) string {
	if m := panicLineRe.FindStringSubmatch(stderr); m != nil {
		return clip(m[2], 160)
	}
	return ""
}

// chdirsInRun counts successful or attempted chdir calls between the two markers of a strace log.
func chdirsInRun(strace string) (n int, sample string, complete bool) {
	in := false
	for _, l := range strings.Split(strace, "\n") {
		if !strings.Contains(l, "chdir(") {
			continue
		}
		if strings.Contains(l, markerBegin) {
			in = true
			continue
		}
		if strings.Contains(l, markerEnd) {
			return n, sample, true
		}
		if in {
			n++
			if sample == "" {
				sample = strings.TrimSpace(l)
			}
		}
	}
	return n, sample, false
}

var raceSymRe = regexp.MustCompile(`(?m)^(?:Write|Read|Previous write|Previous read)[^\n]*\n\s+(\S+)\(\)`)

// allRaces returns, for EVERY race report on stderr, the symbols of the two racing accesses (first frame
// each): one finding per distinct symbol, so that a known race cannot hide a new one.
func allRaces(stderr string) (syms []string, firstBlock map[string]string) {
	firstBlock = map[string]string{}
	blocks := strings.Split(stderr, "WARNING: DATA RACE")
	for _, b := range blocks[1:] {
		if i := strings.Index(b, "=================="); i >= 0 {
			b = b[:i]
		}
		ms := raceSymRe.FindAllStringSubmatch(b, -1)
		if len(ms) == 0 {
			ms = [][]string{{"", "?"}}
		}
		for _, m := range ms {
			sym := strings.TrimPrefix(m[1], "github.com/LindsayBradford/crem/")
			if _, ok := firstBlock[sym]; !ok {
				firstBlock[sym] = b
				syms = append(syms, sym)
			}
		}
	}
	sort.Strings(syms)
	return
}

// ---------------------------------------------------------------- per-run observations

type runObs struct {
	g        string
	startT   string
	startN   int
	arch     string
	obj      string
	firstIt  string
	finN     int
	finID    string
	finT     string
	finIter  string
	finSize  string
	finEnc   string
	inflight int
	eventIDs map[string]bool
}

func groupRuns(evs []mrEvent) []*runObs {
	byG := map[string]*runObs{}
	var order []string
	get := func(g string) *runObs {
		if o, ok := byG[g]; ok {
			return o
		}
		o := &runObs{g: g, startT: "-", arch: "-", firstIt: "-", finT: "-", finID: "", finIter: "-", obj: "-", eventIDs: map[string]bool{}}
		byG[g] = o
		order = append(order, g)
		return o
	}
	// a run is a stretch of events on ONE goroutine from before its StartedAnnealing to its FinishedAnnealing: the Runner may
	// give every run a goroutine of its own (the pinned code) or have a worker anneal several runs one after the other
	seg := map[string]int{}
	for _, ev := range evs {
		g := ev.fields["g"]
		cur := get(fmt.Sprintf("%s#%d", g, seg[g]))
		if cur.finN > 0 || (ev.kind == 'S' && cur.startN > 0) {
			seg[g]++
		}
		o := get(fmt.Sprintf("%s#%d", g, seg[g]))
		o.g = g
		o.eventIDs[ev.fields["id"]] = true
		switch ev.kind {
		case 'S':
			o.startN++
			o.startT, o.arch, o.obj = ev.fields["T"], ev.fields["arch"], ev.fields["obj"]
			o.inflight, _ = strconv.Atoi(ev.fields["inflight"])
		case 'I':
			o.firstIt = ev.fields["iter"]
		case 'F':
			o.finN++
			o.finID, o.finT, o.finIter, o.finSize, o.finEnc = ev.fields["payload"], ev.fields["T"], ev.fields["iter"], ev.fields["size"], ev.fields["enc"]
		}
	}
	out := make([]*runObs, 0, len(order))
	for _, g := range order {
		out = append(out, byG[g])
	}
	return out
}

var cloneIDRe = regexp.MustCompile(`^(.*) \((\d+)/(\d+)\)$`)

// runIndex recovers (index, total) from a clone id produced by Runner.generateCloneId.
func runIndex(name, id string, runs int) int {
	if runs == 1 {
		if id == name {
			return 1
		}
		return 0
	}
	m := cloneIDRe.FindStringSubmatch(id)
	if m == nil || m[1] != name {
		return 0
	}
	i, _ := strconv.Atoi(m[2])
	n, _ := strconv.Atoi(m[3])
	if n != runs || i < 1 || i > runs {
		return 0
	}
	return i
}

func under(s string) string { return strings.ReplaceAll(s, " ", "_") }

func expectedID(name string, i, runs int) string {
	if runs > 1 {
		return fmt.Sprintf("%s (%d/%d)", name, i, runs)
	}
	return name
}

// failedIDs: the runs the error returned by Run() names.  The wording of that error is nobody's contract; a run counts as
// named when its id (`<scenario>` for a single run, `<scenario> (i/n)` otherwise) occurs in the text.
func failedIDs(runError, name string, runs int) []string {
	var out []string
	for i := 1; i <= runs; i++ {
		if id := expectedID(name, i, runs); strings.Contains(runError, id) {
			out = append(out, under(id))
		}
	}
	sort.Strings(out)
	return out
}

// ---------------------------------------------------------------- output files

type outputCheck struct {
	perRun    map[int]string   // run index -> "" (complete) or what is wrong
	asIs      map[int]string   // run index -> as-is row (values and encoding) for cross-run comparison
	encs      map[int][]string // run index -> encodings of the non-as-is rows of the summary, in file order
	haveEncs  map[int]bool
	files     map[int][]string // run index -> every file written for that run (summary + details)
	misplaced []string
}

// jsonSummary is the shape of a JSON solution-set summary (encoding/json of solutionset.Summary)
type jsonSummary struct {
	SolutionSet string `json:"SolutionSet"`
	Solutions   []struct {
		Id        string `json:"Id"`
		Variables []struct {
			Name  string      `json:"Name"`
			Value json.Number `json:"Value"`
		} `json:"Variables"`
		Actions string `json:"Actions"`
	} `json:"Solutions"`
}

var detailLabelRe = regexp.MustCompile(`Solution\(([^)]*)\)`)

func (e *mrEnv) outDirOf(k mrCase) string {
	outDir := k.OutputPath
	if !filepath.IsAbs(outDir) {
		outDir = filepath.Join(k.Cwd, outDir)
	}
	return outDir
}

func runTag(i, runs int) string {
	if runs > 1 {
		return fmt.Sprintf("(%d_of_%d)", i, runs)
	}
	return ""
}

func (e *mrEnv) checkOutputs(r *mrResult) outputCheck {
	k := r.k
	// number of solutions every run reported with its finish event (archive size, or 1 for the single-objective explorer)
	sizes := map[int]int{}
	for _, o := range groupRuns(r.events) {
		if i := runIndex(k.Name, o.finID, k.Runs); i > 0 && o.finN > 0 {
			sizes[i], _ = strconv.Atoi(o.finSize)
		}
	}
	oc := outputCheck{perRun: map[int]string{}, asIs: map[int]string{}, encs: map[int][]string{}, haveEncs: map[int]bool{}, files: map[int][]string{}}
	outDir := e.outDirOf(k)
	ext := ".csv"
	if k.OutputType == "JSON" {
		ext = ".json"
	}
	entries, _ := os.ReadDir(outDir)
	for i := 1; i <= k.Runs; i++ {
		tag := runTag(i, k.Runs)
		found := ""
		detailLabels := map[string]bool{} // CSV detail output has two files per solution, JSON one
		for _, en := range entries {
			n := en.Name()
			if !strings.HasSuffix(strings.ToLower(n), ext) || !strings.HasPrefix(n, k.Name+tag) {
				continue
			}
			oc.files[i] = append(oc.files[i], filepath.Join(outDir, n))
			if strings.Contains(n, "Summary") {
				if found == "" || !strings.Contains(n, "As-Is") {
					found = filepath.Join(outDir, n)
				}
			} else if m := detailLabelRe.FindStringSubmatch(n); m != nil {
				detailLabels[m[1]] = true
				if b, err := os.ReadFile(filepath.Join(outDir, n)); err != nil || len(b) == 0 || (ext == ".json" && !json.Valid(b)) {
					oc.perRun[i] = "empty, unreadable or invalid detail file " + n
				}
			}
		}
		sort.Strings(oc.files[i])
		if found == "" {
			oc.perRun[i] = "no summary file for run " + strconv.Itoa(i) + " in " + outDir
			continue
		}
		if _, finished := sizes[i]; finished && k.Detail && len(detailLabels) != sizes[i]+1 && oc.perRun[i] == "" {
			oc.perRun[i] = fmt.Sprintf("OutputLevel Detail: detail files of %d solution(s) for run %d; as-is + the %d solution(s) the run finished with expected", len(detailLabels), i, sizes[i])
			continue
		}
		if oc.perRun[i] != "" {
			continue
		}
		b, err := os.ReadFile(found)
		if err != nil || len(b) == 0 {
			oc.perRun[i] = "empty or unreadable " + found
			continue
		}
		if ext == ".json" {
			var js jsonSummary
			dec := json.NewDecoder(bytes.NewReader(b))
			if err := dec.Decode(&js); err != nil {
				oc.perRun[i] = "invalid JSON in " + found + ": " + err.Error()
				continue
			}
			if len(js.Solutions) != 1+sizes[i] {
				oc.perRun[i] = fmt.Sprintf("summary %s has %d solutions; as-is + the %d solution(s) the run finished with expected", found, len(js.Solutions), sizes[i])
				continue
			}
			oc.perRun[i] = ""
			oc.haveEncs[i] = true
			for _, sol := range js.Solutions {
				if sol.Id == "As-Is" {
					var vs []string
					for _, v := range sol.Variables {
						vs = append(vs, v.Name+"="+v.Value.String())
					}
					oc.asIs[i] = strings.Join(vs, ",") + ",Actions=" + sol.Actions
				} else {
					oc.encs[i] = append(oc.encs[i], sol.Actions)
				}
			}
			continue
		}
		rd := csv.NewReader(bytes.NewReader(b))
		rd.TrimLeadingSpace = true
		rd.FieldsPerRecord = -1
		rows, err := rd.ReadAll()
		switch {
		case err != nil:
			oc.perRun[i] = "unparsable CSV " + found + ": " + err.Error()
		case len(rows) != 2+sizes[i]:
			oc.perRun[i] = fmt.Sprintf("summary %s has %d rows; header + as-is + the %d solution(s) the run finished with expected", found, len(rows), sizes[i])
		default:
			bad := ""
			for ri, row := range rows {
				if len(row) != len(rows[0]) {
					bad = fmt.Sprintf("row %d of %s has %d fields, header has %d", ri, found, len(row), len(rows[0]))
				}
			}
			oc.perRun[i] = bad
			actionsCol := -1
			for ci, h := range rows[0] {
				if strings.TrimSpace(h) == "Actions" {
					actionsCol = ci
				}
			}
			for _, row := range rows[1:] {
				if len(row) > 0 && row[0] == "As-Is" {
					oc.asIs[i] = strings.Join(row[1:len(row)-1], ",")
				} else if actionsCol >= 0 && actionsCol < len(row) {
					oc.encs[i] = append(oc.encs[i], strings.TrimSpace(row[actionsCol]))
				}
			}
			oc.haveEncs[i] = actionsCol >= 0 && bad == ""
		}
	}
	// summaries written anywhere else under the case directory
	filepath.Walk(r.dir, func(p string, info os.FileInfo, err error) error {
		if err == nil && !info.IsDir() && strings.Contains(info.Name(), "Summary") && filepath.Dir(p) != outDir {
			oc.misplaced = append(oc.misplaced, p)
		}
		return nil
	})
	return oc
}

// ---------------------------------------------------------------- evaluating a scenario case

func caseLine(k mrCase) string {
	b, _ := json.Marshal(k)
	return "reset " + strings.ReplaceAll(string(b), " ", "\u00a0")
}

func (e *mrEnv) commonChecks(r *mrResult, ops []string) {
	c, k := e.c, r.k
	if syms, blocks := allRaces(r.stderr); len(syms) > 0 {
		for _, sym := range syms {
			c.Fail("C08:no-data-race", "runs:data-race:"+sym, fmt.Sprintf("race detector report in a %s scenario (runs=%d conc=%d):\nWARNING: DATA RACE%s", k.Family, k.Runs, k.Conc, clip(blocks[sym], 1500)), ops)
		}
		c.Stat(fmt.Sprintf("race reports: %d distinct symbol(s)", len(syms)))
	}
	// content of everything reachable from the configured annealer, before / after Run()
	if r.haveChild && r.child.Built && r.child.WalkError != "" {
		c.Fail("C08:structural:shared-content-readable", "runs:shared-content-walk-failed", "the child could not walk / re-read the object graph of the configured annealer: "+r.child.WalkError, ops)
	}
	if r.haveWritten {
		c.Stat("shared content compared across Run()")
		for _, w := range r.written {
			class, admissible := classifyWritten(w.Path, w.Type)
			c.Stat("written during Run(): " + shortType(w.Type) + " [" + class + "]")
			if admissible || k.Runs < 2 || k.Solo > 0 {
				continue
			}
			c.Fail("C08:shared-objects-not-written", writtenSignature(w),
				fmt.Sprintf("%s scenario runs=%d conc=%d: %s %s, reachable from the configured annealer (which every run clones: every run reaches it), was written during Run(): %s was %s, is %s (%d leaf value(s) differ); path %s; it is not in a class whose accesses are all lock-guarded",
					k.Family, k.Runs, k.Conc, w.Kind, shortType(w.Type), w.Leaf, w.Before, w.After, w.Leaves, w.Path), ops)
		}
	}
	if r.timedOut {
		c.Fail("C08:all-runs-complete", "runs:timeout", fmt.Sprintf("child did not finish (%s runs=%d conc=%d)", k.Family, k.Runs, k.Conc), ops)
	}
	if r.haveChild && r.child.Returned && r.child.CwdAfter != r.child.CwdBefore {
		c.Fail("C08:no-process-global-side-effect", "runs:chdir-during-run",
			fmt.Sprintf("working directory of the process changed across Scenario.Run(): before %q, after %q (%s runs=%d conc=%d data=%s)", r.child.CwdBefore, r.child.CwdAfter, k.Family, k.Runs, k.Conc, k.DataPath), ops)
	}
	if r.straceUnavailable {
		c.Stat("strace unavailable: chdir watched through the working directory before/after Run() only")
	}
	if r.straceRan {
		n, sample, _ := chdirsInRun(r.strace)
		c.Stat(fmt.Sprintf("strace chdir-in-run=%v", n > 0))
		if n > 0 {
			c.Fail("C08:no-process-global-side-effect", "runs:chdir-during-run",
				fmt.Sprintf("strace -f -e trace=chdir: %d chdir call(s) inside Scenario.Run() (%s runs=%d conc=%d); first: %s", n, k.Family, k.Runs, k.Conc, sample), ops)
		}
	}
}

// foreignDefect recognises a child hit by a defect that belongs to another property, so that it is
// reported under that property and not mistaken for a violation of run independence.
//   - C12 (D8): the JSON solution-set encoder takes the set name from an arbitrary map key and
//     indexes a failed regexp match when the as-is key comes first.
func foreignDefect(r *mrResult) (predicate, signature, what string, ok bool) {
	if r.k.OutputType == "JSON" && (strings.Contains(r.stderr, "encoding/json.deriveSetNameFor") ||
		strings.Contains(r.child.RunError, "index out of range [1] with length 0")) {
		return "C12:json-set-name", "saved:json-set-name-panic", "JSON solution-set encoder panics deriving the set name (map-order dependent; belongs to C12)", true
	}
	return "", "", "", false
}

func (e *mrEnv) evalScenario(r *mrResult) {
	c, k := e.c, r.k
	opReset := caseLine(k)
	c.Op(opReset, "ok")
	if pred, sig, what, ok := foreignDefect(r); ok {
		c.Fail(pred, sig, fmt.Sprintf("%s (%s scenario runs=%d conc=%d)", what, k.Family, k.Runs, k.Conc), []string{opReset})
		c.Op("probe case-hit-by-a-defect-of-another-property "+sig, "done")
		c.Stat("case not evaluated: " + sig)
		return
	}
	op := fmt.Sprintf("scenario %s %s %d %d %s %s %d", familyToken(k), k.Name, k.Runs, k.Conc, floatBits(k.T0), floatBits(k.CF), k.MaxIter)
	ops := []string{opReset, op}
	e.commonChecks(r, ops)

	runs := groupRuns(r.events)
	returned := r.haveChild && r.child.Returned
	failed := []string{}
	if r.haveChild && r.child.RunError != "" {
		failed = failedIDs(r.child.RunError, k.Name, k.Runs)
		if len(failed) == 0 {
			failed = []string{"?"}
		}
	}
	var sb strings.Builder
	fmt.Fprintf(&sb, "returned=%s failed=[%s]", b2s(returned), strings.Join(failed, ","))
	// order runs by index recovered from the finish payload; unattributable ones last
	type slot struct {
		idx int
		o   *runObs
	}
	var slots []slot
	for _, o := range runs {
		slots = append(slots, slot{runIndex(k.Name, o.finID, k.Runs), o})
	}
	sort.SliceStable(slots, func(i, j int) bool {
		a, b := slots[i].idx, slots[j].idx
		if a == 0 {
			a = 1 << 30
		}
		if b == 0 {
			b = 1 << 30
		}
		return a < b
	})
	t0 := floatBits(k.T0)
	for _, s := range slots {
		o := s.o
		if e.race && o.firstIt == "-" && k.MaxIter > 0 && o.finIter == strconv.Itoa(k.MaxIter) {
			// race build: the recorder does not log iteration events (see the child); a run that finished
			// at exactly its budget is reported with the first iteration the plain build observes
			o.firstIt = "1"
		}
		id := under(o.finID)
		if o.finID == "" {
			id = "?"
		}
		fmt.Fprintf(&sb, " [%s T=%s iter=%s arch=%s fin=%d Tend=%s]", id, o.startT, o.firstIt, o.arch, o.finN, o.finT)
		// ---- the property's clauses, evaluated directly
		if o.startT != t0 {
			c.Fail("C08:run-starts-at-configured-temperature", "runs:run-starts-cold",
				fmt.Sprintf("%s scenario %q runs=%d conc=%d: run %q reported temperature %s at StartedAnnealing, configured starting temperature is %s (%v)",
					k.Family, k.Name, k.Runs, k.Conc, o.finID, bitsToDecimal(o.startT), t0, k.T0), ops)
		}
		if k.Kind == "scenario" && o.inflight > k.Conc {
			c.Fail("C08:concurrency-bound", "runs:concurrency-bound-exceeded", fmt.Sprintf("%s scenario runs=%d: %d runs were annealing at once, MaximumConcurrentRunNumber is %d", k.Family, k.Runs, o.inflight, k.Conc), ops)
		}
		if o.firstIt != "1" && k.MaxIter > 0 && (o.firstIt != "-" || o.finN > 0) {
			c.Fail("C08:run-starts-at-iteration-1", "runs:first-iteration-not-1", fmt.Sprintf("run %q: first StartedIteration carries iteration %s", o.finID, o.firstIt), ops)
		}
		if k.Family != "Kirkpatrick" && o.arch != "0" {
			c.Fail("C08:run-starts-with-empty-solution-set", "runs:archive-not-empty-at-start", fmt.Sprintf("run %q: ArchiveSize %s at StartedAnnealing", o.finID, o.arch), ops)
		}
		if o.startN != 1 || o.finN != 1 {
			c.Fail("C08:one-start-one-finish-per-run", "runs:finish-events", fmt.Sprintf("run on goroutine %s (%q): %d StartedAnnealing, %d FinishedAnnealing events", o.g, o.finID, o.startN, o.finN), ops)
		}
		if o.finN > 0 && o.finIter != strconv.Itoa(k.MaxIter) {
			c.Fail("C08:own-complete-result", "runs:finish-iteration", fmt.Sprintf("run %q finished at iteration %s, budget %d", o.finID, o.finIter, k.MaxIter), ops)
		}
		if k.Model == "DumbModel" && o.obj != floatBits(1000) {
			c.Fail("C08:run-starts-from-initial-state", "runs:run-starts-from-previous-result",
				fmt.Sprintf("DumbModel scenario runs=%d conc=%d: run %q starts with ObjectiveValue %s, the configured InitialObjectiveValue is 1000", k.Runs, k.Conc, o.finID, bitsToDecimal(o.obj)), ops)
		}
	}
	// ids: exactly the ids Runner assigns, each once
	seen := map[int]int{}
	for _, s := range slots {
		seen[s.idx]++
	}
	for i := 1; i <= k.Runs; i++ {
		if seen[i] != 1 {
			c.Fail("C08:one-start-one-finish-per-run", "runs:finish-ids", fmt.Sprintf("%s scenario runs=%d conc=%d: %d finish event(s) carry id %q; ids seen: %v (child exit %d, %s)",
				k.Family, k.Runs, k.Conc, seen[i], expectedID(k.Name, i, k.Runs), finIDs(runs), r.exit, firstPanic(r.stderr)), ops)
			break
		}
	}
	if !returned {
		sig := "runs:run-died"
		detail := fmt.Sprintf("%s scenario runs=%d conc=%d data=%s: child exit %d, Run() did not return; first panic: %s", k.Family, k.Runs, k.Conc, k.DataPath, r.exit, firstPanic(r.stderr))
		if !filepath.IsAbs(k.DataPath) && k.Conc > 1 && k.Model != "DumbModel" && dataLoadFailure(r.stderr) {
			// a run that could not load its data although the very same relative path loads when runs are sequential
			sig = "runs:chdir-during-run"
			detail += "  [concurrent runs resolving a relative DataSourcePath: a sibling's os.Chdir moved the working directory]"
		}
		c.Fail("C08:all-runs-complete", sig, detail, ops)
	}
	// outputs
	if k.Kind == "scenario" && returned {
		oc := e.checkOutputs(r)
		first := ""
		for i := 1; i <= k.Runs; i++ {
			if oc.perRun[i] != "" && first == "" {
				first = oc.perRun[i]
			}
		}
		if first != "" {
			sig := "runs:output-missing"
			if len(oc.misplaced) > 0 {
				first += fmt.Sprintf("; %d summary file(s) were written elsewhere, e.g. %s", len(oc.misplaced), oc.misplaced[0])
				if r.child.CwdAfter != r.child.CwdBefore {
					sig = "runs:chdir-during-run"
				}
			}
			c.Fail("C08:own-complete-result", sig, fmt.Sprintf("%s scenario runs=%d conc=%d out=%s: %s", k.Family, k.Runs, k.Conc, k.OutputPath, first), ops)
		}
		ref, nAsIs := "", 0
		for i := 1; i <= k.Runs; i++ {
			if a, ok := oc.asIs[i]; ok {
				nAsIs++
				if ref == "" {
					ref = a
				} else if a != ref {
					c.Fail("C08:same-input-data", "runs:as-is-differs", fmt.Sprintf("as-is rows of two runs of one %s scenario (%s output) differ: %q vs %q", k.Family, k.OutputType, ref, a), ops)
				}
			}
		}
		if first == "" && k.Model != "DumbModel" && nAsIs != k.Runs {
			c.Fail("C08:same-input-data", "runs:as-is-missing", fmt.Sprintf("%s scenario runs=%d (%s output): only %d of the summaries hold an as-is row", k.Family, k.Runs, k.OutputType, nAsIs), ops)
		}
		c.Stat(fmt.Sprintf("as-is rows compared across runs type=%s n=%d", k.OutputType, nAsIs))
		// "its OWN complete result": the file of run i holds exactly the solutions run i finished with
		for _, o := range runs {
			i := runIndex(k.Name, o.finID, k.Runs)
			if i == 0 || o.finN != 1 || !oc.haveEncs[i] || oc.perRun[i] != "" {
				continue
			}
			want := []string{}
			if o.finEnc != "-" && o.finEnc != "" {
				want = strings.Split(o.finEnc, ",")
			}
			got := oc.encs[i]
			if strings.Join(want, ",") != strings.Join(got, ",") {
				c.Fail("C08:own-complete-result", "runs:result-of-another-run", fmt.Sprintf("%s scenario runs=%d conc=%d (%s): run %q finished with the solutions %v, its summary file holds %v", k.Family, k.Runs, k.Conc, k.OutputType, o.finID, want, got), ops)
			}
			c.Stat("member encodings of the finish event matched with the run's file")
		}
	}
	c.Op(op, sb.String())
	c.Stat(fmt.Sprintf("scenario family=%s runs=%d conc=%d", familyToken(k), k.Runs, k.Conc))
	c.Stat(fmt.Sprintf("scenario data=%s out=%s type=%s detail=%v", absRel(k.DataPath), absRel(k.OutputPath), k.OutputType, k.Detail))
	if k.Runs > 1 {
		c.Nontrivial(fmt.Sprintf("%s/%d/%d/%s/%s/%s/%v/%d", familyToken(k), k.Runs, k.Conc, absRel(k.DataPath), absRel(k.OutputPath), k.OutputType, k.Detail, k.MaxIter))
	}
}

func dataLoadFailure(stderr string) bool {
	p := firstPanic(stderr)
	return strings.Contains(p, "does not exist") || strings.Contains(p, "index out of range") || strings.Contains(p, "nil pointer") || strings.Contains(p, "Expected data set")
}

func finIDs(runs []*runObs) []string {
	var out []string
	for _, o := range runs {
		out = append(out, o.finID)
	}
	sort.Strings(out)
	return out
}

func absRel(p string) string {
	if filepath.IsAbs(p) {
		return "abs"
	}
	return "rel"
}

func familyToken(k mrCase) string {
	if k.Model == "DumbModel" {
		return k.Family + "Dumb"
	}
	return k.Family
}

func bitsToDecimal(bits string) string {
	u, err := strconv.ParseUint(bits, 16, 64)
	if err != nil {
		return bits
	}
	return fmt.Sprintf("%s (= %v)", bits, math.Float64frombits(u))
}

// ---------------------------------------------------------------- fault cases

func (e *mrEnv) evalFault(r *mrResult) {
	c, k := e.c, r.k
	site := k.Site
	if site == "" {
		site = "step"
	}
	opReset := caseLine(k)
	c.Op(opReset, "ok")
	op := fmt.Sprintf("fault %s %s %d %d %d %s %d %d", familyToken(k), k.Name, k.Runs, k.Conc, k.Designated, site, k.At, k.MaxIter)
	ops := []string{opReset, op}
	e.commonChecks(r, ops)
	runs := groupRuns(r.events)
	returned := r.haveChild && r.child.Returned
	failed := []string{}
	if returned && r.child.RunError != "" {
		failed = failedIDs(r.child.RunError, k.Name, k.Runs)
	}
	var finished, saved []string
	started := 0
	for _, o := range runs {
		if o.startN > 0 {
			started++
		}
		if o.finN > 0 {
			finished = append(finished, under(o.finID))
		}
	}
	sort.Strings(finished)
	oc := e.checkOutputs(r)
	for i := 1; i <= k.Runs; i++ {
		for _, f := range oc.files[i] {
			if strings.Contains(filepath.Base(f), "Summary") {
				saved = append(saved, under(expectedID(k.Name, i, k.Runs)))
				break
			}
		}
	}
	c.Op(op, fmt.Sprintf("returned=%s failed=[%s] started=%d finished=[%s] saved=[%s]", b2s(returned), strings.Join(failed, ","), started,
		strings.Join(finished, ","), strings.Join(saved, ",")))
	c.Stat(fmt.Sprintf("fault family=%s site=%s runs=%d conc=%d", familyToken(k), site, k.Runs, k.Conc))
	c.Nontrivial(fmt.Sprintf("fault/%s/%s/%d/%d/%d/%d/%v", familyToken(k), site, k.Runs, k.Conc, k.Designated, k.At, k.AsError))

	want := k.Runs - 1
	if !returned || len(saved) != want {
		c.Fail("C08:failure-does-not-leak", "runs:panic-not-isolated",
			fmt.Sprintf("%s scenario runs=%d conc=%d, run %d panics (site: %s, iteration %d): Run() returned=%v (child exit %d: %s); %d of the %d sibling runs delivered a result (%v)",
				k.Family, k.Runs, k.Conc, k.Designated, site, k.At, returned, r.exit, firstPanic(r.stderr), len(saved), want, saved), ops)
		return
	}
	if len(failed) != 1 {
		c.Fail("C08:failure-is-reported", "runs:failure-not-reported",
			fmt.Sprintf("one run panicked (site: %s) but Run() returned error %q (failed runs recognised: %v)", site, r.child.RunError, failed), ops)
	}
	// the siblings must each have written their own complete result
	designated := under(expectedID(k.Name, k.Designated, k.Runs))
	for _, o := range runs {
		if o.finN == 0 || under(o.finID) == designated {
			continue
		}
		i := runIndex(k.Name, o.finID, k.Runs)
		if i > 0 && oc.perRun[i] != "" {
			c.Fail("C08:failure-does-not-leak", "runs:sibling-output-missing", fmt.Sprintf("sibling run %q of a failed run: %s", o.finID, oc.perRun[i]), ops)
		}
		if i > 0 && oc.haveEncs[i] && oc.perRun[i] == "" {
			want := ""
			if o.finEnc != "-" {
				want = o.finEnc
			}
			if got := strings.Join(oc.encs[i], ","); got != want {
				c.Fail("C08:own-complete-result", "runs:result-of-another-run", fmt.Sprintf("fault scenario: sibling run %q finished with %q, its file holds %q", o.finID, want, got), ops)
			}
		}
		if o.startT != floatBits(k.T0) {
			c.Fail("C08:run-starts-at-configured-temperature", "runs:run-starts-cold", fmt.Sprintf("fault scenario: run %q started at %s", o.finID, bitsToDecimal(o.startT)), ops)
		}
	}
}

// ---------------------------------------------------------------- result = solo under deterministic seeding

// seededVariants: the scenario with all runs concurrent, with all runs sequential, and every run alone.
func seededVariants(k mrCase) []mrCase {
	conc, seq := k, k
	conc.Conc, conc.Solo = k.Runs, 0
	seq.Conc, seq.Solo = 1, 0
	out := []mrCase{conc, seq}
	for i := 1; i <= k.Runs; i++ {
		solo := k
		solo.Conc, solo.Solo = 1, i
		out = append(out, solo)
	}
	return out
}

func firstDifference(a, b []byte) string {
	la, lb := strings.Split(string(a), "\n"), strings.Split(string(b), "\n")
	for i := 0; i < len(la) || i < len(lb); i++ {
		x, y := "<eof>", "<eof>"
		if i < len(la) {
			x = la[i]
		}
		if i < len(lb) {
			y = lb[i]
		}
		if x != y {
			return fmt.Sprintf("line %d: %q vs %q", i+1, clip(x, 200), clip(y, 200))
		}
	}
	return "no difference"
}

// evalSeeded: rs = [concurrent, sequential, solo 1, …, solo N] of one seeded scenario.
func (e *mrEnv) evalSeeded(rs []*mrResult) {
	c := e.c
	k := rs[0].k
	opReset := caseLine(k)
	c.Op(opReset, "ok")
	op := fmt.Sprintf("probe seeded-result-equals-solo %s runs=%d iterations=%d type=%s detail=%v", familyToken(k), k.Runs, k.MaxIter, k.OutputType, k.Detail)
	ops := []string{opReset, op}
	c.Op(op, "done")
	c.Stat(fmt.Sprintf("seeded family=%s runs=%d type=%s detail=%v", familyToken(k), k.Runs, k.OutputType, k.Detail))
	c.Nontrivial(fmt.Sprintf("seeded/%s/%d/%d/%s/%v", familyToken(k), k.Runs, k.MaxIter, k.OutputType, k.Detail))
	names := []string{"all runs concurrent", "all runs sequential"}
	for i := 1; i <= k.Runs; i++ {
		names = append(names, fmt.Sprintf("run %d alone", i))
	}
	for vi, r := range rs {
		e.commonChecks(r, ops)
		if pred, sig, what, ok := foreignDefect(r); ok {
			c.Fail(pred, sig, what+" (seeded scenario)", []string{opReset})
			c.Stat("seeded case not evaluated: " + sig)
			return
		}
		if !(r.haveChild && r.child.Returned && r.child.RunError == "") {
			c.Fail("C08:all-runs-complete", "runs:run-died", fmt.Sprintf("seeded %s scenario runs=%d (%s): child exit %d, returned=%v, error %q, first panic: %s",
				k.Family, k.Runs, names[vi], r.exit, r.haveChild && r.child.Returned, r.child.RunError, firstPanic(r.stderr)), ops)
			return
		}
	}
	files := func(r *mrResult, i int) map[string][]byte {
		out := map[string][]byte{}
		entries, _ := os.ReadDir(e.outDirOf(r.k))
		for _, en := range entries {
			if strings.HasPrefix(en.Name(), k.Name+runTag(i, k.Runs)) {
				b, _ := os.ReadFile(filepath.Join(e.outDirOf(r.k), en.Name()))
				out[en.Name()] = b
			}
		}
		return out
	}
	compared := 0
	for i := 1; i <= k.Runs; i++ {
		ref := files(rs[1+i], i) // the run alone
		if len(ref) == 0 {
			c.Fail("C08:own-complete-result", "runs:output-missing", fmt.Sprintf("seeded %s scenario: run %d executed alone wrote no file", k.Family, i), ops)
			continue
		}
		for vi := 0; vi < 2; vi++ {
			got := files(rs[vi], i)
			var names2 []string
			for n := range ref {
				names2 = append(names2, n)
			}
			for n := range got {
				if _, ok := ref[n]; !ok {
					names2 = append(names2, n)
				}
			}
			sort.Strings(names2)
			for _, n := range names2 {
				a, okA := ref[n]
				b, okB := got[n]
				compared++
				if !okA || !okB || !bytes.Equal(a, b) {
					what := "is missing in one of the two"
					if okA && okB {
						what = "differs, first at " + firstDifference(a, b)
					}
					c.Fail("C08:result-equals-solo", "runs:result-differs-from-solo",
						fmt.Sprintf("%s scenario, %d runs of %d iterations, every generator of a run seeded from its run id: file %s of run %d executed ALONE vs. the same run with %s %s",
							k.Family, k.Runs, k.MaxIter, n, i, names[vi], what), ops)
					break
				}
			}
		}
	}
	c.Stat(fmt.Sprintf("seeded files compared byte for byte: %d", compared))
}

// ---------------------------------------------------------------- the clone walk

func idsToken(ids []int) string {
	if len(ids) == 0 {
		return "-"
	}
	var ss []string
	for _, i := range ids {
		ss = append(ss, strconv.Itoa(i))
	}
	return strings.Join(ss, ",")
}

func (e *mrEnv) cloneWalk(family, modelType string, checkInvariant bool) (coolantShared bool) {
	c := e.c
	tok := family
	if modelType == "DumbModel" {
		tok += "Dumb"
	}
	if checkInvariant {
		tok += "Inv"
	}
	k := mrCase{Kind: "scenario", Family: family, Name: "walk", Runs: 2, Conc: 1, T0: 10, CF: 0.99, MaxIter: 40, Model: modelType,
		DataPath: relToCwd(filepath.Join(e.testdataDir(), "ValidModel.csv")), OutputPath: filepath.Join(c.Out, "walk-solutions-"+tok), OutputType: "CSV",
		Quiet: true, CheckInvariant: checkInvariant}
	tomlPath := filepath.Join(c.Out, "walk-"+tok+".toml")
	must(os.WriteFile(tomlPath, []byte(k.toml()), 0o644))
	var g0, g1, g2, g1b, g2b *walkGraph
	var buildErr error
	var clones []annealing.Annealer
	p := protect(func() {
		in, err := buildScenarioFromToml(tomlPath)
		if err != nil {
			buildErr = err
			return
		}
		ann := in.VerifAnnealer()
		clones = []annealing.Annealer{ann.DeepClone(), ann.DeepClone()}
		for i, cl := range clones {
			// what Runner.run does with a clone before annealing it
			id := fmt.Sprintf("walk (%d/2)", i+1)
			cl.SetId(id)
			cl.SolutionExplorer().SetId(id)
			cl.SolutionExplorer().Model().SetId(id)
			if obs, ok := cl.(observer.Observer); ok {
				if n, ok := cl.SolutionExplorer().(observer.EventNotifier); ok {
					n.AddObserver(obs)
				}
				if n, ok := cl.Model().(observer.EventNotifier); ok {
					n.AddObserver(obs)
				}
			}
			// ... and what Anneal() does first
			cl.SolutionExplorer().Initialise()
		}
		g0, g1, g2 = walkFrom(ann), walkFrom(clones[0]), walkFrom(clones[1])
	})
	opReset := "reset walk " + tok
	c.Op(opReset, "ok")
	if p != "" || buildErr != nil {
		c.Fail("C08:clone-private", "runs:clone-walk-failed", fmt.Sprintf("could not build / clone / initialise the %s annealer: %v %s", tok, buildErr, p), []string{opReset})
		return false
	}
	// ---- (a) nothing but allow-listed objects is reachable from two clones
	reportShared := func(when string, ga, gb *walkGraph) []*walkNode {
		shared := sharedTop(ga, gb)
		for _, n := range shared {
			class, ok := classify(n)
			if !ok {
				c.Fail("C08:clone-private", "runs:clone-shares:"+shortType(n.typ),
					fmt.Sprintf("two DeepClone()s of the configured %s annealer (each prepared and Initialise()d as Runner.run/Anneal do; %s) both reach the same %s %s at %s; it is not on the allow-list of immutable or locked objects", tok, when, n.kind, n.typ, n.path),
					[]string{opReset})
			}
			c.Stat(fmt.Sprintf("walk %s %s shared %s [%s]", tok, when, shortType(n.typ), class))
		}
		return shared
	}
	sharedBefore := reportShared("before annealing", g1, g2)

	// the temperature cells of template and clones (finding D4 / the seqshared prediction)
	cellTypes := familyCoolantTypes[family]
	if modelType == "DumbModel" {
		cellTypes = []string{"*variable.SimpleUndoableDecisionVariable"}
	}
	cell := func(g *walkGraph) uint64 {
		if n := g.findByType(cellTypes...); n != nil {
			return uint64(n.addr.a)
		}
		return 0
	}
	ct, c1, c2 := cell(g0), cell(g1), cell(g2)
	cellsPrivate := ct != 0 && c1 != 0 && c2 != 0 && c1 != ct && c2 != ct && c1 != c2
	if ct == 0 || c1 == 0 || c2 == 0 {
		c.Fail("C08:structural:clone-walk-finds-the-coolant", "runs:clone-walk-failed", fmt.Sprintf("%s: no node of type %v found in template/clone graphs (walk out of date?)", tok, cellTypes), []string{opReset})
	}

	// ---- (b) the shared part: every node reachable from two of {template, clone 1, clone 2}
	type sharedNode struct {
		n          *walkNode
		in1, in2   bool
		w1, w2     bool
		locked     bool
		lockClass  string
		firstWrite writtenNode
	}
	sharedSet := map[nodeKey]*sharedNode{}
	addShared := func(ga, gb *walkGraph) {
		for key, n := range ga.nodes {
			if _, ok := gb.nodes[key]; ok {
				if _, seen := sharedSet[key]; !seen {
					sharedSet[key] = &sharedNode{n: n}
				}
			}
		}
	}
	addShared(g1, g2)
	addShared(g0, g1)
	addShared(g0, g2)
	var keys []nodeKey
	for key, sn := range sharedSet {
		_, sn.in1 = g1.nodes[key]
		_, sn.in2 = g2.nodes[key]
		sn.lockClass, sn.locked = classifyWritten(sn.n.path, sn.n.typ)
		keys = append(keys, key)
	}
	sort.Slice(keys, func(i, j int) bool {
		a, b := sharedSet[keys[i]].n, sharedSet[keys[j]].n
		if a.path != b.path {
			return a.path < b.path
		}
		return a.kind < b.kind
	})
	sg := &walkGraph{nodes: map[nodeKey]*walkNode{}}
	for _, key := range keys {
		sg.nodes[key] = sharedSet[key].n
		sg.order = append(sg.order, key)
	}
	// ---- (c) anneal clone 1, then clone 2, comparing the content of the shared part before / after each
	annealFailed := ""
	for ci, cl := range clones {
		before := snapshotGraph(sg)
		if p := protect(func() { cl.Anneal() }); p != "" {
			annealFailed = fmt.Sprintf("clone %d: %s", ci+1, clip(p, 300))
			break
		}
		for _, w := range diffSnapshots(sg, before, snapshotGraph(sg)) {
			sn := sharedSet[w.key]
			if ci == 0 {
				sn.w1 = true
			} else {
				sn.w2 = true
			}
			if sn.firstWrite.Path == "" {
				sn.firstWrite = w
			}
		}
	}
	if annealFailed != "" {
		c.Fail("C08:clone-private", "runs:clone-walk-failed", fmt.Sprintf("%s: annealing a prepared clone in process failed: %s", tok, annealFailed), []string{opReset})
		return !cellsPrivate
	}
	var r1, w1, r2, w2, lk, bad12, bad21 []int
	lockedRead := false
	for idx, key := range keys {
		id := idx + 1
		sn := sharedSet[key]
		if sn.locked {
			lk = append(lk, id)
		}
		if sn.in1 && !sn.locked {
			r1 = append(r1, id)
		}
		if sn.in2 && !sn.locked {
			r2 = append(r2, id)
		}
		if sn.w1 {
			w1 = append(w1, id)
			if (sn.in2 || sn.w2) && !sn.locked {
				bad12 = append(bad12, id)
			}
		}
		if sn.w2 {
			w2 = append(w2, id)
			if (sn.in1 || sn.w1) && !sn.locked {
				bad21 = append(bad21, id)
			}
		}
		if sn.w1 || sn.w2 {
			c.Stat(fmt.Sprintf("walk %s written while a clone annealed: %s [%s]", tok, shortType(sn.n.typ), sn.lockClass))
			if !sn.locked {
				w := sn.firstWrite
				c.Fail("C08:shared-objects-not-written", writtenSignature(w),
					fmt.Sprintf("%s: %s %s is reachable from more than one of {configured annealer, clone 1, clone 2} and was written while a clone annealed: %s was %s, is %s (%d leaf value(s) differ); path %s; it is not in a class whose accesses are all lock-guarded",
						tok, w.Kind, shortType(w.Type), w.Leaf, w.Before, w.After, w.Leaves, w.Path), []string{opReset})
			}
		}
	}
	disjoint := len(bad12) == 0 && len(bad21) == 0 && !lockedRead
	verb, impl := "walk", ""
	if checkInvariant {
		// the configuration with a stateful observer on the shared notifier is KNOWN not to satisfy the
		// hypothesis (D28): both sides state the verdict, the finding is reported per written object above
		verb, impl = "walkx", "Disjoint="+b2s(disjoint)+" "
	}
	op := fmt.Sprintf("%s %s n=%d R1=%s W1=%s R2=%s W2=%s L=%s", verb, tok, len(keys), idsToken(r1), idsToken(w1), idsToken(r2), idsToken(w2), idsToken(lk))
	c.Op(op, fmt.Sprintf("%sw1∩(r2∪w2)=%s w2∩(r1∪w1)=%s locked-read=%s", impl, idsToken(bad12), idsToken(bad21), b2s(lockedRead)))
	c.Stat(fmt.Sprintf("walk %s nodes=%d shared-top=%d shared-part=%d written=%d/%d locked=%d cells-private=%v", tok, len(g1.order), len(sharedBefore), len(keys), len(w1), len(w2), len(lk), cellsPrivate))
	c.Nontrivial("walk/" + tok)

	// ---- (d) the walk again, after annealing
	if p := protect(func() { g1b, g2b = walkFrom(clones[0]), walkFrom(clones[1]) }); p == "" {
		reportShared("after annealing", g1b, g2b)
	}
	var topToks []string
	for _, n := range sharedBefore {
		topToks = append(topToks, n.path+"|"+shortType(n.typ))
	}
	e.c.extra["walk "+tok] = map[string]interface{}{"nodes_clone1": len(g1.order), "nodes_clone2": len(g2.order), "nodes_template": len(g0.order),
		"shared_top": topToks, "shared_part": len(keys), "written_by_clone1": len(w1), "written_by_clone2": len(w2), "locked": len(lk)}
	return !cellsPrivate
}

// ---------------------------------------------------------------- case generation

func (e *mrEnv) genCases() (cases []mrCase, dirs []string, stems []string) {
	c, r := e.c, e.c.Rng
	families := []string{"Kirkpatrick", "Suppapitnarm", "AveragedSuppapitnarm"}
	add := func(k mrCase, stem string, absData, absOut bool) {
		dir := e.prepare(&k, stem, absData, absOut)
		cases = append(cases, k)
		dirs = append(dirs, dir)
		stems = append(stems, stem)
	}
	base := func(kind, fam string, runs, conc int) mrCase {
		return mrCase{Kind: kind, Family: fam, Name: "scn", Runs: runs, Conc: conc,
			T0: []float64{10, 1000, 0.5, 37.25}[r.Intn(4)], CF: []float64{0.99, 0.999, 0.9, 1}[r.Intn(4)],
			MaxIter: []int{0, 1, 30, 120, 300}[r.Intn(5)], OutputType: []string{"CSV", "CSV", "CSV", "JSON", "JSON"}[r.Intn(5)],
			Model: "CatchmentModel", Quiet: r.Chance(0.6), Detail: r.Chance(0.3)}
	}
	stem := func() string { return []string{"Valid", "Testing"}[r.Intn(2)] }

	// (a) the deterministic exposers
	for _, fam := range []string{"Suppapitnarm", "AveragedSuppapitnarm"} {
		k := base("scenario", fam, 3, 1)
		k.Name, k.T0, k.CF, k.MaxIter, k.OutputType = "seq", 10, 0.99, 300, "CSV"
		add(k, "Valid", false, false)
	}
	{
		k := base("scenario", "Kirkpatrick", 3, 1)
		k.Name, k.Model, k.MaxIter, k.OutputType = "dumbseq", "DumbModel", 50, "CSV"
		add(k, "Valid", false, false)
		k2 := base("scenario", "Kirkpatrick", 4, 4)
		k2.Name, k2.Model, k2.MaxIter, k2.OutputType = "dumbconc", "DumbModel", 200, "CSV"
		add(k2, "Valid", false, false)
	}
	// (b) strace: one concurrent relative-path scenario per family
	for _, fam := range families {
		k := base("scenario", fam, 4, 4)
		k.Name, k.MaxIter, k.Markers, k.Strace, k.OutputType = "traced", 60, true, true, "CSV"
		add(k, "Valid", false, false)
	}
	// (c) the grid runs x conc x family x path mode
	type cell struct{ runs, conc int }
	var grid []cell
	for runs := 1; runs <= 6; runs++ {
		for conc := 1; conc <= 6; conc++ {
			grid = append(grid, cell{runs, conc})
		}
	}
	if c.Thorough() {
		for rep := 0; rep < 2; rep++ {
			for _, fam := range families {
				for _, g := range grid {
					for _, abs := range []bool{false, true} {
						k := base("scenario", fam, g.runs, g.conc)
						add(k, stem(), abs, r.Bool())
					}
				}
			}
		}
	} else {
		// every run count x every concurrency for every family; the path mode alternates
		for fi, fam := range families {
			for gi, g := range grid {
				k := base("scenario", fam, g.runs, g.conc)
				add(k, stem(), (gi+fi+int(c.Seed))%2 == 0, r.Bool())
			}
		}
	}
	// (d) concurrent relative-path loads, repeated (many short runs: loading dominates)
	for rep := 0; rep < c.N(12, 48); rep++ {
		k := base("scenario", families[rep%3], 6, 6)
		k.Name, k.MaxIter, k.OutputType, k.Quiet = "loads", 5, "CSV", true
		add(k, stem(), false, false)
	}
	// (f) CheckingLoopInvariant = true: crem then adds ONE AnnealingInvariantObserver that every run of the
	// scenario reports to (single-objective annealer only: the observer reads ObjectiveValue)
	for rep := 0; rep < c.N(2, 8); rep++ {
		k := base("scenario", "Kirkpatrick", 2+r.Intn(5), 2+r.Intn(5))
		k.Name, k.OutputType, k.CheckInvariant, k.Quiet = "inv", "CSV", true, true
		if k.MaxIter < 30 {
			k.MaxIter = 120
		}
		add(k, stem(), rep%2 == 0, false)
	}
	// (e) fault injection
	for f := 0; f < c.N(24, 120); f++ {
		runs := 2 + r.Intn(5)
		k := base("fault", families[f%3], runs, 1+r.Intn(6))
		k.Name, k.OutputType = "flt", "CSV"
		if k.MaxIter < 30 {
			k.MaxIter = 30
		}
		k.Designated = 1 + r.Intn(runs)
		k.At = 1 + r.Intn(k.MaxIter)
		if r.Chance(0.3) {
			k.At = 1
		}
		k.AsError = r.Bool()
		k.Site = []string{"step", "step", "clone", "finish"}[f%4]
		k.Detail = false
		add(k, stem(), true, true) // absolute paths: this stream is about failure isolation, not about the working directory
	}
	// (g) result = solo under deterministic seeding: per group the scenario with all runs concurrent, all
	// runs sequential, and every run alone
	for g := 0; g < c.N(3, 12); g++ {
		runs := 2 + r.Intn(3)
		k := base("seeded", families[g%3], runs, runs)
		k.Name, k.Seeded, k.Quiet = "sd", true, true
		k.MaxIter = []int{30, 120, 300}[r.Intn(3)]
		k.Group = g + 1
		for _, v := range seededVariants(k) {
			add(v, "Valid", true, false)
		}
	}
	return
}

// ---------------------------------------------------------------- suite

func newMrEnv(c *Ctx) *mrEnv {
	e := &mrEnv{c: c}
	e.harness = os.Getenv("VERIF_HARNESS")
	if e.harness == "" {
		e.harness, _ = os.Executable()
	}
	e.race = raceEnabled
	e.repo = os.Getenv("VERIF_REPO")
	if e.repo == "" {
		e.repo = "/repo"
	}
	e.caseRoot = filepath.Join(c.Out, "cases")
	must(os.MkdirAll(e.caseRoot, 0o755))
	return e
}

func (e *mrEnv) runAll(cases []mrCase, dirs []string) []*mrResult {
	results := make([]*mrResult, len(cases))
	par := 4
	if v, err := strconv.Atoi(os.Getenv("VERIF_MR_PAR")); err == nil && v > 0 {
		par = v
	}
	var wg sync.WaitGroup
	sem := make(chan struct{}, par)
	for i := range cases {
		shardOf := i
		if cases[i].Kind == "seeded" {
			shardOf = cases[i].Group // the children of one group are evaluated together
		}
		if shardOf%e.c.Shards != e.c.Shard {
			continue
		}
		wg.Add(1)
		sem <- struct{}{}
		go func(i int) {
			defer wg.Done()
			defer func() { <-sem }()
			results[i] = e.runChild(cases[i], dirs[i])
		}(i)
	}
	wg.Wait()
	return results
}

func suiteMultiRun(c *Ctx) {
	e := newMrEnv(c)
	c.extra["race_build"] = e.race
	if c.Replay != "" {
		replayMultiRun(e)
		return
	}
	// 1. ClonePrivate on the real objects (shard 0 only: it does not depend on the shard)
	sharedCoolant := map[string]bool{}
	if c.Shard == 0 {
		for _, fam := range []string{"Kirkpatrick", "Suppapitnarm", "AveragedSuppapitnarm"} {
			sharedCoolant[fam] = e.cloneWalk(fam, "CatchmentModel", false)
		}
		e.cloneWalk("Kirkpatrick", "DumbModel", false)
		e.cloneWalk("Kirkpatrick", "CatchmentModel", true) // CheckingLoopInvariant: one stateful observer on the shared notifier
	}
	// 2.-5. whole scenarios in child processes
	cases, dirs, _ := e.genCases()
	t0 := time.Now()
	results := e.runAll(cases, dirs)
	c.extra["children"] = len(cases)
	c.extra["children_wall_s"] = time.Since(t0).Seconds()
	loadsFailed := false
	seeded := map[int][]*mrResult{}
	for i, r := range results {
		if r == nil {
			continue
		}
		if cases[i].Name == "loads" && loadsFailed {
			c.Stat("loads repetition skipped after first failure")
			continue
		}
		before := len(c.direct)
		switch cases[i].Kind {
		case "fault":
			e.evalFault(r)
		case "seeded":
			seeded[cases[i].Group] = append(seeded[cases[i].Group], r)
			if len(seeded[cases[i].Group]) == cases[i].Runs+2 {
				e.evalSeeded(seeded[cases[i].Group])
			}
		default:
			e.evalScenario(r)
			if cases[i].Name == "seq" && sharedCoolant[cases[i].Family] {
				// the model of the code as it is (shared coolant cell) predicts the cold starts exactly
				var ts []string
				for _, o := range groupRuns(r.events) {
					ts = append(ts, o.startT)
				}
				c.Op(fmt.Sprintf("seqshared %s %s %d %s %s %d", cases[i].Family, cases[i].Name, cases[i].Runs, floatBits(cases[i].T0), floatBits(cases[i].CF), cases[i].MaxIter), strings.Join(ts, " "))
			}
		}
		if cases[i].Name == "loads" && len(c.direct) > before {
			loadsFailed = true
		}
		if !c.Thorough() || len(c.direct) > before {
			continue
		}
		// keep the work directory small in the thorough tier
		if cases[i].Kind == "seeded" {
			// the files of a seeded group are compared when its last child has been collected
			if g := seeded[cases[i].Group]; len(g) == cases[i].Runs+2 {
				for _, m := range g {
					os.RemoveAll(filepath.Join(m.dir, "cwd"))
				}
			}
			continue
		}
		os.RemoveAll(filepath.Join(r.dir, "cwd"))
	}
}

// replayMultiRun re-executes the cases named by the `reset {json}` lines of an ops file.
func replayMultiRun(e *mrEnv) {
	c := e.c
	for _, l := range readLines(c.Replay) {
		if strings.HasPrefix(l, "reset walk ") {
			tok := strings.TrimPrefix(l, "reset walk ")
			inv := strings.HasSuffix(tok, "Inv")
			tok = strings.TrimSuffix(tok, "Inv")
			fam, model := strings.TrimSuffix(tok, "Dumb"), "CatchmentModel"
			if strings.HasSuffix(tok, "Dumb") {
				model = "DumbModel"
			}
			e.cloneWalk(fam, model, inv)
			continue
		}
		if !strings.HasPrefix(l, "reset {") {
			continue
		}
		var k mrCase
		if err := json.Unmarshal([]byte(strings.ReplaceAll(strings.TrimPrefix(l, "reset "), "\u00a0", " ")), &k); err != nil {
			c.Note("unparsable case line: " + err.Error())
			continue
		}
		stem := "Valid"
		if strings.Contains(k.DataPath, "Testing") {
			stem = "Testing"
		}
		if k.Kind == "seeded" {
			var rs []*mrResult
			for _, v := range seededVariants(k) {
				dir := e.prepare(&v, stem, filepath.IsAbs(k.DataPath), filepath.IsAbs(k.OutputPath))
				rs = append(rs, e.runChild(v, dir))
			}
			e.evalSeeded(rs)
			continue
		}
		dir := e.prepare(&k, stem, filepath.IsAbs(k.DataPath), filepath.IsAbs(k.OutputPath))
		r := e.runChild(k, dir)
		if k.Kind == "fault" {
			e.evalFault(r)
		} else {
			e.evalScenario(r)
		}
	}
}
