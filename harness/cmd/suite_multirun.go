//go:build verif

package main

// Suite multi-run (property C08: runs of a scenario are independent and safe to execute
// concurrently).
//
//  1. ClonePrivate on the real objects.  For every annealer family crem's configuration can build
//     (Kirkpatrick, Suppapitnarm, AveragedSuppapitnarm over the catchment model with shipped CSV
//     data; Kirkpatrick over the DumbModel) the configured annealer is built by crem's own
//     configuration path, cloned twice with DeepClone() and prepared exactly as Runner.run does
//     (ids, observer wiring, explorer Initialise()).  Both object graphs are walked by reflection;
//     every identity reachable from BOTH clones is reduced to its top-most nodes, each of which
//     must be on the reviewed allow-list below (immutable after construction, or internally
//     locked).  Anything else: Ctx.Fail `runs:clone-shares:<type>`.  The identities of the
//     temperature cells (template, clone 1, clone 2) and the classified shared nodes go to the
//     Lean driver, which decides the model's `ClonePrivate` on them.
//  2. Whole scenarios, each in a CHILD PROCESS (see suite_multirun_child.go): run counts 1-6 x
//     concurrency 1-6, three families, CSV data by relative and by absolute path, relative and
//     absolute output path, CSV and JSON output.  Per run: temperature, first iteration number,
//     archive size at StartedAnnealing; number and ids of FinishedAnnealing events; final
//     temperature; one complete output file.  Compared with the model's expectation
//     (`fresh_start`, `noninterference`) and evaluated directly.
//  3. Process-global state: the working directory must be the same before and after Run(); one
//     concurrent scenario per family is executed under `strace -f -e trace=chdir` and any chdir
//     between the two markers bracketing Run() is a failure; concurrent relative-path scenarios
//     are repeated until one run fails to load its data.
//  4. Fault injection: the explorer of ONE designated clone panics in a chosen iteration; the
//     sibling runs' results must still appear and Run() must return, naming the failed run.
//  5. With a `-race` build of the harness (thorough tier) the children are race-instrumented:
//     "WARNING: DATA RACE" on stderr => `runs:data-race:<first racing symbol>`.

import (
	"bytes"
	"context"
	"encoding/csv"
	"encoding/json"
	"fmt"
	"io"
	"math"
	"os"
	"os/exec"
	"path/filepath"
	"regexp"
	"sort"
	"strconv"
	"strings"
	"sync"
	"time"

	"github.com/LindsayBradford/crem/internal/pkg/annealing"
	"github.com/LindsayBradford/crem/internal/pkg/observer"
)

func init() { register("multi-run", suiteMultiRun) }

// ---------------------------------------------------------------- allow-list of shared objects

// A top-most node reachable from two clones is acceptable only if it falls in one of these
// classes.  Reviewed against the source: each class is either never written after the scenario
// has been built, or guards its state with a lock.
type allowRule struct {
	class  string
	reason string
	match  func(n *walkNode) bool
}

func typeIs(ts ...string) func(n *walkNode) bool {
	return func(n *walkNode) bool {
		for _, t := range ts {
			if n.typ == t {
				return true
			}
		}
		return false
	}
}
func pathHas(subs ...string) func(n *walkNode) bool {
	return func(n *walkNode) bool {
		for _, s := range subs {
			if strings.Contains(n.path, s) {
				return true
			}
		}
		return false
	}
}

var allowRules = []allowRule{
	{"notifier", "the annealer's event notifier and its observer list are shared by design: observers are added while the scenario is built, the list is only read during runs (observers: the message observer is stateless apart from its logger; the saver locks; see `observers` below)",
		typeIs("*observer.SynchronousAnnealingEventNotifier")},
	{"logger", "log handlers: destinations are configured at construction; writes go through log.Logger (internally locked) or os.File",
		func(n *walkNode) bool {
			return strings.HasPrefix(n.typ, "*loggers.") || strings.Contains(n.path, ".ContainedLogger.") || strings.Contains(n.path, ".logHandler") || strings.Contains(n.path, "LogHandler")
		}},
	{"parameters", "parameter values, specifications and validation-error collectors: written by SetParameters while the scenario is built, only read by runs",
		func(n *walkNode) bool {
			return strings.Contains(n.path, ".parameters.") || strings.Contains(n.path, ".Parameters.") || strings.HasPrefix(n.typ, "*specification.") || strings.HasPrefix(n.typ, "parameters.Map") || strings.HasPrefix(n.typ, "*errors.CompositeError")
		}},
	{"dataset", "data set tables: filled by Load, only read afterwards", func(n *walkNode) bool {
		return strings.HasPrefix(n.typ, "*tables.") || strings.HasPrefix(n.typ, "*dataset.") || strings.HasPrefix(n.typ, "*csv.DataSet") || strings.HasPrefix(n.typ, "tables.") || strings.HasPrefix(n.typ, "dataset.")
	}},
	{"annealer-base-attributes", "SimpleAnnealer.baseAttributes: [Id, MaximumIterations], len = cap = 2; every use appends (which copies, the array being full) and never replaces an existing name, so the shared array is only read",
		func(n *walkNode) bool {
			return n.typ == "attributes.Attributes" && strings.HasSuffix(n.path, "SimpleAnnealer.baseAttributes") && n.slen == n.scap
		}},
	{"saver", "scenario.Saver: decompression model behind decompressionMutex", typeIs("*scenario.Saver")},
	{"immutable-runtime", "time zones, type descriptors, os.File handles of the standard streams", typeIs("*time.Location", "*os.File", "*os.file")},
}

func classify(n *walkNode) (string, bool) {
	for _, r := range allowRules {
		if r.match(n) {
			return r.class, true
		}
	}
	return "-", false
}

// ---------------------------------------------------------------- environment

type mrEnv struct {
	c        *Ctx
	harness  string
	race     bool
	repo     string
	caseRoot string
	nCase    int
}

var familyCoolantTypes = map[string][]string{
	"Kirkpatrick":          {"*kirkpatrick.Explorer"}, // the coolant is embedded by value in the explorer
	"Suppapitnarm":         {"*suppapitnarm.Coolant"},
	"AveragedSuppapitnarm": {"*averaged.Coolant"},
}

func datasetFiles(stem string) []string {
	// stem = Valid | Testing ; the meta file names its three tables by relative path
	return []string{stem + "Model.csv", stem + "Subcatchments.csv", stem + "Gullies.csv", stem + "Actions.csv"}
}

func (e *mrEnv) testdataDir() string {
	return filepath.Join(e.repo, "internal/pkg/model/models/catchment/testdata")
}

func copyFile(src, dst string) {
	b, err := os.ReadFile(src)
	must(err)
	must(os.WriteFile(dst, b, 0o644))
}

// prepare creates the case directory: <root>/<n>/{cwd/data/<dataset>, out}
func (e *mrEnv) prepare(k *mrCase, stem string, absData, absOut bool) string {
	e.nCase++
	dir := filepath.Join(e.caseRoot, fmt.Sprintf("%04d", e.nCase))
	cwd := filepath.Join(dir, "cwd")
	must(os.MkdirAll(filepath.Join(cwd, "data"), 0o755))
	must(os.MkdirAll(filepath.Join(dir, "out"), 0o755))
	for _, f := range datasetFiles(stem) {
		copyFile(filepath.Join(e.testdataDir(), f), filepath.Join(cwd, "data", f))
	}
	k.Cwd = cwd
	k.DataPath = filepath.Join("data", stem+"Model.csv")
	if absData {
		k.DataPath = filepath.Join(cwd, k.DataPath)
	}
	k.OutputPath = "solutions"
	if absOut {
		k.OutputPath = filepath.Join(cwd, "solutions")
	}
	return dir
}

// ---------------------------------------------------------------- running one child

type mrEvent struct {
	kind   byte
	fields map[string]string
}

type mrResult struct {
	k                 mrCase
	dir               string
	exit              int
	timedOut          bool
	stderr            string
	child             childResult
	haveChild         bool
	events            []mrEvent
	strace            string
	straceRan         bool
	straceUnavailable bool
	wall              time.Duration
}

func (e *mrEnv) runChild(k mrCase, dir string) *mrResult {
	r := &mrResult{k: k, dir: dir}
	b, _ := json.Marshal(k)
	casePath := filepath.Join(dir, "case.json")
	must(os.WriteFile(casePath, b, 0o644))
	outDir := filepath.Join(dir, "out")
	args := []string{e.harness, "multi-run-child", "-out", outDir, casePath}
	straceOut := filepath.Join(dir, "strace.txt")
	if k.Strace {
		if st, err := exec.LookPath("strace"); err == nil {
			args = append([]string{st, "-f", "-e", "trace=chdir", "-o", straceOut}, args...)
			r.straceRan = true
		}
	}
	timeout := 40 * time.Second
	if e.race {
		timeout = 240 * time.Second
	}
	ctx, cancel := context.WithTimeout(context.Background(), timeout)
	defer cancel()
	cmd := exec.CommandContext(ctx, args[0], args[1:]...)
	cmd.Dir = k.Cwd
	cmd.Stdout = io.Discard
	var errBuf bytes.Buffer
	cmd.Stderr = &limitedWriter{w: &errBuf, n: 1 << 20}
	cmd.Env = append(os.Environ(), "GOTRACEBACK=single")
	t0 := time.Now()
	err := cmd.Run()
	r.wall = time.Since(t0)
	if ctx.Err() == context.DeadlineExceeded {
		r.timedOut = true
	}
	if err != nil {
		if ee, ok := err.(*exec.ExitError); ok {
			r.exit = ee.ExitCode()
		} else {
			r.exit = -1
		}
	}
	r.stderr = errBuf.String()
	if cb, err := os.ReadFile(filepath.Join(outDir, "child.json")); err == nil {
		if json.Unmarshal(cb, &r.child) == nil {
			r.haveChild = true
		}
	}
	if eb, err := os.ReadFile(filepath.Join(outDir, "events.log")); err == nil {
		for _, l := range strings.Split(string(eb), "\n") {
			if l == "" {
				continue
			}
			fs := strings.Split(l, "\t")
			ev := mrEvent{kind: fs[0][0], fields: map[string]string{}}
			for _, f := range fs[1:] {
				if i := strings.IndexByte(f, '='); i > 0 {
					ev.fields[f[:i]] = f[i+1:]
				}
			}
			r.events = append(r.events, ev)
		}
	}
	if r.straceRan {
		if sb, err := os.ReadFile(straceOut); err == nil {
			r.strace = string(sb)
		}
		if !strings.Contains(r.strace, markerBegin) && !r.haveChild {
			// strace could not trace the child (ptrace not permitted here): run the case without it
			k.Strace = false
			plain := e.runChild(k, dir)
			plain.k.Strace = true
			plain.straceRan = false
			plain.straceUnavailable = true
			return plain
		}
	}
	return r
}

type limitedWriter struct {
	w io.Writer
	n int
}

func (l *limitedWriter) Write(p []byte) (int, error) {
	if l.n > 0 {
		q := p
		if len(q) > l.n {
			q = q[:l.n]
		}
		l.w.Write(q)
		l.n -= len(q)
	}
	return len(p), nil
}

var panicLineRe = regexp.MustCompile(`(?m)^(panic|fatal error): (.*)$`)

func firstPanic(stderr string) string {
	if m := panicLineRe.FindStringSubmatch(stderr); m != nil {
		return clip(m[2], 160)
	}
	return ""
}

// chdirsInRun counts successful or attempted chdir calls between the two markers of a strace log.
func chdirsInRun(strace string) (n int, sample string, complete bool) {
	in := false
	for _, l := range strings.Split(strace, "\n") {
		if !strings.Contains(l, "chdir(") {
			continue
		}
		if strings.Contains(l, markerBegin) {
			in = true
			continue
		}
		if strings.Contains(l, markerEnd) {
			return n, sample, true
		}
		if in {
			n++
			if sample == "" {
				sample = strings.TrimSpace(l)
			}
		}
	}
	return n, sample, false
}

var raceSymRe = regexp.MustCompile(`(?m)^(?:Write|Read|Previous write|Previous read)[^\n]*\n\s+(\S+)\(\)`)

func firstRace(stderr string) (string, bool) {
	i := strings.Index(stderr, "WARNING: DATA RACE")
	if i < 0 {
		return "", false
	}
	sym := "?"
	if m := raceSymRe.FindStringSubmatch(stderr[i:]); m != nil {
		sym = strings.TrimPrefix(m[1], "github.com/LindsayBradford/crem/")
	}
	return sym, true
}

// ---------------------------------------------------------------- per-run observations

type runObs struct {
	g        string
	startT   string
	startN   int
	arch     string
	obj      string
	firstIt  string
	finN     int
	finID    string
	finT     string
	finIter  string
	finSize  string
	inflight int
	eventIDs map[string]bool
}

func groupRuns(evs []mrEvent) []*runObs {
	byG := map[string]*runObs{}
	var order []string
	get := func(g string) *runObs {
		if o, ok := byG[g]; ok {
			return o
		}
		o := &runObs{g: g, startT: "-", arch: "-", firstIt: "-", finT: "-", finID: "", finIter: "-", obj: "-", eventIDs: map[string]bool{}}
		byG[g] = o
		order = append(order, g)
		return o
	}
	for _, ev := range evs {
		o := get(ev.fields["g"])
		o.eventIDs[ev.fields["id"]] = true
		switch ev.kind {
		case 'S':
			o.startN++
			o.startT, o.arch, o.obj = ev.fields["T"], ev.fields["arch"], ev.fields["obj"]
			o.inflight, _ = strconv.Atoi(ev.fields["inflight"])
		case 'I':
			o.firstIt = ev.fields["iter"]
		case 'F':
			o.finN++
			o.finID, o.finT, o.finIter, o.finSize = ev.fields["payload"], ev.fields["T"], ev.fields["iter"], ev.fields["size"]
		}
	}
	out := make([]*runObs, 0, len(order))
	for _, g := range order {
		out = append(out, byG[g])
	}
	return out
}

var cloneIDRe = regexp.MustCompile(`^(.*) \((\d+)/(\d+)\)$`)

// runIndex recovers (index, total) from a clone id produced by Runner.generateCloneId.
func runIndex(name, id string, runs int) int {
	if runs == 1 {
		if id == name {
			return 1
		}
		return 0
	}
	m := cloneIDRe.FindStringSubmatch(id)
	if m == nil || m[1] != name {
		return 0
	}
	i, _ := strconv.Atoi(m[2])
	n, _ := strconv.Atoi(m[3])
	if n != runs || i < 1 || i > runs {
		return 0
	}
	return i
}

func under(s string) string { return strings.ReplaceAll(s, " ", "_") }

func expectedID(name string, i, runs int) string {
	if runs > 1 {
		return fmt.Sprintf("%s (%d/%d)", name, i, runs)
	}
	return name
}

var failedRunRe = regexp.MustCompile(`([^\s:\[\]]+(?: \(\d+/\d+\))?): run failed`)

func failedIDs(runError string) []string {
	seen := map[string]bool{}
	var out []string
	for _, m := range failedRunRe.FindAllStringSubmatch(runError, -1) {
		if !seen[m[1]] {
			seen[m[1]] = true
			out = append(out, under(m[1]))
		}
	}
	sort.Strings(out)
	return out
}

// ---------------------------------------------------------------- output files

type outputCheck struct {
	perRun    map[int]string // run index -> "" (complete) or what is wrong
	asIs      map[int]string // run index -> as-is row (CSV) for cross-run comparison
	misplaced []string
}

func (e *mrEnv) checkOutputs(r *mrResult) outputCheck {
	k := r.k
	// number of solutions every run reported with its finish event (archive size, or 1 for the single-objective explorer)
	sizes := map[int]int{}
	for _, o := range groupRuns(r.events) {
		if i := runIndex(k.Name, o.finID, k.Runs); i > 0 && o.finN > 0 {
			sizes[i], _ = strconv.Atoi(o.finSize)
		}
	}
	oc := outputCheck{perRun: map[int]string{}, asIs: map[int]string{}}
	outDir := k.OutputPath
	if !filepath.IsAbs(outDir) {
		outDir = filepath.Join(k.Cwd, outDir)
	}
	ext := ".csv"
	if k.OutputType == "JSON" {
		ext = ".json"
	}
	entries, _ := os.ReadDir(outDir)
	for i := 1; i <= k.Runs; i++ {
		tag := ""
		if k.Runs > 1 {
			tag = fmt.Sprintf("(%d_of_%d)", i, k.Runs)
		}
		found := ""
		for _, en := range entries {
			n := en.Name()
			if strings.HasSuffix(strings.ToLower(n), ext) && strings.Contains(n, tag) && strings.Contains(n, "Summary") {
				found = filepath.Join(outDir, n)
				// prefer the solution-set summary over a stray as-is file
				if !strings.Contains(n, "As-Is") {
					break
				}
			}
		}
		if found == "" {
			oc.perRun[i] = "no summary file for run " + strconv.Itoa(i) + " in " + outDir
			continue
		}
		b, err := os.ReadFile(found)
		if err != nil || len(b) == 0 {
			oc.perRun[i] = "empty or unreadable " + found
			continue
		}
		if ext == ".json" {
			if !json.Valid(b) {
				oc.perRun[i] = "invalid JSON in " + found
			} else {
				oc.perRun[i] = ""
			}
			continue
		}
		rd := csv.NewReader(bytes.NewReader(b))
		rd.TrimLeadingSpace = true
		rd.FieldsPerRecord = -1
		rows, err := rd.ReadAll()
		switch {
		case err != nil:
			oc.perRun[i] = "unparsable CSV " + found + ": " + err.Error()
		case len(rows) != 2+sizes[i]:
			oc.perRun[i] = fmt.Sprintf("summary %s has %d rows; header + as-is + the %d solution(s) the run finished with expected", found, len(rows), sizes[i])
		default:
			bad := ""
			for ri, row := range rows {
				if len(row) != len(rows[0]) {
					bad = fmt.Sprintf("row %d of %s has %d fields, header has %d", ri, found, len(row), len(rows[0]))
				}
			}
			oc.perRun[i] = bad
			for _, row := range rows[1:] {
				if len(row) > 0 && row[0] == "As-Is" {
					oc.asIs[i] = strings.Join(row[1:len(row)-1], ",")
				}
			}
		}
	}
	// summaries written anywhere else under the case directory
	filepath.Walk(r.dir, func(p string, info os.FileInfo, err error) error {
		if err == nil && !info.IsDir() && strings.Contains(info.Name(), "Summary") && filepath.Dir(p) != outDir {
			oc.misplaced = append(oc.misplaced, p)
		}
		return nil
	})
	return oc
}

// ---------------------------------------------------------------- evaluating a scenario case

func caseLine(k mrCase) string {
	b, _ := json.Marshal(k)
	return "reset " + strings.ReplaceAll(string(b), " ", "\u00a0")
}

func (e *mrEnv) commonChecks(r *mrResult, ops []string) {
	c, k := e.c, r.k
	if sym, raced := firstRace(r.stderr); raced {
		i := strings.Index(r.stderr, "WARNING: DATA RACE")
		c.Fail("C08:no-data-race", "runs:data-race:"+sym, fmt.Sprintf("race detector report in a %s scenario (runs=%d conc=%d):\n%s", k.Family, k.Runs, k.Conc, clip(r.stderr[i:], 1500)), ops)
	}
	if r.timedOut {
		c.Fail("C08:all-runs-complete", "runs:timeout", fmt.Sprintf("child did not finish (%s runs=%d conc=%d)", k.Family, k.Runs, k.Conc), ops)
	}
	if r.haveChild && r.child.Returned && r.child.CwdAfter != r.child.CwdBefore {
		c.Fail("C08:no-process-global-side-effect", "runs:chdir-during-run",
			fmt.Sprintf("working directory of the process changed across Scenario.Run(): before %q, after %q (%s runs=%d conc=%d data=%s)", r.child.CwdBefore, r.child.CwdAfter, k.Family, k.Runs, k.Conc, k.DataPath), ops)
	}
	if r.straceUnavailable {
		c.Stat("strace unavailable: chdir watched through the working directory before/after Run() only")
	}
	if r.straceRan {
		n, sample, _ := chdirsInRun(r.strace)
		c.Stat(fmt.Sprintf("strace chdir-in-run=%v", n > 0))
		if n > 0 {
			c.Fail("C08:no-process-global-side-effect", "runs:chdir-during-run",
				fmt.Sprintf("strace -f -e trace=chdir: %d chdir call(s) inside Scenario.Run() (%s runs=%d conc=%d); first: %s", n, k.Family, k.Runs, k.Conc, sample), ops)
		}
	}
}

// foreignDefect recognises a child hit by a defect that belongs to another property, so that it is
// reported under that property and not mistaken for a violation of run independence.
//   - C12 (D8): the JSON solution-set encoder takes the set name from an arbitrary map key and
//     indexes a failed regexp match when the as-is key comes first.
func foreignDefect(r *mrResult) (predicate, signature, what string, ok bool) {
	if r.k.OutputType == "JSON" && (strings.Contains(r.stderr, "encoding/json.deriveSetNameFor") ||
		strings.Contains(r.child.RunError, "index out of range [1] with length 0")) {
		return "C12:json-set-name", "saved:json-set-name-panic", "JSON solution-set encoder panics deriving the set name (map-order dependent; belongs to C12)", true
	}
	return "", "", "", false
}

func (e *mrEnv) evalScenario(r *mrResult) {
	c, k := e.c, r.k
	opReset := caseLine(k)
	c.Op(opReset, "ok")
	if pred, sig, what, ok := foreignDefect(r); ok {
		c.Fail(pred, sig, fmt.Sprintf("%s (%s scenario runs=%d conc=%d)", what, k.Family, k.Runs, k.Conc), []string{opReset})
		c.Op("probe case-hit-by-a-defect-of-another-property "+sig, "done")
		c.Stat("case not evaluated: " + sig)
		return
	}
	op := fmt.Sprintf("scenario %s %s %d %d %s %s %d", familyToken(k), k.Name, k.Runs, k.Conc, floatBits(k.T0), floatBits(k.CF), k.MaxIter)
	ops := []string{opReset, op}
	e.commonChecks(r, ops)

	runs := groupRuns(r.events)
	returned := r.haveChild && r.child.Returned
	failed := []string{}
	if r.haveChild && r.child.RunError != "" {
		failed = failedIDs(r.child.RunError)
		if len(failed) == 0 {
			failed = []string{"?"}
		}
	}
	var sb strings.Builder
	fmt.Fprintf(&sb, "returned=%s failed=[%s]", b2s(returned), strings.Join(failed, ","))
	// order runs by index recovered from the finish payload; unattributable ones last
	type slot struct {
		idx int
		o   *runObs
	}
	var slots []slot
	for _, o := range runs {
		slots = append(slots, slot{runIndex(k.Name, o.finID, k.Runs), o})
	}
	sort.SliceStable(slots, func(i, j int) bool {
		a, b := slots[i].idx, slots[j].idx
		if a == 0 {
			a = 1 << 30
		}
		if b == 0 {
			b = 1 << 30
		}
		return a < b
	})
	t0 := floatBits(k.T0)
	for _, s := range slots {
		o := s.o
		if e.race && o.firstIt == "-" && k.MaxIter > 0 && o.finIter == strconv.Itoa(k.MaxIter) {
			// race build: the recorder does not log iteration events (see the child); a run that finished
			// at exactly its budget is reported with the first iteration the plain build observes
			o.firstIt = "1"
		}
		id := under(o.finID)
		if o.finID == "" {
			id = "?"
		}
		fmt.Fprintf(&sb, " [%s T=%s iter=%s arch=%s fin=%d Tend=%s]", id, o.startT, o.firstIt, o.arch, o.finN, o.finT)
		// ---- the property's clauses, evaluated directly
		if o.startT != t0 {
			c.Fail("C08:run-starts-at-configured-temperature", "runs:run-starts-cold",
				fmt.Sprintf("%s scenario %q runs=%d conc=%d: run %q reported temperature %s at StartedAnnealing, configured starting temperature is %s (%v)",
					k.Family, k.Name, k.Runs, k.Conc, o.finID, bitsToDecimal(o.startT), t0, k.T0), ops)
		}
		if k.Kind == "scenario" && o.inflight > k.Conc {
			c.Fail("C08:concurrency-bound", "runs:concurrency-bound-exceeded", fmt.Sprintf("%s scenario runs=%d: %d runs were annealing at once, MaximumConcurrentRunNumber is %d", k.Family, k.Runs, o.inflight, k.Conc), ops)
		}
		if o.firstIt != "1" && k.MaxIter > 0 && (o.firstIt != "-" || o.finN > 0) {
			c.Fail("C08:run-starts-at-iteration-1", "runs:first-iteration-not-1", fmt.Sprintf("run %q: first StartedIteration carries iteration %s", o.finID, o.firstIt), ops)
		}
		if k.Family != "Kirkpatrick" && o.arch != "0" {
			c.Fail("C08:run-starts-with-empty-solution-set", "runs:archive-not-empty-at-start", fmt.Sprintf("run %q: ArchiveSize %s at StartedAnnealing", o.finID, o.arch), ops)
		}
		if o.startN != 1 || o.finN != 1 {
			c.Fail("C08:one-start-one-finish-per-run", "runs:finish-events", fmt.Sprintf("run on goroutine %s (%q): %d StartedAnnealing, %d FinishedAnnealing events", o.g, o.finID, o.startN, o.finN), ops)
		}
		if o.finN > 0 && o.finIter != strconv.Itoa(k.MaxIter) {
			c.Fail("C08:own-complete-result", "runs:finish-iteration", fmt.Sprintf("run %q finished at iteration %s, budget %d", o.finID, o.finIter, k.MaxIter), ops)
		}
		if k.Model == "DumbModel" && o.obj != floatBits(1000) {
			c.Fail("C08:run-starts-from-initial-state", "runs:run-starts-from-previous-result",
				fmt.Sprintf("DumbModel scenario runs=%d conc=%d: run %q starts with ObjectiveValue %s, the configured InitialObjectiveValue is 1000", k.Runs, k.Conc, o.finID, bitsToDecimal(o.obj)), ops)
		}
	}
	// ids: exactly the ids Runner assigns, each once
	seen := map[int]int{}
	for _, s := range slots {
		seen[s.idx]++
	}
	for i := 1; i <= k.Runs; i++ {
		if seen[i] != 1 {
			c.Fail("C08:one-start-one-finish-per-run", "runs:finish-ids", fmt.Sprintf("%s scenario runs=%d conc=%d: %d finish event(s) carry id %q; ids seen: %v (child exit %d, %s)",
				k.Family, k.Runs, k.Conc, seen[i], expectedID(k.Name, i, k.Runs), finIDs(runs), r.exit, firstPanic(r.stderr)), ops)
			break
		}
	}
	if !returned {
		sig := "runs:run-died"
		detail := fmt.Sprintf("%s scenario runs=%d conc=%d data=%s: child exit %d, Run() did not return; first panic: %s", k.Family, k.Runs, k.Conc, k.DataPath, r.exit, firstPanic(r.stderr))
		if !filepath.IsAbs(k.DataPath) && k.Conc > 1 && k.Model != "DumbModel" && dataLoadFailure(r.stderr) {
			// a run that could not load its data although the very same relative path loads when runs are sequential
			sig = "runs:chdir-during-run"
			detail += "  [concurrent runs resolving a relative DataSourcePath: a sibling's os.Chdir moved the working directory]"
		}
		c.Fail("C08:all-runs-complete", sig, detail, ops)
	}
	// outputs
	if k.Kind == "scenario" && returned {
		oc := e.checkOutputs(r)
		first := ""
		for i := 1; i <= k.Runs; i++ {
			if oc.perRun[i] != "" && first == "" {
				first = oc.perRun[i]
			}
		}
		if first != "" {
			sig := "runs:output-missing"
			if len(oc.misplaced) > 0 {
				first += fmt.Sprintf("; %d summary file(s) were written elsewhere, e.g. %s", len(oc.misplaced), oc.misplaced[0])
				if r.child.CwdAfter != r.child.CwdBefore {
					sig = "runs:chdir-during-run"
				}
			}
			c.Fail("C08:own-complete-result", sig, fmt.Sprintf("%s scenario runs=%d conc=%d out=%s: %s", k.Family, k.Runs, k.Conc, k.OutputPath, first), ops)
		}
		ref := ""
		for i := 1; i <= k.Runs; i++ {
			if a, ok := oc.asIs[i]; ok {
				if ref == "" {
					ref = a
				} else if a != ref {
					c.Fail("C08:same-input-data", "runs:as-is-differs", fmt.Sprintf("as-is rows of two runs of one scenario differ: %q vs %q", ref, a), ops)
				}
			}
		}
	}
	c.Op(op, sb.String())
	c.Stat(fmt.Sprintf("scenario family=%s runs=%d conc=%d", familyToken(k), k.Runs, k.Conc))
	c.Stat(fmt.Sprintf("scenario data=%s out=%s type=%s", absRel(k.DataPath), absRel(k.OutputPath), k.OutputType))
	if k.Runs > 1 {
		c.Nontrivial(fmt.Sprintf("%s/%d/%d/%s/%s/%s/%d", familyToken(k), k.Runs, k.Conc, absRel(k.DataPath), absRel(k.OutputPath), k.OutputType, k.MaxIter))
	}
}

func dataLoadFailure(stderr string) bool {
	p := firstPanic(stderr)
	return strings.Contains(p, "does not exist") || strings.Contains(p, "index out of range") || strings.Contains(p, "nil pointer") || strings.Contains(p, "Expected data set")
}

func finIDs(runs []*runObs) []string {
	var out []string
	for _, o := range runs {
		out = append(out, o.finID)
	}
	sort.Strings(out)
	return out
}

func absRel(p string) string {
	if filepath.IsAbs(p) {
		return "abs"
	}
	return "rel"
}

func familyToken(k mrCase) string {
	if k.Model == "DumbModel" {
		return k.Family + "Dumb"
	}
	return k.Family
}

func bitsToDecimal(bits string) string {
	u, err := strconv.ParseUint(bits, 16, 64)
	if err != nil {
		return bits
	}
	return fmt.Sprintf("%s (= %v)", bits, math.Float64frombits(u))
}

// ---------------------------------------------------------------- fault cases

func (e *mrEnv) evalFault(r *mrResult) {
	c, k := e.c, r.k
	opReset := caseLine(k)
	c.Op(opReset, "ok")
	op := fmt.Sprintf("fault %s %s %d %d %d %d %d", familyToken(k), k.Name, k.Runs, k.Conc, k.Designated, k.At, k.MaxIter)
	ops := []string{opReset, op}
	e.commonChecks(r, ops)
	runs := groupRuns(r.events)
	returned := r.haveChild && r.child.Returned
	failed := []string{}
	if returned && r.child.RunError != "" {
		failed = failedIDs(r.child.RunError)
	}
	var finished []string
	for _, o := range runs {
		if o.finN > 0 {
			finished = append(finished, under(o.finID))
		}
	}
	sort.Strings(finished)
	c.Op(op, fmt.Sprintf("returned=%s failed=[%s] finished=[%s]", b2s(returned), strings.Join(failed, ","), strings.Join(finished, ",")))
	c.Stat(fmt.Sprintf("fault family=%s runs=%d conc=%d", familyToken(k), k.Runs, k.Conc))
	c.Nontrivial(fmt.Sprintf("fault/%s/%d/%d/%d/%d/%v", familyToken(k), k.Runs, k.Conc, k.Designated, k.At, k.AsError))

	want := k.Runs - 1
	if !returned || len(finished) != want {
		c.Fail("C08:failure-does-not-leak", "runs:panic-not-isolated",
			fmt.Sprintf("%s scenario runs=%d conc=%d, the explorer of run %d panics in iteration %d: Run() returned=%v (child exit %d: %s); %d of the %d sibling runs delivered a result (%v)",
				k.Family, k.Runs, k.Conc, k.Designated, k.At, returned, r.exit, firstPanic(r.stderr), len(finished), want, finished), ops)
		return
	}
	if len(failed) != 1 {
		c.Fail("C08:failure-is-reported", "runs:failure-not-reported",
			fmt.Sprintf("one run panicked but Run() returned error %q (failed runs recognised: %v)", r.child.RunError, failed), ops)
	}
	// the siblings must each have written their result
	oc := e.checkOutputs(r)
	for _, o := range runs {
		if o.finN == 0 {
			continue
		}
		i := runIndex(k.Name, o.finID, k.Runs)
		if i > 0 && oc.perRun[i] != "" {
			c.Fail("C08:failure-does-not-leak", "runs:sibling-output-missing", fmt.Sprintf("sibling run %q of a failed run: %s", o.finID, oc.perRun[i]), ops)
		}
		if o.startT != floatBits(k.T0) {
			c.Fail("C08:run-starts-at-configured-temperature", "runs:run-starts-cold", fmt.Sprintf("fault scenario: run %q started at %s", o.finID, bitsToDecimal(o.startT)), ops)
		}
	}
}

// ---------------------------------------------------------------- the clone walk

func (e *mrEnv) cloneWalk(family, modelType string) (coolantShared bool) {
	c := e.c
	tok := family
	if modelType == "DumbModel" {
		tok += "Dumb"
	}
	k := mrCase{Kind: "scenario", Family: family, Name: "walk", Runs: 2, Conc: 1, T0: 10, CF: 0.99, MaxIter: 10, Model: modelType,
		DataPath: relToCwd(filepath.Join(e.testdataDir(), "ValidModel.csv")), OutputPath: filepath.Join(c.Out, "walk-solutions"), OutputType: "CSV", Quiet: true}
	tomlPath := filepath.Join(c.Out, "walk-"+tok+".toml")
	must(os.WriteFile(tomlPath, []byte(k.toml()), 0o644))
	var g0, g1, g2 *walkGraph
	var buildErr error
	p := protect(func() {
		in, err := buildScenarioFromToml(tomlPath)
		if err != nil {
			buildErr = err
			return
		}
		ann := in.VerifAnnealer()
		clones := []annealing.Annealer{ann.DeepClone(), ann.DeepClone()}
		for i, cl := range clones {
			// what Runner.run does with a clone before annealing it
			id := fmt.Sprintf("walk (%d/2)", i+1)
			cl.SetId(id)
			cl.SolutionExplorer().SetId(id)
			cl.SolutionExplorer().Model().SetId(id)
			if obs, ok := cl.(observer.Observer); ok {
				if n, ok := cl.SolutionExplorer().(observer.EventNotifier); ok {
					n.AddObserver(obs)
				}
				if n, ok := cl.Model().(observer.EventNotifier); ok {
					n.AddObserver(obs)
				}
			}
			// ... and what Anneal() does first
			cl.SolutionExplorer().Initialise()
		}
		g0, g1, g2 = walkFrom(ann), walkFrom(clones[0]), walkFrom(clones[1])
	})
	opReset := "reset walk " + tok
	c.Op(opReset, "ok")
	if p != "" || buildErr != nil {
		c.Fail("C08:clone-private", "runs:clone-walk-failed", fmt.Sprintf("could not build / clone / initialise the %s annealer: %v %s", tok, buildErr, p), []string{opReset})
		return false
	}
	shared := sharedTop(g1, g2)
	cellTypes := familyCoolantTypes[family]
	if modelType == "DumbModel" {
		cellTypes = []string{"*variable.SimpleUndoableDecisionVariable"}
	}
	cell := func(g *walkGraph) uint64 {
		if n := g.findByType(cellTypes...); n != nil {
			return uint64(n.addr.a)
		}
		return 0
	}
	ct, c1, c2 := cell(g0), cell(g1), cell(g2)
	var toks []string
	allOK := true
	for _, n := range shared {
		class, ok := classify(n)
		if !ok {
			allOK = false
			c.Fail("C08:clone-private", "runs:clone-shares:"+shortType(n.typ),
				fmt.Sprintf("two DeepClone()s of the configured %s annealer (each prepared and Initialise()d as Runner.run/Anneal do) both reach the same %s %s at %s; it is not on the allow-list of immutable or locked objects", tok, n.kind, n.typ, n.path),
				[]string{opReset})
		}
		c.Stat(fmt.Sprintf("walk %s shared %s [%s]", tok, shortType(n.typ), class))
		toks = append(toks, strings.ReplaceAll(n.path, " ", "_")+"|"+strings.ReplaceAll(shortType(n.typ), " ", "_")+"|"+b2s(ok))
	}
	cellsPrivate := ct != 0 && c1 != 0 && c2 != 0 && c1 != ct && c2 != ct && c1 != c2
	op := fmt.Sprintf("walk %s %d %d %d %d", tok, ct, c1, c2, len(toks))
	if len(toks) > 0 {
		op += " " + strings.Join(toks, " ")
	}
	// addresses differ from process to process: they are data for the model, not part of a stable replay
	c.Op(op, fmt.Sprintf("cells-private=%s shared-allowed=%s", b2s(cellsPrivate), b2s(allOK)))
	c.Stat(fmt.Sprintf("walk %s nodes=%d shared-top=%d", tok, len(g1.order), len(shared)))
	c.Nontrivial("walk/" + tok)
	if ct == 0 || c1 == 0 || c2 == 0 {
		c.Fail("C08:clone-private", "runs:clone-walk-failed", fmt.Sprintf("%s: no node of type %v found in template/clone graphs (walk out of date?)", tok, cellTypes), []string{opReset, op})
	}
	e.c.extra["walk "+tok] = map[string]interface{}{"nodes_clone1": len(g1.order), "nodes_clone2": len(g2.order), "nodes_template": len(g0.order), "shared_top": toks}
	return !cellsPrivate
}

// ---------------------------------------------------------------- case generation

func (e *mrEnv) genCases() (cases []mrCase, dirs []string, stems []string) {
	c, r := e.c, e.c.Rng
	families := []string{"Kirkpatrick", "Suppapitnarm", "AveragedSuppapitnarm"}
	add := func(k mrCase, stem string, absData, absOut bool) {
		dir := e.prepare(&k, stem, absData, absOut)
		cases = append(cases, k)
		dirs = append(dirs, dir)
		stems = append(stems, stem)
	}
	base := func(kind, fam string, runs, conc int) mrCase {
		return mrCase{Kind: kind, Family: fam, Name: "scn", Runs: runs, Conc: conc,
			T0: []float64{10, 1000, 0.5, 37.25}[r.Intn(4)], CF: []float64{0.99, 0.999, 0.9, 1}[r.Intn(4)],
			MaxIter: []int{0, 1, 30, 120, 300}[r.Intn(5)], OutputType: []string{"CSV", "CSV", "CSV", "CSV", "JSON"}[r.Intn(5)],
			Model: "CatchmentModel", Quiet: r.Chance(0.6)}
	}
	stem := func() string { return []string{"Valid", "Testing"}[r.Intn(2)] }

	// (a) the deterministic exposers
	for _, fam := range []string{"Suppapitnarm", "AveragedSuppapitnarm"} {
		k := base("scenario", fam, 3, 1)
		k.Name, k.T0, k.CF, k.MaxIter, k.OutputType = "seq", 10, 0.99, 300, "CSV"
		add(k, "Valid", false, false)
	}
	{
		k := base("scenario", "Kirkpatrick", 3, 1)
		k.Name, k.Model, k.MaxIter, k.OutputType = "dumbseq", "DumbModel", 50, "CSV"
		add(k, "Valid", false, false)
		k2 := base("scenario", "Kirkpatrick", 4, 4)
		k2.Name, k2.Model, k2.MaxIter, k2.OutputType = "dumbconc", "DumbModel", 200, "CSV"
		add(k2, "Valid", false, false)
	}
	// (b) strace: one concurrent relative-path scenario per family
	for _, fam := range families {
		k := base("scenario", fam, 4, 4)
		k.Name, k.MaxIter, k.Markers, k.Strace, k.OutputType = "traced", 60, true, true, "CSV"
		add(k, "Valid", false, false)
	}
	// (c) the grid runs x conc x family x path mode
	type cell struct{ runs, conc int }
	var grid []cell
	for runs := 1; runs <= 6; runs++ {
		for conc := 1; conc <= 6; conc++ {
			grid = append(grid, cell{runs, conc})
		}
	}
	if c.Thorough() {
		for rep := 0; rep < 2; rep++ {
			for _, fam := range families {
				for _, g := range grid {
					for _, abs := range []bool{false, true} {
						k := base("scenario", fam, g.runs, g.conc)
						add(k, stem(), abs, r.Bool())
					}
				}
			}
		}
	} else {
		// every run count x every concurrency for every family; the path mode alternates
		for fi, fam := range families {
			for gi, g := range grid {
				k := base("scenario", fam, g.runs, g.conc)
				add(k, stem(), (gi+fi+int(c.Seed))%2 == 0, r.Bool())
			}
		}
	}
	// (d) concurrent relative-path loads, repeated (many short runs: loading dominates)
	for rep := 0; rep < c.N(12, 48); rep++ {
		k := base("scenario", families[rep%3], 6, 6)
		k.Name, k.MaxIter, k.OutputType, k.Quiet = "loads", 5, "CSV", true
		add(k, stem(), false, false)
	}
	// (f) CheckingLoopInvariant = true: crem then adds ONE AnnealingInvariantObserver that every run of the
	// scenario reports to (single-objective annealer only: the observer reads ObjectiveValue)
	for rep := 0; rep < c.N(2, 8); rep++ {
		k := base("scenario", "Kirkpatrick", 2+r.Intn(5), 2+r.Intn(5))
		k.Name, k.OutputType, k.CheckInvariant, k.Quiet = "inv", "CSV", true, true
		if k.MaxIter < 30 {
			k.MaxIter = 120
		}
		add(k, stem(), rep%2 == 0, false)
	}
	// (e) fault injection
	for f := 0; f < c.N(24, 120); f++ {
		runs := 2 + r.Intn(5)
		k := base("fault", families[f%3], runs, 1+r.Intn(6))
		k.Name, k.OutputType = "flt", "CSV"
		if k.MaxIter < 30 {
			k.MaxIter = 30
		}
		k.Designated = 1 + r.Intn(runs)
		k.At = 1 + r.Intn(k.MaxIter)
		if r.Chance(0.3) {
			k.At = 1
		}
		k.AsError = r.Bool()
		add(k, stem(), true, true) // absolute paths: this stream is about failure isolation, not about the working directory
	}
	return
}

// ---------------------------------------------------------------- suite

func newMrEnv(c *Ctx) *mrEnv {
	e := &mrEnv{c: c}
	e.harness = os.Getenv("VERIF_HARNESS")
	if e.harness == "" {
		e.harness, _ = os.Executable()
	}
	e.race = raceEnabled
	e.repo = os.Getenv("VERIF_REPO")
	if e.repo == "" {
		e.repo = "/repo"
	}
	e.caseRoot = filepath.Join(c.Out, "cases")
	must(os.MkdirAll(e.caseRoot, 0o755))
	return e
}

func (e *mrEnv) runAll(cases []mrCase, dirs []string) []*mrResult {
	results := make([]*mrResult, len(cases))
	par := 4
	if v, err := strconv.Atoi(os.Getenv("VERIF_MR_PAR")); err == nil && v > 0 {
		par = v
	}
	var wg sync.WaitGroup
	sem := make(chan struct{}, par)
	for i := range cases {
		if i%e.c.Shards != e.c.Shard {
			continue
		}
		wg.Add(1)
		sem <- struct{}{}
		go func(i int) {
			defer wg.Done()
			defer func() { <-sem }()
			results[i] = e.runChild(cases[i], dirs[i])
		}(i)
	}
	wg.Wait()
	return results
}

func suiteMultiRun(c *Ctx) {
	e := newMrEnv(c)
	c.extra["race_build"] = e.race
	if c.Replay != "" {
		replayMultiRun(e)
		return
	}
	// 1. ClonePrivate on the real objects (shard 0 only: it does not depend on the shard)
	sharedCoolant := map[string]bool{}
	if c.Shard == 0 {
		for _, fam := range []string{"Kirkpatrick", "Suppapitnarm", "AveragedSuppapitnarm"} {
			sharedCoolant[fam] = e.cloneWalk(fam, "CatchmentModel")
		}
		e.cloneWalk("Kirkpatrick", "DumbModel")
	}
	// 2.-5. whole scenarios in child processes
	cases, dirs, _ := e.genCases()
	t0 := time.Now()
	results := e.runAll(cases, dirs)
	c.extra["children"] = len(cases)
	c.extra["children_wall_s"] = time.Since(t0).Seconds()
	loadsFailed := false
	for i, r := range results {
		if r == nil {
			continue
		}
		if cases[i].Name == "loads" && loadsFailed {
			c.Stat("loads repetition skipped after first failure")
			continue
		}
		before := len(c.direct)
		switch cases[i].Kind {
		case "fault":
			e.evalFault(r)
		default:
			e.evalScenario(r)
			if cases[i].Name == "seq" && sharedCoolant[cases[i].Family] {
				// the model of the code as it is (shared coolant cell) predicts the cold starts exactly
				var ts []string
				for _, o := range groupRuns(r.events) {
					ts = append(ts, o.startT)
				}
				c.Op(fmt.Sprintf("seqshared %s %s %d %s %s %d", cases[i].Family, cases[i].Name, cases[i].Runs, floatBits(cases[i].T0), floatBits(cases[i].CF), cases[i].MaxIter), strings.Join(ts, " "))
			}
		}
		if cases[i].Name == "loads" && len(c.direct) > before {
			loadsFailed = true
		}
		if !c.Thorough() || len(c.direct) > before {
			continue
		}
		os.RemoveAll(filepath.Join(r.dir, "cwd")) // keep the work directory small in the thorough tier
	}
}

// replayMultiRun re-executes the cases named by the `reset {json}` lines of an ops file.
func replayMultiRun(e *mrEnv) {
	c := e.c
	for _, l := range readLines(c.Replay) {
		if strings.HasPrefix(l, "reset walk ") {
			tok := strings.TrimPrefix(l, "reset walk ")
			fam, model := strings.TrimSuffix(tok, "Dumb"), "CatchmentModel"
			if strings.HasSuffix(tok, "Dumb") {
				model = "DumbModel"
			}
			e.cloneWalk(fam, model)
			continue
		}
		if !strings.HasPrefix(l, "reset {") {
			continue
		}
		var k mrCase
		if err := json.Unmarshal([]byte(strings.ReplaceAll(strings.TrimPrefix(l, "reset "), "\u00a0", " ")), &k); err != nil {
			c.Note("unparsable case line: " + err.Error())
			continue
		}
		stem := "Valid"
		if strings.Contains(k.DataPath, "Testing") {
			stem = "Testing"
		}
		dir := e.prepare(&k, stem, filepath.IsAbs(k.DataPath), filepath.IsAbs(k.OutputPath))
		r := e.runChild(k, dir)
		if k.Kind == "fault" {
			e.evalFault(r)
		} else {
			e.evalScenario(r)
		}
	}
}
