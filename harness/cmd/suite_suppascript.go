//go:build verif

package main

import (
	"fmt"
	"math"
	"strconv"
	"strings"

	"github.com/LindsayBradford/crem/internal/pkg/annealing/cooling"
	"github.com/LindsayBradford/crem/internal/pkg/annealing/cooling/coolants/averaged"
	coolsup "github.com/LindsayBradford/crem/internal/pkg/annealing/cooling/coolants/suppapitnarm"
	"github.com/LindsayBradford/crem/internal/pkg/annealing/explorer/suppapitnarm"
	"github.com/LindsayBradford/crem/internal/pkg/model"
	"github.com/LindsayBradford/crem/internal/pkg/model/action"
	marchive "github.com/LindsayBradford/crem/internal/pkg/model/archive"
	"github.com/LindsayBradford/crem/internal/pkg/model/planningunit"
	"github.com/LindsayBradford/crem/internal/pkg/model/variable"
	"github.com/LindsayBradford/crem/internal/pkg/parameters"
	crand "github.com/LindsayBradford/crem/internal/pkg/rand"
	cremerrors "github.com/LindsayBradford/crem/pkg/errors"
	"github.com/LindsayBradford/crem/pkg/logging/loggers"
	"github.com/LindsayBradford/crem/pkg/name"
)

func init() { register("suppa-script", suiteSuppaScript) }

// toyModel is a scripted model.Model: the state is the action set; objective j is the sum of the active
// actions' integer weights w[i][j]; Randomize() installs the next scripted candidate.
type toyModel struct {
	name.NameContainer
	name.IdentifiableContainer
	w       [][]int
	actions []*action.SimpleManagementAction
	next    func(cur []bool) []bool
	vars    []*variable.SimpleDecisionVariable
}

func newToyModel(w [][]int, d int) *toyModel {
	m := &toyModel{w: w}
	for i := range w {
		a := new(action.SimpleManagementAction).WithPlanningUnit(planningunit.Id(i)).WithType("toy")
		m.actions = append(m.actions, a)
	}
	for j := 0; j < d; j++ {
		m.vars = append(m.vars, variable.NewSimpleDecisionVariable(fmt.Sprintf("v%d", j)))
	}
	m.recompute()
	return m
}

func (m *toyModel) flags() []bool {
	out := make([]bool, len(m.actions))
	for i, a := range m.actions {
		out[i] = a.IsActive()
	}
	return out
}

func (m *toyModel) recompute() {
	for j, v := range m.vars {
		s := 0
		for i, a := range m.actions {
			if a.IsActive() {
				s += m.w[i][j]
			}
		}
		v.SetValue(float64(s))
	}
}

func (m *toyModel) setFlags(bits []bool) {
	for i, a := range m.actions {
		a.SetActivationUnobserved(bits[i])
	}
	m.recompute()
}

func (m *toyModel) Initialise(model.InitialisationType) {}
func (m *toyModel) Randomize() {
	if m.next != nil {
		m.setFlags(m.next(m.flags()))
	}
}
func (m *toyModel) TearDown()                                          {}
func (m *toyModel) DoRandomChange()                                    {}
func (m *toyModel) UndoChange()                                        {}
func (m *toyModel) TryRandomChange()                                   {}
func (m *toyModel) ChangeIsValid() (bool, *cremerrors.CompositeError) { return true, nil }
func (m *toyModel) AcceptChange()                                      {}
func (m *toyModel) RevertChange()                                      {}
func (m *toyModel) IsEquivalentTo(o model.Model) bool {
	return bitsStr(m.flags()) == bitsStr(flagsOf(o))
}
func (m *toyModel) SynchroniseTo(o model.Model) { m.setFlags(flagsOf(o)) }
func (m *toyModel) DeepClone() model.Model {
	c := newToyModel(m.w, len(m.vars))
	c.setFlags(m.flags())
	c.next = m.next
	return c
}
func (m *toyModel) ManagementActions() []action.ManagementAction {
	out := make([]action.ManagementAction, len(m.actions))
	for i, a := range m.actions {
		out[i] = a
	}
	return out
}
func (m *toyModel) ActiveManagementActions() []action.ManagementAction {
	var out []action.ManagementAction
	for _, a := range m.actions {
		if a.IsActive() {
			out = append(out, a)
		}
	}
	return out
}
func (m *toyModel) SetManagementAction(i int, b bool) {
	m.actions[i].SetActivationUnobserved(b)
	m.recompute()
}
func (m *toyModel) SetManagementActionUnobserved(i int, b bool) { m.SetManagementAction(i, b) }
func (m *toyModel) PlanningUnits() planningunit.Ids             { return nil }
func (m *toyModel) NameMappedVariables() *variable.DecisionVariableMap {
	vm := make(variable.DecisionVariableMap, 0)
	for _, v := range m.vars {
		vm[v.Name()] = v
	}
	return &vm
}
func (m *toyModel) DecisionVariable(n string) variable.DecisionVariable {
	for _, v := range m.vars {
		if v.Name() == n {
			return v
		}
	}
	return variable.NewSimpleDecisionVariable(n)
}
func (m *toyModel) OffersDecisionVariable(string) bool     { return true }
func (m *toyModel) DecisionVariableChange(string) float64 { return 0 }

func hashStatesInt(ss []*marchive.CompressedModelState) uint64 {
	h := uint64(1469598103934665603)
	for _, s := range ss {
		h = h*31 + 7
		for _, v := range s.Variables {
			h = h*1000003 + uint64(int64(math.Round(v)))
		}
		h = h*17 + 3
		for _, b := range stateBits(s) {
			if b {
				h = h*131 + 2
			} else {
				h = h*131 + 1
			}
		}
	}
	return h
}

func suiteSuppaScript(c *Ctx) {
	r := c.Rng
	runs := c.N(120, 2500)
	iters := c.N(120, 400)
	for run := 0; run < runs; run++ {
		if run%c.Shards != c.Shard {
			continue
		}
		oneToyRun(c, r.Fork(), iters)
	}
}

func oneToyRun(c *Ctx, r *Rng, iters int) {
	d := 1 + r.Intn(4)
	n := 2 + r.Intn(9)
	if r.Chance(0.05) {
		n = 64 + r.Intn(8) // more than one archive word
	}
	span := 1 + r.Intn(3)
	w := make([][]int, n)
	for i := range w {
		w[i] = make([]int, d)
		for j := range w[i] {
			w[i][j] = r.Intn(2*span+1) - span
		}
	}
	kind := []string{"product", "averaged"}[r.Intn(2)]
	var coolant cooling.TemperatureCoolant
	if kind == "averaged" {
		coolant = averaged.NewCoolant()
	} else {
		coolant = coolsup.NewCoolant()
	}
	t0 := []float64{0.05, 0.5, 1, 3, 10, 1000}[r.Intn(6)]
	cf := []float64{1, 0.999, 0.9, 0.5}[r.Intn(4)]
	initialStep := int64(1 + r.Intn(30))
	minRate := int64(1 + r.Intn(6))
	rtbFactor := []float64{0, 0.5, 0.9, 0.95, 1}[r.Intn(5)]
	m := newToyModel(w, d)
	start := make([]bool, n)
	for i := range start {
		start[i] = r.Bool()
	}
	m.setFlags(start)
	checkND := r.Bool()
	ex := suppapitnarm.New().WithCoolant(coolant)
	ex.SetLogHandler(loggers.NewNullLogger())
	rec := &suppaRecorder{}
	ex.AddObserverAsFirst(rec)
	ex.SetModel(m)
	if e := ex.SetParameters(parameters.Map{"StartingTemperature": t0, "CoolingFactor": cf, "InitialReturnToBaseStep": initialStep,
		"MinimumReturnToBaseRate": minRate, "ReturnToBaseAdjustmentFactor": rtbFactor, "CheckNonDominance": checkND}); e != nil {
		c.Fail("harness:parameters", "suppascript:parameters-rejected", e.Error(), nil)
		return
	}
	// in four runs of ten the explorer under test is one of TWO clones of the configured explorer, as the runs of a
	// scenario are: the sibling is initialised too and takes steps of its own (unrecorded) between the recorded ones —
	// whatever the clones still share of the solution set shows in the recorded clone (C05: "after every operation")
	var sib *suppapitnarm.Explorer
	var sibPot *toyModel
	if r.Chance(0.4) {
		tmpl := ex
		ex = tmpl.DeepClone().(*suppapitnarm.Explorer)
		sib = tmpl.DeepClone().(*suppapitnarm.Explorer)
	}
	ex.Initialise()
	if sib != nil {
		sib.Initialise()
		sibPot = sib.VerifPotentialModel().(*toyModel)
		c.Stat("toy run with a stepping sibling clone")
	}
	cur := ex.Model().(*toyModel)
	pot := ex.VerifPotentialModel().(*toyModel)
	coolSrc := &unitSource{next: func() uint64 { return 0 }}
	ex.VerifCoolant().SetRandomNumberGenerator(crand.New(coolSrc))
	archSrc := &scriptSource{next: func() int { return 0 }}
	ex.VerifArchive().SetRandomNumberGenerator(crand.New(archSrc))

	var sb strings.Builder
	fmt.Fprintf(&sb, "start-toy %s %s %s %d %s %d %d %d", kind, floatBits(t0), floatBits(cf), minRate, floatBits(rtbFactor), initialStep, d, n)
	for i := range w {
		for j := range w[i] {
			fmt.Fprintf(&sb, " %d", w[i][j])
		}
	}
	clean := func(b []bool) string { return strings.ReplaceAll(bitsStr(b), "-", "") }
	fmt.Fprintf(&sb, " %s %s", clean(cur.flags()), clean(pot.flags()))
	if checkND {
		sb.WriteString(" cnd")
	}
	state := func() string {
		var s strings.Builder
		fmt.Fprintf(&s, "cd=%d last=%d it=%d cur=%s", ex.VerifCountdown(), ex.VerifLastReturnedToBase(), ex.VerifCurrentIteration(), clean(cur.flags()))
		for _, v := range cur.vars {
			fmt.Fprintf(&s, " %d", int64(v.Value()))
		}
		a := ex.VerifArchive().Archive()
		fmt.Fprintf(&s, " arch=%d %d", len(a), hashStatesInt(a))
		return s.String()
	}
	c.Op("reset", "ok")
	c.Op(sb.String(), "ok "+state())
	c.Stat(fmt.Sprintf("toy run kind=%s d=%d n-bucket=%d", kind, d, bucket(n)))
	c.Stat(fmt.Sprintf("toy run CheckNonDominance=%v", checkND))

	ownMembers := map[string]bool{}
	for _, st := range ex.VerifArchive().Archive() {
		ownMembers[st.Encoding()] = true
	}
	refCountdown, refStep := uint64(float64(initialStep)), float64(initialStep)
	comp := marchive.ModelCompressor{}
	for it := 0; it < iters; it++ {
		before := comp.Compress(cur)
		// scripted candidate: local moves (0-2 flips) produce duplicates and dominated candidates; sometimes a jump
		var candBits []bool
		pot.next = func(curBits []bool) []bool {
			nb := append([]bool(nil), curBits...)
			switch r.Intn(6) {
			case 0: // unchanged: a duplicate
			case 1, 2:
				nb[r.Intn(n)] = !nb[r.Intn(n)]
			case 3:
				i := r.Intn(n)
				nb[i] = !nb[i]
				j := r.Intn(n)
				nb[j] = !nb[j]
			case 4: // revisit an archive member
				if a := ex.VerifArchive().Archive(); len(a) > 0 {
					nb = stateBits(a[r.Intn(len(a))])
				}
			default:
				for i := range nb {
					nb[i] = r.Bool()
				}
			}
			candBits = nb
			return nb
		}
		uNum := r.U64() & (1<<53 - 1)
		switch r.Intn(8) {
		case 0:
			uNum = 0
		case 1:
			uNum = 1<<53 - 1
		}
		aim := r.Intn(4) == 0
		aimed := false
		coolSrc.log = nil
		coolSrc.next = func() uint64 {
			if aim {
				if v, ok := aimedDraw(r, ex.VerifCoolant().AcceptanceProbability()); ok {
					uNum, aimed = v, true
				}
			}
			return uNum
		}
		pick := r.Intn(1 << 16)
		archSrc.log = nil
		archSrc.next = func() int {
			l := len(ex.VerifArchive().Archive())
			if l == 0 {
				return 0
			}
			return pick % l
		}
		if sib != nil && r.Chance(0.7) {
			sibPot.next = func(curBits []bool) []bool {
				nb := make([]bool, len(curBits))
				for i := range nb {
					nb[i] = r.Bool()
				}
				return nb
			}
			protect(func() { sib.TryRandomChange() })
		}
		iterNo := ex.VerifCurrentIteration()
		tBefore := ex.VerifCoolant().Temperature()
		archBefore := append([]*marchive.CompressedModelState(nil), ex.VerifArchive().Archive()...)
		rec.events = nil
		if p := protect(func() { ex.TryRandomChange() }); p != "" {
			c.Op("iter-panicked", "panic")
			c.Fail("no-panic", "suppascript:iteration-panic", p, nil)
			return
		}
		cand := comp.Compress(pot)
		// every member of the solution set after the step was a member before it or is this step's candidate (nothing
		// else was ever offered to THIS explorer's set)
		{
			own := map[string]bool{cand.Encoding(): true}
			for e := range ownMembers { // as this explorer's own last step left them (a sibling may have stepped since)
				own[e] = true
			}
			for k, st := range ex.VerifArchive().Archive() {
				if !own[st.Encoding()] {
					c.Fail("members-are-the-offers", "suppascript:foreign-member",
						fmt.Sprintf("iteration %d: member %d (action set %s) of the solution set was neither a member before the step nor the candidate %s (sibling clone stepping: %v)", iterNo, k, st.Encoding(), cand.Encoding(), sib != nil), nil)
					break
				}
			}
			ownMembers = map[string]bool{}
			for _, st := range ex.VerifArchive().Archive() {
				ownMembers[st.Encoding()] = true
			}
		}
		diffs := cand.VariableDifferences(before)
		res := ex.VerifArchiveResult()
		moved, desirable := ex.VerifChangeAccepted(), ex.VerifChangeIsDesirable()
		returned := ex.VerifLastReturnedToBase() == iterNo
		code, forced := checkIterationReport(c, readIteration(rec.events), res, desirable, moved, returned, comp.Compress(cur).Encoding(), iterNo)
		probStr := "-"
		if !desirable {
			probStr = approxFmt(ex.VerifCoolant().AcceptanceProbability())
		}
		pickEff := 0
		if len(archSrc.log) > 0 {
			pickEff = archSrc.log[0]
		}
		var ob strings.Builder
		fmt.Fprintf(&ob, "iter %s %d", floatBits(unitOf(uNum)), pickEff)
		for _, b := range candBits {
			ob.WriteByte(' ')
			ob.WriteString(b2s(b))
		}
		c.Op(ob.String(), fmt.Sprintf("%s %s %s %s %s %s %s %s", code, b2s(desirable), b2s(moved), b2s(forced), b2s(returned), probStr, diffsStr(diffs), state()))
		if len(diffs) != d {
			c.Fail("C06:change-per-objective", "suppa:changes-not-per-objective", fmt.Sprintf("%d changes for %d objectives", len(diffs), d), nil)
		}
		for k := range diffs {
			if diffs[k] != cand.Variables[k]-before.Variables[k] {
				c.Fail("C06:change-per-objective", "suppa:change-not-candidate-minus-current", fmt.Sprintf("objective %d: %v != %v - %v", k, diffs[k], cand.Variables[k], before.Variables[k]), nil)
			}
		}

		// direct clauses (as in suppa-runs)
		u := unitOf(uNum)
		if desirable != (code == "SN" || code == "SR" || code == "RU") {
			c.Fail("C06:desirability-follows-archive-verdict", "suppa:desirability-wrong", fmt.Sprintf("archive verdict %s but desirable=%v", code, desirable), nil)
		}
		if desirable && !moved {
			c.Fail("C06:desirable-moves", "suppa:desirable-not-moved", "candidate stored / already held but the explorer did not move to it", nil)
		}
		if !desirable {
			checkMetropolis(c, kind == "averaged", diffs, tBefore, ex.VerifCoolant().AcceptanceProbability(), u, moved)
			if aimed {
				c.Stat(fmt.Sprintf("toy draw aimed near p: moved=%v", moved))
			}
			if moved != forced {
				c.Fail("C06:accepted-undesirable-is-forced", "suppa:accepted-not-forced", fmt.Sprintf("moved=%v forced=%v", moved, forced), nil)
			}
		}
		archNow := ex.VerifArchive().Archive()
		// "already holds its action set => moves with certainty": evaluated on the set's CONTENTS before the offer
		held := false
		for _, a := range archBefore {
			if bitsStr(stateBits(a)) == bitsStr(stateBits(cand)) {
				held = true
			}
		}
		if held && (!moved || forced || code != "RU") {
			c.Fail("C06:held-action-set-moves", "suppa:held-action-set-not-certain", fmt.Sprintf("iteration %d: the set held the candidate's action set, verdict %s moved=%v forced=%v", iterNo, code, moved, forced), nil)
		}
		if forced {
			var want []*marchive.CompressedModelState
			for _, a := range archBefore {
				if !refDominates([]float64(a.Variables), []float64(cand.Variables)) {
					want = append(want, a)
				}
			}
			ok := len(archNow) == len(want)+1
			for k := 0; ok && k < len(want); k++ {
				ok = archNow[k] == want[k]
			}
			if !ok || bitsStr(stateBits(archNow[len(archNow)-1])) != bitsStr(stateBits(cand)) {
				c.Fail("C05:force-evicts-exactly-dominators", "suppa:wrong-forced-eviction", fmt.Sprintf("iteration %d: %d members before, %d after, %d survivors expected", iterNo, len(archBefore), len(archNow), len(want)), nil)
			}
		}
		if len(archNow) == 0 {
			c.Fail("C06:solution-set-non-empty", "suppa:archive-empty-after-iteration", fmt.Sprintf("iteration %d", iterNo), nil)
		}
		for i, a := range archNow {
			for j, b := range archNow {
				if i != j && refDominates([]float64(a.Variables), []float64(b.Variables)) {
					c.Fail("C05:archive-non-dominated", "suppa:live-archive-member-dominated", fmt.Sprintf("iteration %d: member %d dominates member %d", iterNo, i, j), nil)
				}
				if i < j && a.Actions.IsEquivalentTo(&b.Actions) {
					c.Fail("C05:archive-no-duplicates", "suppa:live-archive-duplicate", fmt.Sprintf("iteration %d: members %d and %d share an action set", iterNo, i, j), nil)
				}
			}
		}
		curEnc := bitsStr(cur.flags())
		if !returned {
			want := bitsStr(stateBits(before))
			if moved {
				want = bitsStr(stateBits(cand))
			}
			if curEnc != want {
				c.Fail("C06:current-is-candidate-or-unchanged", "suppa:current-solution-wrong", fmt.Sprintf("moved=%v current=%s want=%s", moved, curEnc, want), nil)
			}
		} else {
			member := false
			for _, a := range archNow {
				if bitsStr(stateBits(a)) == curEnc {
					member = true
				}
			}
			if !member {
				c.Fail("C06:return-to-base-is-archive-member", "suppa:return-to-base-not-member", curEnc, nil)
			}
		}
		refCountdown--
		wantReturn := refCountdown == 0
		if wantReturn {
			refStep = math.Max(float64(minRate), refStep*rtbFactor)
			refCountdown = uint64(refStep)
		}
		if wantReturn != returned {
			c.Fail("C06:return-to-base-schedule", "suppa:return-to-base-schedule-wrong", fmt.Sprintf("iteration %d: return-to-base expected=%v happened=%v", iterNo, wantReturn, returned), nil)
		}
		c.Stat(fmt.Sprintf("toy iter res=%s moved=%v returned=%v", code, moved, returned))
		c.Nontrivial(fmt.Sprintf("%s|%s|%v|%v|%s", curEnc, code, moved, returned, strconv.Itoa(len(archNow))))
		ex.CoolDown()
		c.Op("cool", floatBits(ex.VerifCoolant().Temperature()))
	}
	checkReportedArchive(c, ex)
}
