//go:build verif

package main

// engine-raw (property C15): raw requests — arbitrary bytes as bodies, paths matching / not matching the route
// patterns, all content types — before and after a scenario and a solution set are loaded, against the real API
// multiplexer and the real admin multiplexer.  Checked on the Go side for EVERY request: the handler returns (no
// panic), the status is documented, every non-200 answer is the JSON error document, declared JSON is valid JSON.
// Compared with the Lean model: the status (the model takes the classified request: what the harness's own
// generic decoding of the body delivers).

import (
	"bytes"
	"fmt"
	"net/http"
	"os"
	"os/signal"
	"strconv"
	"strings"
	"sync"
	"syscall"
	"time"

	"github.com/LindsayBradford/crem/internal/pkg/server/admin"
	"github.com/LindsayBradford/crem/pkg/logging/loggers"
)

func init() { register("engine-raw", suiteEngineRaw) }

var rawMethods = []string{"GET", "POST", "PUT", "PATCH", "DELETE", "HEAD", "OPTIONS", "TRACE", "CONNECT", "get", "BREW", "P O S T"}

var rawCtypes = []string{"", ctToml, ctJson, ctCsv, "text/plain", "TEXT/CSV", "text/csv ", " text/csv", "text/csv; charset=utf-8",
	"application/json;charset=UTF-8", "application/x-www-form-urlencoded", "multipart/form-data; boundary=x", "*/*", "application/toml, text/csv", "\x00", "é"}

var rawCsvBodies = []string{
	"", "\n", "\r\n", " ", "\xef\xbb\xbfSubCatchment,GullyRestoration\n17,1\n",
	"SubCatchment\n", "SubCatchment,GullyRestoration\n", "SubCatchment,GullyRestoration\r\n", "SubCatchment,GullyRestoration",
	"SubCatchment\n17\n", "SubCatchment\nabc\n", "SubCatchment,GullyRestoration\n17\n", "SubCatchment,GullyRestoration\n17,1,1\n",
	"SubCatchment,GullyRestoration\nabc,1\n", "SubCatchment,GullyRestoration\ntrue,1\n", "SubCatchment,GullyRestoration\n,1\n",
	"SubCatchment,GullyRestoration\n1e999,1\n", "SubCatchment,GullyRestoration\n-1e999,1\n", "SubCatchment,GullyRestoration\nNaN,1\n",
	"SubCatchment,GullyRestoration\n0x11,1\n", "SubCatchment,GullyRestoration\n1_7,1\n", "SubCatchment,GullyRestoration\n17,0x1p0\n",
	"SubCatchment,GullyRestoration\n17,1e0\n17,T\n", "SubCatchment,GullyRestoration\n17,\"1\"\n", "SubCatchment,GullyRestoration\n17,\"1\n",
	"SubCatchment,GullyRestoration\n17,1\"\n", "\"SubCatchment\",\"GullyRestoration\"\n\"17\",\"1\"\n", "SubCatchment,\"Gully\nRestoration\"\n17,1\n",
	"SubCatchment;GullyRestoration\n17;1\n", "SubCatchment\tGullyRestoration\n17\t1\n", "SubCatchment,GullyRestoration\n\n\n17,1\n\n",
	"SubCatchment,GullyRestoration,GullyRestoration\n17,1,0\n", "SubCatchment,SubCatchment\n17,1\n", ",\n,\n", "\x00,\x00\n\x00,\x00\n", "\xff\xfe,\xff\n1,1\n",
	"Solution\n", "Solution\nAs-Is\n", "Solution,Summary\nAs-Is,x\n", "Solution,Actions,Summary\n", "Solution,Actions,Summary\nAs-Is,0,x\n",
	"Solution,Actions,Summary\nfoo,0,x\n", "Solution,Actions,Summary\nfoo,0,x\nbar,zz,x\n", "Solution,Actions,Summary\nfoo,0,x\nbar,1F,42\n",
	"Solution,Actions,Summary\nfoo,0,x\nbar,1F,true\n", "Solution,Actions,Summary\n17,0,x\n1e3,1F,y\n", "Actions,Summary\n0,x\n",
	"Solution,X,Actions,Summary\nfoo,1,0,x\nbar,abc,1F,y\n", "Solution,Actions,Summary\nAs-Is,0,x\nAs-Is,0,x\n",
}

var rawJsonBodies = []string{
	"", " ", "null", "true", "0", "1e999", "\"x\"", "{}", "[]", "[[]]", "[{}]", "[null]", "[1]", "[\"x\"]", "{\"Name\":\"Encoding\",\"Value\":\"1F\"}",
	"[{\"Name\":\"Encoding\"}]", "[{\"Name\":\"Encoding\",\"Value\":null}]", "[{\"Name\":\"Encoding\",\"Value\":5}]", "[{\"Name\":\"Encoding\",\"Value\":1e999}]",
	"[{\"Name\":\"Encoding\",\"Value\":[\"1F\"]}]", "[{\"Name\":\"Encoding\",\"Value\":{\"x\":1}}]", "[{\"Name\":\"Encoding\",\"Value\":true}]",
	"[{\"Name\":\"Encoding\",\"Value\":\"\"}]", "[{\"Name\":\"Encoding\",\"Value\":\":\"}]", "[{\"Name\":\"Encoding\",\"Value\":\"FFFFFFFFFFFFFFFFF\"}]",
	"[{\"Name\":\"Encoding\",\"Value\":\"1F\"},{\"Name\":\"Encoding\",\"Value\":7}]", "[{\"Name\":5,\"Value\":1}]", "[{\"Name\":null,\"Value\":1}]",
	"[{\"name\":\"x\",\"value\":1,\"extra\":2}]", "[{\"Name\":\"x\",\"Name\":\"y\",\"Value\":1}]", "[{\"Name\":\"x\",\"Value\":1},]", "[{\"Name\":\"x\",\"Value\":1}] trailing",
	"[{\"Name\":\"\\ud800\",\"Value\":\"\\u0000\"}]", "[{\"Name\":\"\xff\xfe\",\"Value\":\"\xc3\x28\"}]", "\xef\xbb\xbf[]",
	"[{\"Name\":\"RiverBankRestoration\",\"Value\":\"Active\"}]", "[{\"Name\":\"RiverBankRestoration\",\"Value\":1}]", "[{\"Name\":\"RiverBankRestoration\",\"Value\":null}]",
	"[{\"Name\":\"RiverBankRestoration\",\"Value\":[\"Active\"]}]", "[{\"Name\":\"RiverBankRestoration\",\"Value\":{\"a\":\"Active\"}}]", "[{\"Name\":\"RiverBankRestoration\",\"Value\":true}]",
	"[{\"Name\":\"RiverBankRestoration\"}]", "[{\"Value\":\"Active\"}]", "[{\"Name\":\"RiverBankRestoration\",\"Value\":\"ACTIVE\"}]",
	"[{\"Name\":\"GullyRestoration\",\"Value\":\"Active\"},{\"Name\":\"GullyRestoration\",\"Value\":2}]",
	strings.Repeat("[", 200) + strings.Repeat("]", 200), "[{\"Name\":\"x\",\"Value\":" + strings.Repeat("9", 400) + "}]", "[{\"Name\":\"x\",\"Value\":-0.0}]",
}

var rawTomlBodies = []string{
	"", "\n", "#", "x", "[", "[Scenario]", "[Scenario]\nName = 5", "[Scenario]\nName = \"x\"", "[Scenario]\nName = \"x\"\n[Model]\nType = 7",
	"[Scenario]\nName = \"x\"\n[Model]\nType = \"CatchmentModel\"", "[Scenario]\nName = \"x\"\n[Model]\nType = \"CatchmentModel\"\n[Model.Parameters]\nDataSourcePath = 5",
	"[Scenario]\nName = \"x\"\n[Model]\nType = \"CatchmentModel\"\n[Model.Parameters]\nDataSourcePath = \"\"",
	"[Scenario]\nName = \"x\"\n[Model]\nType = \"CatchmentModel\"\n[Model.Parameters]\nDataSourcePath = \"ds\"",
	"[Scenario]\nName = \"x\"\n[Model]\nType = \"CatchmentModel\"\n[Model.Parameters]\nDataSourcePath = \"ds/valid/ValidActions.csv\"",
	"[Scenario]\nName = \"x\"\n[Model]\nType = \"CatchmentModel\"\n[Model.Parameters]\nDataSourcePath = \"ds/valid/ValidModel.csv\"\nNoSuchParameter = 1",
	"[Scenario]\nName = \"x\"\n[Model]\nType = \"CatchmentModel\"\n[Model.Parameters]\nDataSourcePath = \"ds/valid/ValidModel.csv\"\nMaximumImplementationCost = \"lots\"",
	"[Scenario]\nName = \"x\"\n[Model]\nType = \"CatchmentModel\"\n[Model.Parameters]\nDataSourcePath = \"ds/valid/ValidModel.csv\"\nMaximumImplementationCost = -1.0",
	"[Scenario]\nName = \"x\"\n[Model]\nType = \"CatchmentModel\"\n[Model.Parameters]\nDataSourcePath = \"ds/broken-noactions/bModel.csv\"",
	"[Scenario]\nName = \"x\"\n[Model]\nType = \"CatchmentModel\"\n[Model.Parameters]\nDataSourcePath = \"ds/broken-nosubs/bModel.csv\"",
	"[Scenario]\nName = \"x\"\n[Model]\nType = \"CatchmentModel\"\n[Model.Parameters]\nDataSourcePath = \"ds/broken-nogullies/bModel.csv\"",
	"[Scenario]\nName = \"x\"\n[Model]\nType = \"CatchmentModel\"\n[Model.Parameters]\nDataSourcePath = \"ds/broken-missingfile/bModel.csv\"",
	"[Scenario]\nName = \"x\"\n[Model]\nType = \"CatchmentModel\"\n[Model.Parameters]\nDataSourcePath = \"ds/broken-headeronly/bModel.csv\"",
	"[Scenario]\nName = \"x\"\n[Model]\nType = \"CatchmentModel\"\n[Model.Parameters]\nDataSourcePath = \"ds/broken-emptymeta/bModel.csv\"",
	"[Scenario]\nName = \"x\"\n[Model]\nType = \"DumbModel\"", "[Scenario]\nName = \"x\"\n[Model]\nType = \"NullModel\"", "[Scenario]\nName = \"x\"\n[Model]\nType = \"MultiObjectiveDumbModel\"",
	"Name = \"x\"", "[Scenario]\nName = \"x\"\n[Scenario]\nName = \"y\"", "\xff\xfe", "\x00", "{\"json\":true}", "a,b\n1,2\n",
	// the rest of the TOML grammar, complete and cut short (BurntSushi/toml v0.3.1 reports some of these by PANICKING with an
	// internal "BUG: ..." text instead of returning an error: an inline table left open before a comment)
	"x={ a = 1 # c", "x = { a = 1 # c\n", "[Scenario]\nName = \"x\"\nx={ a = 1 # c", "[Scenario]\nName = \"x\"\n[Model]\nType = \"CatchmentModel\"\n[Model.Parameters]\nx = { a = 1 # c",
	"x = {", "x = { a = 1", "x = { a = 1,", "x = { a = 1 }", "x = { a = { b = { c = 1 # d", "x = [1, 2", "x = [1, # c", "x = [1, # c\n 2]", "x = [[1], [", "x = \"\"\"abc", "x = '''abc", "x = \"a\\",
	"x = 1979-05-27T07:32:00Z", "x = 1979-05-27T07:32:0", "a.b.c = 1", "[[Scenario]]\nName = \"x\"", "[Scenario]\nName = \"\\uD800\"", "x = 1_000", "x = +inf", "x = 0x", "x = 1e", "x = .5",
	"[a.b]\n[a]\n[a.b]", "x = 1\nx = 2", "[Scenario\nName = \"x\"", "[Scenario]]\n", "[]", "[.]", "= 1", "x = # c", "x = { # c\n a = 1 }", "x = {a=1}}", "[Scenario]\nName = { first = \"x\" # c",
}

func mutateBytes(r *Rng, b []byte) []byte {
	out := append([]byte(nil), b...)
	n := 1 + r.Intn(3)
	for i := 0; i < n; i++ {
		switch r.Intn(7) {
		case 0:
			if len(out) > 0 {
				out = out[:r.Intn(len(out))]
			}
		case 1:
			if len(out) > 0 {
				out[r.Intn(len(out))] = byte(r.Intn(256))
			}
		case 2:
			if len(out) > 0 {
				p := r.Intn(len(out))
				out = append(out[:p], out[p+1:]...)
			}
		case 3:
			p := r.Intn(len(out) + 1)
			ins := []string{",", "\n", "\"", "%", "\x00", "\xff", "1e999", "[", "}", "null", " ", ":", "é"}[r.Intn(13)]
			out = append(out[:p], append([]byte(ins), out[p:]...)...)
		case 4:
			if len(out) > 1 {
				p := r.Intn(len(out))
				q := p + r.Intn(len(out)-p)
				out = append(out[:q], append(append([]byte(nil), out[p:q]...), out[q:]...)...)
			}
		case 5:
			out = bytes.ToUpper(out)
		case 6:
			out = append(out, out...)
		}
		if len(out) > 20000 {
			out = out[:20000]
		}
	}
	return out
}

func rawPath(r *Rng, g *engGen, h *seqRun) string {
	known := []string{pScenario, pSolutions, pModel, pActive, pApplicable, pSubPrefix + g.subId(h), "/api/v1/solutions/" + g.solutionLabel(h), "/"}
	switch d := r.Intn(100); {
	case d < 70:
		return known[r.Intn(len(known))]
	case d < 80:
		return otherPaths[r.Intn(len(otherPaths))]
	case d < 86:
		return pSubPrefix + []string{"123456789012345678901234567890", "9223372036854775808", "18446744073709551616", "00000000000000000000000000000017",
			"99999999999999999999", strings.Repeat("7", 300)}[r.Intn(6)]
	case d < 90:
		return "/api/v1/solutions/" + []string{"a_b-c", "--", "__", strings.Repeat("x", 500), "1-of-8", "As-Is", "a.b", "a%20b", "é", ""}[r.Intn(10)]
	default:
		p := known[r.Intn(len(known))]
		return string(mutateBytes(r, []byte(p)))
	}
}

func (g *engGen) rawReq(h *seqRun) rawReq {
	r := g.r
	// half of the time: a structured request of engine-seq, possibly damaged; otherwise assembled from raw parts
	if r.Chance(0.45) {
		q := g.next(h)
		switch r.Intn(4) {
		case 0:
			q.body = mutateBytes(r, q.body)
		case 1:
			q.ctype = rawCtypes[r.Intn(len(rawCtypes))]
		case 2:
			q.method = rawMethods[r.Intn(len(rawMethods))]
		}
		return q
	}
	q := rawReq{method: rawMethods[r.Intn(len(rawMethods))], path: rawPath(r, g, h), ctype: rawCtypes[r.Intn(len(rawCtypes))]}
	kind, _ := classifyPathGo(q.path)
	// steer method and content type towards the handler's write path most of the time, so that the body is looked at
	if r.Chance(0.75) {
		switch kind {
		case pkScenario:
			q.method, q.ctype = "POST", ctToml
		case pkSolutions:
			q.method, q.ctype = "POST", ctCsv
		case pkModel:
			q.method, q.ctype = "PATCH", ctJson
		case pkActive:
			q.method, q.ctype = "PUT", ctCsv
		case pkSub:
			q.method, q.ctype = "PUT", ctJson
		}
	}
	var pool []string
	switch kind {
	case pkScenario:
		pool = rawTomlBodies
	case pkSolutions, pkActive:
		pool = rawCsvBodies
	case pkModel, pkSub:
		pool = rawJsonBodies
	default:
		pool = [][]string{rawTomlBodies, rawCsvBodies, rawJsonBodies}[r.Intn(3)]
	}
	if r.Chance(0.1) {
		pool = [][]string{rawTomlBodies, rawCsvBodies, rawJsonBodies}[r.Intn(3)] // a body of the wrong family
	}
	q.body = []byte(pool[r.Intn(len(pool))])
	if r.Chance(0.2) {
		q.body = mutateBytes(r, q.body)
	}
	if r.Chance(0.03) {
		n := 1 + r.Intn(64)
		q.body = make([]byte, n)
		for i := range q.body {
			q.body[i] = byte(r.Intn(256))
		}
	}
	return q
}

// establish brings a fresh engine into one of the three phases with ordinary (recorded) requests.
func (g *engGen) establish(h *seqRun, phase int) {
	if phase == 0 {
		return
	}
	sc := g.scs[g.r.Intn(len(g.scs))]
	lim := map[string]float64{}
	if sc.limVar >= 0 {
		lim[varMaxKey[sc.limVar]] = sc.limit
	}
	h.exec(rawReq{method: "POST", path: pScenario, ctype: ctToml, body: []byte(scenarioText("raw", "CatchmentModel", sc.dsRel, lim, ""))})
	if phase >= 2 && !h.dead {
		rows := [][]bool{g.randomBits(sc.n()), g.randomBits(sc.n())}
		h.exec(rawReq{method: "POST", path: pSolutions, ctype: ctCsv, body: fullSolutionsCsv(sc, rows)})
	}
}

// fullSolutionsCsv renders a solution summary the engine accepts for the scenario (variable values of the reference model).
func fullSolutionsCsv(sc *engScenario, rows [][]bool) []byte {
	var sb strings.Builder
	sb.WriteString("Solution")
	for _, v := range sc.asIs {
		sb.WriteString("," + v.name)
	}
	sb.WriteString(",Actions,Summary\nAs-Is")
	for _, v := range sc.asIs {
		sb.WriteString("," + strconv.FormatFloat(v.val, 'f', -1, 64))
	}
	sb.WriteString("," + engEncode(make([]bool, sc.n())) + ",As-is state\n")
	for i, bits := range rows {
		t := sc.totalsAt(bits)
		byName := map[string]float64{}
		for vi, nme := range varNames {
			byName[nme] = t[vi]
		}
		fmt.Fprintf(&sb, "%d-of-%d", i+1, len(rows))
		for _, v := range sc.asIs {
			sb.WriteString("," + strconv.FormatFloat(byName[v.name], 'f', 3, 64))
		}
		fmt.Fprintf(&sb, ",%s,member %d\n", engEncode(bits), i+1)
	}
	return []byte(sb.String())
}

// ---------------------------------------------------------------- admin multiplexer

type adminRun struct {
	c          *Ctx
	mux        *admin.Mux
	down       bool
	ops        []string
	waiterDone chan struct{} // closed when WaitForShutdownSignal has returned: from then on nothing receives the shutdown signal
	listeners  int           // goroutines parked in WaitForShutdownSignal's signal listener before this multiplexer's was started
	signalled  bool
}

// reset starts a fresh admin multiplexer the way RestServer does (status DEAD from the configuration, RUNNING from Start).
func (a *adminRun) reset() {
	mux := new(admin.Mux).Initialise()
	mux.SetLogger(loggers.NewNullLogger())
	mux.Status = admin.ServiceStatus{ServiceName: "verif", Version: "0", Status: "DEAD"}
	a.attach(mux)
	a.ops = []string{"reset"}
	a.c.Op("reset", "ok")
}

// attach takes over a multiplexer (engine-conc: the RestServer's own) and does what RestServer.Start does around
// serving it: the status becomes RUNNING and the one shutdown waiter of a server's life waits for the signal.
func (a *adminRun) attach(mux *admin.Mux) {
	a.mux = mux
	a.down = false
	a.signalled = false
	a.listeners = goroutinesBlocked("", "chan receive", signalListenerFrame)
	a.mux.SetStatus("RUNNING")
	wd := make(chan struct{})
	a.waiterDone = wd
	go func() {
		mux.WaitForShutdownSignal()
		close(wd)
	}()
}

func (a *adminRun) waiterGone() bool {
	select {
	case <-a.waiterDone:
		return true
	default:
		return false
	}
}

// adminFallback is how long a handler may stay silent without being provably stuck before that alone is a failure: the
// handlers take microseconds, the margin is for a machine that is busy with other things.
const adminFallback = 60 * time.Second

var sigintGuard sync.Once

// interrupt delivers an operating system interrupt to the process, as a console's Ctrl-C does: the other way to end a
// server's life (WaitForShutdownSignal's listener).  Protocol line `admin - SIGINT =`; the model's state does not change
// (the status stays what it was).  Nothing here is judged by the clock: if the listener cannot be seen waiting, or the
// waiter does not return, the step is skipped / only noted.
func (a *adminRun) interrupt() string {
	if a.signalled {
		return ""
	}
	// the process must not die of the signal, whoever else listens
	sigintGuard.Do(func() { signal.Notify(make(chan os.Signal, 1), os.Interrupt) })
	deadline := time.Now().Add(5 * time.Second) // decides no verdict: the step is skipped if the listener is not seen
	for goroutinesBlocked("", "chan receive", signalListenerFrame) <= a.listeners {
		if time.Now().After(deadline) {
			a.c.Stat("admin SIGINT skipped: listener not seen waiting")
			return ""
		}
		time.Sleep(2 * time.Millisecond)
	}
	a.signalled = true
	syscall.Kill(os.Getpid(), syscall.SIGINT)
	select {
	case <-a.waiterDone:
	case <-time.After(adminFallback):
		a.c.Note("admin: WaitForShutdownSignal did not return after an interrupt")
	}
	// every listener still around (those of earlier multiplexers too) has received the signal: let them all finish, so
	// that the next multiplexer's count of waiting listeners starts from a settled number
	for deadline = time.Now().Add(5 * time.Second); goroutinesBlocked("", "chan receive", signalListenerFrame) > 0 && time.Now().Before(deadline); {
		time.Sleep(2 * time.Millisecond)
	}
	line := "admin - SIGINT ="
	a.ops = append(a.ops, line)
	a.c.Op(line, "signalled")
	a.c.Stat("admin SIGINT")
	return "signalled"
}

// exec sends one request and returns the canonical answer ("" if the handler did not return).
func (a *adminRun) exec(method, path string) string {
	if method == "SIGINT" && path == "" {
		return a.interrupt()
	}
	q := rawReq{method: method, path: path}
	done := make(chan engResp, 1)
	gid := make(chan string, 1)
	go func() {
		gid <- goroutineName()
		done <- serve(a.mux, q)
	}()
	id := <-gid
	var resp engResp
	mOp := method
	if strings.ContainsAny(mOp, " \n\r") || mOp == "" {
		mOp = "?"
	}
	pending := append(append([]string(nil), a.ops...), "admin - "+mOp+" "+escTok(path)) // the replay context of a request that does not return
	started := time.Now()
	wait := 2 * time.Millisecond
waiting:
	for {
		select {
		case resp = <-done:
			break waiting
		case <-time.After(wait):
		}
		if wait < 200*time.Millisecond {
			wait *= 2
		}
		// "The handler returns" is decided structurally, not by the clock: the handler's goroutine is parked in a channel
		// send inside shutdownHandler (under the multiplexer's request lock), and the only receiver there ever is — the
		// shutdown waiter — has returned.  Nothing can wake it (closing the channel under it would be a panic).
		if a.waiterGone() && goroutineBlocked(id, "chan send", shutdownHandlerFrame) {
			a.c.Fail("C15:handler-returns", "engine:admin-handler-blocks",
				fmt.Sprintf("admin %s %s never returns: its goroutine is parked in a channel send inside admin.(*Mux).shutdownHandler, holding the multiplexer's request lock, and the only receiver (WaitForShutdownSignal) returned after the first shutdown request; every later admin request waits for that lock", method, path),
				pending)
			a.c.Stat("admin handler blocked (structural)")
			a.reset()
			return ""
		}
		if time.Since(started) > adminFallback {
			a.c.Fail("C15:handler-returns", "engine:admin-handler-blocks", fmt.Sprintf("admin %s %s did not return within %v (no parked channel send was seen)", method, path, adminFallback), pending)
			a.reset()
			return ""
		}
	}
	obs := "-"
	co := canonAdmin(q, resp)
	tok := co.tok
	if resp.panicked != "" {
		obs = "panic"
		a.c.Fail("C15:no-panic", "engine:panic:admin:"+resp.site, fmt.Sprintf("%s %s panicked: %s", method, path, resp.panicked), pending)
	}
	for _, n := range co.notes {
		a.c.Fail("C15:"+n, "engine:"+n, fmt.Sprintf("admin %s %s", method, path), nil)
	}
	switch resp.status {
	case -1, 200, 400, 404, 405, 415, 500, 503:
	default:
		a.c.Fail("C15:status-documented", "engine:undocumented-status", fmt.Sprintf("admin %s %s -> %d", method, path, resp.status), nil)
	}
	m := method
	if strings.ContainsAny(m, " \n\r") || m == "" {
		m = "?"
	}
	line := "admin " + obs + " " + m + " " + escTok(path)
	a.ops = append(a.ops, line)
	a.c.Op(line, tok)
	a.c.Stat(fmt.Sprintf("admin %s %s | %s", m, path, tok))
	a.c.Nontrivial(fmt.Sprintf("admin %s %s %s %v", m, path, tok, a.down))
	if path == "/shutdown" && method == "POST" && resp.status == 200 {
		if a.down {
			a.c.Stat("admin: shutdown requested again")
		}
		a.down = true
	}
	if resp.panicked != "" {
		a.reset()
	}
	return tok
}

func driveAdmin(c *Ctx, r *Rng, rounds int) {
	a := &adminRun{c: c}
	paths := []string{"/status", "/shutdown", "/", "/status/", "/Status", "/shutdown/now", "/api/v1/model", "status", ""}
	for i := 0; i < rounds; i++ {
		a.reset()
		n := 3 + r.Intn(10)
		for j := 0; j < n; j++ {
			a.exec(rawMethods[r.Intn(len(rawMethods))], paths[r.Intn(len(paths))])
			if r.Chance(0.3) {
				a.exec("GET", "/status")
			}
			if r.Chance(0.15) {
				a.exec("POST", "/shutdown")
			}
			if r.Chance(0.05) {
				a.exec("SIGINT", "")
			}
		}
	}
	_ = http.StatusOK
}

// ---------------------------------------------------------------- the suite

func suiteEngineRaw(c *Ctx) {
	cat := newEngCatalogue(c.Out)
	if c.Replay != "" {
		replayEngine(c, cat, true)
		return
	}
	q, _ := calibrate(cat)
	c.extra["engine_variant_observed"] = q.line()
	c.Op(q.line(), "ok")
	run := newSeqRun(c, cat, q)
	run.raw = true
	g := &engGen{r: c.Rng.Fork(), cat: cat, q: q}
	g.scs = engineScenarios(c, cat, g.r, c.N(1, 3))
	nSeq := c.N(260, 1500)
	for i := 0; i < nSeq; i++ {
		run.reset()
		phase := i % 3
		g.establish(run, phase)
		n := 10 + g.r.Intn(25)
		for j := 0; j < n; j++ {
			if run.dead {
				// a panic (reported) ends the life of that engine: start over in the same phase
				run.reset()
				g.establish(run, phase)
				if run.dead {
					break
				}
			}
			run.exec(g.rawReq(run))
		}
		c.Stat("sequences phase " + strconv.Itoa(phase))
	}
	driveAdmin(c, g.r, c.N(40, 300))
}
