//go:build verif

package main

// Suite anneal-trace (property C07): the REAL SimpleAnnealer / ElapsedTimeTrackingAnnealer
// run with
//   - an explorer that records every call the annealer makes on it (Initialise,
//     TryRandomChange, CoolDown, TearDown) and can panic at a chosen call (before the real call,
//     for CoolDown also AFTER it: the temperature is then already cooled; in TearDown; while the
//     attributes of the finish event are built), wrapped around
//     crem's null explorer, the Kirkpatrick explorer over the dumb model, and the Suppapitnarm
//     explorer over the multi-objective dumb model with either multi-objective coolant
//     (= the three annealer types crem's configuration can build);
//   - 0..4 observers: passive recorders (one of which may panic in its callback at one of the four
//     notify points), and crem's own AnnealingMessageObserver / AnnealingAttributeObserver with
//     Annealing logging switched on, in any position.  All recorders of a case also write one
//     shared sequence log (who was called with what, in call order), compared with the model's
//     `deliveries`.
// One protocol line per run (the merged trace of explorer calls and of the events the
// first-position recorder received, outcome, final counter and temperature) plus one line per
// recorder (what that observer received).  The Lean driver evaluates the model of
// Crem/Model/Anneal.lean with Float temperatures (same sequential multiplications).

import (
	"sync"
	cremerrors "github.com/LindsayBradford/crem/pkg/errors"
	"errors"
	pkgerrors "github.com/pkg/errors"
	"fmt"
	"math"
	"strconv"
	"strings"

	"github.com/LindsayBradford/crem/internal/pkg/annealing"
	"github.com/LindsayBradford/crem/internal/pkg/annealing/annealers"
	"github.com/LindsayBradford/crem/internal/pkg/annealing/cooling/coolants/averaged"
	coolingSuppapitnarm "github.com/LindsayBradford/crem/internal/pkg/annealing/cooling/coolants/suppapitnarm"
	"github.com/LindsayBradford/crem/internal/pkg/annealing/explorer"
	"github.com/LindsayBradford/crem/internal/pkg/annealing/explorer/kirkpatrick"
	"github.com/LindsayBradford/crem/internal/pkg/annealing/explorer/null"
	"github.com/LindsayBradford/crem/internal/pkg/annealing/explorer/suppapitnarm"
	annealingObserver "github.com/LindsayBradford/crem/internal/pkg/annealing/observer"
	"github.com/LindsayBradford/crem/internal/pkg/annealing/observer/filters"
	"github.com/LindsayBradford/crem/internal/pkg/model"
	"github.com/LindsayBradford/crem/internal/pkg/model/archive"
	"github.com/LindsayBradford/crem/internal/pkg/model/models/catchment"
	"github.com/LindsayBradford/crem/internal/pkg/model/models/dumb"
	"github.com/LindsayBradford/crem/internal/pkg/model/models/modumb"
	"github.com/LindsayBradford/crem/internal/pkg/observer"
	"github.com/LindsayBradford/crem/internal/pkg/parameters"
	"github.com/LindsayBradford/crem/pkg/attributes"
	"github.com/LindsayBradford/crem/pkg/logging"
	"github.com/LindsayBradford/crem/pkg/logging/formatters"
	"github.com/LindsayBradford/crem/pkg/logging/loggers"
)

func init() { register("anneal-trace", suiteAnneal) }

// ---------------------------------------------------------------- recording explorer

type hookExplorer struct {
	explorer.Explorer // the explorer under it (real crem code)
	log               *[]string
	site              string // none | init | try | cool | coola | fattr | down (observer sites live in the recorders)
	at                int
	asError           bool
	errKind           int // which kind of error value (injectedError)
	iter              int
	finalState        string // the explorer's result as it stands when TearDown is entered
	mute              bool
}

// injectedError: the error values a failing iteration may panic with - a plain one, one of github.com/pkg/errors (which carries
// a stack), wrapped ones of both libraries (they have a cause chain): the annealer re-raises every one of them
func injectedError(kind int) error {
	switch kind % 5 {
	case 1:
		return pkgerrors.New("injected failure")
	case 2:
		return pkgerrors.Wrap(errors.New("injected failure"), "while exploring")
	case 3:
		return fmt.Errorf("while exploring: %w", errors.New("injected failure"))
	case 4:
		return pkgerrors.WithStack(pkgerrors.WithMessage(errors.New("injected failure"), "while exploring"))
	}
	return errors.New("injected failure")
}

func (h *hookExplorer) raise() {
	if h.asError {
		panic(injectedError(h.errKind))
	}
	panic("injected failure")
}

func (h *hookExplorer) boom(site string) {
	if h.site == site && (site == "init" || site == "fattr" || site == "down" || h.iter == h.at) {
		h.raise()
	}
}
func (h *hookExplorer) Initialise() {
	*h.log = append(*h.log, "I")
	h.iter = 0
	h.boom("init")
	h.Explorer.Initialise()
}
func (h *hookExplorer) TearDown() {
	*h.log = append(*h.log, "D")
	h.finalState = explorerResult(h.Explorer)
	h.Explorer.TearDown()
	h.boom("down")
}
func (h *hookExplorer) TryRandomChange() {
	h.iter++
	*h.log = append(*h.log, "t")
	h.boom("try")
	h.Explorer.TryRandomChange()
}
func (h *hookExplorer) CoolDown() {
	*h.log = append(*h.log, "c")
	h.boom("cool")
	h.Explorer.CoolDown()
	h.boom("coola") // Go's explorers cool first and notify afterwards: a panic out of that notification
}

// EventAttributes: the finish event's attributes are where the explorer compresses its model / hands out
// its archive (kirkpatrick fetchFinalCompressedModel); a panic there happens before any observer is called.
func (h *hookExplorer) EventAttributes(eventType observer.EventType) attributes.Attributes {
	if h.mute {
		return nil // the harness reads the annealer's own attributes (the counter) between runs
	}
	if eventType == observer.FinishedAnnealing {
		h.boom("fattr")
	}
	return h.Explorer.EventAttributes(eventType)
}
// a clone of the hooked explorer is a clone of the REAL explorer inside it (no hook: a sibling run is not the run under test)
func (h *hookExplorer) DeepClone() explorer.Explorer { return h.Explorer.DeepClone() }

// ---------------------------------------------------------------- the result a finish event carries

func compressedSummary(c *archive.CompressedModelState) string {
	v := make([]string, len(c.Variables))
	for i, x := range c.Variables {
		v[i] = bitsOrNaN(x)
	}
	return c.Encoding() + "|" + strings.Join(v, " ")
}

func archiveSummary(a *archive.NonDominanceModelArchive) string {
	members := a.Archive()
	m := make([]string, len(members))
	for i, c := range members {
		m[i] = compressedSummary(c)
	}
	return fmt.Sprintf("%d members: %s", len(members), strings.Join(m, "; "))
}

// explorerResult: what the explorer holds as its result right now, in the form resultOfFinishEvent gives:
// the compressed current model (Kirkpatrick) or the solution archive (Suppapitnarm); "" for the null explorer.
func explorerResult(e explorer.Explorer) (s string) {
	defer func() {
		if r := recover(); r != nil {
			s = fmt.Sprint("panic: ", r)
		}
	}()
	switch x := e.(type) {
	case *kirkpatrick.Explorer:
		if x.Model() == nil {
			return ""
		}
		return compressedSummary(new(archive.ModelCompressor).Compress(x.Model()))
	case *suppapitnarm.Explorer:
		return archiveSummary(x.VerifArchive())
	}
	return ""
}

func resultOfFinishEvent(e observer.Event) (string, bool) {
	for _, a := range e.AllAttributes() {
		switch a.Name {
		case "CompressedModel":
			switch v := a.Value.(type) {
			case archive.CompressedModelState:
				return compressedSummary(&v), true
			case *archive.CompressedModelState:
				return compressedSummary(v), true
			}
			return fmt.Sprintf("unexpected type %T", a.Value), true
		case "ModelArchive":
			switch v := a.Value.(type) {
			case archive.NonDominanceModelArchive:
				return archiveSummary(&v), true
			case *archive.NonDominanceModelArchive:
				return archiveSummary(v), true
			}
			return fmt.Sprintf("unexpected type %T", a.Value), true
		}
	}
	return "", false
}

// ---------------------------------------------------------------- recording observer

type annealEvent struct {
	kind      byte // S s f F
	hasIter   bool
	iter      uint64
	hasTemp   bool
	temp      float64
	hasMax    bool
	max       uint64
	attrs     string // attribute names as received (diagnostics)
	hasResult bool   // finish event: the CompressedModel / ModelArchive attribute, summarised when received
	result    string
}

type seqEntry struct {
	observer int
	event    annealEvent
}

type traceRecorder struct {
	index  int
	merged *[]string   // non-nil for the recorder in first position: joins the explorer-call log
	log    *[]string   // the explorer-call log (a panicking recorder leaves its marker there)
	seq    *[]seqEntry // one log shared by all recorders of the case: who was called with what, in call order
	events []annealEvent
	// injected panic: in the callback for event kind panicKind (0 = never) of iteration panicAt of this Anneal() call
	panicKind    byte
	panicAt      int
	asError      bool
	errKind      int
	iterThisCall int
}

func (r *traceRecorder) ObserveEvent(e observer.Event) {
	var k byte
	switch e.EventType {
	case observer.StartedAnnealing:
		k = 'S'
	case observer.StartedIteration:
		k = 's'
	case observer.FinishedIteration:
		k = 'f'
	case observer.FinishedAnnealing:
		k = 'F'
	default:
		return // explorer / model chatter forwarded by the annealer
	}
	ev := annealEvent{kind: k}
	names := []string{}
	for _, a := range e.AllAttributes() {
		names = append(names, a.Name)
		switch a.Name {
		case "CurrentIteration":
			if !ev.hasIter {
				ev.iter, ev.hasIter = a.Value.(uint64)
			}
		case "MaximumIterations":
			if !ev.hasMax {
				ev.max, ev.hasMax = a.Value.(uint64)
			}
		case "Temperature":
			if !ev.hasTemp {
				ev.temp, ev.hasTemp = a.Value.(float64)
			}
		}
	}
	if k == 'F' {
		ev.result, ev.hasResult = resultOfFinishEvent(e)
	}
	ev.attrs = strings.Join(names, ",")
	r.events = append(r.events, ev)
	if r.seq != nil {
		*r.seq = append(*r.seq, seqEntry{r.index, ev})
	}
	if r.merged != nil {
		*r.merged = append(*r.merged, ev.token(true))
	}
	switch k {
	case 'S':
		r.iterThisCall = 0
	case 's':
		r.iterThisCall++
	}
	if r.panicKind == k && (k == 'S' || k == 'F' || r.iterThisCall == r.panicAt) {
		*r.log = append(*r.log, fmt.Sprintf("!%d", r.index))
		if r.asError {
			panic(injectedError(r.errKind))
		}
		panic("injected failure")
	}
}

func (e annealEvent) token(withIter bool) string {
	t := "-"
	if e.hasTemp {
		t = bitsOrNaN(e.temp)
	}
	if e.kind == 'S' || !withIter {
		return string(e.kind) + ":" + t
	}
	if !e.hasIter {
		return string(e.kind) + "?:" + t
	}
	return string(e.kind) + strconv.FormatUint(e.iter, 10) + ":" + t
}

func traceTokens(evs []annealEvent, withIter bool) string {
	if len(evs) == 0 {
		return "-"
	}
	s := make([]string, len(evs))
	for i, e := range evs {
		s[i] = e.token(withIter)
	}
	return strings.Join(s, ",")
}

type sinkWriter struct{ n int }

func (s *sinkWriter) Write(p []byte) (int, error) { s.n += len(p); return len(p), nil }

func annealingLogger(sink *sinkWriter) logging.Logger {
	l, _ := new(loggers.Builder).ForBareBonesLogHandler().
		WithFormatter(new(formatters.RawMessageFormatter)).
		WithLogLevelDestination(annealingObserver.AnnealingLogLevel, sink).
		WithLogLevelDestination(model.LogLevel, sink).
		WithLogLevelDestination(logging.INFO, sink).
		WithLogLevelDestination(logging.WARN, sink).
		WithLogLevelDestination(logging.ERROR, sink).
		Build()
	return l
}

// ---------------------------------------------------------------- one case

type annealCase struct {
	annealer string // simple | elapsed
	expl     string // null | kirk | kirki | supp | avg (dumb models) | kirkc | suppc (the real catchment model)
	N        int
	T0, a    float64
	// site: none | init | try | cool (before the real CoolDown) | coola (after it) | fattr (finish attributes) |
	// down (TearDown) | obsS obss obsf obsF (observer number obs panics in its callback at that notify point)
	site    string
	at      int // iteration of this Anneal() call (try cool coola obss obsf)
	obs     int // position of the panicking recorder in the line-up (obs* sites)
	asError bool
	lineup  string // R = passive recorder, M = crem message observer, A = crem attribute observer
	modulo  uint64
	wired   bool // explorer and model events forwarded through the annealer, as scenario.Runner wires them
	reruns  int
	asFirst bool // observers registered back to front with AddObserverAsFirst (same resulting order)
}

func (ac annealCase) hasTemp() bool { return ac.expl != "null" }

func (ac annealCase) observerSite() bool { return strings.HasPrefix(ac.site, "obs") }

func (ac annealCase) siteTok() string {
	switch ac.site {
	case "init":
		return "init"
	case "try", "cool":
		return fmt.Sprintf("%s:%d", ac.site, ac.at)
	case "coola":
		return fmt.Sprintf("coolafter:%d", ac.at)
	case "fattr":
		return "fattr"
	case "down":
		return "teardown"
	case "obsS", "obsF":
		return fmt.Sprintf("%s:%d", ac.site, ac.obs)
	case "obss", "obsf":
		return fmt.Sprintf("%s:%d:%d", ac.site, ac.at, ac.obs)
	}
	return "none"
}

// siteFires: is the injected panic reached by an Anneal() call entered with counter cur0?
func (ac annealCase) siteFires(cur0 int) bool {
	switch ac.site {
	case "init", "fattr", "down":
		return true
	case "obsS", "obsF":
		return ac.obs < len(ac.lineup)
	case "try", "cool", "coola", "obss", "obsf":
		if strings.HasPrefix(ac.site, "obs") && ac.obs >= len(ac.lineup) {
			return false
		}
		return ac.at >= 1 && ((cur0 < ac.N && ac.at <= ac.N-cur0) || (cur0 >= ac.N && ac.N > 0 && ac.at == 1))
	}
	return false
}

func buildInnerExplorer(kind string) explorer.Explorer {
	switch kind {
	case "kirk", "kirki", "kirkc":
		return kirkpatrick.New()
	case "supp", "suppc":
		return suppapitnarm.New().WithCoolant(coolingSuppapitnarm.NewCoolant())
	case "avg":
		return suppapitnarm.New().WithCoolant(averaged.NewCoolant())
	}
	return new(null.Explorer)
}

// invalidatingDumb is crem's dumb model with a validity verdict that is false for a fixed pseudo-random subset of proposals.
type invalidatingDumb struct {
	*dumb.Model
	calls   int
	pattern uint64
}

func (m *invalidatingDumb) ChangeIsValid() (bool, *cremerrors.CompositeError) {
	m.calls++
	if (m.pattern>>(uint(m.calls)%64))&1 == 1 {
		e := cremerrors.New("Validation Errors")
		e.AddMessage("declared invalid by the harness")
		return false, e
	}
	return true, nil
}

// currentTemperature reads the coolant directly (the explorers' event attributes also evaluate the model's
// objective, which a model that was never initialised - a panic in Initialise - cannot give)
func currentTemperature(e explorer.Explorer) (float64, bool) {
	switch x := e.(type) {
	case *kirkpatrick.Explorer:
		return x.Temperature, true
	case *suppapitnarm.Explorer:
		return x.VerifCoolant().Temperature(), true
	}
	return 0, false
}

func runAnnealCase(c *Ctx, ac annealCase) {
	log := []string{}
	var ann annealing.Annealer
	var hook *hookExplorer
	recorders := map[int]*traceRecorder{}
	seq := []seqEntry{}
	modelWired := false
	sink := &sinkWriter{}
	reconfigured := false
	build := protect(func() {
		if ac.annealer == "elapsed" {
			ann = &annealers.ElapsedTimeTrackingAnnealer{}
		} else {
			ann = &annealers.SimpleAnnealer{}
		}
		ann.Initialise()
		inner := buildInnerExplorer(ac.expl)
		hook = &hookExplorer{Explorer: inner, log: &log, site: ac.site, at: ac.at, asError: ac.asError, errKind: ac.at + ac.N}
		if ac.observerSite() {
			hook.site = "none"
		}
		ann.SetSolutionExplorer(hook)
		ann.SetLogHandler(loggers.NewNullLogger()) // as scenario.Runner.SetAnnealer does; reaches the explorer
		// every other case is configured TWICE: first with another budget (a function of the case, so that a replay
		// repeats it), then with the real one — the budget in force is the one configured last, a budget of 0 included
		if (ac.N+len(ac.lineup)+ac.at)%2 == 1 {
			earlier := int64(1 + (ac.N*7+ac.at+len(ac.lineup))%9)
			if (ac.N+ac.at)%5 == 0 {
				earlier = 0
			}
			ann.SetParameters(parameters.Map{"MaximumIterations": earlier})
			reconfigured = true
		}
		params := parameters.Map{"MaximumIterations": int64(ac.N)}
		if ac.hasTemp() {
			params["StartingTemperature"] = ac.T0
			params["CoolingFactor"] = ac.a
		}
		if ac.expl == "kirkc" {
			params[kirkpatrick.DecisionVariableName] = "SedimentProduction"
		}
		if ac.expl == "supp" || ac.expl == "avg" || ac.expl == "suppc" {
			params["InitialReturnToBaseStep"] = int64(7)
			params["MinimumReturnToBaseRate"] = int64(3)
		}
		if err := ann.SetParameters(params); err != nil {
			panic(fmt.Sprint("parameters rejected: ", err))
		}
		switch ac.expl {
		case "kirk":
			ann.SetModel(dumb.NewModel())
		case "kirki":
			// the same explorer over a model that declares some proposals invalid (as the catchment model does at a limit):
			// an invalid proposal is still one iteration and one cooling step
			ann.SetModel(&invalidatingDumb{Model: dumb.NewModel(), pattern: 0xB6D3_5A96_C3E1_7D25 ^ uint64(ac.N)*0x9E3779B97F4A7C15})
		case "supp", "avg":
			ann.SetModel(modumb.NewModel().WithParameters(parameters.Map{"NumberOfPlanningUnits": int64(4)}))
		case "kirkc", "suppc":
			// the real catchment model on the shipped dataset; under the Kirkpatrick explorer with a cost limit on
			// every other budget, so that some proposals are invalid
			mp := parameters.Map{"DataSourcePath": catchmentCsv}
			if ac.expl == "kirkc" && ac.N%2 == 1 {
				mp["MaximumImplementationCost"] = float64(150000)
			}
			ann.SetModel(catchment.NewModel().WithParameters(mp))
		}
		logger := annealingLogger(sink)
		add := ann.AddObserver
		order := make([]int, len(ac.lineup))
		for i := range order {
			order[i] = i
		}
		if ac.asFirst {
			// the same line-up built back to front with AddObserverAsFirst
			add = ann.AddObserverAsFirst
			for i := range order {
				order[i] = len(ac.lineup) - 1 - i
			}
		}
		for _, i := range order {
			switch ac.lineup[i] {
			case 'R':
				r := &traceRecorder{index: i, log: &log, seq: &seq}
				if i == 0 {
					r.merged = &log
				}
				if ac.observerSite() && ac.obs == i {
					r.panicKind, r.panicAt, r.asError, r.errKind = ac.site[3], ac.at, ac.asError, ac.at+ac.N
				}
				recorders[i] = r
				add(r)
			case 'M':
				add(new(annealingObserver.AnnealingMessageObserver).
					WithLogHandler(logger).
					WithFilter(new(filters.IterationCountFilter).WithModulo(ac.modulo)))
			case 'A':
				add(new(annealingObserver.AnnealingAttributeObserver).
					WithLogHandler(logger).
					WithFilter(new(filters.IterationCountFilter).WithModulo(ac.modulo)))
			}
		}
		if ac.wired {
			// scenario.Runner.wireObservers: the annealer observes its explorer and its model and forwards their events
			if n, ok := inner.(observer.EventNotifier); ok {
				n.AddObserver(ann.(observer.Observer))
			}
			if n, ok := ann.Model().(observer.EventNotifier); ok {
				n.AddObserver(ann.(observer.Observer))
				modelWired = true
			}
		}
	})
	if build != "" {
		c.Fail("harness:build-annealer", "anneal:harness-build", fmt.Sprintf("%+v: %s", ac, build), nil)
		return
	}
	if reconfigured {
		c.Stat(fmt.Sprintf("configured twice (budget last set: %s)", nBucket(ac.N)))
	}
	// every third case: a SIBLING clone of the configured annealer (as every run of a scenario is a clone of it) anneals
	// first, unrecorded; the annealer under test must still start at its configured temperature and iteration 1
	if (ac.N+len(ac.lineup)+2*ac.at)%3 == 0 && ac.N <= 50 {
		if p := protect(func() {
			sib := ann.DeepClone()
			sib.Anneal()
		}); p == "" {
			c.Stat("a sibling clone annealed first")
		} else {
			c.Stat("a sibling clone annealed first (it panicked: " + clip(p, 40) + ")")
		}
	}
	merged := len(ac.lineup) > 0 && ac.lineup[0] == 'R'
	cur0 := 0
	T := ac.T0
	for run := 0; run <= ac.reruns; run++ {
		log = log[:0]
		seq = seq[:0]
		hook.finalState = ""
		for _, r := range recorders {
			r.events = r.events[:0]
		}
		tTok, aTok := "-", "-"
		if ac.hasTemp() {
			tTok, aTok = floatBits(T), floatBits(ac.a)
		}
		op := fmt.Sprintf("run %d %d %s %s %s %d %s", ac.N, cur0, tTok, aTok, ac.siteTok(), len(ac.lineup), b2s(merged))
		desc := fmt.Sprintf("%s/%s N=%d a=%v lineup=%q modulo=%d wired=%v run=%d", ac.annealer, ac.expl, ac.N, ac.a, ac.lineup, ac.modulo, ac.wired, run)
		pan := protect(func() { ann.Anneal() })
		outcome := "returned"
		if pan != "" {
			outcome = "panic"
		}
		cur := uint64(0)
		curOK := false
		Tend, hasT := 0.0, false
		after := protect(func() {
			hook.mute = true
			defer func() { hook.mute = false }()
			attrs := ann.EventAttributes(observer.FinishedIteration)
			cur, curOK = attrs.Value("CurrentIteration").(uint64)
			Tend, hasT = currentTemperature(hook.Explorer)
		})
		if after != "" || !curOK {
			c.Op(op, "panic-after-run")
			c.Fail("no-panic", "anneal:panic", desc+": "+after, []string{ac.encode(), op})
			return
		}
		tEnd := "-"
		if hasT {
			tEnd = bitsOrNaN(Tend)
		}
		trace := "-"
		if len(log) > 0 {
			trace = strings.Join(log, ",")
		}
		c.Op(op, fmt.Sprintf("%s %d %s %s", outcome, cur, tEnd, trace))
		ops := []string{ac.encode(), op}

		// ---- the property, evaluated directly on the implementation
		expectPanic := ac.siteFires(cur0)
		if expectPanic != (pan != "") {
			c.Fail("panic-reraised", "anneal:panic-not-reraised", fmt.Sprintf("%s: injected=%s panic=%q", desc, ac.siteTok(), pan), ops)
		}
		if pan != "" {
			if !strings.Contains(pan, "injected failure") {
				c.Fail("no-panic", "anneal:panic", desc+": "+pan, ops)
			} else {
				// what the re-raised panic reads like (an error cause is wrapped in a text of the annealer's) is not the property's
				// matter: counted only
				c.Stat(fmt.Sprintf("re-raised panic: cause was an error=%v, text differs from the cause=%v", ac.asError, pan != "injected failure"))
			}
		}
		tries, teardowns, inits := 0, 0, 0
		for _, t := range log {
			switch t {
			case "t":
				tries++
			case "D":
				teardowns++
			case "I":
				inits++
			}
		}
		wantTries := ac.N - cur0 // a fresh counter, or a re-entry in mid-run: the rest of the budget
		if cur0 >= ac.N {
			wantTries = 0
			if ac.N > 0 {
				wantTries = 1 // the counter is not reset: exactly one more iteration (rerun_single_iteration)
			}
		}
		if pan == "" && tries != wantTries {
			c.Fail("exact-budget", "anneal:budget", fmt.Sprintf("%s: %d iterations for budget %d entered with counter %d", desc, tries, ac.N, cur0), ops)
		}
		if inits != 1 || (teardowns != 1 && ac.site != "init") || (len(log) > 0 && log[0] != "I") ||
			(ac.site != "init" && len(log) > 0 && log[len(log)-1] != "D") {
			c.Fail("initialise-teardown", "anneal:teardown", fmt.Sprintf("%s: trace %s", desc, clip(trace, 300)), ops)
		}
		if merged && pan == "" {
			// explorer calls interleaved with the events: I S (s t c f)* F D
			want := []byte{'I', 'S'}
			for i := 0; i < tries; i++ {
				want = append(want, 's', 't', 'c', 'f')
			}
			want = append(want, 'F', 'D')
			got := make([]byte, len(log))
			for i, t := range log {
				got[i] = t[0]
			}
			if string(got) != string(want) {
				c.Fail("trace-shape", "anneal:call-order", fmt.Sprintf("%s: trace %s", desc, clip(trace, 300)), ops)
			}
		}
		anyBehind := false
		for i := 0; i < len(ac.lineup); i++ {
			r, ok := recorders[i]
			if !ok {
				continue
			}
			behind := strings.ContainsAny(ac.lineup[:i], "MA")
			anyBehind = anyBehind || behind
			mode := "full"
			if behind {
				mode = "kinds"
			}
			vop := fmt.Sprintf("view %d %s", i, mode)
			c.Op(vop, traceTokens(r.events, !behind))
			vops := []string{ac.encode(), op, vop}
			checkObserverView(c, ac, desc, i, r.events, cur0, T, pan != "", behind, vops)
			// the result the finish event carries is the explorer's final state (direct; the model's finish event
			// carries counter and temperature only)
			if n := len(r.events); n > 0 && r.events[n-1].kind == 'F' && ac.expl != "null" {
				fe := r.events[n-1]
				switch {
				case !fe.hasResult:
					c.Fail("finish-carries-result", "anneal:finish-result", fmt.Sprintf("%s: observer %d: the finish event carries no CompressedModel / ModelArchive attribute (attributes: %s)", desc, i, fe.attrs), vops)
				case fe.result != hook.finalState:
					c.Fail("finish-carries-result", "anneal:finish-result", fmt.Sprintf("%s: observer %d: the finish event carries %s but the explorer's final state is %s", desc, i, clip(fe.result, 300), clip(hook.finalState, 300)), vops)
				default:
					c.Stat("finish event's result compared with the explorer's final state (" + ac.expl + ")")
				}
			}
		}
		if len(recorders) > 0 {
			// one shared log: the order in which the notifier called the recorders, across observers
			mode := "full"
			if anyBehind {
				mode = "kinds"
			}
			toks := make([]string, len(seq))
			for i, e := range seq {
				toks[i] = fmt.Sprintf("%d>%s", e.observer, e.event.token(!anyBehind))
			}
			sop := fmt.Sprintf("seq L%s %s", ac.lineup, mode)
			got := "-"
			if len(toks) > 0 {
				got = strings.Join(toks, ",")
			}
			c.Op(sop, got)
			// direct: event by event, each event to the observers in the order they were registered
			first := len(ac.lineup)
			for i := range recorders {
				if i < first {
					first = i
				}
			}
			for i := 1; i < len(seq); i++ {
				a, b := seq[i-1], seq[i]
				sameEvent := a.event.token(false) == b.event.token(false)
				if !((b.observer > a.observer && sameEvent) || b.observer == first) {
					c.Fail("delivery-order", "anneal:delivery-order", fmt.Sprintf("%s: call %d of the notifier went to observer %d with %s right after observer %d got %s; calls: %s", desc, i+1, b.observer, b.event.token(true), a.observer, a.event.token(true), clip(got, 300)), []string{ac.encode(), op, sop})
					break
				}
			}
			if len(recorders) > 1 {
				c.Stat("shared sequence log of >= 2 recorders compared with the model's deliveries")
			}
		}
		if ac.observerSite() && pan != "" {
			// observers up to the panicking one were handed the event it panicked on, the others were not
			pr := recorders[ac.obs]
			for i, r := range recorders {
				want := len(pr.events)
				if i > ac.obs {
					want--
				}
				if len(r.events) != want {
					c.Fail("observer-panic-delivery", "anneal:observer-panic-delivery", fmt.Sprintf("%s: observer %d panicked after %d events; observer %d received %d, expected %d", desc, ac.obs, len(pr.events), i, len(r.events), want), ops)
				}
			}
			c.Stat("observer panic at notify point " + ac.site[3:])
		}
		c.Stat(fmt.Sprintf("run %s/%s %s", ac.annealer, ac.expl, map[bool]string{true: "panic", false: "returned"}[pan != ""]))
		c.Stat(fmt.Sprintf("site %s %s", ac.site, map[bool]string{true: "fired", false: "not reached"}[pan != ""]))
		if cur0 > 0 && cur0 < ac.N {
			c.Stat("re-entry in mid-run (0 < cur0 < N)")
		}
		c.Stat(fmt.Sprintf("observers=%d", len(ac.lineup)))
		if strings.ContainsAny(ac.lineup, "MA") {
			c.Stat("line-up has a crem logging observer ahead of a recorder: " + ac.lineup)
		}
		if run > 0 {
			c.Stat("re-run of the same annealer object")
		}
		if ac.wired {
			c.Stat("explorer events forwarded through the annealer")
		}
		if modelWired {
			c.Stat("model events forwarded through the annealer (" + ac.expl + ")")
		}
		if ac.asFirst {
			c.Stat("line-up built with AddObserverAsFirst")
		}
		c.Stat(fmt.Sprintf("cooling factor %s", map[bool]string{true: fmt.Sprint(ac.a), false: "other"}[ac.a == 0 || ac.a == 0.5 || ac.a == 0.999 || ac.a == 1]))
		c.Stat(fmt.Sprintf("N-bucket %s", nBucket(ac.N)))
		if ac.N > 0 {
			c.Nontrivial(fmt.Sprintf("%s|%s|%d|%d|%v|%s|%s|%v", ac.annealer, ac.expl, ac.N, cur0, ac.a, ac.siteTok(), ac.lineup, ac.wired))
		}
		if pan != "" && ac.site == "init" {
			return // explorer never initialised; nothing sensible to re-run
		}
		// a SECOND Anneal() of the same annealer object is something crem itself never does (every run anneals a fresh clone) and
		// the property does not speak of: whether it continues from the counter the first run left (the pinned code: one more
		// iteration, numbered N+1) or starts over is OBSERVED once on the code under test; the model is entered accordingly
		if annealRerunContinues() {
			cur0 = int(cur)
		} else {
			cur0 = 0
		}
		if hasT {
			T = Tend
		}
	}
	if sink.n == 0 && strings.ContainsAny(ac.lineup, "MA") && ac.site != "init" && ac.site != "obsS" {
		c.Fail("harness:logging-on", "anneal:harness-logging-off", fmt.Sprintf("%+v: crem observer logged nothing", ac), nil)
	}
}

func nBucket(n int) string {
	switch {
	case n == 0:
		return "0"
	case n <= 2:
		return "1-2"
	case n <= 50:
		return "3-50"
	}
	return ">50"
}

// checkObserverView: one start event, then (started k, finished k) for consecutive k, then one
// finish event carrying the last k (unless the run panicked before this observer could get it);
// temperature multiplied by the cooling factor exactly once per iteration and never increasing.
func checkObserverView(c *Ctx, ac annealCase, desc string, idx int, evs []annealEvent, cur0 int, T0 float64, panicked, behind bool, ops []string) {
	fail := func(pred, sig, msg string) {
		c.Fail(pred, sig, fmt.Sprintf("%s: observer %d: %s; received %s", desc, idx, msg, clip(traceTokens(evs, true), 400)), ops)
	}
	iterSig := "anneal:iteration-number"
	if behind {
		// a passive observer placed behind one of crem's own logging observers
		iterSig = "anneal:observer-event-aliasing"
	}
	// the finish event reaches this observer unless the run panicked before it was sent / before it got here
	wantFinish := !panicked || ac.site == "down" || (ac.site == "obsF" && idx <= ac.obs)
	if len(evs) == 0 {
		// nothing at all: only if the explorer's Initialise() panicked, or an observer ahead panicked on the start event
		if !(ac.site == "init" || (ac.site == "obsS" && panicked && idx > ac.obs)) {
			fail("trace-shape", "anneal:event-order", "observer received nothing")
		}
		return
	}
	if ac.site == "obsS" && panicked && idx > ac.obs {
		fail("observer-panic-delivery", "anneal:observer-panic-delivery", fmt.Sprintf("an observer behind number %d, which panicked on the start event, still received events", ac.obs))
		return
	}
	if evs[0].kind != 'S' {
		fail("trace-shape", "anneal:event-order", "first event is not the start event")
		return
	}
	if !(evs[0].hasMax && evs[0].max == uint64(ac.N)) && !behind {
		fail("trace-shape", "anneal:event-order", "start event does not carry the budget")
	}
	if ac.hasTemp() && (!evs[0].hasTemp || math.Float64bits(evs[0].temp) != math.Float64bits(T0)) {
		fail("temperature", "anneal:temperature", fmt.Sprintf("start event carries temperature %v, the coolant was at %v", evs[0].temp, T0))
		return
	}
	k := uint64(cur0)
	T := T0
	prev := T0
	monotone := ac.hasTemp() && ac.a >= 0 && ac.a <= 1 && T0 >= 0 // the premise of "never increases"
	state := byte('S')
	iterBad, lost := "", ""
	for i, e := range evs[1:] {
		switch {
		case e.kind == 's' && (state == 'S' || state == 'f'):
			k++
		case e.kind == 'f' && state == 's':
			T = T * ac.a
		case e.kind == 'F' && (state == 'S' || state == 'f') && i == len(evs)-2:
		default:
			fail("trace-shape", "anneal:event-order", fmt.Sprintf("event %d (%c) out of order", i+1, e.kind))
			return
		}
		state = e.kind
		if !e.hasIter {
			if lost == "" {
				lost = fmt.Sprintf("event %d (%c of iteration %d) arrived without CurrentIteration (attributes: %s)", i+1, e.kind, k, e.attrs)
			}
		} else if e.iter != k && iterBad == "" {
			iterBad = fmt.Sprintf("event %d (%c) carries iteration %d, expected %d", i+1, e.kind, e.iter, k)
		}
		if ac.hasTemp() {
			// direct, and independent of the product below: no event carries a higher temperature than the one before it
			if monotone && e.hasTemp && !(e.temp <= prev) {
				fail("temperature-never-increases", "anneal:temperature-increased", fmt.Sprintf("event %d (%c, iteration %d) carries temperature %v, the event before it carried %v", i+1, e.kind, k, e.temp, prev))
				return
			}
			prev = e.temp
			if !e.hasTemp || math.Float64bits(e.temp) != math.Float64bits(T) {
				fail("temperature", "anneal:temperature", fmt.Sprintf("event %d (%c, iteration %d) carries temperature %v, expected %v", i+1, e.kind, k, e.temp, T))
				return
			}
		}
	}
	if lost != "" {
		fail("event-carries-iteration", iterSig, lost)
	}
	if iterBad != "" {
		fail("event-carries-iteration", "anneal:iteration-number", iterBad)
	}
	if !wantFinish {
		if state == 'F' {
			fail("panic-no-finish", "anneal:finish-after-panic", "finish event sent although the run panicked")
		}
	} else if state != 'F' {
		fail("trace-shape", "anneal:event-order", "no finish event")
	}
}

// ---------------------------------------------------------------- generation / replay

var annealLineups = []string{"", "R", "RR", "RRR", "RRRR", "MR", "RMR", "MRR", "RMRR", "RRMR", "AR", "RAR", "AMR", "M", "ARAR"}

func annealRandomCase(r *Rng, thorough bool) annealCase {
	ac := annealCase{site: "none", modulo: 1}
	ac.annealer = []string{"simple", "elapsed"}[r.Intn(2)]
	ac.expl = []string{"null", "kirk", "kirki", "supp", "avg", "kirk", "supp", "avg", "kirkc", "suppc"}[r.Intn(10)]
	switch r.Intn(6) {
	case 0:
		ac.N = 0
	case 1:
		ac.N = 1 + r.Intn(2)
	case 5:
		if r.Chance(0.15) {
			ac.N = 1000
		} else {
			ac.N = 50
		}
	default:
		ac.N = 1 + r.Intn(50)
	}
	ac.T0 = []float64{10, 1000, 0.5, 1, 123.456, 1e-300, 1e300, 0}[r.Intn(8)]
	if r.Chance(0.3) {
		ac.T0 = math.Pow(10, r.Float()*40-20)
	}
	ac.asFirst = r.Chance(0.25)
	if r.Chance(0.7) {
		ac.a = []float64{0, 0.5, 0.999, 1}[r.Intn(4)]
	} else {
		ac.a = r.Float()
	}
	if r.Chance(0.5) {
		ac.site = []string{"try", "try", "cool", "coola", "coola", "init", "fattr", "down", "obsS", "obss", "obss", "obsf", "obsf", "obsF"}[r.Intn(14)]
		switch r.Intn(5) {
		case 0:
			ac.at = 1
		case 1:
			ac.at = ac.N
		case 2:
			ac.at = ac.N + 1
		default:
			ac.at = 1 + r.Intn(ac.N+1)
		}
		ac.asError = r.Bool()
	}
	ac.lineup = annealLineups[r.Intn(len(annealLineups))]
	if ac.observerSite() {
		// the panicking observer is one of the recorders of the line-up
		rs := []int{}
		for i, ch := range ac.lineup {
			if ch == 'R' {
				rs = append(rs, i)
			}
		}
		if len(rs) == 0 {
			ac.site = "none"
		} else {
			ac.obs = rs[r.Intn(len(rs))]
		}
	}
	if ac.site == "fattr" && len(ac.lineup) == 0 {
		// the finish event's attributes are gathered FOR the observers: whether an annealer nobody listens to gathers them
		// at all is not something the property says, so the failure is only injected there when somebody listens
		ac.lineup = "R"
	}
	ac.modulo = []uint64{1, 1, 3, 10}[r.Intn(4)]
	ac.wired = ac.expl != "null" && r.Chance(0.4)
	if r.Chance(0.25) {
		ac.reruns = 1 + r.Intn(2)
	}
	return ac
}

func (ac annealCase) encode() string {
	return fmt.Sprintf("reset %s %s %d %s %s %s %d %s %s %d %s %d %d %s", ac.annealer, ac.expl, ac.N, floatBits(ac.T0), floatBits(ac.a),
		ac.site, ac.at, b2s(ac.asError), "L"+ac.lineup, ac.modulo, b2s(ac.wired), ac.reruns, ac.obs, b2s(ac.asFirst))
}

func decodeAnnealCase(l string) (annealCase, bool) {
	w := strings.Fields(l)
	if len(w) < 13 || len(w) > 15 || w[0] != "reset" { // 13: case lines written before observer sites existed
		return annealCase{}, false
	}
	ac := annealCase{annealer: w[1], expl: w[2], site: w[6], asError: w[8] == "1", lineup: strings.TrimPrefix(w[9], "L"), wired: w[11] == "1"}
	ac.N, _ = strconv.Atoi(w[3])
	ac.T0, _ = parseBitsTok(w[4])
	ac.a, _ = parseBitsTok(w[5])
	ac.at, _ = strconv.Atoi(w[7])
	ac.modulo, _ = strconv.ParseUint(w[10], 10, 64)
	ac.reruns, _ = strconv.Atoi(w[12])
	if len(w) >= 14 {
		ac.obs, _ = strconv.Atoi(w[13])
	}
	if len(w) >= 15 {
		ac.asFirst = w[14] == "1"
	}
	return ac, true
}

// runAnnealCaseRecorded writes the case description as a protocol line first (the driver
// answers `reset` lines with `ok`), so a replay file is self-contained.
func runAnnealCaseRecorded(c *Ctx, ac annealCase) {
	c.Op(ac.encode(), "ok")
	runAnnealCase(c, ac)
}

var (
	annealRerunOnce sync.Once
	annealRerunCont = true
)

// annealRerunContinues: does a second Anneal() of one annealer object enter with the counter the first one left?
func annealRerunContinues() bool {
	annealRerunOnce.Do(func() {
		protect(func() {
			log := []string{}
			ann := &annealers.SimpleAnnealer{}
			ann.Initialise()
			ann.SetSolutionExplorer(&hookExplorer{Explorer: buildInnerExplorer("null"), log: &log, site: "none"})
			ann.SetLogHandler(loggers.NewNullLogger())
			ann.SetParameters(parameters.Map{"MaximumIterations": int64(2), "StartingTemperature": 10.0, "CoolingFactor": 0.5})
			ann.Anneal()
			ann.Anneal()
			attrs := ann.EventAttributes(observer.FinishedIteration)
			if cur, ok := attrs.Value("CurrentIteration").(uint64); ok {
				annealRerunCont = cur != 2
			}
		})
	})
	return annealRerunCont
}

// probeChainedMessageObservers: two of crem's message observers on one annealer.  Not part of
// the model comparison (the run dies inside the second observer on the unchanged code): a
// direct check only, reported under the same signature as the lost iteration number because
// it is the same shared attribute array.
func probeChainedMessageObservers(c *Ctx) {
	c.Op("probe chained-message-observers", "done")
	for _, expl := range []string{"null", "kirk"} {
		log := []string{}
		sink := &sinkWriter{}
		ann := &annealers.SimpleAnnealer{}
		ann.Initialise()
		ann.SetSolutionExplorer(&hookExplorer{Explorer: buildInnerExplorer(expl), log: &log, site: "none"})
		ann.SetLogHandler(loggers.NewNullLogger())
		ann.SetParameters(parameters.Map{"MaximumIterations": int64(3), "StartingTemperature": 10.0, "CoolingFactor": 0.5})
		if expl == "kirk" {
			ann.SetModel(dumb.NewModel())
		}
		for i := 0; i < 2; i++ {
			ann.AddObserver(new(annealingObserver.AnnealingMessageObserver).
				WithLogHandler(annealingLogger(sink)).
				WithFilter(new(filters.IterationCountFilter).WithModulo(1)))
		}
		pan := protect(func() { ann.Anneal() })
		c.Stat("probe: two chained message observers / " + expl)
		if pan != "" {
			c.Fail("every-observer-same-trace", "anneal:observer-event-aliasing",
				fmt.Sprintf("SimpleAnnealer over the %s explorer, budget 3, two AnnealingMessageObservers (Annealing logging on, IterationCountFilter modulo 1): Anneal() panics inside the second observer: %s; explorer calls %s", expl, pan, strings.Join(log, ",")),
				[]string{"probe chained-message-observers"})
		}
	}
}

func suiteAnneal(c *Ctx) {
	if c.Replay != "" {
		for _, l := range readLines(c.Replay) {
			if strings.HasPrefix(l, "reset ") {
				if ac, ok := decodeAnnealCase(l); ok {
					runAnnealCaseRecorded(c, ac)
				}
			} else if strings.HasPrefix(l, "probe chained-message-observers") {
				probeChainedMessageObservers(c)
			}
		}
		return
	}
	r := c.Rng
	// systematic part: every budget 0..50 and 1000, the four named cooling factors, every explorer
	for _, expl := range []string{"null", "kirk", "supp", "avg", "kirkc", "suppc"} {
		for N := 0; N <= 51; N++ {
			if (expl == "kirkc" || expl == "suppc") && N%5 != 0 && N > 3 {
				continue // the real catchment model: budgets 0..3, every fifth up to 50
			}
			n := N
			if N == 51 {
				n = 1000
			}
			a := []float64{0, 0.5, 0.999, 1}[N%4]
			lineup := annealLineups[N%len(annealLineups)]
			ann := []string{"simple", "elapsed"}[N%2]
			runAnnealCaseRecorded(c, annealCase{annealer: ann, expl: expl, N: n, T0: 1000, a: a, site: "none", lineup: lineup, modulo: 1, wired: expl != "null" && N%3 == 0, asFirst: N%4 == 1})
			if n > 0 {
				at := 1 + (N*7)%n
				runAnnealCaseRecorded(c, annealCase{annealer: ann, expl: expl, N: n, T0: 10, a: a, site: []string{"try", "cool"}[N%2], at: at, asError: N%3 == 0, lineup: "RR", modulo: 1})
				// a panic after the real CoolDown / while the finish attributes are built / in TearDown; with a re-run:
				// the second Anneal() re-enters in mid-run (coola) or at the budget
				runAnnealCaseRecorded(c, annealCase{annealer: ann, expl: expl, N: n, T0: 10, a: a, site: []string{"coola", "fattr", "down"}[N%3], at: at, asError: N%2 == 0, lineup: "RR", modulo: 1, reruns: N % 2})
			}
			// an observer panics in its callback: every notify point, every position among three recorders
			osite := []string{"obsS", "obss", "obsf", "obsF"}[N%4]
			if n > 0 || osite == "obsS" || osite == "obsF" {
				at := 1
				if n > 0 {
					at = 1 + (N*5)%n
				}
				runAnnealCaseRecorded(c, annealCase{annealer: ann, expl: expl, N: n, T0: 10, a: a, site: osite, at: at, obs: (N / 4) % 3, asError: N%3 == 1, lineup: "RRR", modulo: 1})
			}
		}
	}
	for i := 0; i < c.N(4000, 60000); i++ {
		runAnnealCaseRecorded(c, annealRandomCase(r, c.Thorough()))
	}
	probeChainedMessageObservers(c)
}
