//go:build verif

package main

// Suite anneal-trace (property C07): the REAL SimpleAnnealer / ElapsedTimeTrackingAnnealer
// run with
//   - an explorer that records every call the annealer makes on it (Initialise,
//     TryRandomChange, CoolDown, TearDown) and can panic at a chosen call, wrapped around
//     crem's null explorer, the Kirkpatrick explorer over the dumb model, and the Suppapitnarm
//     explorer over the multi-objective dumb model with either multi-objective coolant
//     (= the three annealer types crem's configuration can build);
//   - 0..4 observers: passive recorders, and crem's own AnnealingMessageObserver /
//     AnnealingAttributeObserver with Annealing logging switched on, in any position.
// One protocol line per run (the merged trace of explorer calls and of the events the
// first-position recorder received, outcome, final counter and temperature) plus one line per
// recorder (what that observer received).  The Lean driver evaluates the model of
// Crem/Model/Anneal.lean with Float temperatures (same sequential multiplications).

import (
	cremerrors "github.com/LindsayBradford/crem/pkg/errors"
	"errors"
	"fmt"
	"math"
	"strconv"
	"strings"

	"github.com/LindsayBradford/crem/internal/pkg/annealing"
	"github.com/LindsayBradford/crem/internal/pkg/annealing/annealers"
	"github.com/LindsayBradford/crem/internal/pkg/annealing/cooling/coolants/averaged"
	coolingSuppapitnarm "github.com/LindsayBradford/crem/internal/pkg/annealing/cooling/coolants/suppapitnarm"
	"github.com/LindsayBradford/crem/internal/pkg/annealing/explorer"
	"github.com/LindsayBradford/crem/internal/pkg/annealing/explorer/kirkpatrick"
	"github.com/LindsayBradford/crem/internal/pkg/annealing/explorer/null"
	"github.com/LindsayBradford/crem/internal/pkg/annealing/explorer/suppapitnarm"
	annealingObserver "github.com/LindsayBradford/crem/internal/pkg/annealing/observer"
	"github.com/LindsayBradford/crem/internal/pkg/annealing/observer/filters"
	"github.com/LindsayBradford/crem/internal/pkg/model"
	"github.com/LindsayBradford/crem/internal/pkg/model/models/dumb"
	"github.com/LindsayBradford/crem/internal/pkg/model/models/modumb"
	"github.com/LindsayBradford/crem/internal/pkg/observer"
	"github.com/LindsayBradford/crem/internal/pkg/parameters"
	"github.com/LindsayBradford/crem/pkg/logging"
	"github.com/LindsayBradford/crem/pkg/logging/formatters"
	"github.com/LindsayBradford/crem/pkg/logging/loggers"
)

func init() { register("anneal-trace", suiteAnneal) }

// ---------------------------------------------------------------- recording explorer

type hookExplorer struct {
	explorer.Explorer // the explorer under it (real crem code)
	log               *[]string
	site              string // none | init | try | cool
	at                int
	asError           bool
	iter              int
}

func (h *hookExplorer) boom(site string) {
	if h.site == site && (site == "init" || h.iter == h.at) {
		if h.asError {
			panic(errors.New("injected failure"))
		}
		panic("injected failure")
	}
}
func (h *hookExplorer) Initialise() {
	*h.log = append(*h.log, "I")
	h.iter = 0
	h.boom("init")
	h.Explorer.Initialise()
}
func (h *hookExplorer) TearDown() {
	*h.log = append(*h.log, "D")
	h.Explorer.TearDown()
}
func (h *hookExplorer) TryRandomChange() {
	h.iter++
	*h.log = append(*h.log, "t")
	h.boom("try")
	h.Explorer.TryRandomChange()
}
func (h *hookExplorer) CoolDown() {
	*h.log = append(*h.log, "c")
	h.boom("cool")
	h.Explorer.CoolDown()
}
func (h *hookExplorer) DeepClone() explorer.Explorer { return h }

// ---------------------------------------------------------------- recording observer

type annealEvent struct {
	kind    byte // S s f F
	hasIter bool
	iter    uint64
	hasTemp bool
	temp    float64
	hasMax  bool
	max     uint64
	attrs   string // attribute names as received (diagnostics)
}

type traceRecorder struct {
	merged *[]string // non-nil for the recorder in first position: joins the explorer-call log
	events []annealEvent
}

func (r *traceRecorder) ObserveEvent(e observer.Event) {
	var k byte
	switch e.EventType {
	case observer.StartedAnnealing:
		k = 'S'
	case observer.StartedIteration:
		k = 's'
	case observer.FinishedIteration:
		k = 'f'
	case observer.FinishedAnnealing:
		k = 'F'
	default:
		return // explorer / model chatter forwarded by the annealer
	}
	ev := annealEvent{kind: k}
	names := []string{}
	for _, a := range e.AllAttributes() {
		names = append(names, a.Name)
		switch a.Name {
		case "CurrentIteration":
			if !ev.hasIter {
				ev.iter, ev.hasIter = a.Value.(uint64)
			}
		case "MaximumIterations":
			if !ev.hasMax {
				ev.max, ev.hasMax = a.Value.(uint64)
			}
		case "Temperature":
			if !ev.hasTemp {
				ev.temp, ev.hasTemp = a.Value.(float64)
			}
		}
	}
	ev.attrs = strings.Join(names, ",")
	r.events = append(r.events, ev)
	if r.merged != nil {
		*r.merged = append(*r.merged, ev.token(true))
	}
}

func (e annealEvent) token(withIter bool) string {
	t := "-"
	if e.hasTemp {
		t = bitsOrNaN(e.temp)
	}
	if e.kind == 'S' || !withIter {
		return string(e.kind) + ":" + t
	}
	if !e.hasIter {
		return string(e.kind) + "?:" + t
	}
	return string(e.kind) + strconv.FormatUint(e.iter, 10) + ":" + t
}

func traceTokens(evs []annealEvent, withIter bool) string {
	if len(evs) == 0 {
		return "-"
	}
	s := make([]string, len(evs))
	for i, e := range evs {
		s[i] = e.token(withIter)
	}
	return strings.Join(s, ",")
}

type sinkWriter struct{ n int }

func (s *sinkWriter) Write(p []byte) (int, error) { s.n += len(p); return len(p), nil }

func annealingLogger(sink *sinkWriter) logging.Logger {
	l, _ := new(loggers.Builder).ForBareBonesLogHandler().
		WithFormatter(new(formatters.RawMessageFormatter)).
		WithLogLevelDestination(annealingObserver.AnnealingLogLevel, sink).
		WithLogLevelDestination(model.LogLevel, sink).
		WithLogLevelDestination(logging.INFO, sink).
		WithLogLevelDestination(logging.WARN, sink).
		WithLogLevelDestination(logging.ERROR, sink).
		Build()
	return l
}

// ---------------------------------------------------------------- one case

type annealCase struct {
	annealer string // simple | elapsed
	expl     string // null | kirk | supp | avg
	N        int
	T0, a    float64
	site     string
	at       int
	asError  bool
	lineup   string // R = passive recorder, M = crem message observer, A = crem attribute observer
	modulo   uint64
	wired    bool // explorer events forwarded through the annealer, as scenario.Runner wires them
	reruns   int
}

func (ac annealCase) hasTemp() bool { return ac.expl != "null" }

func (ac annealCase) siteTok() string {
	switch ac.site {
	case "init":
		return "init"
	case "try", "cool":
		return fmt.Sprintf("%s:%d", ac.site, ac.at)
	}
	return "none"
}

func buildInnerExplorer(kind string) explorer.Explorer {
	switch kind {
	case "kirk", "kirki":
		return kirkpatrick.New()
	case "supp":
		return suppapitnarm.New().WithCoolant(coolingSuppapitnarm.NewCoolant())
	case "avg":
		return suppapitnarm.New().WithCoolant(averaged.NewCoolant())
	}
	return new(null.Explorer)
}

// invalidatingDumb is crem's dumb model with a validity verdict that is false for a fixed pseudo-random subset of proposals.
type invalidatingDumb struct {
	*dumb.Model
	calls   int
	pattern uint64
}

func (m *invalidatingDumb) ChangeIsValid() (bool, *cremerrors.CompositeError) {
	m.calls++
	if (m.pattern>>(uint(m.calls)%64))&1 == 1 {
		e := cremerrors.New("Validation Errors")
		e.AddMessage("declared invalid by the harness")
		return false, e
	}
	return true, nil
}

func currentTemperature(e explorer.Explorer) (float64, bool) {
	attrs := e.EventAttributes(observer.StartedIteration)
	t, ok := attrs.Value("Temperature").(float64)
	return t, ok
}

func runAnnealCase(c *Ctx, ac annealCase) {
	log := []string{}
	var ann annealing.Annealer
	var hook *hookExplorer
	recorders := map[int]*traceRecorder{}
	sink := &sinkWriter{}
	build := protect(func() {
		if ac.annealer == "elapsed" {
			ann = &annealers.ElapsedTimeTrackingAnnealer{}
		} else {
			ann = &annealers.SimpleAnnealer{}
		}
		ann.Initialise()
		inner := buildInnerExplorer(ac.expl)
		hook = &hookExplorer{Explorer: inner, log: &log, site: ac.site, at: ac.at, asError: ac.asError}
		ann.SetSolutionExplorer(hook)
		ann.SetLogHandler(loggers.NewNullLogger()) // as scenario.Runner.SetAnnealer does; reaches the explorer
		params := parameters.Map{"MaximumIterations": int64(ac.N)}
		if ac.hasTemp() {
			params["StartingTemperature"] = ac.T0
			params["CoolingFactor"] = ac.a
		}
		if ac.expl == "supp" || ac.expl == "avg" {
			params["InitialReturnToBaseStep"] = int64(7)
			params["MinimumReturnToBaseRate"] = int64(3)
		}
		if err := ann.SetParameters(params); err != nil {
			panic(fmt.Sprint("parameters rejected: ", err))
		}
		switch ac.expl {
		case "kirk":
			ann.SetModel(dumb.NewModel())
		case "kirki":
			// the same explorer over a model that declares some proposals invalid (as the catchment model does at a limit):
			// an invalid proposal is still one iteration and one cooling step
			ann.SetModel(&invalidatingDumb{Model: dumb.NewModel(), pattern: 0xB6D3_5A96_C3E1_7D25 ^ uint64(ac.N)*0x9E3779B97F4A7C15})
		case "supp", "avg":
			ann.SetModel(modumb.NewModel().WithParameters(parameters.Map{"NumberOfPlanningUnits": int64(4)}))
		}
		logger := annealingLogger(sink)
		for i, ch := range ac.lineup {
			switch ch {
			case 'R':
				r := &traceRecorder{}
				if i == 0 {
					r.merged = &log
				}
				recorders[i] = r
				ann.AddObserver(r)
			case 'M':
				ann.AddObserver(new(annealingObserver.AnnealingMessageObserver).
					WithLogHandler(logger).
					WithFilter(new(filters.IterationCountFilter).WithModulo(ac.modulo)))
			case 'A':
				ann.AddObserver(new(annealingObserver.AnnealingAttributeObserver).
					WithLogHandler(logger).
					WithFilter(new(filters.IterationCountFilter).WithModulo(ac.modulo)))
			}
		}
		if ac.wired {
			if n, ok := inner.(observer.EventNotifier); ok {
				n.AddObserver(ann.(observer.Observer))
			}
		}
	})
	if build != "" {
		c.Fail("harness:build-annealer", "anneal:harness-build", fmt.Sprintf("%+v: %s", ac, build), nil)
		return
	}
	merged := len(ac.lineup) > 0 && ac.lineup[0] == 'R'
	cur0 := 0
	T := ac.T0
	for run := 0; run <= ac.reruns; run++ {
		log = log[:0]
		for _, r := range recorders {
			r.events = r.events[:0]
		}
		tTok, aTok := "-", "-"
		if ac.hasTemp() {
			tTok, aTok = floatBits(T), floatBits(ac.a)
		}
		op := fmt.Sprintf("run %d %d %s %s %s %d %s", ac.N, cur0, tTok, aTok, ac.siteTok(), len(ac.lineup), b2s(merged))
		desc := fmt.Sprintf("%s/%s N=%d a=%v lineup=%q modulo=%d wired=%v run=%d", ac.annealer, ac.expl, ac.N, ac.a, ac.lineup, ac.modulo, ac.wired, run)
		pan := protect(func() { ann.Anneal() })
		outcome := "returned"
		if pan != "" {
			outcome = "panic"
		}
		cur := uint64(0)
		curOK := false
		Tend, hasT := 0.0, false
		after := protect(func() {
			attrs := ann.EventAttributes(observer.FinishedIteration)
			cur, curOK = attrs.Value("CurrentIteration").(uint64)
			Tend, hasT = currentTemperature(hook.Explorer)
		})
		if after != "" || !curOK {
			c.Op(op, "panic-after-run")
			c.Fail("no-panic", "anneal:panic", desc+": "+after, []string{ac.encode(), op})
			return
		}
		tEnd := "-"
		if hasT {
			tEnd = bitsOrNaN(Tend)
		}
		trace := "-"
		if len(log) > 0 {
			trace = strings.Join(log, ",")
		}
		c.Op(op, fmt.Sprintf("%s %d %s %s", outcome, cur, tEnd, trace))
		ops := []string{ac.encode(), op}

		// ---- the property, evaluated directly on the implementation
		expectPanic := ac.site == "init" || ((ac.site == "try" || ac.site == "cool") && ac.at >= 1 &&
			((cur0 < ac.N && ac.at <= ac.N-cur0) || (cur0 >= ac.N && ac.N > 0 && ac.at == 1)))
		if expectPanic != (pan != "") {
			c.Fail("panic-reraised", "anneal:panic-not-reraised", fmt.Sprintf("%s: injected=%s panic=%q", desc, ac.siteTok(), pan), ops)
		}
		if pan != "" {
			if !strings.Contains(pan, "injected failure") {
				c.Fail("no-panic", "anneal:panic", desc+": "+pan, ops)
			} else if ac.asError != strings.HasPrefix(pan, "Unrecoverable annealing failure") {
				c.Fail("panic-reraised", "anneal:panic-wrapping", desc+": "+pan, ops)
			}
		}
		tries, teardowns, inits := 0, 0, 0
		for _, t := range log {
			switch t {
			case "t":
				tries++
			case "D":
				teardowns++
			case "I":
				inits++
			}
		}
		if pan == "" && cur0 == 0 && tries != ac.N {
			c.Fail("exact-budget", "anneal:budget", fmt.Sprintf("%s: %d iterations for budget %d", desc, tries, ac.N), ops)
		}
		if inits != 1 || (teardowns != 1 && ac.site != "init") || (len(log) > 0 && log[0] != "I") ||
			(ac.site != "init" && len(log) > 0 && log[len(log)-1] != "D") {
			c.Fail("initialise-teardown", "anneal:teardown", fmt.Sprintf("%s: trace %s", desc, clip(trace, 300)), ops)
		}
		if merged && pan == "" {
			// explorer calls interleaved with the events: I S (s t c f)* F D
			want := []byte{'I', 'S'}
			for i := 0; i < tries; i++ {
				want = append(want, 's', 't', 'c', 'f')
			}
			want = append(want, 'F', 'D')
			got := make([]byte, len(log))
			for i, t := range log {
				got[i] = t[0]
			}
			if string(got) != string(want) {
				c.Fail("trace-shape", "anneal:call-order", fmt.Sprintf("%s: trace %s", desc, clip(trace, 300)), ops)
			}
		}
		for i := 0; i < len(ac.lineup); i++ {
			r, ok := recorders[i]
			if !ok {
				continue
			}
			behind := strings.ContainsAny(ac.lineup[:i], "MA")
			mode := "full"
			if behind {
				mode = "kinds"
			}
			vop := fmt.Sprintf("view %d %s", i, mode)
			c.Op(vop, traceTokens(r.events, !behind))
			checkObserverView(c, ac, desc, r.events, cur0, T, pan != "", behind, []string{ac.encode(), op, vop})
		}
		c.Stat(fmt.Sprintf("run %s/%s %s", ac.annealer, ac.expl, map[bool]string{true: "panic(" + ac.site + ")", false: "returned"}[pan != ""]))
		c.Stat(fmt.Sprintf("observers=%d", len(ac.lineup)))
		if strings.ContainsAny(ac.lineup, "MA") {
			c.Stat("line-up has a crem logging observer ahead of a recorder: " + ac.lineup)
		}
		if run > 0 {
			c.Stat("re-run of the same annealer object")
		}
		if ac.wired {
			c.Stat("explorer events forwarded through the annealer")
		}
		c.Stat(fmt.Sprintf("cooling factor %s", map[bool]string{true: fmt.Sprint(ac.a), false: "other"}[ac.a == 0 || ac.a == 0.5 || ac.a == 0.999 || ac.a == 1]))
		c.Stat(fmt.Sprintf("N-bucket %s", nBucket(ac.N)))
		if ac.N > 0 {
			c.Nontrivial(fmt.Sprintf("%s|%s|%d|%d|%v|%s|%s|%v", ac.annealer, ac.expl, ac.N, cur0, ac.a, ac.siteTok(), ac.lineup, ac.wired))
		}
		if pan != "" && ac.site == "init" {
			return // explorer never initialised; nothing sensible to re-run
		}
		cur0 = int(cur)
		if hasT {
			T = Tend
		}
	}
	if sink.n == 0 && strings.ContainsAny(ac.lineup, "MA") && ac.site != "init" {
		c.Fail("harness:logging-on", "anneal:harness-logging-off", fmt.Sprintf("%+v: crem observer logged nothing", ac), nil)
	}
}

func nBucket(n int) string {
	switch {
	case n == 0:
		return "0"
	case n <= 2:
		return "1-2"
	case n <= 50:
		return "3-50"
	}
	return ">50"
}

// checkObserverView: one start event, then (started k, finished k) for consecutive k, then one
// finish event carrying the last k (unless the run panicked); temperature multiplied by the
// cooling factor exactly once per iteration and never increasing.
func checkObserverView(c *Ctx, ac annealCase, desc string, evs []annealEvent, cur0 int, T0 float64, panicked, behind bool, ops []string) {
	fail := func(pred, sig, msg string) {
		c.Fail(pred, sig, fmt.Sprintf("%s: %s; received %s", desc, msg, clip(traceTokens(evs, true), 400)), ops)
	}
	iterSig := "anneal:iteration-number"
	if behind {
		// a passive observer placed behind one of crem's own logging observers
		iterSig = "anneal:observer-event-aliasing"
	}
	if len(evs) == 0 {
		if ac.site != "init" {
			fail("trace-shape", "anneal:event-order", "observer received nothing")
		}
		return
	}
	if evs[0].kind != 'S' {
		fail("trace-shape", "anneal:event-order", "first event is not the start event")
		return
	}
	if !(evs[0].hasMax && evs[0].max == uint64(ac.N)) && !behind {
		fail("trace-shape", "anneal:event-order", "start event does not carry the budget")
	}
	k := uint64(cur0)
	T := T0
	state := byte('S')
	iterBad, lost := "", ""
	for i, e := range evs[1:] {
		switch {
		case e.kind == 's' && (state == 'S' || state == 'f'):
			k++
		case e.kind == 'f' && state == 's':
			T = T * ac.a
		case e.kind == 'F' && (state == 'S' || state == 'f') && i == len(evs)-2:
		default:
			fail("trace-shape", "anneal:event-order", fmt.Sprintf("event %d (%c) out of order", i+1, e.kind))
			return
		}
		state = e.kind
		if !e.hasIter {
			if lost == "" {
				lost = fmt.Sprintf("event %d (%c of iteration %d) arrived without CurrentIteration (attributes: %s)", i+1, e.kind, k, e.attrs)
			}
		} else if e.iter != k && iterBad == "" {
			iterBad = fmt.Sprintf("event %d (%c) carries iteration %d, expected %d", i+1, e.kind, e.iter, k)
		}
		if ac.hasTemp() {
			if !e.hasTemp || math.Float64bits(e.temp) != math.Float64bits(T) {
				fail("temperature", "anneal:temperature", fmt.Sprintf("event %d (%c, iteration %d) carries temperature %v, expected %v", i+1, e.kind, k, e.temp, T))
				return
			}
		}
	}
	if lost != "" {
		fail("event-carries-iteration", iterSig, lost)
	}
	if iterBad != "" {
		fail("event-carries-iteration", "anneal:iteration-number", iterBad)
	}
	if panicked {
		if state == 'F' {
			fail("panic-no-finish", "anneal:finish-after-panic", "finish event sent although the run panicked")
		}
	} else if state != 'F' {
		fail("trace-shape", "anneal:event-order", "no finish event")
	}
}

// ---------------------------------------------------------------- generation / replay

var annealLineups = []string{"", "R", "RR", "RRR", "RRRR", "MR", "RMR", "MRR", "RMRR", "RRMR", "AR", "RAR", "AMR", "M", "ARAR"}

func annealRandomCase(r *Rng, thorough bool) annealCase {
	ac := annealCase{site: "none", modulo: 1}
	ac.annealer = []string{"simple", "elapsed"}[r.Intn(2)]
	ac.expl = []string{"null", "kirk", "kirki", "supp", "avg"}[r.Intn(5)]
	switch r.Intn(6) {
	case 0:
		ac.N = 0
	case 1:
		ac.N = 1 + r.Intn(2)
	case 5:
		if r.Chance(0.15) {
			ac.N = 1000
		} else {
			ac.N = 50
		}
	default:
		ac.N = 1 + r.Intn(50)
	}
	ac.T0 = []float64{10, 1000, 0.5, 1, 123.456, 1e-300, 1e300, 0}[r.Intn(8)]
	if r.Chance(0.7) {
		ac.a = []float64{0, 0.5, 0.999, 1}[r.Intn(4)]
	} else {
		ac.a = r.Float()
	}
	if r.Chance(0.4) {
		ac.site = []string{"try", "try", "cool", "init"}[r.Intn(4)]
		switch r.Intn(5) {
		case 0:
			ac.at = 1
		case 1:
			ac.at = ac.N
		case 2:
			ac.at = ac.N + 1
		default:
			ac.at = 1 + r.Intn(ac.N+1)
		}
		ac.asError = r.Bool()
	}
	ac.lineup = annealLineups[r.Intn(len(annealLineups))]
	ac.modulo = []uint64{1, 1, 3, 10}[r.Intn(4)]
	ac.wired = ac.expl != "null" && r.Chance(0.4)
	if r.Chance(0.2) {
		ac.reruns = 1 + r.Intn(2)
	}
	return ac
}

func (ac annealCase) encode() string {
	return fmt.Sprintf("reset %s %s %d %s %s %s %d %s %s %d %s %d", ac.annealer, ac.expl, ac.N, floatBits(ac.T0), floatBits(ac.a),
		ac.site, ac.at, b2s(ac.asError), "L"+ac.lineup, ac.modulo, b2s(ac.wired), ac.reruns)
}

func decodeAnnealCase(l string) (annealCase, bool) {
	w := strings.Fields(l)
	if len(w) != 13 || w[0] != "reset" {
		return annealCase{}, false
	}
	ac := annealCase{annealer: w[1], expl: w[2], site: w[6], asError: w[8] == "1", lineup: strings.TrimPrefix(w[9], "L"), wired: w[11] == "1"}
	ac.N, _ = strconv.Atoi(w[3])
	ac.T0, _ = parseBitsTok(w[4])
	ac.a, _ = parseBitsTok(w[5])
	ac.at, _ = strconv.Atoi(w[7])
	ac.modulo, _ = strconv.ParseUint(w[10], 10, 64)
	ac.reruns, _ = strconv.Atoi(w[12])
	return ac, true
}

// runAnnealCaseRecorded writes the case description as a protocol line first (the driver
// answers `reset` lines with `ok`), so a replay file is self-contained.
func runAnnealCaseRecorded(c *Ctx, ac annealCase) {
	c.Op(ac.encode(), "ok")
	runAnnealCase(c, ac)
}

// probeChainedMessageObservers: two of crem's message observers on one annealer.  Not part of
// the model comparison (the run dies inside the second observer on the unchanged code): a
// direct check only, reported under the same signature as the lost iteration number because
// it is the same shared attribute array.
func probeChainedMessageObservers(c *Ctx) {
	c.Op("probe chained-message-observers", "done")
	for _, expl := range []string{"null", "kirk"} {
		log := []string{}
		sink := &sinkWriter{}
		ann := &annealers.SimpleAnnealer{}
		ann.Initialise()
		ann.SetSolutionExplorer(&hookExplorer{Explorer: buildInnerExplorer(expl), log: &log, site: "none"})
		ann.SetLogHandler(loggers.NewNullLogger())
		ann.SetParameters(parameters.Map{"MaximumIterations": int64(3), "StartingTemperature": 10.0, "CoolingFactor": 0.5})
		if expl == "kirk" {
			ann.SetModel(dumb.NewModel())
		}
		for i := 0; i < 2; i++ {
			ann.AddObserver(new(annealingObserver.AnnealingMessageObserver).
				WithLogHandler(annealingLogger(sink)).
				WithFilter(new(filters.IterationCountFilter).WithModulo(1)))
		}
		pan := protect(func() { ann.Anneal() })
		c.Stat("probe: two chained message observers / " + expl)
		if pan != "" {
			c.Fail("every-observer-same-trace", "anneal:observer-event-aliasing",
				fmt.Sprintf("SimpleAnnealer over the %s explorer, budget 3, two AnnealingMessageObservers (Annealing logging on, IterationCountFilter modulo 1): Anneal() panics inside the second observer: %s; explorer calls %s", expl, pan, strings.Join(log, ",")),
				[]string{"probe chained-message-observers"})
		}
	}
}

func suiteAnneal(c *Ctx) {
	if c.Replay != "" {
		for _, l := range readLines(c.Replay) {
			if strings.HasPrefix(l, "reset ") {
				if ac, ok := decodeAnnealCase(l); ok {
					runAnnealCaseRecorded(c, ac)
				}
			} else if strings.HasPrefix(l, "probe chained-message-observers") {
				probeChainedMessageObservers(c)
			}
		}
		return
	}
	r := c.Rng
	// systematic part: every budget 0..50 and 1000, the four named cooling factors, every explorer
	for _, expl := range []string{"null", "kirk", "supp", "avg"} {
		for N := 0; N <= 51; N++ {
			n := N
			if N == 51 {
				n = 1000
			}
			a := []float64{0, 0.5, 0.999, 1}[N%4]
			lineup := annealLineups[N%len(annealLineups)]
			ann := []string{"simple", "elapsed"}[N%2]
			runAnnealCaseRecorded(c, annealCase{annealer: ann, expl: expl, N: n, T0: 1000, a: a, site: "none", lineup: lineup, modulo: 1, wired: expl != "null" && N%3 == 0})
			if n > 0 {
				at := 1 + (N*7)%n
				runAnnealCaseRecorded(c, annealCase{annealer: ann, expl: expl, N: n, T0: 10, a: a, site: []string{"try", "cool"}[N%2], at: at, asError: N%3 == 0, lineup: "RR", modulo: 1})
			}
		}
	}
	for i := 0; i < c.N(4000, 60000); i++ {
		runAnnealCaseRecorded(c, annealRandomCase(r, c.Thorough()))
	}
	probeChainedMessageObservers(c)
}
