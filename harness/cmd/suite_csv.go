//go:build verif

package main

// Correspondence suite `csv` (property C20): crem's CSV loader
// (csv.DataSet.ParseCsvTextIntoTable -> encoding/csv reader -> deriveTableFromRecords ->
// BaseCaster.Cast -> tables.CsvTableImpl) against lean/Crem/Model/Csv.lean.
//
// protocol
//   load x<hex of the text>  ->  err:<class> | panic:<crem function> |
//                                ok h=<hex>|… dims=<c>x<r>|panic rows=<cell>|…;…
//   cast x<hex of one field> ->  <cell>
//   cell = <kind>/<CellString read-back>/<CellFloat64 read-back>   (see lean/Driver/Csv.lean)
//   loadtc x<hex of the text> x<hex of a text heading>…  ->  as load (ParseCsvTextIntoTableWithTextColumns)
//   hist n<hex name> x<hex text> x<hex heading>… / …     ->  several loads into ONE data set; per step
//                                `e=<class of the error added|-> n=<errors so far> t=<none|ok …>`
//   castgo x<hex of one field> -> go-only   (literal with more than 800 mantissa digits: outside the
//                                model's scope, judged against strconv.ParseFloat only)
//
// Besides the diff against the model, every result is judged directly against the property
// (reference for "the fields of the text": Go's encoding/csv with the loader's configuration;
// reference for "numeric": strconv.ParseFloat accepting the field).

import (
	stdcsv "encoding/csv"
	"encoding/hex"
	stderrors "errors"
	"fmt"
	"math"
	"os"
	"path/filepath"
	"runtime/debug"
	"sort"
	"strconv"
	"strings"

	cremcsv "github.com/LindsayBradford/crem/internal/pkg/dataset/csv"
	"github.com/LindsayBradford/crem/internal/pkg/dataset/tables"
	cremerrors "github.com/LindsayBradford/crem/pkg/errors"
	cremstrings "github.com/LindsayBradford/crem/pkg/strings"
)

func init() { register("csv", suiteCsv) }

// protectSite runs f; on a panic it returns the message and the innermost crem function on the stack.
func protectSite(f func()) (msg, site string) {
	defer func() {
		if r := recover(); r != nil {
			msg = fmt.Sprint(r)
			site = "unknown"
			for _, l := range strings.Split(string(debug.Stack()), "\n") {
				if strings.HasPrefix(l, "\t") || !strings.Contains(l, "LindsayBradford/crem/") || strings.Contains(l, "verifharness") {
					continue
				}
				if i := strings.LastIndex(l, "("); i > 0 {
					l = l[:i]
				}
				if i := strings.LastIndex(l, "."); i >= 0 {
					l = l[i+1:]
				}
				site = l
				break
			}
		}
	}()
	f()
	return "", ""
}

func csvRefRead(text string) ([][]string, error) {
	r := stdcsv.NewReader(strings.NewReader(text))
	r.TrimLeadingSpace = true
	return r.ReadAll()
}

func csvErrClass(err error) string {
	var pe *stdcsv.ParseError
	if stderrors.As(err, &pe) {
		switch pe.Err {
		case stdcsv.ErrBareQuote:
			return "bareQuote"
		case stdcsv.ErrQuote:
			return "quote"
		case stdcsv.ErrFieldCount:
			return "fieldCount"
		}
	}
	return "other"
}

// csvSubErrClass: class of one entry of ds.errors.  The reader's errors are recognised by their TYPE (however wrapped).  crem's
// own two refusals are plain errors whose wording is nobody's contract; they are recognised by what they are ABOUT: the text
// has no record at all (noRecords), the name is already in use (duplicateTable, only where the caller says so).
func csvSubErrClass(errs []error, text string, nameTaken bool) string {
	// one refusal may be recorded as several entries (the reader's error and a remark of the data set's): the reader's counts
	for _, err := range errs {
		if c := csvErrClass(err); c != "other" {
			return c
		}
	}
	ref, refErr := csvRefRead(text)
	switch {
	case refErr == nil && len(ref) == 0:
		return "noRecords"
	case refErr == nil && nameTaken:
		return "duplicateTable"
	}
	return "other"
}

// csvErrorsOf: the entries of ds.Errors() (nil when there is none)
func csvErrorsOf(ds *cremcsv.DataSet) []error {
	err := ds.Errors()
	if err == nil {
		return nil
	}
	ce, ok := err.(*cremerrors.CompositeError)
	if !ok {
		return []error{err}
	}
	out := make([]error, ce.Size())
	for i := range out {
		out[i] = ce.SubError(i)
	}
	return out
}

func hexs(s string) string { return hex.EncodeToString([]byte(s)) }

// cellCanon renders one cell with its read-backs; kind is "n", "b", "t" or "?".
func cellCanon(t tables.CsvTable, col, row uint) (canon string, kind string, value interface{}) {
	var v interface{}
	if p, _ := protectSite(func() { v = t.Cell(col, row) }); p != "" {
		return "cell!", "?", nil
	}
	var k string
	switch x := v.(type) {
	case float64:
		kind, k = "n", "n"+floatBits(x)
	case bool:
		kind, k = "b", "b"+b2s(x)
	case string:
		kind, k = "t", "t"+hexs(x)
	case nil:
		kind, k = "?", "nil"
	default:
		kind, k = "?", fmt.Sprintf("?%T", v)
	}
	var s string
	sOut := ""
	if p, _ := protectSite(func() { s = t.CellString(col, row) }); p != "" {
		sOut = "s!"
	} else if kind == "n" {
		// CellString of a float is fmt's %v text: canonicalised by parsing it back (floats never
		// cross the protocol as printed decimals)
		if f2, err := strconv.ParseFloat(s, 64); err == nil {
			sOut = "g" + floatBits(f2)
		} else {
			sOut = "g?" + hexs(s)
		}
	} else {
		sOut = "s" + hexs(s)
	}
	var f float64
	fOut := ""
	if p, _ := protectSite(func() { f = t.CellFloat64(col, row) }); p != "" {
		fOut = "f!"
	} else {
		fOut = "f" + floatBits(f)
	}
	return k + "/" + sOut + "/" + fOut, kind, v
}

var csvCaster = new(cremstrings.BaseCaster).WithNumbersAsFloats()

type csvFinding struct{ predicate, signature, detail string }

type csvEval struct {
	result   string // canonical implementation result (protocol line)
	findings []csvFinding
	verdict  string // ok | ok,dims-panic | err:<class> | panic:<site>
	feat     string
	kinds    map[string]int
	cols     uint
	rows     uint
}

func (e *csvEval) fail(predicate, signature, detail string) {
	e.findings = append(e.findings, csvFinding{predicate, signature, detail})
}

func (e *csvEval) has(signature string) bool {
	for _, f := range e.findings {
		if f.signature == signature {
			return true
		}
	}
	return false
}

// csvCastCase: one field through BaseCaster.Cast (as configured by CsvDataSet.go's init) into a 1x1 table.
func csvCastCase(c *Ctx, field, stream string) {
	op := "cast x" + hexs(field)
	t := new(tables.CsvTableImpl)
	var canon, kind string
	e := &csvEval{}
	p, site := protectSite(func() {
		t.SetColumnAndRowSize(1, 1)
		t.SetCell(0, 0, csvCaster.Cast(field))
		canon, kind, _ = cellCanon(t, 0, 0)
	})
	if p != "" {
		c.Op(op, "panic:"+site)
		csvFail(c, "no-panic", "csv:cast-panic", p, []string{op})
		return
	}
	c.Op(op, canon)
	csvJudgeCell(e, field, t, 0, 0)
	for _, f := range e.findings {
		csvFail(c, f.predicate, f.signature, f.detail, []string{op})
	}
	c.Stat(stream + " cell=" + kind)
	if kind != "t" {
		c.Nontrivial(op)
	}
}

// csvJudgeTextCell: a cell of a text column must be the field's text, whatever it looks like.
func csvJudgeTextCell(e *csvEval, field string, t tables.CsvTable, col, row uint) {
	v := t.Cell(col, row)
	if x, ok := v.(string); !ok || x != field {
		e.fail("cells-faithful", "csv:text-column-cell-not-text", fmt.Sprintf("field %q of a text column became %T %v at (col %d,row %d)", field, v, v, col, row))
	} else if got := t.CellString(col, row); got != field {
		e.fail("cells-faithful", "csv:text-column-cell-not-text", fmt.Sprintf("field %q of a text column reads back as %q", field, got))
	}
}

// csvJudgeCell: the property's clause for one cell — numeric fields as numbers, all others as text.
func csvJudgeCell(e *csvEval, field string, t tables.CsvTable, col, row uint) {
	v := t.Cell(col, row)
	want, perr := strconv.ParseFloat(field, 64)
	switch x := v.(type) {
	case float64:
		if perr != nil || math.Float64bits(x) != math.Float64bits(want) {
			e.fail("cells-faithful", "csv:number-cell-wrong", fmt.Sprintf("field %q became float64 %v (ParseFloat: %v, %v)", field, x, want, perr))
		}
	case string:
		if perr == nil {
			e.fail("cells-faithful", "csv:numeric-field-not-number", fmt.Sprintf("numeric field %q stayed text %q", field, x))
		} else if x != field {
			e.fail("cells-faithful", "csv:text-cell-wrong", fmt.Sprintf("field %q became text %q", field, x))
		}
	case bool:
		if perr == nil {
			e.fail("cells-faithful", "csv:numeric-field-not-number", fmt.Sprintf("numeric field %q became bool %v", field, x))
			return
		}
		e.fail("cells-faithful", "csv:bool-cell-loses-text",
			fmt.Sprintf("non-numeric field %q became bool %v at (col %d,row %d); CellString reads it back as %q", field, x, col, row, t.CellString(col, row)))
	default:
		e.fail("cells-faithful", "csv:cell-kind", fmt.Sprintf("field %q became %T", field, v))
	}
}

func csvFeatures(text string, ref [][]string) string {
	var fs []string
	if strings.Contains(text, "\"") {
		fs = append(fs, "quote")
	}
	if strings.Contains(text, "\r") {
		fs = append(fs, "cr")
	}
	if strings.Contains(text, "\n\n") || strings.HasPrefix(text, "\n") || strings.Contains(text, "\n\r\n") {
		fs = append(fs, "blank")
	}
	if strings.Contains(text, ", ") || strings.Contains(text, ",\t") || strings.Contains(text, "\xa0") || strings.Contains(text, "\xe2\x80") || strings.HasPrefix(text, " ") {
		fs = append(fs, "space")
	}
	if len(ref) > 0 && len(ref[0]) > 1 {
		fs = append(fs, "multicol")
	}
	if len(fs) == 0 {
		return "plain"
	}
	return strings.Join(fs, "+")
}

// csvLoader puts a text through crem's loader and returns the data set holding table "t".
type csvLoader func(text string) (ds *cremcsv.DataSet, tableName string)

func csvLoadText(text string) (*cremcsv.DataSet, string) {
	ds := cremcsv.NewDataSet("verif")
	ds.ParseCsvTextIntoTable("t", text)
	return ds, "t"
}

// csvLoadTextTC: the text-column entry point the engine's POST /solutions handler uses
func csvLoadTextTC(ths []string) csvLoader {
	return func(text string) (*cremcsv.DataSet, string) {
		ds := cremcsv.NewDataSet("verif")
		ds.ParseCsvTextIntoTableWithTextColumns("t", text, ths...)
		return ds, "t"
	}
}

func csvIsTextHeading(ths []string, heading string) bool {
	for _, h := range ths {
		if h == heading {
			return true
		}
	}
	return false
}

// csvTableCanon: the protocol text of a loaded table (`ok h=… dims=… rows=…`), with its dimensions.
func csvTableCanon(ct tables.CsvTable, kinds map[string]int) (canon string, cols, rows uint, dimsPanic string) {
	header := ct.Header()
	hs := make([]string, len(header))
	for i, h := range header {
		hs[i] = hexs(h)
	}
	dims := ""
	dimsPanic, _ = protectSite(func() { cols, rows = ct.ColumnAndRowSize() })
	if dimsPanic != "" {
		dims = "panic"
		cols, rows = 0, 0
	} else {
		dims = fmt.Sprintf("%dx%d", cols, rows)
	}
	var rowStrs []string
	for r := uint(0); r < rows; r++ {
		cs := make([]string, cols)
		for k := uint(0); k < cols; k++ {
			var kind string
			cs[k], kind, _ = cellCanon(ct, k, r)
			if kinds != nil {
				kinds[kind]++
			}
		}
		rowStrs = append(rowStrs, strings.Join(cs, "|"))
	}
	return fmt.Sprintf("ok h=%s dims=%s rows=%s", strings.Join(hs, "|"), dims, strings.Join(rowStrs, ";")), cols, rows, dimsPanic
}

// csvJudgeTable: the property's clauses for a table loaded from a text the reader accepts as `ref`
// (at least one record): header, dimensions, every cell.
func csvJudgeTable(e *csvEval, text string, ct tables.CsvTable, ref [][]string, ths []string, cols, rows uint, dp string) {
	header := ct.Header()
	wantCols, wantRows := uint(len(ref[0])), uint(len(ref)-1)
	same := len(header) == len(ref[0])
	for i := 0; same && i < len(header); i++ {
		same = header[i] == ref[0][i]
	}
	if !same {
		e.fail("header-faithful", "csv:header-wrong", fmt.Sprintf("header %q, first record %q", header, ref[0]))
	}
	if dp != "" {
		sig := "csv:dims-panic"
		if wantRows == 0 {
			sig = "csv:header-only-dims-panic"
		}
		e.fail("dimensions", sig, fmt.Sprintf("text %q loads, then ColumnAndRowSize() panics: %s (expected %d columns, %d rows)", clip(text, 200), dp, wantCols, wantRows))
	} else if cols != wantCols || rows != wantRows {
		e.fail("dimensions", "csv:dims-wrong", fmt.Sprintf("text %q: ColumnAndRowSize() = (%d,%d), text has %d header columns and %d data rows", clip(text, 200), cols, rows, wantCols, wantRows))
	} else {
		for r := uint(0); r < rows; r++ {
			for k := uint(0); k < cols; k++ {
				if csvIsTextHeading(ths, ref[0][k]) {
					csvJudgeTextCell(e, ref[r+1][k], ct, k, r)
				} else {
					csvJudgeCell(e, ref[r+1][k], ct, k, r)
				}
			}
		}
	}
}

// csvEvaluate: one text through the loader (ths = the text headings the loader was given);
// canonical result + the property judged directly.
func csvEvaluate(text string, loader csvLoader, ths []string) *csvEval {
	e := &csvEval{kinds: map[string]int{}}
	ref, refErr := csvRefRead(text)
	e.feat = csvFeatures(text, ref)
	var ds *cremcsv.DataSet
	var name string
	p, site := protectSite(func() { ds, name = loader(text) })
	if p != "" {
		e.result = "panic:" + site
		e.verdict = e.result
		sig := "csv:load-panic"
		if refErr == nil && len(ref) == 0 && site == "deriveContextFromRecords" {
			sig = "csv:empty-input-panic" // no record at all: empty text or only empty lines
		}
		e.fail("no-panic", sig, fmt.Sprintf("loading %q panics in %s: %s", clip(text, 200), site, p))
		return e
	}
	err := ds.Errors()
	table, terr := ds.Table(name)
	if err != nil {
		class := csvSubErrClass(csvErrorsOf(ds), text, false)
		e.result = "err:" + class
		e.verdict = e.result
		if terr == nil {
			e.fail("error-xor-table", "csv:error-and-table", fmt.Sprintf("text %q: error %v and a table", clip(text, 200), err))
		}
		if refErr == nil && len(ref) > 0 { // a text without any record may be rejected: it has no header
			e.fail("error-iff-malformed", "csv:spurious-error", fmt.Sprintf("text %q rejected (%v) though the reader accepts it", clip(text, 200), err))
		}
		if refErr == nil && len(ref) == 0 && class != "noRecords" {
			e.fail("error-iff-malformed", "csv:record-free-text-wrong-error", fmt.Sprintf("text %q has no record: expected exactly the one error 'no header record', got %v", clip(text, 200), err))
		}
		if refErr != nil && class != csvErrClass(refErr) {
			e.fail("error-iff-malformed", "csv:wrong-error-class", fmt.Sprintf("text %q: the reader's error is %v, the loader reports %v", clip(text, 200), refErr, err))
		}
		return e
	}
	if terr != nil {
		e.result, e.verdict = "no-error-no-table", "no-error-no-table"
		e.fail("error-xor-table", "csv:no-error-no-table", fmt.Sprintf("text %q: neither error nor table", clip(text, 200)))
		return e
	}
	if refErr != nil {
		e.fail("error-iff-malformed", "csv:missed-error", fmt.Sprintf("text %q loaded though the reader rejects it (%v)", clip(text, 200), refErr))
	}
	ct, isCsv := table.(tables.CsvTable)
	if !isCsv {
		e.result, e.verdict = "not-a-csv-table", "not-a-csv-table"
		e.fail("table-type", "csv:table-type", fmt.Sprintf("%T", table))
		return e
	}
	var dp string
	e.result, e.cols, e.rows, dp = csvTableCanon(ct, e.kinds)
	e.verdict = "ok"
	if dp != "" {
		e.verdict = "ok,dims-panic"
	}

	// ---- the property, judged directly on the implementation
	if refErr == nil && len(ref) > 0 {
		csvJudgeTable(e, text, ct, ref, ths, e.cols, e.rows, dp)
	}
	return e
}

// csvShrink: greedy byte/chunk deletion keeping the same failure signature.
func csvShrink(text, signature string, loader csvLoader, ths []string) string {
	still := func(t string) bool { return csvEvaluate(t, loader, ths).has(signature) }
	for chunk := len(text) / 2; chunk >= 1; chunk /= 2 {
		for i := 0; i+chunk <= len(text); {
			cand := text[:i] + text[i+chunk:]
			if still(cand) {
				text = cand
			} else {
				i += chunk
			}
		}
	}
	return text
}

var csvSeenSignature = map[string]bool{}
var csvSignatureCount = map[string]int{}

// csvFail reports a direct failure.  Ctx keeps at most 50 of them, and the defects of today's
// code fire thousands of times, so only the first two witnesses of each signature are handed
// over in full (the rest are counted): a new signature can never be crowded out.
func csvFail(c *Ctx, predicate, signature, detail string, ops []string) {
	csvSignatureCount[signature]++
	if csvSignatureCount[signature] <= 2 {
		c.Fail(predicate, signature, detail, ops)
	} else {
		c.hist["direct-failure:"+signature]++
	}
}

// csvLoadCase: one text through ParseCsvTextIntoTable (or, for the file stream, DataSet.Load).
func csvLoadCase(c *Ctx, text, stream string, loader csvLoader) {
	csvLoadCaseTC(c, text, stream, loader, nil, false)
}

func csvTCOp(text string, ths []string) string {
	op := "loadtc x" + hexs(text)
	for _, h := range ths {
		op += " x" + hexs(h)
	}
	return op
}

// csvLoadCaseTC: tc = the text goes through ParseCsvTextIntoTableWithTextColumns with headings ths (op `loadtc`)
func csvLoadCaseTC(c *Ctx, text, stream string, loader csvLoader, ths []string, tc bool) {
	mkop := func(t string) string {
		if tc {
			return csvTCOp(t, ths)
		}
		return "load x" + hexs(t)
	}
	op := mkop(text)
	e := csvEvaluate(text, loader, ths)
	c.Op(op, e.result)
	for _, f := range e.findings {
		ops := []string{op}
		detail := f.detail
		if !csvSeenSignature[f.signature] {
			// first witness of this signature in the run: minimise it
			csvSeenSignature[f.signature] = true
			small := csvShrink(text, f.signature, loader, ths)
			if small != text {
				for _, g := range csvEvaluate(small, loader, ths).findings {
					if g.signature == f.signature {
						detail = g.detail + "   [minimised from " + strconv.Itoa(len(text)) + " bytes]"
					}
				}
				ops = []string{mkop(small)}
			}
		}
		csvFail(c, f.predicate, f.signature, detail, ops)
	}
	c.Stat(stream + " " + e.verdict)
	if tc && strings.HasPrefix(e.verdict, "ok") {
		hit := 0
		if ref, err := csvRefRead(text); err == nil && len(ref) > 1 {
			for _, h := range ref[0] {
				if csvIsTextHeading(ths, h) {
					hit++
				}
			}
		}
		c.Stat(stream + " ok-text headings given=" + csvBucket(len(ths)) + " text columns with data=" + csvBucket(hit))
	}
	if strings.HasPrefix(e.verdict, "ok") {
		c.Stat("ok-text features=" + e.feat)
		if e.verdict == "ok" {
			c.Stat(fmt.Sprintf("ok-text columns=%s rows=%s", csvBucket(int(e.cols)), csvBucket(int(e.rows))))
		} else {
			c.Stat("ok-text header-only (ColumnAndRowSize panics)")
		}
	}
	for k, n := range e.kinds {
		c.hist["cells kind="+k] += n
	}
	if !strings.HasPrefix(e.verdict, "ok") || e.feat != "plain" || e.kinds["n"] > 0 || e.kinds["b"] > 0 || e.verdict != "ok" {
		c.Nontrivial(op)
	}
}

// ---------------------------------------------------------------- several loads into one data set

type csvHistStep struct {
	name, text string
	ths        []string
}

func csvHistOp(steps []csvHistStep) string {
	parts := make([]string, len(steps))
	for i, st := range steps {
		parts[i] = "n" + hexs(st.name) + " x" + hexs(st.text)
		for _, h := range st.ths {
			parts[i] += " x" + hexs(h)
		}
	}
	return "hist " + strings.Join(parts, " / ")
}

// csvHistCase: the steps go into ONE csv.DataSet through ParseCsvTextIntoTableWithTextColumns.  After each
// step the model is told the class of the error the step added, the number of errors so far and the table
// now found under the step's name.  Judged directly, step by step (the property's clause, on a data set
// with history: what ONE load adds is a table holding this text's fields, or an error):
//   a text the reader rejects / without record  -> exactly one more error, every table as before;
//   a well-formed text                           -> no new error and Table(name) is a NEW table holding this
//                                                   text, or exactly one more error and every table as before
//                                                   (a name already in use); never neither, never both.
func csvHistCase(c *Ctx, steps []csvHistStep, stream string) {
	op := csvHistOp(steps)
	var outs []string
	var fails []csvFinding
	verdicts := ""
	failedLoads := 0
	p, site := protectSite(func() {
		ds := cremcsv.NewDataSet("verif")
		for i, st := range steps {
			before := len(csvErrorsOf(ds))
			prev := map[string]interface{}{}
			for k, v := range ds.Tables() {
				prev[k] = v
			}
			if len(st.ths) == 0 {
				ds.ParseCsvTextIntoTable(st.name, st.text) // the plain entry point, as most callers use it
			} else {
				ds.ParseCsvTextIntoTableWithTextColumns(st.name, st.text, st.ths...)
			}
			errs := csvErrorsOf(ds)
			added := "-"
			if len(errs) > before {
				_, taken := prev[st.name]
				added = csvSubErrClass(errs[before:], st.text, taken)
				failedLoads++
				if ref0, refErr0 := csvRefRead(st.text); taken && (refErr0 != nil || len(ref0) == 0) {
					// the name is in use AND the text is not loadable: the load is refused, for whichever reason the loader meets first
					added = "E*"
				}
			} else if len(errs) < before {
				added = fmt.Sprintf("errors:%d->%d", before, len(errs))
			}
			tcanon := "none"
			table, terr := ds.Table(st.name)
			var ct tables.CsvTable
			if terr == nil {
				var isCsv bool
				if ct, isCsv = table.(tables.CsvTable); isCsv {
					tcanon, _, _, _ = csvTableCanon(ct, nil)
				} else {
					tcanon = fmt.Sprintf("?%T", table)
				}
			}
			// n = the number of loads refused so far (how many entries one refusal leaves in the error list is not the property's matter)
			outs = append(outs, fmt.Sprintf("e=%s n=%d t=%s", added, failedLoads, tcanon))

			// ---- direct judgement of this step
			e := &csvEval{}
			ref, refErr := csvRefRead(st.text)
			othersSame := len(ds.Tables()) >= len(prev)
			for k, v := range prev {
				if now, ok := ds.Tables()[k]; !ok || (k != st.name && now != v) {
					othersSame = false
				}
			}
			if !othersSame {
				e.fail("error-xor-table", "csv:load-disturbs-other-tables", fmt.Sprintf("step %d (%q under %q): a table loaded earlier under another name changed or vanished", i+1, clip(st.text, 80), st.name))
			}
			newTable := ct != nil && prev[st.name] != interface{}(table)
			wellFormed := refErr == nil && len(ref) > 0
			switch {
			case added != "-" && newTable:
				e.fail("error-xor-table", "csv:error-and-table", fmt.Sprintf("step %d (%q under %q): an error (%s) and a new table", i+1, clip(st.text, 80), st.name, added))
			case !wellFormed && added == "-":
				e.fail("error-iff-malformed", "csv:missed-error", fmt.Sprintf("step %d: text %q is rejected by the reader (or has no record) but added no error", i+1, clip(st.text, 80)))
			case wellFormed && added == "-" && !newTable:
				_, taken := prev[st.name]
				sig := "csv:no-error-no-table"
				if taken {
					sig = "csv:duplicate-table-neither-error-nor-table"
				}
				e.fail("error-xor-table", sig, fmt.Sprintf("step %d: well-formed text %q loaded under the name %q (already in use: %v) added no error, and Table(%q) does not hold it", i+1, clip(st.text, 80), st.name, taken, st.name))
			case wellFormed && added != "-":
				if _, taken := prev[st.name]; !taken {
					e.fail("error-iff-malformed", "csv:spurious-error", fmt.Sprintf("step %d: well-formed text %q under the free name %q rejected (%s)", i+1, clip(st.text, 80), st.name, added))
				}
			}
			if wellFormed && newTable {
				var cols, rows uint
				dp, _ := protectSite(func() { cols, rows = ct.ColumnAndRowSize() })
				csvJudgeTable(e, st.text, ct, ref, st.ths, cols, rows, dp)
			}
			fails = append(fails, e.findings...)
			switch {
			case added == "-":
				verdicts += "T"
			case added == "duplicateTable":
				verdicts += "D"
			default:
				verdicts += "E"
			}
		}
	})
	if p != "" {
		c.Op(op, "panic-or-bad-op")
		csvFail(c, "no-panic", "csv:load-panic", fmt.Sprintf("history %s panics in %s: %s", clip(op, 300), site, p), []string{op})
		return
	}
	c.Op(op, strings.Join(outs, " / "))
	for _, f := range fails {
		if f.signature == "csv:bool-cell-loses-text" {
			c.hist["direct-failure:"+f.signature]++ // D20 is witnessed (and minimised) by the load stream
			continue
		}
		csvFail(c, f.predicate, f.signature, f.detail, []string{op})
	}
	c.Stat(stream + " steps=" + strconv.Itoa(len(steps)))
	for i, v := range verdicts { // T = table added, E = text rejected, D = name already in use
		c.hist[stream+" step outcome="+string(v)]++
		if i > 0 && v == 'D' {
			c.hist[stream+" step reuses a name"]++
		}
		if i > 0 && v == 'T' && strings.ContainsAny(verdicts[:i], "ED") {
			c.hist[stream+" table added after an earlier error (sticky Errors())"]++
		}
	}
	c.Nontrivial(op)
}

// csvCastGoCase: a literal outside the model's scope (more than 800 mantissa digits, where go's strconv is
// known to mis-scale): crem must store exactly what strconv.ParseFloat returns; the model is not asked.
func csvCastGoCase(c *Ctx, field, stream string) {
	op := "castgo x" + hexs(field)
	t := new(tables.CsvTableImpl)
	e := &csvEval{}
	p, site := protectSite(func() {
		t.SetColumnAndRowSize(1, 1)
		t.SetCell(0, 0, csvCaster.Cast(field))
		csvJudgeCell(e, field, t, 0, 0)
	})
	c.Op(op, "go-only")
	if p != "" {
		csvFail(c, "no-panic", "csv:cast-panic", p+" in "+site, []string{op})
		return
	}
	for _, f := range e.findings {
		csvFail(c, f.predicate, f.signature, f.detail, []string{op})
	}
	c.Stat(stream + " castgo")
}

// ---------------------------------------------------------------- DataSet.Load (files)

// csvFileLoader loads the text as table file `t.csv` named by a well-formed meta file.
func csvFileLoader(dir string) csvLoader {
	return func(text string) (*cremcsv.DataSet, string) {
		must(os.WriteFile(filepath.Join(dir, "meta.csv"), []byte("TableName, FilePath\nTbl, t.csv\n"), 0o644))
		must(os.WriteFile(filepath.Join(dir, "t.csv"), []byte(text), 0o644))
		ds := cremcsv.NewDataSet("verif")
		_ = ds.Load(filepath.Join(dir, "meta.csv"))
		return ds, "Tbl"
	}
}

// csvMetaCases: degenerate meta files through DataSet.Load.  Go-side only (the model has no file
// system): judged for "an error or a data set, never a panic".
func csvMetaCases(c *Ctx, dir string) {
	cases := []struct{ name, meta, table string }{
		{"well-formed", "TableName, FilePath\nTbl, t.csv\n", "a,b\n1,2\n"},
		{"empty meta file", "", "a\n1\n"},
		{"blank-lines meta file", "\n\n", "a\n1\n"},
		{"header-only meta file", "TableName, FilePath\n", "a\n1\n"},
		{"one-column meta file", "TableName\nTbl\n", "a\n1\n"},
		{"three-column meta file", "TableName, FilePath, X\nTbl, t.csv, 1\n", "a\n1\n"},
		{"wrong headings", "Name, Path\nTbl, t.csv\n", "a\n1\n"},
		{"numeric table name", "TableName, FilePath\n2019, t.csv\n", "a\n1\n"},
		{"boolean-spelled table name", "TableName, FilePath\nT, t.csv\n", "a\n1\n"},
		{"numeric file path", "TableName, FilePath\nTbl, 1\n", "a\n1\n"},
		{"missing table file", "TableName, FilePath\nTbl, nope.csv\n", "a\n1\n"},
		{"empty table file", "TableName, FilePath\nTbl, t.csv\n", ""},
		{"header-only table file", "TableName, FilePath\nTbl, t.csv\n", "a,b\n"},
		{"ragged meta file", "TableName, FilePath\nTbl\n", "a\n1\n"},
		{"quoted meta cells", "TableName, FilePath\n\"Tbl\", \"t.csv\"\n", "a\n1\n"},
	}
	for _, k := range cases {
		csvMetaCase(c, dir, k.name, k.meta, k.table)
	}
}

// csvMetaCase: op `meta x<hex of meta.csv> x<hex of the table file>`; result `go-only <outcome>`
// (the driver answers every `meta` line with its own evaluation of nothing: `go-only`).
func csvMetaCase(c *Ctx, dir, name, meta, table string) {
	op := "meta x" + hexs(meta) + " x" + hexs(table)
	must(os.WriteFile(filepath.Join(dir, "meta.csv"), []byte(meta), 0o644))
	must(os.WriteFile(filepath.Join(dir, "t.csv"), []byte(table), 0o644))
	must(os.WriteFile(filepath.Join(dir, "1"), []byte(table), 0o644))
	var err error
	var n int
	p, site := protectSite(func() {
		ds := cremcsv.NewDataSet("verif")
		err = ds.Load(filepath.Join(dir, "meta.csv"))
		n = len(ds.Tables())
	})
	c.Op(op, "go-only")
	switch {
	case p != "":
		c.Stat("meta-file panic:" + site)
		sig := "csv:meta-load-panic:" + site
		switch site {
		case "deriveContextFromRecords":
			sig = "csv:empty-input-panic" // same defect, reached through a file
		case "ColumnAndRowSize":
			sig = "csv:header-only-dims-panic" // same defect, reached through verifyMetaTable
		case "verifyMetaTableHeader":
			sig = "csv:meta-narrow-header-panic"
		case "verifyMetaTableRows":
			sig = "csv:meta-cell-not-string-panic"
		}
		csvFail(c, "no-panic", sig, fmt.Sprintf("DataSet.Load, %s (meta.csv = %q, table file = %q): panic in %s: %s", name, meta, table, site, p), []string{op})
	case err != nil:
		c.Stat("meta-file error")
	default:
		c.Stat(fmt.Sprintf("meta-file ok tables=%d", n))
	}
}

func csvBucket(n int) string {
	switch {
	case n <= 3:
		return strconv.Itoa(n)
	case n <= 6:
		return "4-6"
	case n <= 15:
		return "7-15"
	}
	return "16+"
}

// ---------------------------------------------------------------- generators

var csvSpaces = []string{" ", " ", "\t", "  ", "\u00a0", "\u0085", "\u1680", "\u2000", "\u2003", "\u200a", "\u2028", "\u2029", "\u202f", "\u205f", "\u3000", "\v", "\f", "\r"}

// byte sequences that look like the start of a Unicode space but are not one
var csvNearSpaces = []string{"\xc2", "\xc2\x84", "\xc2\xa1", "\xe2\x80", "\xe2\x80\x8b", "\xe2\x80\xa7", "\xe2\x81\x9e", "\xe2\x81", "\xe3\x80", "\xe3\x80\x81", "\xe1\x9a", "\xe1\x9a\x81", "\xe2", "\xef\xbb\xbf", "\u200b", "\ufffd", "\xff", "\xc0\xa0", "\xe0\x80\xa0", "\xe2\x80\x8a\x80", "\xc2\x85\x85"}

var csvBoolish = []string{"t", "T", "true", "TRUE", "True", "f", "F", "false", "FALSE", "False",
	"tRUE", "TRue", "truee", "tru", "fals", "FALSe", "yes", "no", "Y", "N", "1", "0", "on", "off", "tt", " true", "true "}

var csvSpecials = []string{"inf", "Inf", "INF", "+inf", "-inf", "infinity", "Infinity", "-INFINITY", "+iNfInItY", "infinit", "infi", "inf1", "infinityx", "in", "i", "+i", "-",
	"nan", "NaN", "NAN", "nAn", "+nan", "-nan", "nane", "na", "n", "+", "-", ".", "e", "e5", ".e5", "0x", "0x.", "0xp1", "0x1", "0x1p", "0x1p+", "0x1p-", "1e", "1e+", "1e-", "1.e1", "0.", ".0", "00", "-0", "+0", "-0.0", "0e0", "0x0p0", "-0x0p0"}

var csvBoundaries = []string{
	"1.7976931348623157e308", "1.7976931348623158e308", "1.7976931348623159e308", "1.797693134862315807e308", "1.797693134862315808e308", "17976931348623158e292", "179769313486231580793728971405303415079934132710037826936173778980444968292764750946649017977587207096330286416692887910946555547851940402630657488671505820681908902000708383676273854845817711531764475730270069855571366959622842914819860834936475292719074168444365510704342711559699508093042880177904174497791",
	"179769313486231580793728971405303415079934132710037826936173778980444968292764750946649017977587207096330286416692887910946555547851940402630657488671505820681908902000708383676273854845817711531764475730270069855571366959622842914819860834936475292719074168444365510704342711559699508093042880177904174497792",
	"1e308", "1e309", "2e308", "1.8e308", "-1.8e308", "1e310", "1e311", "0.1e310", "0.01e311",
	"4.9e-324", "5e-324", "2.4703282292062327e-324", "2.4703282292062328e-324", "2.47032822920623272e-324", "2.4703282292062327208051355972539e-324", "2.4703282292062327208051355972540e-324", "1e-323", "1e-324", "1e-325", "1e-330", "1e-331", "1e-332", "1e-340", "1e-400",
	"2.2250738585072014e-308", "2.2250738585072011e-308", "2.225073858507201e-308", "2.2250738585072012e-308",
	"9007199254740992", "9007199254740993", "9007199254740994", "9007199254740995", "9007199254740993.0000000000000000000000001", "9007199254740992.9999999999", "18014398509481985", "18014398509481986", "18014398509481987",
	"0.1", "0.2", "0.3", "0.30000000000000004", "123456789012345678901234567890", "0.000001", "1e22", "1e23", "8.41e21", "4.35e-9", "5e-7", "123.456e7", "1e15", "1e16", "1e37", "1e38",
	"0x1p1023", "0x1p1024", "0x1.fffffffffffffp1023", "0x1.fffffffffffff8p1023", "0x1.fffffffffffff7p1023", "0x1.fffffffffffff7ffffffffp1023", "0x1.fffffffffffff80000000001p1023", "0x0.8p1025", "0x10p1020",
	"0x1p-1074", "0x1p-1075", "0x1.000001p-1075", "0x1.8p-1074", "0x1p-1076", "0x3p-1075", "0x1p-1022", "0x0.fffffffffffffp-1022", "0x0.fffffffffffff8p-1022", "0x1.00000000000008p0", "0x1.00000000000018p0", "0x1.000000000000080000000000001p0", "0x123456789abcdef01p0", "0x123456789abcdef012345p-40",
	"0x1p99999", "0x1p-99999", "0x1p100000", "0x1p123456789", "0x1p-123456789", "1e99999", "1e-99999", "1e100000", "1e123456789", "1e-123456789", "0e123456789", "0x0p123456789", "1e10000", "1e9999", "1e09999", "1e-10000",
	"1_000", "1_0.5_0e1_0", "0x_1p0", "0x1_p1", "1__0", "_1", "1_", "1_.5", "1._5", "1e_5", "1e5_", "1_e5", "0_1", "0x1p1_0", "0x1p_1", "+_1", "0_x1p0", "1e+_5", "1e+5_0",
}

func csvDigits(r *Rng, n int) string {
	b := make([]byte, n)
	for i := range b {
		b[i] = byte('0' + r.Intn(10))
	}
	return string(b)
}

func csvHexDigits(r *Rng, n int) string {
	const hx = "0123456789abcdefABCDEF"
	b := make([]byte, n)
	for i := range b {
		b[i] = hx[r.Intn(len(hx))]
	}
	return string(b)
}

func csvSign(r *Rng) string {
	switch r.Intn(6) {
	case 0:
		return "+"
	case 1, 2:
		return "-"
	}
	return ""
}

// csvNumberish: float-literal grammar of strconv.ParseFloat with boundary values and mutations.
func csvNumberish(r *Rng) string {
	var s string
	switch r.Intn(12) {
	case 0:
		s = csvSpecials[r.Intn(len(csvSpecials))]
	case 1, 2:
		s = csvBoundaries[r.Intn(len(csvBoundaries))]
		if r.Chance(0.3) {
			s = csvSign(r) + s
		}
	case 3: // integers
		s = csvSign(r) + csvDigits(r, 1+r.Intn(1+r.Intn(24)))
	case 4, 5: // decimals
		a, b := csvDigits(r, r.Intn(6)), csvDigits(r, r.Intn(1+r.Intn(20)))
		s = csvSign(r) + a + "." + b
	case 6, 7, 8: // exponent forms
		m := csvDigits(r, 1+r.Intn(1+r.Intn(20)))
		if r.Chance(0.6) {
			m = csvDigits(r, r.Intn(4)) + "." + csvDigits(r, r.Intn(1+r.Intn(18)))
		}
		var e int
		switch r.Intn(6) {
		case 0:
			e = r.Intn(30)
		case 1:
			e = 290 + r.Intn(50)
		case 2:
			e = 300 + r.Intn(12)
		case 3:
			e = 320 + r.Intn(12)
		case 4:
			e = r.Intn(120000)
		default:
			e = r.Intn(400)
		}
		es := strconv.Itoa(e)
		if r.Chance(0.1) {
			es = "0" + es
		}
		s = csvSign(r) + m + []string{"e", "E"}[r.Intn(2)] + []string{"", "+", "-", "-"}[r.Intn(4)] + es
	case 9, 10: // hex floats
		m := csvHexDigits(r, 1+r.Intn(1+r.Intn(20)))
		if r.Chance(0.5) {
			m = csvHexDigits(r, r.Intn(3)) + "." + csvHexDigits(r, r.Intn(1+r.Intn(18)))
		}
		var e int
		switch r.Intn(5) {
		case 0:
			e = r.Intn(40)
		case 1:
			e = 960 + r.Intn(130)
		case 2:
			e = 1010 + r.Intn(30)
		case 3:
			e = r.Intn(120000)
		default:
			e = r.Intn(1200)
		}
		s = csvSign(r) + []string{"0x", "0X"}[r.Intn(2)] + m
		if !r.Chance(0.08) {
			s += []string{"p", "P"}[r.Intn(2)] + []string{"", "+", "-", "-"}[r.Intn(4)] + strconv.Itoa(e)
		}
	default: // long digit strings with compensating exponents
		// at most 780 digits: beyond its 800-digit buffer go's strconv slow path mis-scales a
		// mantissa whose decimal point comes after more than 800 digits or is absent (decimal.set
		// takes dp from the *stored* digit count; go1.23 and go1.26: d digits before the point parse
		// 10^(d-800) times too small, e.g. 850 digits with e-845 give 3.5e-46 instead of 35075.4),
		// which is strconv's defect, reached only when Eisel-Lemire gives up (a few inputs in a
		// thousand), and is outside the model's scope (mantDigits <= 800); one such literal is kept
		// in corpus/C20/long-mantissa.ops and judged against strconv only (op castgo)
		n := 20 + r.Intn(1+r.Intn(760))
		d := csvDigits(r, n)
		switch r.Intn(4) {
		case 0:
			s = d
		case 1:
			s = "0." + d
		case 2:
			s = d + "e-" + strconv.Itoa(n-10+r.Intn(20))
		default:
			s = "0." + strings.Repeat("0", r.Intn(340)) + d
		}
	}
	// underscores
	if r.Chance(0.12) && len(s) > 0 {
		k := 1 + r.Intn(2)
		for i := 0; i < k; i++ {
			p := r.Intn(len(s) + 1)
			s = s[:p] + "_" + s[p:]
		}
	}
	// mutation
	if r.Chance(0.12) && len(s) > 0 {
		const alpha = "0123456789+-.eEpPxX_abcfINFnat "
		p := r.Intn(len(s))
		switch r.Intn(3) {
		case 0:
			s = s[:p] + s[p+1:]
		case 1:
			s = s[:p] + string(alpha[r.Intn(len(alpha))]) + s[p:]
		default:
			s = s[:p] + string(alpha[r.Intn(len(alpha))]) + s[p+1:]
		}
	}
	return s
}

var csvWords = []string{"a", "b", "x", "Solution", "Actions", "Summary", "As-Is", "PlanningUnit", "1ABC", "F00", "E5", "abc def", "é", "日本", "-", "NA", "null", "1,5", "#c", "a;b", "a'b", "10%", "$3", "3 4"}

// csvFieldContent: what a field is meant to contain (before any quoting)
func csvFieldContent(r *Rng) string {
	switch r.Intn(16) {
	case 0, 1, 2:
		return csvWords[r.Intn(len(csvWords))]
	case 3, 4, 5:
		return csvNumberish(r)
	case 6:
		return csvBoolish[r.Intn(len(csvBoolish))]
	case 7:
		return ""
	case 8: // leading / trailing spaces
		w := csvWords[r.Intn(len(csvWords))]
		if r.Chance(0.5) {
			w = csvNumberish(r)
		}
		if r.Chance(0.6) {
			w = csvSpaces[r.Intn(len(csvSpaces))] + w
		}
		if r.Chance(0.5) {
			w += csvSpaces[r.Intn(len(csvSpaces))]
		}
		return w
	case 9: // near-space byte sequences
		return csvNearSpaces[r.Intn(len(csvNearSpaces))] + csvWords[r.Intn(len(csvWords))]
	case 10, 11: // needs quoting
		parts := []string{",", "\"", "\n", "\r\n", "\r", "\"\"", ", ", "\n\n", " \"", "a", "1", " "}
		n := 1 + r.Intn(4)
		s := ""
		for i := 0; i < n; i++ {
			s += parts[r.Intn(len(parts))]
			if r.Chance(0.4) {
				s += csvWords[r.Intn(len(csvWords))]
			}
		}
		return s
	case 12: // only spaces
		s := ""
		for i := 0; i <= r.Intn(3); i++ {
			s += csvSpaces[r.Intn(len(csvSpaces))]
		}
		return s
	case 13: // random bytes
		b := make([]byte, r.Intn(6))
		for i := range b {
			b[i] = byte(r.Intn(256))
		}
		return string(b)
	default:
		return csvWords[r.Intn(len(csvWords))] + strconv.Itoa(r.Intn(100))
	}
}

func csvNeedsQuotes(f string) bool {
	if f == "" {
		return false
	}
	if strings.ContainsAny(f, ",\"\n\r") {
		return true
	}
	for _, sp := range csvSpaces {
		if strings.HasPrefix(f, sp) {
			return true
		}
	}
	return false
}

func csvRenderField(r *Rng, f string) string {
	quote := false
	if csvNeedsQuotes(f) {
		quote = !r.Chance(0.08)
	} else {
		quote = r.Chance(0.1)
	}
	out := f
	if quote {
		if !r.Chance(0.04) {
			out = strings.ReplaceAll(out, "\"", "\"\"")
		}
		out = "\"" + out + "\""
		if r.Chance(0.03) {
			out += []string{" ", "x", "\"", "\r"}[r.Intn(4)]
		}
	}
	if r.Chance(0.15) {
		out = csvSpaces[r.Intn(len(csvSpaces))] + out
	}
	return out
}

// csvShaped: a text from the CSV grammar; returns the production tag too
func csvShaped(r *Rng) string {
	cols := 1 + r.Intn(1+r.Intn(6))
	rows := 1 + r.Intn(1+r.Intn(6)) // data rows
	if r.Chance(0.12) {
		rows = 0 // header only
	}
	eol := []string{"\n", "\n", "\r\n"}[r.Intn(3)]
	sep := []string{",", ",", ", ", ",\t", ",\u00a0"}[r.Intn(5)]
	var sb strings.Builder
	for i := 0; i <= rows; i++ {
		n := cols
		if r.Chance(0.06) {
			n = cols + r.Intn(3) - 1
			if n < 0 {
				n = 0
			}
		}
		for k := 0; k < n; k++ {
			if k > 0 {
				if r.Chance(0.9) {
					sb.WriteString(sep)
				} else {
					sb.WriteString(",")
				}
			}
			var f string
			if i == 0 && r.Chance(0.7) {
				f = csvWords[r.Intn(len(csvWords))]
			} else {
				f = csvFieldContent(r)
			}
			sb.WriteString(csvRenderField(r, f))
		}
		last := i == rows
		switch {
		case last && r.Chance(0.35):
			// no terminator
			if r.Chance(0.15) {
				sb.WriteString("\r")
			}
		case r.Chance(0.08):
			sb.WriteString([]string{"\r", "\r\r\n", "\n\n", "\n \n", "\r\n\r\n", "\n\r", "\n\t\n"}[r.Intn(7)])
		default:
			sb.WriteString(eol)
		}
	}
	return sb.String()
}

// csvTextHeadings: text headings for a text whose reader-level header is hdr: mostly headings that occur
// (so that the branch is taken), some that do not, the empty heading, duplicates.
func csvTextHeadings(r *Rng, hdr []string) []string {
	var ths []string
	n := r.Intn(4)
	for i := 0; i < n; i++ {
		switch {
		case len(hdr) > 0 && r.Chance(0.6):
			ths = append(ths, hdr[r.Intn(len(hdr))])
		case len(hdr) > 0 && r.Chance(0.3): // near misses: other letter case, a space more, a prefix
			h := hdr[r.Intn(len(hdr))]
			switch r.Intn(5) {
			case 0:
				h = strings.ToLower(h)
			case 1:
				h = strings.ToUpper(h)
			case 2:
				h = h + " "
			case 3:
				h = " " + h
			default:
				if len(h) > 0 {
					h = h[:len(h)-1]
				}
			}
			ths = append(ths, h)
		case r.Chance(0.3):
			ths = append(ths, "")
		default:
			ths = append(ths, csvWords[r.Intn(len(csvWords))])
		}
	}
	return ths
}

// csvTCShaped: a grammar text whose data fields are mostly number-/boolean-looking (what a text column is for)
func csvTCShaped(r *Rng) string {
	cols := 1 + r.Intn(5)
	rows := r.Intn(5)
	hdrWords := []string{"Solution", "Actions", "Summary", "a", "b", "Actions", "", "1E5", "true"}
	var sb strings.Builder
	for i := 0; i <= rows; i++ {
		for k := 0; k < cols; k++ {
			if k > 0 {
				sb.WriteString([]string{",", ", "}[r.Intn(2)])
			}
			var f string
			switch {
			case i == 0:
				f = hdrWords[r.Intn(len(hdrWords))]
			case r.Chance(0.45):
				f = csvNumberish(r)
			case r.Chance(0.4):
				f = csvBoolish[r.Intn(len(csvBoolish))]
			default:
				f = csvFieldContent(r)
			}
			sb.WriteString(csvRenderField(r, f))
		}
		sb.WriteString("\n")
	}
	return sb.String()
}

func csvHistory(r *Rng) []csvHistStep {
	if r.Chance(0.2) {
		// text columns are a matter of ONE load: the same text loaded first WITH its headings declared as text (under a free
		// name, or under one that makes the load fail) and then plainly must come out with its number-like fields as numbers
		text := csvTCShaped(r)
		ref, _ := csvRefRead(text)
		var hdr []string
		if len(ref) > 0 {
			hdr = ref[0]
		}
		first := csvHistStep{name: "t", text: text, ths: append([]string(nil), hdr...)}
		steps := []csvHistStep{}
		if r.Chance(0.4) {
			steps = append(steps, csvHistStep{name: "t", text: csvShaped(r)}) // so that the load with text headings is refused (name in use)
		}
		steps = append(steps, first, csvHistStep{name: "u", text: text})
		if r.Chance(0.5) {
			steps = append(steps, csvHistStep{name: "v", text: csvTCShaped(r)})
		}
		return steps
	}
	names := []string{"t", "t", "u", "requestContent", ""}
	n := 2 + r.Intn(3)
	steps := make([]csvHistStep, n)
	for i := range steps {
		var text string
		switch r.Intn(8) {
		case 0:
			text = csvDegenerate[r.Intn(len(csvDegenerate))]
		case 1:
			text = csvMutate(r, csvShaped(r))
		case 2:
			text = csvTCShaped(r)
		default:
			text = csvShaped(r)
		}
		steps[i] = csvHistStep{name: names[r.Intn(len(names))], text: text}
		if r.Chance(0.3) {
			ref, _ := csvRefRead(text)
			var hdr []string
			if len(ref) > 0 {
				hdr = ref[0]
			}
			steps[i].ths = csvTextHeadings(r, hdr)
		}
	}
	return steps
}

// csvLongLines: texts with a line of 4-16 KiB (encoding/csv's readLine takes its ErrBufferFull path from 4096
// bytes on): the line end — `\n`, `\r\n`, a lone `\r`, or none — is placed on and around the multiples of
// the 4096-byte buffer; the long line is the header, a data row, or a quoted field spanning lines.
func csvLongLines(r *Rng) string {
	edge := 4096 * (1 + r.Intn(4))
	target := edge + r.Intn(7) - 3 // bytes up to and including the line end
	eol := []string{"\n", "\r\n", "\r\n", "\r", ""}[r.Intn(5)]
	filler := func(n int) string {
		if n <= 0 {
			return ""
		}
		b := make([]byte, n)
		for i := range b {
			b[i] = "abcdefghij0123456789 .-_"[r.Intn(24)]
		}
		if b[0] == ' ' {
			b[0] = 'z'
		}
		return string(b)
	}
	cols := 1 + r.Intn(4)
	// the long line: cols fields, the padding spread over them (one of them may take nearly all of it)
	long := func() string {
		body := target - len(eol) - (cols - 1)
		if body < cols {
			body = cols
		}
		var fs []string
		rest := body
		for k := 0; k < cols; k++ {
			n := rest
			if k < cols-1 {
				n = r.Intn(rest/(cols-k) + 1)
				if r.Chance(0.3) {
					n = r.Intn(40)
				}
			}
			rest -= n
			f := filler(n)
			if n >= 2 && r.Chance(0.25) {
				f = "\"" + filler(n-2) + "\"" // a quoted field, perhaps across the buffer edge
			}
			if n >= 8 && r.Chance(0.15) {
				f = "\"" + filler((n-3)/2) + "\n" + filler(n-3-(n-3)/2) + "\"" // ... spanning two lines
			}
			fs = append(fs, f)
		}
		return strings.Join(fs, ",")
	}
	short := func() string {
		fs := make([]string, cols)
		for k := range fs {
			fs[k] = []string{"a", "1", "x y", "", "2.5", "true"}[r.Intn(6)]
		}
		if cols == 1 && fs[0] == "" {
			fs[0] = "q"
		}
		return strings.Join(fs, ",")
	}
	switch r.Intn(3) {
	case 0: // long header
		return long() + eol + short() + "\n"
	case 1: // long last data row
		return short() + "\n" + long() + eol
	default: // long row in the middle
		return short() + "\n" + long() + eol + short() + "\n"
	}
}

// csvBigTable: many columns and rows of short fields
func csvBigTable(r *Rng) string {
	cols := 9 + r.Intn(40)
	rows := 8 + r.Intn(60)
	fields := []string{"1", "0", "x", "", "2.5", "T", "1e3", "abc", "-7", " s"}
	var sb strings.Builder
	for i := 0; i <= rows; i++ {
		n := cols
		if r.Chance(0.01) {
			n += r.Intn(3) - 1
		}
		for k := 0; k < n; k++ {
			if k > 0 {
				sb.WriteString(",")
			}
			if i == 0 {
				sb.WriteString("h" + strconv.Itoa(k%7))
			} else {
				sb.WriteString(fields[r.Intn(len(fields))])
			}
		}
		sb.WriteString([]string{"\n", "\r\n"}[r.Intn(2)])
	}
	return sb.String()
}

// csvTallTable: `rows` data rows of 1-3 short fields
func csvTallTable(r *Rng, rows int) string {
	cols := 1 + r.Intn(3)
	fields := []string{"1", "0", "x", "2.5", "T", "1e3", "abc", "-7", "4"}
	var sb strings.Builder
	for i := 0; i <= rows; i++ {
		for k := 0; k < cols; k++ {
			if k > 0 {
				sb.WriteString(",")
			}
			if i == 0 {
				sb.WriteString("c" + strconv.Itoa(k))
			} else {
				sb.WriteString(fields[(i*7+k*3+r.Intn(2))%len(fields)])
			}
		}
		sb.WriteString("\n")
	}
	return sb.String()
}

var csvRawAlpha = []byte("ab1,\"\n\r \t\xc2\xa0\x85\xe2\x80\x81\x9f\xe3\xe1\x9a\xa8\xaf\x8ate.-x0,\"\n")

func csvRaw(r *Rng) string {
	n := r.Intn(1 + r.Intn(40))
	b := make([]byte, n)
	if r.Chance(0.3) {
		for i := range b {
			b[i] = byte(r.Intn(256))
		}
	} else {
		for i := range b {
			b[i] = csvRawAlpha[r.Intn(len(csvRawAlpha))]
		}
	}
	return string(b)
}

func csvMutate(r *Rng, s string) string {
	n := 1 + r.Intn(3)
	for i := 0; i < n; i++ {
		ins := string(csvRawAlpha[r.Intn(len(csvRawAlpha))])
		if len(s) == 0 {
			s = ins
			continue
		}
		p := r.Intn(len(s))
		switch r.Intn(4) {
		case 0:
			s = s[:p] + s[p+1:]
		case 1:
			s = s[:p] + ins + s[p:]
		case 2:
			s = s[:p] + ins + s[p+1:]
		default: // truncate
			s = s[:p]
		}
	}
	return s
}

var csvDegenerate = []string{
	"", "a,b\n", "a\ntrue\n", // the canonical witnesses of today's three defects come first
	"", "\n", "\r\n", "\r", "\n\n\n", "\r\n\r\n", "\n\r", "\r\r", "\r\r\n", " ", " \n", "\t", "\u00a0", "\u2003\n", "\xc2", "\xe2\x80",
	"a", "a\n", "a\r\n", "a\r", "a\n\n", "\na\n", "\n\na", "a,b", "a,b\n", "a,b\r\n", "a,b\r", "a,b\n\n\n", "a, b\n", " a,b\n", "a ,b\n",
	",", ",\n", ",,", ",,\n", "a,", "a,\n", ",a\n", "\"\"", "\"\"\n", "\"\",\"\"\n", "\"", "\"\n", "\"a", "\"a\"\"", "\"a\"b", "\"a\" \n", "a\"", "a\"b\"\n",
	"a\n1", "a\n1\n", "a\n1\r\n", "a\n1\r", "a\n\n1\n", "a\n \n", "a\n\"\"\n", "a\n,\n", "a,b\n1\n", "a\n1,2\n", "a,b\n1,2\n3\n", "a,b\n1,2\n3,4,5\n",
	"a\ntrue\n", "a\nF\n", "a\nt\n", "a,b\n1,false\n", "a\nTRUE\nx\n", "true\n", "true,false\n1,2\n",
	"a\n1e5\n", "a\n1E5\n", "a\n0x1p-2\n", "a\ninf\n", "a\nNaN\n", "a\n1e400\n", "a\n1_000\n", "a\n 12\n", "a\n12 \n", "a\n\"12\"\n", "a\n\" 12\"\n",
	"x\n\"multi\nline\"\n", "x\n\"multi\r\nline\"\n", "x,y\n\"a,b\",\"c\"\"d\"\n", "x,y\n\"a\", \"b\"\n", "x,y\n\"a\" ,\"b\"\n",
	"\xef\xbb\xbfa,b\n1,2\n", "a,b\n1,2", "a,b\n1,2\r", "a,b\n1,2\r\r", "a,b\n1,\n", "a,b\n,\n", "a,b\n, \n", "a,b\n ,\n",
	"Solution, Cost, Actions, Summary\nAs-Is, 0.000, 0, base\n1-of-2, 12.500, 1E5, x\n2-of-2, 3.000, F, y\n",
}

// csvReplayLines re-executes protocol lines (replay files and the corpus).
func csvReplayLines(c *Ctx, lines []string, stream string) {
	for _, l := range lines {
		w := strings.Fields(l)
		if len(w) == 3 && w[0] == "meta" && strings.HasPrefix(w[1], "x") && strings.HasPrefix(w[2], "x") {
			m, err1 := hex.DecodeString(w[1][1:])
			t, err2 := hex.DecodeString(w[2][1:])
			if err1 == nil && err2 == nil {
				dir, derr := os.MkdirTemp("", "crem-verif-csv-")
				must(derr)
				csvMetaCase(c, dir, stream, string(m), string(t))
				os.RemoveAll(dir)
			}
			continue
		}
		unx := func(word, prefix string) (string, bool) {
			if !strings.HasPrefix(word, prefix) {
				return "", false
			}
			b, err := hex.DecodeString(word[len(prefix):])
			return string(b), err == nil
		}
		if len(w) >= 2 && w[0] == "loadtc" {
			text, ok := unx(w[1], "x")
			var ths []string
			for _, hw := range w[2:] {
				h, hok := unx(hw, "x")
				ok = ok && hok
				ths = append(ths, h)
			}
			if ok {
				csvLoadCaseTC(c, text, stream, csvLoadTextTC(ths), ths, true)
			}
			continue
		}
		if len(w) >= 3 && w[0] == "hist" {
			var steps []csvHistStep
			ok := true
			cur := []string{}
			flush := func() {
				if len(cur) < 2 {
					ok = false
					return
				}
				name, ok1 := unx(cur[0], "n")
				text, ok2 := unx(cur[1], "x")
				st := csvHistStep{name: name, text: text}
				for _, hw := range cur[2:] {
					h, hok := unx(hw, "x")
					ok1 = ok1 && hok
					st.ths = append(st.ths, h)
				}
				ok = ok && ok1 && ok2
				steps = append(steps, st)
				cur = []string{}
			}
			for _, x := range w[1:] {
				if x == "/" {
					flush()
				} else {
					cur = append(cur, x)
				}
			}
			flush()
			if ok {
				csvHistCase(c, steps, stream)
			}
			continue
		}
		if len(w) != 2 || !strings.HasPrefix(w[1], "x") {
			continue
		}
		b, err := hex.DecodeString(w[1][1:])
		if err != nil {
			continue
		}
		switch w[0] {
		case "load":
			csvLoadCase(c, string(b), stream, csvLoadText)
		case "cast":
			csvCastCase(c, string(b), stream)
		case "castgo":
			csvCastGoCase(c, string(b), stream)
		}
	}
}

func suiteCsv(c *Ctx) {
	if c.Replay != "" {
		csvReplayLines(c, readLines(c.Replay), "replay")
		return
	}
	// 0. corpus: minimised witnesses of past findings, always first
	if c.Shard == 0 {
		if vd := os.Getenv("VERIF_DIR"); vd != "" {
			files, _ := filepath.Glob(filepath.Join(vd, "corpus", "C20", "*.ops"))
			sort.Strings(files)
			for _, f := range files {
				csvReplayLines(c, readLines(f), "corpus")
			}
		}
	}
	r := c.Rng
	// 1. degenerate and hand-picked texts (first shard only: they do not depend on the seed)
	if c.Shard == 0 {
		for _, t := range csvDegenerate {
			csvLoadCase(c, t, "degenerate", csvLoadText)
		}
		for _, s := range csvSpecials {
			csvCastCase(c, s, "cast-special")
		}
		for _, s := range csvBoundaries {
			csvCastCase(c, s, "cast-boundary")
			csvCastCase(c, "-"+s, "cast-boundary")
		}
		for _, s := range csvBoolish {
			csvCastCase(c, s, "cast-boolish")
		}
	}
	// 2. CSV-shaped grammar, and mutations of its outputs
	n := c.N(25000, 200000)
	for i := 0; i < n; i++ {
		t := csvShaped(r)
		csvLoadCase(c, t, "grammar", csvLoadText)
		if r.Chance(0.5) {
			csvLoadCase(c, csvMutate(r, t), "mutated", csvLoadText)
		}
	}
	// 3. raw bytes
	n = c.N(25000, 200000)
	for i := 0; i < n; i++ {
		csvLoadCase(c, csvRaw(r), "raw", csvLoadText)
	}
	// 3a. text columns: ParseCsvTextIntoTableWithTextColumns (what the engine's POST /solutions calls with
	// "Actions"); headings that occur, that do not, the empty heading, duplicates
	if c.Shard == 0 {
		for _, t := range csvDegenerate {
			csvLoadCaseTC(c, t, "textcol-degenerate", csvLoadTextTC([]string{"a"}), []string{"a"}, true)
		}
		for _, k := range []struct {
			text string
			ths  []string
		}{
			{"Solution, Actions\nx, 1E5\n", []string{"Actions"}}, {"Solution, Actions\nx, 1E5\n", nil}, {"Solution, Actions\nx, F\n", []string{"Actions"}},
			{"A,A\n1,F\n", []string{"A", "Z"}}, {",x\ntrue,1\n", []string{""}}, {"a,b\n1,2\n", []string{"b", "b"}}, {"a,b\n1,2\n", []string{"c"}},
			{"Actions\n", []string{"Actions"}}, {"Actions\n1\n2,3\n", []string{"Actions"}}, {"\"Actions\", b\ninf,nan\n", []string{"Actions"}}, {" Actions\n0x1p-2\n", []string{"Actions"}}, {"Actions \n0x1p-2\n", []string{"Actions"}},
		} {
			csvLoadCaseTC(c, k.text, "textcol-handpicked", csvLoadTextTC(k.ths), k.ths, true)
		}
	}
	n = c.N(9000, 80000)
	for i := 0; i < n; i++ {
		var t string
		if r.Chance(0.6) {
			t = csvTCShaped(r)
		} else {
			t = csvShaped(r)
		}
		if r.Chance(0.15) {
			t = csvMutate(r, t)
		}
		ref, _ := csvRefRead(t)
		var hdr []string
		if len(ref) > 0 {
			hdr = ref[0]
		}
		ths := csvTextHeadings(r, hdr)
		csvLoadCaseTC(c, t, "textcol", csvLoadTextTC(ths), ths, true)
	}
	// 3b. several loads into one data set (sticky errors, a name used twice)
	if c.Shard == 0 {
		for _, h := range [][]csvHistStep{
			{{name: "t", text: "a\n1\n"}, {name: "t", text: "b\n2\n"}},
			{{name: "t", text: "a\n1\n"}, {name: "u", text: "b\n2\n"}, {name: "t", text: "a\n1\n"}},
			{{name: "t", text: "\""}, {name: "t", text: "b\n"}},
			{{name: "t", text: ""}, {name: "t", text: "a,b\n1\n"}, {name: "t", text: "a\n"}, {name: "t", text: "c\n"}},
			{{name: "t", text: "a\n1\n"}, {name: "t", text: "a\"b"}},
		} {
			csvHistCase(c, h, "history-handpicked")
		}
	}
	n = c.N(6000, 50000)
	for i := 0; i < n; i++ {
		csvHistCase(c, csvHistory(r), "history")
	}
	// 3c. long lines (4-16 KiB, encoding/csv's ErrBufferFull path) and big tables
	// (the Lean model appends to a field byte by byte, quadratic in the field's length: keep the count small)
	n = c.N(40, 400)
	for i := 0; i < n; i++ {
		csvLoadCase(c, csvLongLines(r), "long-line", csvLoadText)
	}
	n = c.N(120, 1200)
	for i := 0; i < n; i++ {
		csvLoadCase(c, csvBigTable(r), "big-table", csvLoadText)
	}
	// tall tables: hundreds to a few thousand rows of one to three short fields, row counts around the powers of two
	// and not multiples of 8 (every row must be cast, the last ones included)
	for _, rows := range []int{255, 511, 512, 515, 777, 1021, 1024, 1027, c.N(2050, 4099)} {
		csvLoadCase(c, csvTallTable(r, rows), "tall-table", csvLoadText)
	}
	// 4. the same loader reached through files: DataSet.Load(meta file) -> loadCsvIntoTable.
	// The model is the same `load`; degenerate meta files are judged on the Go side only.
	dir, derr := os.MkdirTemp("", "crem-verif-csv-")
	must(derr)
	defer os.RemoveAll(dir)
	fileLoader := csvFileLoader(dir)
	if c.Shard == 0 {
		csvMetaCases(c, dir)
		for _, t := range csvDegenerate {
			csvLoadCase(c, t, "file-degenerate", fileLoader)
		}
	}
	n = c.N(1500, 6000)
	for i := 0; i < n; i++ {
		t := csvShaped(r)
		if r.Chance(0.3) {
			t = csvMutate(r, t)
		}
		csvLoadCase(c, t, "file-grammar", fileLoader)
	}
	// 5. single fields through the caster
	n = c.N(80000, 600000)
	for i := 0; i < n; i++ {
		switch r.Intn(8) {
		case 0:
			csvCastCase(c, csvFieldContent(r), "cast-field")
		default:
			csvCastCase(c, csvNumberish(r), "cast-number")
		}
	}
}
