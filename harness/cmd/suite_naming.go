//go:build verif

package main

// Suite `naming` (property C12): crem's REAL naming / labelling / summary-rendering functions.
//
//   names  : a summary map built the way the Saver builds it (real id functions, real summarise,
//            real label derivation) for (family, scenario name, run r of R, set size n).  Because
//            set.Summary.Id / FileNameSafeId and the JSON set name are computed from "just some"
//            map key, each is evaluated (a) on every singleton sub-map {key} - that forces the key
//            and gives the function's IMAGE OVER KEYS, which is what is compared with the Lean
//            model - and (b) >= 64 times on the full map (Go randomises map iteration per call):
//            every observed result must lie in that image.  Direct checks: two keys with different
//            images, two equal labels, a JSON set-name panic.
//   label  : deriveSummaryIdFromSolution on arbitrary ids           (regular expression \d+/\d+)
//   key    : Id / FileNameSafeId / JSON set name on arbitrary keys  (the three other expressions)
//   csv    : the real CSV SummaryMarshaler on synthetic summaries (values, insertion orders)
//   save   : the real Saver.ObserveEvent on harness-built archives of the real catchment model,
//            both families, CSV/JSON, Summary/Detail, repeated; directory parsed back (shared with
//            the saved-runs suite, see suite_savedruns.go).
//
// Two streams: clean scenario names (the alphabet `Clean` of the older theorems) and adversarial names /
// ids (counted separately in the histogram as `clean …` / `adv …`).  Since the two round-3 repairs (labels
// and Summary.Id / FileNameSafeId are computed from the id's own ending, i.e. from its LAST " Solution (")
// the property's clauses hold for EVERY scenario name: the direct checks are reported (Ctx.Fail) in BOTH
// streams.  The audit's three witnesses (`trial (1/1)`, `As-Is baseline`, `Best Solution` with three runs)
// are fixed cases that run first in every tier.

import (
	"encoding/json"
	"fmt"
	"math"
	"os"
	"sort"
	"strconv"
	"strings"

	"github.com/LindsayBradford/crem/internal/pkg/annealing/solution"
	solutionset "github.com/LindsayBradford/crem/internal/pkg/annealing/solution/set"
	setcsv "github.com/LindsayBradford/crem/internal/pkg/annealing/solution/set/encoding/csv"
	setjson "github.com/LindsayBradford/crem/internal/pkg/annealing/solution/set/encoding/json"
	marchive "github.com/LindsayBradford/crem/internal/pkg/model/archive"
	"github.com/LindsayBradford/crem/internal/pkg/model/variable"
	"github.com/LindsayBradford/crem/internal/pkg/scenario"
	"github.com/LindsayBradford/crem/pkg/dominance"
	"github.com/LindsayBradford/crem/pkg/logging/loggers"
)

func init() { register("naming", suiteNaming) }

const (
	sigMapOrder  = "naming:file-name-depends-on-map-order"
	sigDupLabels = "naming:duplicate-labels"
	sigJsonPanic = "naming:json-set-name-panic"
	sigRunFiles  = "naming:run-files-collide"
	callsPerMap  = 64

	predOneSummaryPerRun = "C12: for every finished run the explorer writes one summary: the summary files of the runs of one scenario are pairwise different"
)

// ---------------------------------------------------------------- string transport

// pct renders a string as one protocol token: '=' followed by the UTF-8 bytes, everything outside
// [A-Za-z0-9-_.()/] percent-encoded.
func pct(s string) string {
	var sb strings.Builder
	sb.WriteByte('=')
	for i := 0; i < len(s); i++ {
		b := s[i]
		if b >= 'a' && b <= 'z' || b >= 'A' && b <= 'Z' || b >= '0' && b <= '9' || strings.IndexByte("-_.()/", b) >= 0 {
			sb.WriteByte(b)
		} else {
			fmt.Fprintf(&sb, "%%%02X", b)
		}
	}
	return sb.String()
}

func unpct(t string) (string, bool) {
	if !strings.HasPrefix(t, "=") {
		return "", false
	}
	t = t[1:]
	var out []byte
	for i := 0; i < len(t); i++ {
		if t[i] == '%' {
			if i+2 >= len(t) {
				return "", false
			}
			v, err := strconv.ParseUint(t[i+1:i+3], 16, 8)
			if err != nil {
				return "", false
			}
			out = append(out, byte(v))
			i += 2
		} else {
			out = append(out, t[i])
		}
	}
	return string(out), true
}

// ---------------------------------------------------------------- the real naming functions

type namer struct {
	saver *scenario.Saver
}

func newNamer() *namer {
	s := scenario.NewSaver().WithLogHandler(loggers.NewNullLogger())
	return &namer{saver: s}
}

func realRunId(name string, r, R int) string {
	runner := scenario.NewRunner().WithName(name).WithRunNumber(uint64(R))
	return scenario.VerifCloneId(runner, uint64(r))
}

// dummyArchive returns a real archive with id `rid` holding n mutually non-dominated dummy states.
func dummyArchive(rid string, n int) *marchive.NonDominanceModelArchive {
	a := marchive.New()
	a.SetId(rid)
	for i := 0; i < n; i++ {
		st := (&cand{vec: []float64{float64(i), float64(n - i)}, bits: intBits(i+1, 12)}).state()
		a.AttemptToArchiveState(st)
	}
	if a.Len() != n {
		panic("dummy archive has wrong size")
	}
	return a
}

func intBits(v, w int) []bool {
	out := make([]bool, w)
	for i := 0; i < w; i++ {
		out[i] = v>>uint(i)&1 == 1
	}
	return out
}

// accessorOr calls an accessor of crem's own naming functions.  When the check had to stub that accessor out (it no
// longer compiles against the tree under test: the check reports that by itself) the documented form of the id is
// used instead, so that the suites which look at CONTENT can still run.
func accessorOr(call func() string, documented string) (out string) {
	defer func() {
		if r := recover(); r != nil {
			if strings.Contains(fmt.Sprint(r), "verif accessor unavailable") {
				out = documented
				return
			}
			panic(r)
		}
	}()
	return call()
}

// realKeys returns the solution ids (= summary map keys) of one run in sort order: as-is first.
func (nm *namer) realKeys(fam, rid string, n int) []string {
	if fam == "single" {
		// encodeAndSummariseOptimisedSolution builds the id inline: optimisedModel.Id()+" Solution (1/1)"
		// (not separately callable; the `save` lines exercise the real code path end to end)
		return []string{accessorOr(func() string { return scenario.VerifAsIsOptimisedSolutionId(nm.saver, rid) }, rid+" Solution (As-Is)"), rid + " Solution (1/1)"}
	}
	a := dummyArchive(rid, n)
	out := []string{accessorOr(func() string { return scenario.VerifAsIsSolutionId(nm.saver, a) }, rid+" Solution (As-Is)")}
	for k := 1; k <= n; k++ {
		k := k
		out = append(out, accessorOr(func() string { return scenario.VerifSolutionId(nm.saver, a, k) }, fmt.Sprintf("%s Solution (%d/%d)", rid, k, n)))
	}
	return out
}

func dummySolution(id string, i int) *solution.Solution {
	s := solution.NewSolution(id)
	s.DecisionVariables = variable.EncodeableDecisionVariables{{Name: "A", Value: float64(i)}, {Name: "B", Value: 1.5}}
	s.EncodedActions = strconv.FormatInt(int64(i), 16)
	return s
}

// realSummary builds the summary map through the Saver's own summarise().
func (nm *namer) realSummary(keys []string) solutionset.Summary {
	sum := make(solutionset.Summary, 0)
	for i, k := range keys {
		scenario.VerifSummarise(nm.saver, &sum, dummySolution(k, i), "note", uint64(i))
	}
	return sum
}

// jsonSetName marshals the summary with the real JSON marshaler and reads the set name back.
func jsonSetName(sum solutionset.Summary) string {
	var name string
	p := protect(func() {
		b, err := new(setjson.Marshaler).Marshal(&sum)
		if err != nil {
			panic("marshal error: " + err.Error())
		}
		var parsed struct{ SolutionSet string }
		if e := json.Unmarshal(b, &parsed); e != nil {
			panic("unmarshal error: " + e.Error())
		}
		name = parsed.SolutionSet
	})
	if p != "" {
		// no set name can be derived from this id: the pinned code runs off the end of a slice there, an implementation that
		// returns an error instead says the same thing more politely; both read `panic` (the model's word for it)
		if strings.Contains(p, "index out of range") || strings.HasPrefix(p, "marshal error: ") {
			return "panic"
		}
		return "panic:" + pct(clip(p, 60))
	}
	return pct(name)
}

type keyImage struct{ id, safe, js string }

func (k keyImage) String() string { return pct(k.id) + " " + pct(k.safe) + " " + k.js }

func imageOfKey(sum solutionset.Summary, key string) keyImage {
	one := solutionset.Summary{key: sum[key]}
	return keyImage{id: one.Id(), safe: one.FileNameSafeId(), js: jsonSetName(one)}
}

func solutionsetSummaryOf(key string) solutionset.Summary {
	return solutionset.Summary{key: solution.Summary{Id: "x"}}
}

// runFileIds: every FileNameSafeId the summary of run r of R of scenario `name` can get (its image over the map's keys).
func (nm *namer) runFileIds(fam, name string, r, R, n int) map[string]bool {
	keys := nm.realKeys(fam, realRunId(name, r, R), n)
	sum := nm.realSummary(keys)
	out := map[string]bool{}
	for _, k := range keys {
		out[solutionset.Summary{k: sum[k]}.FileNameSafeId()] = true
	}
	return out
}

// ---------------------------------------------------------------- names

// opNames executes one `names` line; adv marks the adversarial stream.
func opNames(c *Ctx, nm *namer, fam, name string, r, R, n int, adv bool) {
	op := fmt.Sprintf("names %s %s %d %d %d", fam, pct(name), r, R, n)
	rid := realRunId(name, r, R)
	keys := nm.realKeys(fam, rid, n)
	sum := nm.realSummary(keys)
	stream := "clean"
	if adv {
		stream = "adv"
	}
	if len(sum) != len(keys) {
		// two solutions share an id: one overwrote the other in the map
		c.Fail("C12: one summary row per solution (as-is + each member)", "naming:solution-ids-collide",
			fmt.Sprintf("%d solutions but %d map entries for %q", len(keys), len(sum), rid), []string{op})
		c.Stat(stream + " names: colliding solution ids")
	}
	var sb strings.Builder
	fmt.Fprintf(&sb, "%d", len(keys))
	images := make([]keyImage, len(keys))
	labels := make([]string, len(keys))
	for i, k := range keys {
		images[i] = imageOfKey(sum, k)
		labels[i] = scenario.VerifSummaryLabel(&solution.Solution{Id: k})
		if got := sum[k].Id; got != labels[i] && len(sum) == len(keys) {
			panic("summarise stored a different label than deriveSummaryIdFromSolution returns")
		}
		fmt.Fprintf(&sb, " | %s %s %s", pct(k), pct(labels[i]), images[i])
	}
	c.Op(op, sb.String())
	c.Stat(fmt.Sprintf("%s names family=%s runs=%s setsize=%s", stream, fam, nbucket(R), nbucket(n)))

	// (b) the full map, many calls: every result must be some key's image
	inImage := func(f func(keyImage) string, v string) bool {
		for _, im := range images {
			if f(im) == v {
				return true
			}
		}
		return false
	}
	seenSafe, seenId, seenJs := map[string]bool{}, map[string]bool{}, map[string]bool{}
	for call := 0; call < callsPerMap; call++ {
		id, safe := sum.Id(), sum.FileNameSafeId()
		js := jsonSetName(sum)
		seenId[id], seenSafe[safe], seenJs[js] = true, true, true
		if !inImage(func(k keyImage) string { return k.id }, id) || !inImage(func(k keyImage) string { return k.safe }, safe) ||
			!inImage(func(k keyImage) string { return k.js }, js) {
			c.Fail("C12: every name derived from the full summary map is the image of one of its keys", "naming:result-outside-key-image",
				fmt.Sprintf("Id=%q FileNameSafeId=%q json=%s", id, safe, js), []string{op})
		}
	}
	c.Stat(fmt.Sprintf("%s names: distinct file names seen in %d calls on one map = %d", stream, callsPerMap, len(seenSafe)))

	// direct evaluation of the property's clauses on the implementation
	distinct := func(f func(keyImage) string) []string {
		m := map[string]bool{}
		for _, im := range images {
			m[f(im)] = true
		}
		var out []string
		for k := range m {
			out = append(out, k)
		}
		sort.Strings(out)
		return out
	}
	files, ids, jss := distinct(func(k keyImage) string { return k.safe }), distinct(func(k keyImage) string { return k.id }), distinct(func(k keyImage) string { return k.js })
	dupLabel := ""
	seenL := map[string]int{}
	for i, l := range labels {
		if j, ok := seenL[l]; ok && dupLabel == "" {
			dupLabel = fmt.Sprintf("rows %d and %d of %q are both labelled %q (ids %q, %q)", j, i, rid, l, keys[j], keys[i])
		}
		seenL[l] = i
	}
	hasPanic, allPanic := false, true
	for _, im := range images {
		if strings.HasPrefix(im.js, "panic") {
			hasPanic = true
		} else {
			allPanic = false
		}
	}
	nontrivial := false
	if len(files) > 1 || len(ids) > 1 || len(jss) > 1 {
		nontrivial = true
		c.Stat(stream + " names: file/set name depends on the key yielded")
		c.Fail("C12: file name and set name are a deterministic function of scenario name, run number and output type", sigMapOrder,
			fmt.Sprintf("summary of run %q (%s, %d members): FileNameSafeId over the keys = %q, Id over the keys = %q, JSON set name over the keys = %q; seen in %d calls on the one map: files %v",
				rid, fam, n, files, ids, jss, callsPerMap, sortedKeys(seenSafe)), []string{op})
	}
	if dupLabel != "" {
		nontrivial = true
		c.Stat(stream + " names: duplicate labels")
		c.Fail("C12: row labels are unique within a summary", sigDupLabels, dupLabel, []string{op})
	}
	if hasPanic {
		nontrivial = true
		c.Stat(stream + " names: JSON set name panics for some key")
		c.Fail("C12: writing never fails for some executions and succeeds for others of the same run", sigJsonPanic,
			fmt.Sprintf("summary of run %q (%s, %d members): deriveSetNameFor panics (index out of range on a nil regexp match) when the map yields key %q first; results over the keys: %q; panics for every key (JSON saving of this run always fails): %v",
				rid, fam, n, keys[0], jss, allPanic), []string{op})
	}
	// one summary per run: whichever key each map yields, the summary file of this run is not the summary file of
	// another run of the same scenario (the later save would overwrite the earlier one).  Compared with every other
	// run for R <= 12, else with runs 1 and R.
	others := []int{1, R}
	if R <= 12 {
		others = others[:0]
		for o := 1; o <= R; o++ {
			others = append(others, o)
		}
	}
	compared := 0
	for _, o := range others {
		if o == r || o < 1 || o > R {
			continue
		}
		compared++
		otherFiles := nm.runFileIds(fam, name, o, R, n)
		for _, f := range files {
			if otherFiles[f] {
				nontrivial = true
				c.Stat(stream + " names: two runs of one scenario share a summary file")
				c.Fail(predOneSummaryPerRun, sigRunFiles,
					fmt.Sprintf("scenario %q (%s, %d runs): run %d (id %q) and run %d (id %q) both write their summary to %q (FileNameSafeId + \"-Summary.<type>\"): the later one overwrites the earlier one",
						name, fam, R, r, rid, o, realRunId(name, o, R), f+"-Summary.<type>"),
					[]string{op, fmt.Sprintf("names %s %s %d %d %d", fam, pct(name), o, R, n)})
				break
			}
		}
	}
	if compared > 0 {
		c.Stat(fmt.Sprintf("%s names: summary file compared with that of %s other runs", stream, nbucket(compared)))
	}
	if R > 1 || n > 1 || nontrivial {
		c.Nontrivial(op)
	}
}

func sortedKeys(m map[string]bool) []string {
	var out []string
	for k := range m {
		out = append(out, k)
	}
	sort.Strings(out)
	return out
}

func nbucket(n int) string {
	switch {
	case n <= 2:
		return strconv.Itoa(n)
	case n <= 4:
		return "3-4"
	case n <= 9:
		return "5-9"
	case n <= 20:
		return "10-20"
	}
	return ">20"
}

// ---------------------------------------------------------------- label / key on raw strings

func opLabel(c *Ctx, id string, adv bool) {
	res := ""
	p := protect(func() { res = scenario.VerifSummaryLabel(&solution.Solution{Id: id}) })
	out := pct(res)
	if p != "" {
		out = "panic"
	}
	c.Op("label "+pct(id), out)
	c.Stat("label: result " + labelClass(res))
	c.Nontrivial("label " + id)
}

func labelClass(l string) string {
	switch {
	case l == "":
		return "empty"
	case l == "Optimised" || l == "As-Is":
		return l
	}
	return "k-of-n"
}

func opKey(c *Ctx, key string) {
	sum := solutionset.Summary{key: solution.Summary{Id: "x"}}
	var im keyImage
	p := protect(func() { im = imageOfKey(sum, key) })
	out := im.String()
	if p != "" {
		out = "panic"
	}
	c.Op("key "+pct(key), out)
	cls := "json ok"
	if strings.HasPrefix(im.js, "panic") {
		cls = "json panic"
	}
	c.Stat("key: " + cls + fmt.Sprintf(", lines=%s", nbucket(1+strings.Count(key, "\n"))))
	c.Nontrivial("key " + key)
}

// ---------------------------------------------------------------- csv marshaler on synthetic summaries

type synthEntry struct {
	key, label, actions, note string
	sortIndex                 int
	vals                      []float64
}

func opCsv(c *Ctx, vars []string, entries []synthEntry) {
	var sb strings.Builder
	fmt.Fprintf(&sb, "csv %d", len(vars))
	for _, v := range vars {
		sb.WriteString(" " + pct(v))
	}
	fmt.Fprintf(&sb, " %d", len(entries))
	sum := make(solutionset.Summary, 0)
	for _, e := range entries {
		fmt.Fprintf(&sb, " %s %d %s %s %s", pct(e.key), e.sortIndex, pct(e.label), pct(e.actions), pct(e.note))
		vs := make(solution.VariableSetSummary, len(vars))
		for i := range vars {
			vs[i] = solution.VariableSummary{Name: vars[i], Value: e.vals[i]}
			sb.WriteString(" " + floatBits(e.vals[i]))
		}
		sum[e.key] = solution.Summary{SortIndex: uint64(e.sortIndex), Id: e.label, Variables: vs, Actions: solution.ActionSummary(e.actions), Note: e.note}
	}
	op := sb.String()
	texts := map[string]bool{}
	var text string
	for call := 0; call < 16; call++ {
		p := protect(func() {
			b, _ := new(setcsv.SummaryMarshaler).Marshal(&sum)
			text = string(b)
		})
		if p != "" {
			text = "<panic>"
		}
		texts[text] = true
	}
	res := pct(text)
	if text == "<panic>" {
		res = "panic"
	}
	c.Op(op, res)
	if len(texts) > 1 {
		c.Fail("C12: the written summary is a deterministic function of the run", "naming:csv-depends-on-map-order",
			fmt.Sprintf("%d different CSV texts for one summary map", len(texts)), []string{op})
	}
	c.Stat(fmt.Sprintf("csv: entries=%s vars=%d", nbucket(len(entries)), len(vars)))
	c.Nontrivial(op)
}

// ---------------------------------------------------------------- generators

var cleanWords = []string{"Kirkpatrick", "Black", "Box", "Suppapitnarm", "run", "Test", "catchment", "2024", "7", "v2", "A", "x",
	"As-I", "s-Is", "as-is", "AsIs", "Solutio", "olution", "solution", "Solu", "tion", "Sol", "ution", "SOLUTION", "Summary", "1-1", "1_of_1", "3-of-4", "of", "é", "日本", "Ω", "-", "_", ".", "..", "#", "%", "=", ",", "|", ":", "\"", "'", "\\", "[", "]", "{", "}", "+", "&", "\t"}

func cleanName(r *Rng) string {
	for {
		n := 1 + r.Intn(4)
		var parts []string
		for i := 0; i < n; i++ {
			parts = append(parts, cleanWords[r.Intn(len(cleanWords))])
		}
		sep := []string{" ", " ", " ", "", "  ", " - ", "_"}[r.Intn(7)]
		s := strings.Join(parts, sep)
		if r.Chance(0.05) {
			s = " " + s
		}
		if r.Chance(0.05) {
			s = s + " "
		}
		if isCleanName(s) {
			return s
		}
	}
}

// isCleanName is the alphabet of the theorems (Crem.Naming.Clean)
func isCleanName(s string) bool {
	return s != "" && !strings.ContainsAny(s, "/()\n") && !strings.Contains(s, "As-Is") &&
		!strings.Contains(strings.ReplaceAll(s, " ", ""), "Solution")
}

var advWords = []string{"As-Is", "Solution", "Sol ution", "S olution", " Solution (", "Solution(", "(1/1)", "1/1", "(", ")", "/", "3/4", "12/345", "(2/3)", " Solution (As-Is)", " As-Is",
	" Solution (1/1)", "\n", "\r", "\r\n", " ", "x", "Summary", "Solution ()", "Solution (x)", "Solution (", ") ", "()", "/7", "7/", "//", "1/2/3", "٣/٤", "１/２", "é", "a b", " ", "\x00", "\x7f"}

func advString(r *Rng) string {
	n := 1 + r.Intn(6)
	var sb strings.Builder
	for i := 0; i < n; i++ {
		if r.Chance(0.7) {
			sb.WriteString(advWords[r.Intn(len(advWords))])
		} else {
			sb.WriteString(cleanWords[r.Intn(len(cleanWords))])
		}
		if r.Chance(0.3) {
			sb.WriteByte(' ')
		}
	}
	return sb.String()
}

// witnessNames: scenario names that collide with the texts the naming functions look for
var witnessNames = []string{"trial (1/1)", "As-Is baseline", "Best Solution", "Run 3/4 test", "A Solution (As-Is)", "B Solution (1/1) x",
	"Solution (", "x Solution (2/3) Solution (", "a/b (2/3)", "up/../and/..", "two\nlines Solution (x)\nmore", "tab\tname (1/1) As-Is 7/8"}

func uniqInts(xs ...int) []int {
	seen := map[int]bool{}
	var out []int
	for _, x := range xs {
		if !seen[x] {
			seen[x] = true
			out = append(out, x)
		}
	}
	return out
}

func pickRuns(r *Rng) (int, int) {
	R := 1
	switch r.Intn(6) {
	case 0, 1:
		R = 1
	case 2:
		R = 2
	case 3:
		R = 2 + r.Intn(3)
	case 4:
		R = 9 + r.Intn(4)
	case 5:
		R = 1 + r.Intn(120)
	}
	return 1 + r.Intn(R), R
}

func pickSetSize(r *Rng) int {
	switch r.Intn(6) {
	case 0:
		return 1
	case 1:
		return 2
	case 2:
		return r.Intn(4)
	case 3:
		return 9 + r.Intn(4)
	case 4:
		return r.Intn(30)
	}
	return r.Intn(130)
}

func genValue(r *Rng) float64 {
	// a value on (or within 0.0004 of) the 10^-3 grid, so that no rounding boundary is near
	k := float64(r.Intn(2000000)) - 500000
	switch r.Intn(6) {
	case 0:
		k = float64(r.Intn(3)) - 1
	case 1:
		k = float64(int64(r.U64()%2e13)) - 1e13
	case 2:
		k = float64(r.Intn(1000))
	}
	v := k / 1000
	switch r.Intn(4) {
	case 0:
		v += (r.Float() - 0.5) * 0.0008
	case 1:
		v = math.Round(v*100) / 100
	}
	if v == 0 && math.Signbit(v) {
		v = 0
	}
	return v
}

func suiteNaming(c *Ctx) {
	nm := newNamer()
	if c.Replay != "" {
		replayNaming(c, nm)
		return
	}
	// Fork(): util.go's NewRng(seed) streams of consecutive seeds are the same splitmix sequence shifted by a
	// draw or two; forking through one mixed output decorrelates the seeds
	r := c.Rng.Fork().Fork()
	// ---- stream 0: the audit's witnesses against the code before the round-3 repairs (fixed; every tier):
	//   `trial (1/1)`    single family: both rows were labelled Optimised
	//   `As-Is baseline` multi family, set size 3: all four rows were labelled As-Is
	//   `Best Solution`  three runs: every run's summary was `Best-Summary.<type>` (all three runs are compared in
	//                    each of the three `names` evaluations)
	opNames(c, nm, "single", "trial (1/1)", 1, 1, 1, true)
	opNames(c, nm, "multi", "As-Is baseline", 1, 1, 3, true)
	for rr := 1; rr <= 3; rr++ {
		opNames(c, nm, "multi", "Best Solution", rr, 3, 2, true)
		opNames(c, nm, "single", "Best Solution", rr, 3, 1, true)
	}
	for _, name := range witnessNames {
		for _, R := range []int{1, 3, 11} {
			for _, rr := range uniqInts(1, R/2+1, R) {
				opNames(c, nm, "single", name, rr, R, 1, true)
				for _, n := range []int{0, 1, 3} {
					opNames(c, nm, "multi", name, rr, R, n, true)
				}
			}
		}
	}
	// ---- stream 1: clean names
	// systematic core: the paper's situations, every small (R, n)
	for _, name := range []string{"X", "Kirkpatrick - Black Box", "Test 7", "é 日本"} {
		for R := 1; R <= 3; R++ {
			for rr := 1; rr <= R; rr++ {
				opNames(c, nm, "single", name, rr, R, 1, false)
				for _, n := range []int{1, 2, 3, 0} {
					opNames(c, nm, "multi", name, rr, R, n, false)
				}
			}
		}
		opNames(c, nm, "multi", name, 11, 11, 11, false)
		opNames(c, nm, "multi", name, 1, 11, 111, false)
	}
	for i := 0; i < c.N(400, 6000); i++ {
		name := cleanName(r)
		rr, R := pickRuns(r)
		if r.Chance(0.25) {
			opNames(c, nm, "single", name, rr, R, 1, false)
		} else {
			opNames(c, nm, "multi", name, rr, R, pickSetSize(r), false)
		}
	}
	// ---- stream 2: adversarial names and raw ids / keys
	for i := 0; i < c.N(300, 5000); i++ {
		name := advString(r)
		if strings.TrimSpace(name) == "" || isCleanName(name) {
			continue
		}
		rr, R := pickRuns(r)
		n := pickSetSize(r) % 12
		if r.Chance(0.25) {
			opNames(c, nm, "single", name, rr, R, 1, true)
		} else {
			opNames(c, nm, "multi", name, rr, R, n, true)
		}
	}
	for i := 0; i < c.N(600, 12000); i++ {
		s := advString(r)
		if r.Chance(0.3) {
			// ids of the real shape around an adversarial core
			rr, R := pickRuns(r)
			ks := nm.realKeys("multi", realRunId(s, rr, R), 1+r.Intn(12))
			s = ks[r.Intn(len(ks))]
		}
		opLabel(c, s, true)
		opKey(c, s)
	}
	for _, s := range []string{"", "1/2", "a1/2b", "12/", "/12", "1//2", "1/2/3/4", "x 10/20 y 3/4", "(1/1)", "(1/11)", "(11/1)", "As-Is", "As-is", "X Solution (1/1)",
		"X (1/2) Solution (2/2)", "X (2/2) Solution (1/2)", "X (2/12) Solution (10/12)", "X Solution (As-Is)", "X As-Is", "Solution (", "Solution ()", "Solution (a)", "Solution (a)b)c",
		"Solution (\n)", "A Solution (x\nB Solution (y) z) w Solution (q)", "a Solution b Solution c", " Solution", "Solution", "A\nB Solution (1/2)", "A Solution\nB Solution (1/2)"} {
		opLabel(c, s, true)
		opKey(c, s)
	}
	// ---- synthetic summaries through the real CSV marshaler
	for i := 0; i < c.N(150, 2500); i++ {
		nv := []int{6, 6, 6, 1, 2, 0, 3}[r.Intn(7)]
		vars := make([]string, nv)
		for j := range vars {
			vars[j] = []string{"SedimentProduction", "ImplementationCost", "A", "B b", "TotalNitrogen", "x,y", "é"}[r.Intn(7)] + strconv.Itoa(j)
		}
		ne := []int{0, 1, 2, 2, 3, 5, 12, 40}[r.Intn(8)]
		perm := r.perm(ne)
		entries := make([]synthEntry, ne)
		for j := range entries {
			e := synthEntry{key: "k" + strconv.Itoa(j), sortIndex: perm[j] * (1 + r.Intn(3)), label: []string{"As-Is", "Optimised", "1-of-3", "", "x y"}[r.Intn(5)],
				actions: strconv.FormatUint(r.U64()>>uint(r.Intn(64)), 16), note: []string{"As-is state; zero active management actions", "Pareto front member 1 of 3", "", "n, m"}[r.Intn(4)]}
			if r.Chance(0.1) && j > 0 {
				e.key = entries[j-1].key // overwrite an earlier entry, as a Go map does
			}
			for k := 0; k < nv; k++ {
				e.vals = append(e.vals, genValue(r))
			}
			entries[j] = e
		}
		// sort indexes must be pairwise distinct among the surviving entries (sort.Sort is not stable)
		used := map[int]bool{}
		for j := range entries {
			for used[entries[j].sortIndex] {
				entries[j].sortIndex += 1000
			}
			used[entries[j].sortIndex] = true
		}
		opCsv(c, vars, entries)
	}
	// ---- the real Saver on harness-built archives of the real catchment model
	saveCases(c, nm, r)
}

func (r *Rng) perm(n int) []int {
	p := make([]int, n)
	for i := range p {
		p[i] = i
	}
	for i := n - 1; i > 0; i-- {
		j := r.Intn(i + 1)
		p[i], p[j] = p[j], p[i]
	}
	return p
}

// ---------------------------------------------------------------- replay

func replayNaming(c *Ctx, nm *namer) {
	for _, l := range readLines(c.Replay) {
		f := strings.Fields(l)
		bad := func() { c.Op(l, "bad-op") }
		if len(f) == 0 {
			continue
		}
		switch f[0] {
		case "names":
			if len(f) != 6 {
				bad()
				continue
			}
			name, ok := unpct(f[2])
			rr, e1 := strconv.Atoi(f[3])
			R, e2 := strconv.Atoi(f[4])
			n, e3 := strconv.Atoi(f[5])
			if !ok || e1 != nil || e2 != nil || e3 != nil || (f[1] != "single" && f[1] != "multi") {
				bad()
				continue
			}
			opNames(c, nm, f[1], name, rr, R, n, !isCleanName(name))
		case "label":
			if s, ok := unpct(f[1]); ok && len(f) == 2 {
				opLabel(c, s, true)
			} else {
				bad()
			}
		case "key":
			if s, ok := unpct(f[1]); ok && len(f) == 2 {
				opKey(c, s)
			} else {
				bad()
			}
		case "csv":
			if !replayCsv(c, f) {
				bad()
			}
		case "save":
			if !replaySave(c, nm, f) {
				bad()
			}
		default:
			bad()
		}
	}
}

func replayCsv(c *Ctx, f []string) bool {
	pos := 1
	next := func() (string, bool) {
		if pos >= len(f) {
			return "", false
		}
		pos++
		return f[pos-1], true
	}
	nvS, ok := next()
	nv, err := strconv.Atoi(nvS)
	if !ok || err != nil {
		return false
	}
	vars := make([]string, nv)
	for i := range vars {
		t, ok := next()
		s, ok2 := unpct(t)
		if !ok || !ok2 {
			return false
		}
		vars[i] = s
	}
	neS, ok := next()
	ne, err := strconv.Atoi(neS)
	if !ok || err != nil {
		return false
	}
	entries := make([]synthEntry, ne)
	for i := range entries {
		var e synthEntry
		var oks [5]bool
		var t string
		t, _ = next()
		e.key, oks[0] = unpct(t)
		t, _ = next()
		si, err := strconv.Atoi(t)
		oks[1] = err == nil
		e.sortIndex = si
		t, _ = next()
		e.label, oks[2] = unpct(t)
		t, _ = next()
		e.actions, oks[3] = unpct(t)
		t, _ = next()
		e.note, oks[4] = unpct(t)
		for _, o := range oks {
			if !o {
				return false
			}
		}
		for k := 0; k < nv; k++ {
			t, ok := next()
			b, err := strconv.ParseUint(t, 16, 64)
			if !ok || err != nil {
				return false
			}
			e.vals = append(e.vals, math.Float64frombits(b))
		}
		entries[i] = e
	}
	if pos != len(f) {
		return false
	}
	opCsv(c, vars, entries)
	return true
}

var _ = dominance.Float64Vector{}
var _ = os.Getenv
